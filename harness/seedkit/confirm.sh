#!/bin/sh
# usage: confirm.sh <P>
P=$1; cd /tmp/seedNN/$P || exit 1
export CARGO_NET_OFFLINE=true
git checkout -- . ; rm -f crates/lexgen/tests/seed_demo.rs
cp /tmp/seedNN/${P}_demo.rs crates/lexgen/tests/seed_demo.rs
echo "--- $P demo on original:"; cargo test -p lexgen --test seed_demo --offline 2>&1 | grep -E "^test result" | head -3
git apply /tmp/seedNN/$P.patch || echo PATCH-FAILS
echo "--- $P demo with change:"; cargo test -p lexgen --test seed_demo --offline 2>&1 | grep -E "^test result|FAILED" | head -4
rm crates/lexgen/tests/seed_demo.rs
echo "--- $P suite with change:"; cargo test --workspace --no-fail-fast --offline 2>&1 | grep -E "^test result" | awk '{p+=$4; f+=$6} END {print "passed",p,"failed",f}'
rm -rf target
