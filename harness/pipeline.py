"""Shared corpus run: build the corpus with the real macro (dump hooks on), stage-compare every
program with the Lean model, run the compiled lexers, the model interpreter and the reference lexer
on the same cases, and record, per property, where they differ. Results are cached per state of
/repo's working tree, tier and seed (so the 18 checks share one corpus build and still rebuild
whenever /repo changes)."""
import re, os, sys, json, random, shutil, time, hashlib, atexit, tempfile

HERE = os.path.dirname(os.path.abspath(__file__))
sys.path.insert(0, HERE)
import extract_tables, gen_defs, corpus, reflex
from lexast import def_lines, ruleset_names, rules_in_order, base_kinds

VERIF = os.path.dirname(HERE)
CACHE = os.path.join(VERIF, '.cache')
SCRATCH_ROOT = os.environ.get('VERIF_SCRATCH', '/var/tmp')
TRACE_PROPS = ['C01', 'C03', 'C04', 'C05', 'C06', 'C07', 'C08', 'C09', 'C10']


def load_builtins():
    t = extract_tables.parse_tables(open(corpus.REPO + '/crates/lexgen/src/char_ranges.rs').read())
    names, vt = extract_tables.parse_builtin(open(corpus.REPO + '/crates/lexgen/src/builtin.rs').read())
    return {n: t[vt[v]] for n, v in names if v in vt and vt[v] in t}


def harness_hash():
    h = hashlib.sha256()
    for fn in sorted(os.listdir(HERE)):
        if fn.endswith('.py') and fn not in ('check.py',):
            h.update(open(os.path.join(HERE, fn), 'rb').read())
    for dp, dn, fns in os.walk(os.path.join(HERE, 'lv_support')):
        for fn in sorted(fns):
            h.update(open(os.path.join(dp, fn), 'rb').read())
    lm = corpus.LEXMODEL
    if os.path.exists(lm):
        h.update(open(lm, 'rb').read())
    return h.hexdigest()[:12]


_scratch = None


def scratch_dir():
    global _scratch
    if _scratch is None:
        _scratch = tempfile.mkdtemp(prefix='lexgen-verif-', dir=SCRATCH_ROOT)
        atexit.register(lambda: shutil.rmtree(_scratch, ignore_errors=True))
    return _scratch


def shared_target():
    """cargo target dir shared between runs (dependencies are rebuilt by cargo whenever /repo changes)"""
    d = os.path.join(SCRATCH_ROOT, 'lexgen-verif-target')
    os.makedirs(d, exist_ok=True)
    return d


# ---------------------------------------------------------------------------------------------
# trace lines


def parse_line(line):
    """'N item | S a b d | U n | logs' -> dict"""
    parts = line.split(' | ')
    if len(parts) < 4:
        return {'item': line[2:].split(), 'S': None, 'U': None, 'logs': [], 'raw': line}
    item = parts[0][2:].split()
    s = parts[1].split()[1:]
    u = parts[2].split()[1:]
    logs = [l.split() for l in ' | '.join(parts[3:]).split(' ; ') if l.strip()]
    return {'item': item, 'S': s, 'U': u, 'logs': logs, 'raw': line}


def byte_of(loc):
    return int(loc.split(':')[2])


def proj(prop, lines):
    """projection of a trace (list of parsed lines, S mapped to names) on what a property observes"""
    out = []
    if prop in ('C01', 'C04'):
        for l in lines:
            for a in l['logs']:
                out.append(('A', a[1], byte_of(a[2]), byte_of(a[3])))
            if l['item'][0] == 'ok':
                out.append(('T', l['item'][2], byte_of(l['item'][1]), byte_of(l['item'][3])))
            elif l['item'][0] in ('HANG', 'PANIC', 'ABORT'):
                out.append(tuple(l['item']))
    elif prop == 'C03':
        for l in lines:
            # active rule set, which rules' actions ran, which rule produced the token (only rules of the
            # active rule set may match)
            out.append((tuple(l['S'][:2]) if l['S'] else None, tuple(a[1] for a in l['logs']), l['item'][0],
                        l['item'][2] if l['item'][0] == 'ok' else None))
    elif prop == 'C05':
        for l in lines:
            out.append((l['item'][0], l['S'][2] if l['S'] else None, l['item'][1] if len(l['item']) > 1 else None,
                        l['item'][3] if l['item'][0] == 'ok' else None))
    elif prop == 'C06':
        for l in lines:
            it = l['item']
            if it[0] == 'ok':
                out.append((it[1], it[3]))
            elif it[0] == 'err':
                out.append((it[1],))
            else:
                out.append((it[0],))
            for a in l['logs']:
                out.append((a[2], a[3], a[5]))
    elif prop == 'C07':
        for l in lines:
            it = l['item']
            out.append(tuple(it) if it[0] == 'err' else (it[0],))
    elif prop == 'C08':
        seen = False
        for l in lines:
            if seen:
                out.append((tuple(l['item']), tuple(l['S'][:2]) if l['S'] else None, tuple(l['U'] or []), tuple(tuple(a) for a in l['logs'])))
            if l['item'][:1] == ['err'] and l['item'][-1] == 'invalid':
                if not seen:
                    out.append((tuple(l['item']), tuple(l['S'][:2]) if l['S'] else None, tuple(l['U'] or [])))
                seen = True
    elif prop == 'C09':
        out.append(tuple(l['S'][3] for l in lines if l['S'] and len(l['S']) > 3))
        n_items = 0
        n_actions = 0
        for l in lines:
            if l['item'][0] in ('HANG', 'PANIC', 'ABORT'):
                out.append(l['item'][0])
            if l['item'][0] != 'none':
                n_items += 1
            n_actions += len(l['logs'])
        out.append((n_items, n_actions))
    elif prop == 'C10':
        for l in lines:
            out.append((tuple(tuple(a) for a in l['logs']), tuple(l['U'] or []), l['item'][0],
                        (l['item'][1], l['item'][3]) if l['item'][0] == 'ok' else None, l['S'][3] if l['S'] and len(l['S']) > 3 else None))
    return out


def map_states(lines, num2name):
    out = []
    for l in lines:
        p = parse_line(l)
        if p['S']:
            p['S'] = [num2name.get(int(p['S'][0]), '#' + p['S'][0]), num2name.get(int(p['S'][1]), '#' + p['S'][1])] + p['S'][2:]
        out.append(p)
    return out


def strip_text(lines):
    """replace the match_() text of action log entries by '!' (iterator input has none)"""
    out = []
    for l in lines:
        parts = l.split(' | ')
        if len(parts) >= 4:
            logs = ' | '.join(parts[3:]).split(' ; ')
            nl = []
            for e in logs:
                w = e.split()
                if len(w) >= 7:
                    w[5] = '!'
                nl.append(' '.join(w))
            parts = parts[:3] + [' ; '.join(nl)]
        out.append(' | '.join(parts))
    return out


# ---------------------------------------------------------------------------------------------
# direct oracles on implementation traces (no model, no reference lexer)


def direct_oracles(case, plines, widths):
    """returns {prop: message} for violated direct checks"""
    bad = {}
    inp = case['input']
    n = len(inp)
    # locations by an independent scan
    locs = [(0, 0, 0)]
    for c in inp:
        locs.append(reflex.advance(locs[-1], c, widths))
    by_byte = {l[2]: l for l in locs}
    total_bytes = locs[-1][2]

    def loc_ok(s):
        l = tuple(int(x) for x in s.split(':'))
        return by_byte.get(l[2]) == l

    prev_end = 0
    seen_none = False
    n_items = 0
    n_actions = 0
    for l in plines:
        it = l['item']
        if it[0] in ('HANG', 'PANIC', 'ABORT'):
            bad['C09'] = 'generated code or runtime: ' + it[0]
            break
        n_actions += len(l['logs'])
        for a in l['logs']:
            if len(a) > 7 and a[7] == 'STALE':
                # `reset_accepting_state()` precedes every action call and `backtrack()` takes the saved match:
                # an action that runs while a match is still saved means an abandoned candidate can resurface later
                for pr in ('C01', 'C03', 'C07', 'C08', 'C09', 'C10'):
                    bad.setdefault(pr, 'a semantic action (rule %s) ran while an earlier candidate match was still saved' % a[1])
            if not (loc_ok(a[2]) and loc_ok(a[3])) or byte_of(a[2]) > byte_of(a[3]):
                bad['C06'] = 'action view location %s..%s is not the scan location of that byte' % (a[2], a[3])
            if a[5] not in ('!',):
                # match_() text equals the input slice
                sb, eb = byte_of(a[2]), byte_of(a[3])
                cs = [c for c, lo in zip(inp, locs) if sb <= lo[2] < eb]
                exp = ','.join(map(str, cs)) or 'e'
                if a[5] != exp:
                    bad['C06'] = 'match_() is %s, input slice is %s' % (a[5], exp)
            pk = a[4]
            eb = byte_of(a[3])
            exp_pk = '-'
            for c, lo in zip(inp, locs):
                if lo[2] == eb:
                    exp_pk = str(c)
            if pk != exp_pk:
                bad['C10'] = 'peek() is %s, first unconsumed character is %s' % (pk, exp_pk)
        if it[0] == 'none':
            seen_none = True
            continue
        if seen_none:
            bad['C05'] = 'item after None: ' + ' '.join(it)
        n_items += 1
        if it[0] == 'ok':
            if not (loc_ok(it[1]) and loc_ok(it[3])):
                bad['C06'] = 'token span %s..%s is not the scan location of its byte indices' % (it[1], it[3])
            sb, eb = byte_of(it[1]), byte_of(it[3])
            if sb > eb or sb < prev_end:
                bad['C06'] = 'token span %d..%d overlaps or precedes the previous one (%d)' % (sb, eb, prev_end)
            prev_end = eb
        elif it[0] == 'err':
            if not loc_ok(it[1]):
                bad['C06'] = 'error location %s is not the scan location of its byte index' % it[1]
    if n_items > n + 1 or n_actions > n + 1:
        bad['C09'] = '%d items and %d actions for %d characters' % (n_items, n_actions, n)
    return bad


# ---------------------------------------------------------------------------------------------
# corpus


def tier_params(tier):
    if tier == 'thorough':
        return dict(n_random=900, n_exh=3, n_rand_inputs=30, edge_inputs=80, max_alpha=4, per_crate=16, ctor_inputs=12, clone_inputs=8, spec_cases=200,
                    double_expand=10 ** 6, long_input=20000)
    return dict(n_random=140, n_exh=2, n_rand_inputs=10, edge_inputs=30, max_alpha=4, per_crate=10, ctor_inputs=5, clone_inputs=3, spec_cases=40,
                double_expand=24, long_input=3000)


def build_corpus(tier, seed, builtins):
    rng = random.Random(seed * 7919 + (1 if tier == 'thorough' else 0))
    progs, fixed_inputs, fixed_scripts, stream = [], {}, {}, {}
    for d, inputs, scripts in gen_defs.regression_defs():
        progs.append(d)
        fixed_inputs[d['name']] = inputs
        fixed_scripts[d['name']] = scripts
        stream[d['name']] = 'regression'
    # minimised past failures kept in /verif/corpus
    cdir = os.path.join(VERIF, 'corpus')
    if os.path.isdir(cdir):
        for fn in sorted(os.listdir(cdir)):
            if fn.endswith('.json'):
                e = json.load(open(os.path.join(cdir, fn)))
                d = json_to_def(e['def'])
                progs.append(d)
                fixed_inputs[d['name']] = e.get('inputs', [])
                fixed_scripts[d['name']] = e.get('scripts', [[]])
                stream[d['name']] = 'regression'
    for d in gen_defs.shape_defs(rng, builtins):
        if gen_defs.well_formed(d, builtins):
            progs.append(d)
            stream[d['name']] = 'shape'
    g = gen_defs.Gen(rng, builtins)
    p = tier_params(tier)
    for i in range(p['n_random']):
        kind = i % 5
        if kind == 0:
            d = g.definition('Rnd%d' % i, scripted_p=0.0, ctx_p=0.0, max_rules=5, depth=3, n_sets=0)
        elif kind == 1:
            d = g.definition('Rnd%d' % i, scripted_p=0.6, ctx_p=0.1, max_rules=3, depth=1)
        elif kind == 2:
            d = g.definition('Rnd%d' % i, scripted_p=0.2, ctx_p=0.5, max_rules=4, depth=2)
        else:
            d = g.definition('Rnd%d' % i)
        progs.append(d)
        stream[d['name']] = 'random'
    return progs, fixed_inputs, fixed_scripts, stream, rng


def def_to_json(d):
    return json.loads(json.dumps(d))


def json_to_def(j):
    def tup(x):
        if isinstance(x, list):
            return tuple(tup(y) for y in x)
        return x

    def conv_re(r):
        if r is None:
            return None
        t = r[0]
        if t == 'str':
            return ('str', list(r[1]))
        if t == 'set':
            return ('set', [tuple(it) for it in r[1]])
        if t in ('star', 'plus', 'opt'):
            return (t, conv_re(r[1]))
        if t in ('cat', 'alt', 'diff'):
            return (t, conv_re(r[1]), conv_re(r[2]))
        return tuple(r)

    def conv_item(it):
        if it[0] == 'errortype':
            return ('errortype',)
        if it[0] == 'let':
            return ('let', it[1], conv_re(it[2]))
        if it[0] == 'rule':
            return ('rule', it[1], conv_re(it[2]), conv_re(it[3]))
        return ('ruleset', it[1], [conv_item(x) for x in it[2]])

    return {'name': j['name'], 'items': [conv_item(it) for it in j['items']]}


def features(d, dd_info):
    rs = rules_in_order(d)
    has_let = any(it[0] == 'let' or (it[0] == 'ruleset' and any(x[0] == 'let' for x in it[2])) for it in d['items'])
    f = {'nsets': len(ruleset_names(d)), 'nrules': len(rs), 'has_ctx': any(r[4] is not None for r in rs), 'has_let': has_let,
         'has_scripted': any(r[2] in ('infallible', 'fallible') for r in rs), 'has_fallible': any(r[2] == 'fallible' for r in rs)}
    for line in dd_info:
        if line.startswith('stats '):
            for kv in line.split()[1:]:
                k, v = kv.split('=')
                f[k] = int(v)
        if line.startswith('flags.precision'):
            for kv in line.split()[1:]:
                k, v = kv.split('=')
                f['flags_' + k] = v
    return f


def literal_words(d):
    """the string literals (two or more characters) occurring in the rules and bindings of a definition, in source order, without repeats"""
    out, seen = [], set()

    def walk(r):
        if r is None:
            return
        if r[0] == 'str':
            if len(r[1]) >= 2 and tuple(r[1]) not in seen:
                seen.add(tuple(r[1]))
                out.append(list(r[1]))
        elif r[0] in ('star', 'plus', 'opt'):
            walk(r[1])
        elif r[0] in ('cat', 'alt', 'diff'):
            walk(r[1])
            walk(r[2])
    for it in d['items']:
        if it[0] == 'let':
            walk(it[2])
        elif it[0] == 'rule':
            walk(it[2])
            walk(it[3])
        elif it[0] == 'ruleset':
            for x in it[2]:
                if x[0] == 'let':
                    walk(x[2])
                else:
                    walk(x[2])
                    walk(x[3])
    return out


def make_cases(d, dd, rng, builtins, p, fixed_inputs, fixed_scripts):
    nm = d['name']
    inputs = list(fixed_inputs.get(nm, []))
    n_rules = len(rules_in_order(d))
    # big definitions get proportionally more edge-covering inputs (every state of a large automaton, not only those next to the entry)
    inputs += corpus.edge_covering_inputs(dd['body'], p['edge_inputs'] * (1 + n_rules // 8))
    inputs += gen_defs.gen_inputs(rng, d, builtins, n_random=p['n_rand_inputs'], exhaustive_len=p['n_exh'], max_alpha=p['max_alpha'])
    # the string literals of the definition: each alone, each followed by a letter, and all of them in one text (in source order and reversed),
    # separated by the first single-character rule without right-hand side, if there is one
    lits = literal_words(d)
    if lits:
        sep = next(([r[3][1]] for r in rules_in_order(d) if r[2] == 'none' and r[3][0] == 'chr'), [0x20])
        for w in lits[:40]:
            inputs.append(list(w))
            inputs.append(list(w) + [0x7A])
        for order in (lits, lits[::-1]):
            text = []
            for w in order[:80]:
                text += list(w) + sep
            inputs.append(text)
            inputs.append([c for w in order[:80] for c in w])
    # long inputs: one repeated character, unlexable only, long mix (C09)
    alpha = gen_defs.def_alphabet(d, builtins) or [97]
    n_before_special = len(inputs)
    for sp in gen_defs.UNICODE_POOL:
        inputs.append([alpha[0], sp, alpha[0], alpha[-1], sp, sp, 0x7A])
    for sp in gen_defs.UNICODE_POOL:
        inputs.append([sp, alpha[0], alpha[-1], sp])      # the special character first and last (start/end-of-input handling)
    inputs.append([alpha[0]] * 200)
    inputs.append([0x7A] * 50)
    inputs.append([rng.choice(alpha + [0x7A, 10, 9, 0x4E2D, 0x301]) for _ in range(p['long_input'] if nm.endswith('0') else 300)])
    seen, uniq = set(), []
    for w in inputs:
        k = tuple(w)
        if k not in seen:
            seen.add(k)
            uniq.append(list(w))
    special = set(tuple(w) for w in inputs[n_before_special:n_before_special + 2 * len(gen_defs.UNICODE_POOL)])
    inputs = uniq
    scripts = list(fixed_scripts.get(nm) or []) or gen_defs.gen_scripts(rng, d)
    cases = []
    for i, inp in enumerate(inputs):
        for j, sc in enumerate(scripts):
            if len(inp) > 400 and j > 0:
                continue
            cases.append({'prog': nm, 'id': 'i%ds%dk0' % (i, j), 'ctor': 0, 'ncalls': len(inp) + 3, 'input': inp, 'script': sc, 'clones': [], 'grp': (i, j),
                          'special': tuple(inp) in special})
    # constructor variants (C14) and clone points (C15) on a subset: the first short inputs plus one input
    # per special character (each alone among ASCII: newline, tab, 2-4 byte, wide, zero-width, soft hyphen, ..)
    sub = [c for c in cases if len(c['input']) <= 12][: p['ctor_inputs'] * max(1, len(scripts))]
    sub += [c for c in cases if c.get('special') and c['grp'][1] == 0]
    extra = []
    for c in sub[: p['ctor_inputs'] * 2] + [c for c in sub if c.get('special')]:
        for ctor in (1, 2, 3, 4):
            e = dict(c)
            e['ctor'] = ctor
            e['id'] = c['id'][:-1] + str(ctor)
            extra.append(e)
    # clone points: short inputs spread over ALL scripts (so that clones are taken inside other rule sets, after switches,
    # after errors and after continues), plus the special-character inputs
    pool = [c for c in cases if 2 <= len(c['input']) <= 8]
    want = p['clone_inputs'] * 8
    stride = max(1, len(pool) // want) if pool else 1
    chosen = pool[::stride][:want] + sub[-p['clone_inputs'] * 2:]
    seen_ids = set()
    for c in chosen:
        if c['id'] in seen_ids:
            continue
        seen_ids.add(c['id'])
        e = dict(c)
        e['id'] = c['id'] + 'c'
        e['clones'] = list(range(0, c['ncalls']))
        extra.append(e)
    return cases + extra


def run_pipeline(tier, seed, log=lambda s: None):
    t_start = time.time()
    builtins = load_builtins()
    progs, fixed_inputs, fixed_scripts, stream, rng = build_corpus(tier, seed, builtins)
    p = tier_params(tier)
    byname = {d['name']: d for d in progs}
    work = scratch_dir()
    ws = os.path.join(work, 'ws')
    dump = os.path.join(work, 'dump')
    shutil.rmtree(dump, ignore_errors=True)
    crates = corpus.write_workspace(ws, progs, per_crate=p['per_crate'])
    t0 = time.time()
    status, blog = corpus.build_workspace(ws, crates, dump, byname, timeout=1200 if tier == 'thorough' else 600, target_dir=shared_target())
    build_s = time.time() - t0
    log('corpus build: %d programs in %.1fs' % (len(progs), build_s))
    res = {'tier': tier, 'seed': seed, 'build_s': build_s, 'build_log': blog, 'programs': {}, 'disagreements': {}, 'oracle_violations': {},
           'counters': {}, 'samples': []}
    # crate membership after removals
    crate_of = {nm: st.get('crate') for nm, st in status.items()}
    # second expansion (determinism): cargo check into another dump dir
    dump2 = os.path.join(work, 'dump2')
    built = [d for d in progs if status[d['name']]['build'] == 'ok']
    if len(built) <= p['double_expand']:
        dbl = built
    else:
        # which definitions are expanded a second time: those whose expansion has the most separately emitted items (search tables, states,
        # action and context functions — an iteration order that is not reproducible can only show where two or more such items exist), the
        # first few of the fixed corpus, and an even spread over the rest
        def richness(d):
            dd0 = corpus.split_dump(corpus.read_dump(dump, d['name']))
            if not dd0:
                return 0
            n_tables = len([l for l in dd0['code'] if l.startswith('CODE table')])
            n_ctxfn = len([l for l in dd0['code'] if l.startswith('CODE ctxfn')])
            # two or more emitted tables / context functions first (their relative order is what can vary), then size
            return 1000 * min(n_tables, 4) + 200 * min(n_ctxfn, 4) + len([l for l in dd0['body'] if l.startswith('state ')])
        k = p['double_expand']
        ranked = sorted(built, key=richness, reverse=True)
        pick, seen = [], set()
        for d in ranked[: k // 2] + built[: k // 4] + built[:: max(1, len(built) // (k // 4 + 1))]:
            if d['name'] not in seen and len(pick) < k:
                seen.add(d['name'])
                pick.append(d)
        dbl = pick
        log('second expansion of %d definitions; richest: %s' % (len(dbl), ' '.join('%s(%d)' % (d['name'], richness(d)) for d in ranked[:6])))
    double = {}
    if dbl:
        ws2 = os.path.join(work, 'ws2')
        crates2 = corpus.write_workspace(ws2, dbl, per_crate=max(4, len(dbl) // 8 + 1))
        st2, blog2 = corpus.build_workspace(ws2, crates2, dump2, byname, timeout=600, mode='check', target_dir=os.path.join(shared_target(), 'second'))
        for d in dbl:
            a = corpus.split_dump(corpus.read_dump(dump, d['name']))
            b = corpus.split_dump(corpus.read_dump(dump2, d['name']))
            if a is None or b is None or st2.get(d['name'], {}).get('build') != 'ok':
                double[d['name']] = 'missing'
            else:
                same = a['code'] == b['code'] and [l for l in a['body'] if not l.startswith('TIME')] == [l for l in b['body'] if not l.startswith('TIME')]
                double[d['name']] = 'same' if same else 'differs'
        shutil.rmtree(ws2, ignore_errors=True)
    # cases, implementation runs
    allcases = {}
    dumps = {}
    for d in progs:
        nm = d['name']
        if status[nm]['build'] != 'ok':
            continue
        dd = corpus.split_dump(corpus.read_dump(dump, nm))
        dumps[nm] = dd
        if dd is None or not dd['complete']:
            continue
        allcases[nm] = make_cases(d, dd, rng, builtins, p, fixed_inputs, fixed_scripts)
    t0 = time.time()
    impl = {}
    from concurrent.futures import ThreadPoolExecutor
    jobs = []
    for c in sorted(set(v for v in crate_of.values() if v)):
        cs = [x for nm in allcases if crate_of.get(nm) == c for x in allcases[nm]]
        if cs:
            jobs.append((c, cs))
    with ThreadPoolExecutor(max_workers=8) as ex:
        for r in ex.map(lambda j: corpus.run_crate_cases(ws, j[0], j[1], work, timeout=300, target_dir=shared_target()), jobs):
            impl.update(r)
    run_s = time.time() - t0
    log('implementation runs: %d cases in %.1fs' % (len(impl), run_s))
    # the same cases once more, in reverse order and each on a fresh thread: the traces of a case must not depend on what ran before it in
    # the process or on the thread (C15: all run-time state lives in the lexer value; no memo, counter or cache outside it)
    impl2 = {}
    with ThreadPoolExecutor(max_workers=8) as ex:
        for r in ex.map(lambda j: corpus.run_crate_cases(ws, j[0], j[1], work, timeout=300, target_dir=shared_target(), mode='fresh_rev'), jobs):
            impl2.update(r)
    log('implementation runs (reverse order, fresh threads): %d cases in %.1fs' % (len(impl2), time.time() - t0 - run_s))
    # model: stage + traces (on the dumped machine)
    t0 = time.time()
    lines = []
    spec_of = {}
    canon_defs = {}
    for d in progs:
        nm = d['name']
        dd = dumps.get(nm)
        if dd is None:
            continue
        cs = allcases.get(nm, [])
        for c in cs:
            c['widths'] = impl.get((nm, c['id']), {}).get('widths', {})
        # the same cases on the EXECUTABLE SPECIFICATION (specNext: derivative-based maximal munch on the definition itself, proved sound
        # w.r.t. the reference relation RefNext): short inputs, spread over the case list
        pool = [c for c in cs if not c['clones'] and c['ctor'] <= 1 and len(c['input']) <= 24]
        stride = max(1, len(pool) // p['spec_cases'])
        spec_cs = []
        for c in pool[::stride][:p['spec_cases']]:
            e = dict(c)
            e['id'] = c['id'] + 'S'
            e['mach'] = 'spec'
            spec_cs.append(e)
        spec_of[nm] = {e['id'][:-1]: e['id'] for e in spec_cs}
        dls, dd = corpus.canon_actions(def_lines(d, True), dd)
        dumps[nm] = dd
        canon_defs[nm] = dls
        lines += corpus.lexmodel_input(nm, dls, dd['body'], True, cs + spec_cs)
    rc, out, err = corpus.run_lexmodel(lines, timeout=3000)
    model_s = time.time() - t0
    log('model runs: %.1fs rc=%s' % (model_s, rc))
    stage, info, mtr, _ = corpus.parse_lexmodel(out)
    res['model_rc'] = rc
    res['model_err'] = err[-2000:]
    # per program
    counters = {'programs': len(progs), 'built': 0, 'cases': 0, 'impl_model_equal': 0, 'impl_ref_equal': 0, 'errors': 0, 'customs': 0,
                'switch_cases': 0, 'ctor_groups': 0, 'clone_traces': 0, 'nontrivial_cases': 0}
    distinct_traces = set()
    for d in progs:
        nm = d['name']
        dd = dumps.get(nm)
        st = status[nm]
        pr = {'stream': stream[nm], 'build': st['build'], 'detail': st.get('detail', ''), 'def': def_lines(d), 'text': corpus.lexer_text(d),
              'json': def_to_json(d), 'stage': stage.get(nm, []), 'info': info.get(nm, []), 'double': double.get(nm),
              'dump_complete': bool(dd and dd['complete']), 'ast_equal': bool(dd and dd['ast'] == base_kinds(canon_defs.get(nm, def_lines(d)))),
              'actions_renamed': bool(dd and dd.get('actions_renamed')),
              'ast_dump': dd['ast'] if dd else [], 'time_ms': None, 'ncases': len(allcases.get(nm, []))}
        if dd:
            for l in dd['body']:
                if l.startswith('TIME '):
                    pr['time_ms'] = int(l.split()[1])
        pr['features'] = features(d, pr['info'])
        res['programs'][nm] = pr
        if st['build'] != 'ok' or nm not in allcases:
            continue
        counters['built'] += 1
        ref = None
        try:
            ref = reflex.RefLexer(d, builtins)
        except Exception as e:  # noqa
            pr['ref_error'] = repr(e)
        sw = corpus.dump_switch_table(dd['body'])
        num2name = {v: k for k, v in sw.items()} if sw else {0: '_'}
        groups = {}
        for c in allcases[nm]:
            counters['cases'] += 1
            key = (nm, c['id'])
            it = impl.get(key)
            mt = mtr.get(key)
            if it is None:
                add_dis(res, 'ALL', nm, c, 'implementation trace missing', None, None)
                continue
            il = it['lines']
            pil = map_states(il, num2name)
            # direct oracles
            for prop, msg in direct_oracles(c, pil, it['widths']).items():
                add_violation(res, prop, nm, c, 'direct oracle: ' + msg, il, None)
            # model (exact lines)
            if mt is None or il != mt:
                pm = [parse_line(l) for l in (mt or [])]
                pi = [parse_line(l) for l in il]
                for prop in TRACE_PROPS:
                    if proj(prop, pi) != proj(prop, pm):
                        add_dis(res, prop, nm, c, 'implementation and model traces differ', il, mt)
            else:
                counters['impl_model_equal'] += 1
            # executable Lean specification (oracle, proved sound w.r.t. RefNext)
            sid = spec_of.get(nm, {}).get(c['id'])
            if sid is not None:
                sl = mtr.get((nm, sid))
                if sl is not None and not any(l.startswith('N NOMACHINE') or l.startswith('N HANG') for l in sl):
                    counters['spec_cases'] = counters.get('spec_cases', 0) + 1
                    psl = [parse_line(l) for l in sl]
                    same = True
                    for prop in TRACE_PROPS:
                        if proj(prop, pil) != proj(prop, psl):
                            same = False
                            add_violation(res, prop, nm, c, 'implementation differs from the executable Lean specification (specNext, sound w.r.t. RefNext)', il, sl)
                    if same:
                        counters['impl_spec_equal'] = counters.get('impl_spec_equal', 0) + 1
                elif sl is not None:
                    counters['spec_unavailable'] = counters.get('spec_unavailable', 0) + 1
            # reference lexer (oracle)
            if ref is not None:
                rl = ref.run(c['input'], c['script'], c['ncalls'], c['ctor'] <= 1, it['widths'])
                prl = [parse_line(l) for l in rl]
                same = True
                for prop in TRACE_PROPS:
                    if proj(prop, pil) != proj(prop, prl):
                        same = False
                        add_violation(res, prop, nm, c, 'implementation differs from the reference lexer', il, rl)
                if same:
                    counters['impl_ref_equal'] += 1
            # statistics
            raw = '\n'.join(il)
            if c['ctor'] == 0 and not c['clones']:
                distinct_traces.add(hash((nm, raw)))
                if ' invalid' in raw:
                    counters['errors'] += 1
                if ' custom ' in raw:
                    counters['customs'] += 1
                if len(set(l['S'][1] for l in pil if l['S'])) > 1:
                    counters['switch_cases'] += 1
                if len(il) > 2 and sum(1 for l in pil if l['item'][0] != 'none') >= 2:
                    counters['nontrivial_cases'] += 1
            # order / thread independence
            it2 = impl2.get((nm, c['id']))
            if it2 is not None:
                counters['order_independence_cases'] = counters.get('order_independence_cases', 0) + 1
                if it2['lines'] != il or it2.get('clones') != it.get('clones'):
                    add_violation(res, 'C15', nm, c, 'the same case gives a different trace when it runs on a fresh thread after other cases (reverse order): '
                                  'run-time state outside the lexer value', il, it2['lines'])
            # constructor groups
            groups.setdefault(c['id'][:-1] if not c['clones'] else None, {})[c['ctor']] = il
            # clones: the clone's trace equals the original's suffix
            if c['clones']:
                for k, cl in it['clones'].items():
                    counters['clone_traces'] += 1
                    if cl != il[k:]:
                        add_violation(res, 'C15', nm, c, 'clone taken before call %d diverges from the original' % k, il, cl)
                base = impl.get((nm, c['id'][:-1]))
                if base is not None and base['lines'] != il:
                    add_violation(res, 'C15', nm, c, 'running clones changed the original stream', base['lines'], il)
        if ref is not None:
            # branch statistics of the reference runs (which lexing situations the cases exercised)
            for k, v in ref.stats.items():
                counters['ref_' + k] = counters.get('ref_' + k, 0) + v
            if ref.stats.get('rewinds'):
                counters['programs_with_rewind'] = counters.get('programs_with_rewind', 0) + 1
        for gid, g in groups.items():
            if gid is None or len(g) < 5:
                continue
            counters['ctor_groups'] += 1
            c0 = [c for c in allcases[nm] if c['id'] == gid + '0'][0]
            if g[0] != g[1]:
                add_violation(res, 'C14', nm, c0, 'new_with_state and new differ', g[0], g[1])
            s0 = strip_text(g[0])
            for k in (2, 3, 4):
                if strip_text(g[k]) != s0:
                    add_violation(res, 'C14', nm, c0, 'constructor %d differs from new_with_state' % k, s0, g[k])
        if len(res['samples']) < 12 and allcases[nm]:
            c = allcases[nm][min(len(allcases[nm]) - 1, 7)]
            res['samples'].append({'program': nm, 'definition': pr['text'], 'input': c['input'], 'script': c['script'],
                                   'trace': impl.get((nm, c['id']), {}).get('lines', [])[:6]})
    counters['distinct_traces'] = len(distinct_traces)
    res['counters'] = counters
    res['wall_s'] = time.time() - t_start
    shutil.rmtree(ws, ignore_errors=True)
    return res


def add_dis(res, prop, nm, c, msg, a, b):
    lst = res['disagreements'].setdefault(prop, [])
    if len(lst) >= 60:
        lst.sort(key=lambda v: (len(v['input']), len(v['script'])))
        del lst[30:]
    if len(lst) < 60 or len(c['input']) < len(lst[-1]['input']):
        lst.append({'program': nm, 'case': c['id'], 'ctor': c['ctor'], 'input': c['input'], 'script': c['script'], 'ncalls': c['ncalls'], 'msg': msg,
                    'impl': first_diff(a, b)[0], 'other': first_diff(a, b)[1]})
    res['disagreements'].setdefault('_count', {}).setdefault(prop, 0)
    res['disagreements']['_count'][prop] += 1


def add_violation(res, prop, nm, c, msg, a, b):
    lst = res['oracle_violations'].setdefault(prop, [])
    if len(lst) >= 60:
        # keep the shortest failing inputs
        lst.sort(key=lambda v: (len(v['input']), len(v['script'])))
        del lst[30:]
    if len(lst) < 60 or len(c['input']) < len(lst[-1]['input']):
        lst.append({'program': nm, 'case': c['id'], 'ctor': c['ctor'], 'input': c['input'], 'script': c['script'], 'ncalls': c['ncalls'], 'msg': msg,
                    'impl': first_diff(a, b)[0], 'expected': first_diff(a, b)[1]})
    res['oracle_violations'].setdefault('_count', {}).setdefault(prop, 0)
    res['oracle_violations']['_count'][prop] += 1


def first_diff(a, b):
    if a is None or b is None:
        return (a[:3] if a else a, b[:3] if b else b)
    for i, (x, y) in enumerate(zip(a, b)):
        if x != y:
            return (['@call %d' % i, x], ['@call %d' % i, y])
    return (a[-2:], b[-2:])


def get_results(tier, seed, log=lambda s: None, use_cache=True):
    os.makedirs(CACHE, exist_ok=True)
    key = 'corpus-%s-%s-%s-%d.json' % (corpus.repo_tree_hash(), harness_hash(), tier, seed)
    path = os.path.join(CACHE, key)
    if use_cache and os.path.exists(path):
        try:
            r = json.load(open(path))
            r['cached'] = True
            return r
        except Exception:  # noqa
            pass
    r = run_pipeline(tier, seed, log)
    r['cached'] = False
    tmp = path + '.tmp%d' % os.getpid()
    json.dump(r, open(tmp, 'w'))
    os.replace(tmp, path)
    # keep the cache small
    ents = sorted((os.path.getmtime(os.path.join(CACHE, f)), f) for f in os.listdir(CACHE) if f.startswith('corpus-'))
    for _, f in ents[:-6]:
        os.remove(os.path.join(CACHE, f))
    return r


if __name__ == '__main__':
    tier = sys.argv[1] if len(sys.argv) > 1 else 'quick'
    seed = int(sys.argv[2]) if len(sys.argv) > 2 else 1
    r = get_results(tier, seed, log=print, use_cache='--no-cache' not in sys.argv)
    print(json.dumps(r['counters'], indent=1))
    print('disagreements', r['disagreements'].get('_count'))
    print('oracle violations', r['oracle_violations'].get('_count'))
    for nm, pr in r['programs'].items():
        if pr['build'] != 'ok' or not pr['ast_equal'] or any(not ok for (_c, ok, _d) in pr['stage']) or pr['double'] == 'differs':
            print(nm, pr['build'], pr['detail'][:200], 'ast_equal', pr['ast_equal'], [s for s in pr['stage'] if not s[1]], pr['double'])
    print('wall', r['wall_s'])
