"""Build and run the corpus: generated crates (real macro under rustc, dump hooks on), the trace
runner, the Lean model driver; returns raw results for the per-property checks."""
import os, re, shutil, subprocess, sys, time, json, hashlib
from lexast import print_re, def_lines, rules_in_order, ruleset_names

HERE = os.path.dirname(os.path.abspath(__file__))
VERIF = os.path.dirname(HERE)
REPO = os.environ.get('VERIF_REPO', '/repo')
LEXMODEL = os.path.join(VERIF, 'lean', '.lake', 'build', 'bin', 'lexmodel')
NCPU = os.cpu_count() or 4


def cargo_env(extra=None):
    env = dict(os.environ)
    env['CARGO_NET_OFFLINE'] = 'true'
    env.pop('RUSTFLAGS', None)
    if extra:
        env.update(extra)
    return env


# ---------------------------------------------------------------------------------------------
# Rust source of a program


def action_code(idx, kind, sets):
    """body of a scripted `=>` / `=?` action"""
    n = len(sets)
    fallible = kind == 'fallible'
    ok = 'Ok(lv::Tok(%d))' % idx if fallible else 'lv::Tok(%d)' % idx
    lines = ['|lexer| {',
             '    let (s, e) = lexer.match_loc();',
             '    let pk = lexer.peek();',
             '    let txt = if lexer.state().with_text { lv::show_text(lexer.match_()) } else { String::from("!") };',
             '    let stale = lexer.state().short && lexer.0.clone().backtrack().is_ok();',
             '    let d = lexer.state().record(%d, s, e, pk, txt, stale);' % idx,
             '    let (reset, tgt, res) = lv::decode(d, %d, %s);' % (n, 'true' if fallible else 'false'),
             '    if reset { lexer.reset_match(); }']
    arms = ['        (None, 0) => lexer.continue_(),']
    if fallible:
        arms.append('        (None, 1) => lexer.return_(%s),' % ok)
        arms.append('        (None, _) => lexer.return_(Err(%d)),' % (idx + 100))
    else:
        arms.append('        (None, _) => lexer.return_(%s),' % ok)
    if n:
        tg = '[' + ', '.join('%sRule::%s' % ('{L}', s) for s in sets) + '][t]'
        arms.append('        (Some(t), 0) => lexer.switch(%s),' % tg)
        if fallible:
            arms.append('        (Some(t), 1) => lexer.switch_and_return(%s, %s),' % (tg, ok))
            arms.append('        (Some(t), _) => lexer.switch_and_return(%s, Err(%d)),' % (tg, idx + 100))
        else:
            arms.append('        (Some(t), _) => lexer.switch_and_return(%s, %s),' % (tg, ok))
    else:
        arms.append('        (Some(_), _) => unreachable!(),')
    lines.append('    match (tgt, res) {')
    lines += arms
    lines.append('    }')
    lines.append('}')
    return '\n            '.join(lines)


def rule_text(idx, it, sets, lexer_name, redundant=None):
    kind, re_, ctx = it[1], it[2], it[3]
    lhs = print_re(re_, 0, redundant)
    if ctx is not None:
        lhs += ' > ' + print_re(ctx, 0, redundant)
    if kind == 'none':
        return lhs + ','
    if kind == 'simple':
        return '%s = lv::Tok(%d),' % (lhs, idx)
    if kind in ('autoinf', 'autofal'):
        # the SAME right-hand side text under `=>` and `=?` (the value is constructed generically: a token under `=>`, an error under `=?`)
        return '%s %s |lexer| lexer.return_(lv::auto()),' % (lhs, '=>' if kind == 'autoinf' else '=?')
    op = '=>' if kind == 'infallible' else '=?'
    return '%s %s %s,' % (lhs, op, action_code(idx, kind, sets).replace('{L}', lexer_name))


def lexer_text(d, redundant=None, derive_clone=True):
    name = d['name']
    sets = ruleset_names(d)
    out = ['lexer! {']
    if derive_clone:
        out.append('    #[derive(Clone, Debug)]')
    out.append('    pub %s(lv::St) -> lv::Tok;' % name)
    idx = 0
    for it in d['items']:
        if it[0] == 'errortype':
            out.append('    type Error = u32;')
        elif it[0] == 'let':
            out.append('    let %s = %s;' % (it[1], print_re(it[2], 0, redundant)))
        elif it[0] == 'rule':
            out.append('    ' + rule_text(idx, it, sets, name, redundant))
            idx += 1
        elif it[0] == 'ruleset':
            out.append('    rule %s {' % it[1])
            for x in it[2]:
                if x[0] == 'let':
                    out.append('        let %s = %s;' % (x[1], print_re(x[2], 0, redundant)))
                else:
                    out.append('        ' + rule_text(idx, x, sets, name, redundant))
                    idx += 1
            out.append('    }')
    out.append('}')
    return '\n'.join(out)


def module_text(d, extra_lexers=()):
    parts = ['#![allow(dead_code, unused_variables, unreachable_patterns, unused_mut, clippy::all)]',
             'use lexgen::lexer;', 'use lv_support as lv;', '', lexer_text(d), '']
    for e in extra_lexers:
        parts += [lexer_text(e), '']
    has_err = any(it[0] == 'errortype' for it in d['items'])
    parts.append('lv::runner!(%s);' % d['name'])
    return '\n'.join(parts) + '\n'


# ---------------------------------------------------------------------------------------------
# workspace


def mod_name(d):
    return 'p_' + d['name'].lower()


def write_workspace(ws, programs, per_crate=12, extra=None):
    """programs: list of definitions. Returns crate -> [program names]"""
    extra = extra or {}
    if os.path.exists(ws):
        shutil.rmtree(ws)
    os.makedirs(ws)
    shutil.copytree(os.path.join(HERE, 'lv_support'), os.path.join(ws, 'lv_support'))
    lib_toml = open(os.path.join(ws, 'lv_support', 'Cargo.toml')).read().replace('/repo/', REPO.rstrip('/') + '/')
    open(os.path.join(ws, 'lv_support', 'Cargo.toml'), 'w').write(lib_toml)
    crates = {}
    for i in range(0, len(programs), per_crate):
        crates['c%d' % (i // per_crate)] = programs[i:i + per_crate]
    members = ['lv_support'] + sorted(crates)
    with open(os.path.join(ws, 'Cargo.toml'), 'w') as f:
        f.write('[workspace]\nresolver = "2"\nmembers = [%s]\n\n[profile.dev]\ndebug = 0\nopt-level = 0\nincremental = false\n'
                % ', '.join('"%s"' % m for m in members))
    lock = os.path.join(REPO, 'Cargo.lock')
    if os.path.exists(lock):
        shutil.copy(lock, os.path.join(ws, 'Cargo.lock'))
    for cname, progs in crates.items():
        write_crate(ws, cname, progs, extra)
    return {c: [p['name'] for p in ps] for c, ps in crates.items()}


def write_crate(ws, cname, progs, extra):
    cdir = os.path.join(ws, cname)
    if os.path.exists(cdir):
        shutil.rmtree(cdir)
    os.makedirs(os.path.join(cdir, 'src'))
    with open(os.path.join(cdir, 'Cargo.toml'), 'w') as f:
        f.write('[package]\nname = "%s"\nversion = "0.1.0"\nedition = "2021"\n\n[dependencies]\n'
                'lexgen = { path = "%s/crates/lexgen", features = ["verif_hooks"] }\n'
                'lexgen_util = { path = "%s/crates/lexgen_util" }\nlv_support = { path = "../lv_support" }\n'
                % (cname, REPO, REPO))
    mods, arms = [], []
    for d in progs:
        m = mod_name(d)
        with open(os.path.join(cdir, 'src', m + '.rs'), 'w') as f:
            f.write(module_text(d, extra.get(d['name'], ())))
        mods.append('mod %s;' % m)
        arms.append('        "%s" => { %s::run(case, out); true }' % (d['name'], m))
    with open(os.path.join(cdir, 'src', 'main.rs'), 'w') as f:
        f.write('\n'.join(mods) + '\n\nfn main() {\n    lv_support::main_loop(|case, out| match case.prog.as_str() {\n'
                + '\n'.join(arms) + '\n        _ => false,\n    });\n}\n')


def _limit_memory(max_gb):
    def f():
        import resource
        lim = int(max_gb * (1 << 30))
        resource.setrlimit(resource.RLIMIT_AS, (lim, lim))
    return f


def run(cmd, cwd=None, env=None, timeout=None, max_gb=None):
    t0 = time.time()
    try:
        p = subprocess.run(cmd, cwd=cwd, env=env, stdout=subprocess.PIPE, stderr=subprocess.STDOUT, timeout=timeout,
                           preexec_fn=_limit_memory(max_gb) if max_gb else None)
        return p.returncode, p.stdout.decode('utf-8', 'replace'), time.time() - t0
    except subprocess.TimeoutExpired as e:
        out = e.stdout.decode('utf-8', 'replace') if e.stdout else ''
        return 'timeout', out, time.time() - t0


def build_workspace(ws, crates, dump_dir, progs_by_name, extra=None, timeout=900, mode='build', target_dir=None):
    """cargo build (or check) of all crates with the dump hooks on. Programs whose expansion panics,
    hangs or does not compile are removed and reported. Returns (status: name -> dict, build log)"""
    extra = extra or {}
    os.makedirs(dump_dir, exist_ok=True)
    status = {}
    crates = {c: list(ps) for c, ps in crates.items()}
    log = []
    env = cargo_env({'LEXGEN_VERIF_DUMP_DIR': dump_dir})
    if target_dir:
        env['CARGO_TARGET_DIR'] = target_dir
    for attempt in range(8):
        rc, out, secs = run(['cargo', mode, '--offline', '-q', '--workspace', '--message-format', 'short', '-j', str(NCPU)],
                            cwd=ws, env=env, timeout=timeout)
        log.append('attempt %d rc=%s %.1fs' % (attempt, rc, secs))
        if rc == 0:
            break
        bad = {}
        if rc == 'timeout':
            # a hanging expansion: BEGIN without END
            for fn in os.listdir(dump_dir):
                txt = open(os.path.join(dump_dir, fn)).read()
                if not txt.rstrip().endswith('END'):
                    bad[fn[:-5]] = ('hang', 'expansion did not finish within %ds' % timeout)
            # make sure no rustc survives
            subprocess.run(['pkill', '-f', 'rustc.*' + re.escape(ws)], stderr=subprocess.DEVNULL)
            if not bad:
                log.append('timeout without identifiable program')
                for c, ps in crates.items():
                    for p in ps:
                        status.setdefault(p, {'build': 'unknown', 'detail': 'build timeout'})
                return status, '\n'.join(log) + '\n' + out[-4000:]
        else:
            for line in out.splitlines():
                m = re.match(r'(c\d+)/src/(p_\w+)\.rs:(\d+):(\d+): error(.*)', line)
                if m:
                    modn = m.group(2)
                    for p, d in progs_by_name.items():
                        if mod_name(d) == modn and p not in bad:
                            kind = 'panic' if 'proc macro panicked' in line or 'proc-macro' in line else 'compile_error'
                            bad[p] = (kind, line.strip())
            if not bad:
                log.append('build failed without identifiable program')
                for c, ps in crates.items():
                    for p in ps:
                        status.setdefault(p, {'build': 'unknown', 'detail': out[-2000:]})
                return status, '\n'.join(log) + '\n' + out[-6000:]
        for p, (kind, detail) in bad.items():
            status[p] = {'build': kind, 'detail': detail}
            log.append('removed %s: %s %s' % (p, kind, detail[:300]))
        for c in list(crates):
            before = crates[c]
            after = [p for p in before if p not in bad]
            if after != before:
                crates[c] = after
                write_crate(ws, c, [progs_by_name[p] for p in after], extra)
    else:
        log.append('too many build attempts')
    for c, ps in crates.items():
        for p in ps:
            if p not in status:
                status[p] = {'build': 'ok', 'crate': c}
    return status, '\n'.join(log)


# ---------------------------------------------------------------------------------------------
# dumps


def read_dump(dump_dir, name):
    fn = os.path.join(dump_dir, name + '.dump')
    if not os.path.exists(fn):
        return None
    lines = open(fn).read().split('\n')
    # a crate that is rebuilt (after a failing program was removed from it) expands its lexers again and the
    # hooks append: keep the last expansion only
    begins = [i for i, l in enumerate(lines) if l.startswith('BEGIN ')]
    if len(begins) > 1:
        lines = lines[begins[-1]:]
    return lines


def split_dump(lines):
    """-> dict: ast (list), body (non-CODE lines after ENDAST), code (CODE lines), complete"""
    if lines is None:
        return None
    try:
        i = lines.index('AST')
        j = lines.index('ENDAST')
    except ValueError:
        return {'ast': [], 'body': [], 'code': [], 'complete': False}
    body = [l for l in lines[j + 1:] if l and not l.startswith('CODE ')]
    code = [l for l in lines[j + 1:] if l.startswith('CODE ')]
    return {'ast': lines[i + 1:j], 'body': body, 'code': code, 'complete': 'END' in body}


def _rewrite_acc_values(line, f):
    """apply f to every accept VALUE of a dump line: `acc n (v ctx)*` and transitions ending in `a n (v ctx)*`"""
    w = line.split()
    if not w:
        return line
    if w[0] == 'acc':
        i = 1
    elif w[0] in ('ch', 'rg', 'any', 'eoi') and 'a' in w[1:]:
        i = w.index('a', 1) + 1
    else:
        return line
    try:
        n = int(w[i])
        for k in range(n):
            w[i + 1 + 2 * k] = str(f(int(w[i + 1 + 2 * k])))
    except (ValueError, IndexError):
        return line
    return ' '.join(w)


def canon_actions(def_ls, dd):
    """The accept values of the macro's automata are indices into its semantic-action table. The model numbers the rules in source order, one
    entry per rule; that is what the pinned macro does, but it is not something any property demands: rules WITHOUT a right-hand side have
    identical (empty) actions and may share one table entry. When the dumped AST shows such sharing (several rules, all of kind `none`, with
    one index) or a different numbering, rename indices on both sides to a canonical one (the source-order number of the first rule that uses
    the entry) so that the comparison is about behaviour and not about numbering. Sharing between rules that HAVE a right-hand side, or an
    entry whose kind differs from the rule's kind, is not renamed away: it is left as it is and surfaces as a disagreement.
    -> (definition lines for the model, dump dict)"""
    if not dd or not dd.get('ast'):
        return def_ls, dd
    dumped = [l.split() for l in dd['ast'] if ' rule ' in ' ' + l]
    mine = [l.split() for l in def_ls if ' rule ' in ' ' + l]
    if len(dumped) != len(mine):
        return def_ls, dd
    try:
        d_idx = [int(w[w.index('rule') + 2]) for w in dumped]
        d_kind = [w[w.index('rule') + 1] for w in dumped]
        m_kind = [w[w.index('rule') + 1] for w in mine]
        m_kind = [{'autoinf': 'infallible', 'autofal': 'fallible'}.get(k, k) for k in m_kind]
    except (ValueError, IndexError):
        return def_ls, dd
    if d_idx == list(range(len(d_idx))):
        return def_ls, canon_contexts(def_ls, dd)       # the action numbering of the model: nothing to rename
    users = {}
    for k, v in enumerate(d_idx):
        users.setdefault(v, []).append(k)
    for v, ks in users.items():
        if any(d_kind[k] != m_kind[k] for k in ks):
            return def_ls, dd                   # an entry of the wrong kind: real disagreement
        if len(ks) > 1 and any(m_kind[k] != 'none' for k in ks):
            return def_ls, dd                   # rules with right-hand sides share an entry: real disagreement
    canon_of_dumped = {v: min(ks) for v, ks in users.items()}
    canon_of_rule = [canon_of_dumped[d_idx[k]] for k in range(len(d_idx))]

    def renum(lines, by_rule):
        out, k = [], 0
        for l in lines:
            w = l.split()
            if 'rule' in w[:2]:
                i = w.index('rule') + 2
                w[i] = str(canon_of_rule[k] if by_rule else canon_of_dumped.get(int(w[i]), int(w[i])))
                k += 1
                out.append(' '.join(w))
            else:
                out.append(l)
        return out
    dd2 = dict(dd)
    dd2['ast'] = renum(dd['ast'], False)
    body, in_ctx = [], False
    for l in dd['body']:
        if l.startswith('DFA '):
            in_ctx = l.split()[1].startswith('ctx')      # right-context automata accept with a unit value, not with an action index
        body.append(l if in_ctx else _rewrite_acc_values(l, lambda v: canon_of_dumped.get(v, v)))
    dd2['body'] = body
    dd2['actions_renamed'] = True
    dls2 = renum(def_ls, True)
    return dls2, canon_contexts(dls2, dd2)


def _acc_pairs(line):
    """(start index of the pairs, count) of the accept list of a dump line, or None"""
    w = line.split()
    if not w:
        return None
    if w[0] == 'acc':
        i = 1
    elif w[0] in ('ch', 'rg', 'any', 'eoi') and 'a' in w[1:]:
        i = w.index('a', 1) + 1
    else:
        return None
    try:
        return w, i + 1, int(w[i])
    except (ValueError, IndexError):
        return None


def canon_contexts(def_ls, dd):
    """Right-context automata are referred to by number. The model gives every rule with a right context its own automaton, numbered in source
    order; the macro may compile equal contexts once and share the automaton (fewer automata, other numbers) — no property forbids that. When
    the dump has a different number of context automata than the definition has contexts, rebuild the dump in the model's numbering: the rule
    with action index v (accept entries `v j`) uses dumped automaton j; it gets the number m(v) the model gives it and a copy of automaton j
    under that number. Only done when every action index with a context is used by exactly one rule and always appears with the same dumped
    automaton; otherwise the dump is left alone (and the disagreement surfaces). Whether automaton j really decides the context of rule v is
    then checked as always: `bisim.ctx` compares automaton m of the model with (the copy of) automaton j."""
    if not dd or not dd.get('body'):
        return dd
    rules = [l.split() for l in def_ls if ' rule ' in ' ' + l]
    ctx_rules = []                                   # action index of every rule with a context, in source order
    for w in rules:
        if 'ctx' in w:
            ctx_rules.append(int(w[w.index('rule') + 2]))
    tags = [l.split()[1] for l in dd['body'] if l.startswith('DFA ')]
    n_dumped = len([t for t in tags if t.startswith('ctx')])
    if n_dumped == len(ctx_rules) or not ctx_rules or len(set(ctx_rules)) != len(ctx_rules):
        return dd
    model_no = {v: m for m, v in enumerate(ctx_rules)}
    used = {}
    in_ctx = False
    for l in dd['body']:
        if l.startswith('DFA '):
            in_ctx = l.split()[1].startswith('ctx')
            continue
        if in_ctx:
            continue
        ap = _acc_pairs(l)
        if ap:
            w, i, n = ap
            for k in range(n):
                v, j = int(w[i + 2 * k]), int(w[i + 2 * k + 1])
                if j >= 0:
                    used.setdefault(v, set()).add(j)
    if set(used) - set(model_no) or any(len(js) != 1 for js in used.values()):
        return dd
    dumped_of = {v: next(iter(js)) for v, js in used.items()}
    if any(j >= n_dumped for j in dumped_of.values()):
        return dd
    # sections
    sections, cur, pre, post = {}, None, [], []
    seen_ctx = False
    for l in dd['body']:
        if l.startswith('DFA ') and l.split()[1].startswith('ctx'):
            cur = l.split()[1]
            sections[cur] = [l]
            seen_ctx = True
        elif cur is not None:
            sections[cur].append(l)
            if l == 'ENDDFA':
                cur = None
        elif not seen_ctx:
            pre.append(l)
        else:
            post.append(l)

    def ren(l):
        ap = _acc_pairs(l)
        if not ap:
            return l
        w, i, n = ap
        for k in range(n):
            v, j = int(w[i + 2 * k]), int(w[i + 2 * k + 1])
            if j >= 0:
                w[i + 2 * k + 1] = str(model_no[v])
        return ' '.join(w)
    body = [ren(l) for l in pre]
    for m, v in enumerate(ctx_rules):
        j = dumped_of.get(v)
        if j is None:
            return dd                                # a rule with a context that never became an accept entry: leave the dump alone
        sec = sections.get('ctx%d' % j)
        if not sec:
            return dd
        hdr = sec[0].split()
        hdr[1] = 'ctx%d' % m
        body += [' '.join(hdr)] + sec[1:]
    # generated-code lines about context functions are informational; drop the per-function lines whose count no longer matches
    body += post
    dd2 = dict(dd)
    dd2['body'] = body
    dd2['contexts_renamed'] = True
    return dd2


def parse_dump_dfa(body, tag):
    """simplified parse for input generation: returns list of states {acc, ch, rg, any, eoi, bt, initial}"""
    states = []
    on = False
    for l in body:
        w = l.split()
        if not w:
            continue
        if w[0] == 'DFA':
            on = (w[1] == tag)
            continue
        if w[0] == 'ENDDFA':
            on = False
            continue
        if not on:
            continue
        if w[0] == 'state':
            states.append({'initial': w[2] == '1', 'bt': w[3] == '1', 'acc': [], 'ch': [], 'rg': [], 'any': None, 'eoi': None})
        elif w[0] == 'acc':
            k = int(w[1])
            states[-1]['acc'] = [(int(w[2 + 2 * i]), int(w[3 + 2 * i])) for i in range(k)]
        elif w[0] == 'ch':
            states[-1]['ch'].append((int(w[1]), int(w[3]) if w[2] == 't' else None))
        elif w[0] == 'rg':
            states[-1]['rg'].append((int(w[1]), int(w[2]), int(w[4]) if w[3] == 't' else None))
        elif w[0] == 'any':
            states[-1]['any'] = int(w[2]) if w[1] == 't' else None
        elif w[0] == 'eoi':
            states[-1]['eoi'] = int(w[2]) if w[1] == 't' else None
    return states


def dump_entries(body, tag):
    out = {}
    for l in body:
        w = l.split()
        if len(w) == 3 and w[0] == tag:
            out[w[1]] = int(w[2])
    return out


def dump_switch_table(body):
    out = {}
    for l in body:
        w = l.split()
        if len(w) == 3 and w[0] == 'switch':
            out[w[1]] = int(w[2])
    return out


def _dfa_words(states, start=0):
    """shortest word to every state reachable from `start` (breadth first over chars, range end points and one uncovered char for `_`)"""
    from lexast import is_scalar
    words = {start: []}
    queue = [start]
    while queue:
        s = queue.pop(0)
        st = states[s]
        succ = [(c, t) for c, t in st['ch']] + [(a if is_scalar(a) else b, t) for a, b, t in st['rg']]
        if st['any'] is not None:
            c = 0x7A
            while any(c == k for k, _ in st['ch']) or any(a <= c <= b for a, b, _ in st['rg']):
                c += 1
            succ.append((c, st['any']))
        for c, t in succ:
            if t is not None and t not in words and is_scalar(c):
                words[t] = words[s] + [c]
                queue.append(t)
    return words


def _state_reps(st):
    """one representative of every outgoing class of a state AND of every gap next to it: keys, range end points and their neighbours"""
    from lexast import is_scalar
    reps = []
    for c, _ in st['ch']:
        reps += [c, c - 1, c + 1]
    for a, b, _ in st['rg']:
        reps += [a, b, a - 1, b + 1, (a + b) // 2]
    out, seen = [], set()
    for c in reps:
        if c not in seen and 0 <= c <= 0x10FFFF and is_scalar(c):
            seen.add(c)
            out.append(c)
    return out


def edge_covering_inputs(body, max_inputs=60):
    """From the dumped (pre-simplification) DFA: for every state a shortest word reaching it from its
    entry, extended by a representative of every outgoing class and of every gap between classes (the neighbours of keys and range
    end points), by a character without transition and by nothing (end of input). For every accepting state whose rule has a right
    context, the word is also extended by words covering every edge and gap of THAT context automaton."""
    states = parse_dump_dfa(body, 'full')
    if not states:
        return []
    entries = [i for i, s in enumerate(states) if s['initial']]
    out, ctx_out = [], []
    ctx_cache = {}
    for e in entries[:1]:
        # only Init's block can be reached from an empty history; others need switches (scripts)
        words = _dfa_words(states, e)
        for s, w in words.items():
            st = states[s]
            out.append(list(w))
            for c in _state_reps(st):
                out.append(w + [c])
                out.append(w + [c, 0x7A])
            out.append(w + [0x7A])
            out.append(w + [0x7A, 0x7A])
            for (_val, ctx) in st['acc']:
                if ctx < 0:
                    continue
                if ctx not in ctx_cache:
                    cs = parse_dump_dfa(body, 'ctx%d' % ctx)
                    cw = []
                    if cs:
                        for cs_i, pre in _dfa_words(cs, 0).items():
                            cw.append(pre)
                            for c in _state_reps(cs[cs_i]):
                                cw.append(pre + [c])
                            cw.append(pre + [0x7A])
                    ctx_cache[ctx] = cw
                for cw in ctx_cache[ctx]:
                    ctx_out.append(w + cw)
    # dedupe, cap (the context-directed words get their own share of the budget)
    seen, res, res2 = set(), [], []
    for w in out:
        k = tuple(w)
        if k not in seen:
            seen.add(k)
            res.append(w)
    for w in ctx_out:
        k = tuple(w)
        if k not in seen:
            seen.add(k)
            res2.append(w)
    return res[:max_inputs] + res2[:max_inputs]


# ---------------------------------------------------------------------------------------------
# running cases


def write_cases(path, cases):
    """cases: list of dict(prog, id, ctor, ncalls, input, script, clones)"""
    with open(path, 'w') as f:
        for c in cases:
            f.write('%s %s %d %d ; %s ; %s ; %s\n' % (c['prog'], c['id'], c['ctor'], c['ncalls'],
                                                      ' '.join(map(str, c['input'])), ' '.join(map(str, c['script'])),
                                                      ' '.join(map(str, c.get('clones', [])))))


def parse_traces(text):
    """-> {(prog, cid): {'lines': [...], 'widths': {...}, 'clones': {k: [...]}, 'complete': bool}}"""
    out = {}
    cur = None
    clone = None
    for line in text.split('\n'):
        if line.startswith('TRACE '):
            _, prog, cid = line.split(' ', 2)
            cur = {'lines': [], 'widths': {}, 'clones': {}, 'complete': False}
            out[(prog, cid)] = cur
            clone = None
        elif cur is None:
            continue
        elif line == 'ENDTRACE':
            cur['complete'] = True
            cur = None
        elif line.startswith('W'):
            w = line.split()[1:]
            cur['widths'] = {int(w[i]): int(w[i + 1]) for i in range(0, len(w), 2)}
        elif line.startswith('CLONE '):
            clone = int(line.split()[1])
            cur['clones'][clone] = []
        elif line == 'ENDCLONE':
            clone = None
        elif line.startswith('CN '):
            cur['clones'][clone].append(line[1:])
        elif line.startswith('N '):
            cur['lines'].append(line)
    return out


def run_crate_cases(ws, crate, cases, workdir, timeout=120, target_dir=None, mode=None):
    """mode None: the cases in order on the main thread of one process; 'fresh_rev': in REVERSE order, each on a freshly spawned thread (thread-local
    state starts cold, process-wide state has seen other cases) — the traces of a case must not depend on which"""
    tdir = target_dir or os.path.join(ws, 'target')
    exe = os.path.join(tdir, 'debug', crate)
    cf = os.path.join(workdir, 'cases_%s%s.txt' % (crate, '_' + mode if mode else ''))
    env = dict(os.environ, LV_MODE=mode) if mode else None
    pending = list(cases)
    traces = {}
    hangs = []
    for attempt in range(4):
        if not pending:
            break
        write_cases(cf, pending)
        # a looping lexer is an outcome, not a reason to wait: the whole crate normally runs in about a second
        rc, out, secs = run([exe, cf], env=env, timeout=min(timeout, 40 if attempt == 0 else 15), max_gb=6)
        got = parse_traces(out)
        for k, v in got.items():
            if v['complete']:
                traces[k] = v
        if rc == 'timeout':
            # the first incomplete trace is the hanging case
            inc = [k for k, v in got.items() if not v['complete']]
            if inc:
                hangs.append(inc[0])
                traces[inc[0]] = {'lines': ['N HANG'], 'widths': {}, 'clones': {}, 'complete': True, 'hang': True}
            pending = [c for c in pending if (c['prog'], c['id']) not in traces]
        elif rc != 0:
            inc = [k for k, v in got.items() if not v['complete']]
            if inc:
                traces[inc[0]] = {'lines': ['N ABORT rc=%s' % rc], 'widths': {}, 'clones': {}, 'complete': True}
            pending = [c for c in pending if (c['prog'], c['id']) not in traces]
            if not inc:
                break
        else:
            pending = []
    return traces


def lexmodel_input(name, def_ls, dump_body, stage=True, cases=()):
    out = ['PROG ' + name]
    out += def_ls
    out.append('ENDDEF')
    if dump_body is not None:
        out.append('DUMP')
        out += dump_body
        out.append('ENDDUMP')
    if stage:
        out.append('STAGE')
    for c in cases:
        out.append('CASE %s %s %s %d ; %s ; %s ; %s' % (c['id'], c.get('mach', 'dump'), 'str' if c['ctor'] <= 1 else 'iter', c['ncalls'],
                                                       ' '.join(map(str, c['input'])), ' '.join(map(str, c['script'])),
                                                       ' '.join('%d %d' % kv for kv in sorted(c.get('widths', {}).items()))))
    return out


def run_lexmodel(lines, timeout=600):
    p = subprocess.run([LEXMODEL], input=('\n'.join(lines) + '\n').encode(), stdout=subprocess.PIPE, stderr=subprocess.PIPE, timeout=timeout)
    return p.returncode, p.stdout.decode('utf-8', 'replace'), p.stderr.decode('utf-8', 'replace')


def parse_lexmodel(text):
    """-> stage: {prog: [(check, ok, detail)]}, info: {prog: [str]}, traces: {(prog, cid): [lines]}, compile: {prog: str}"""
    stage, info, traces, comp = {}, {}, {}, {}
    cur = None
    for line in text.split('\n'):
        if line.startswith('STAGE '):
            w = line.split(' ', 4)
            stage.setdefault(w[1], []).append((w[2], w[3] == 'ok', w[4] if len(w) > 4 else ''))
        elif line.startswith('INFO '):
            w = line.split(' ', 2)
            info.setdefault(w[1], []).append(w[2])
        elif line.startswith('COMPILE '):
            w = line.split(' ', 2)
            comp[w[1]] = w[2]
        elif line.startswith('TRACE '):
            _, prog, cid = line.split(' ', 2)
            cur = []
            traces[(prog, cid)] = cur
        elif line == 'ENDTRACE':
            cur = None
        elif cur is not None and line.startswith('N '):
            cur.append(line)
    return stage, info, traces, comp


def repo_tree_hash():
    """hash of the source files the checks depend on (tracked and untracked) in /repo's working tree"""
    h = hashlib.sha256()
    for root in ['crates/lexgen/src', 'crates/lexgen_util/src', 'crates/char_range_gen/src']:
        base = os.path.join(REPO, root)
        for dp, dn, fns in sorted(os.walk(base)):
            dn.sort()
            for fn in sorted(fns):
                p = os.path.join(dp, fn)
                h.update(os.path.relpath(p, REPO).encode())
                h.update(open(p, 'rb').read())
    for fn in ['Cargo.toml', 'Cargo.lock', 'crates/lexgen/Cargo.toml', 'crates/lexgen_util/Cargo.toml', 'crates/char_range_gen/Cargo.toml']:
        p = os.path.join(REPO, fn)
        if os.path.exists(p):
            h.update(fn.encode())
            h.update(open(p, 'rb').read())
    return h.hexdigest()[:16]
