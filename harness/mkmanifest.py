#!/usr/bin/env python3
"""Writes MANIFEST.json from the per-property table below and the theorem lists found in lean/LexgenModel/Props."""
import json, os, subprocess, sys
HERE = os.path.dirname(os.path.abspath(__file__))
sys.path.insert(0, HERE)
VERIF = os.path.dirname(HERE)

TEXT = {
 'C01': ('§8-C01', 'maximal munch / first rule / rewind'),
 'C02': ('§8-C02', 'regex operators denote their languages'),
 'C03': ('§8-C03', 'rule-set isolation and entry numbering'),
 'C04': ('§8-C04', 'right contexts'),
 'C05': ('§8-C05', 'end-of-input protocol'),
 'C06': ('§8-C06', 'locations'),
 'C07': ('§8-C07', 'errors'),
 'C08': ('§8-C08', 'recovery'),
 'C09': ('§8-C09', 'termination / progress / no panic'),
 'C10': ('§8-C10', 'action protocol'),
 'C11': ('§8-C11', 'class algebra'),
 'C12': ('§8-C12', 'expansion'),
 'C13': ('§8-C13', 'built-in tables'),
 'C14': ('§8-C14', 'constructors'),
 'C15': ('§8-C15', 'clone'),
 'C16': ('§8-C16', 'parser'),
 'C17': ('§8-C17', 'static checks'),
 'C18': ('§8-C18', 'table generator'),
}

def main():
    import check
    thms = check.theorem_table()
    notes = json.load(open(os.path.join(HERE, 'levels.json')))
    commits = subprocess.run(['git', '-C', '/repo', 'log', '--format=%h %s'], stdout=subprocess.PIPE).stdout.decode().split('\n')
    hooks = [c.split()[0] for c in commits if c and 'verif hooks' in c]
    checks = []
    for p in check.ALL_PROPS:
        n = notes[p]
        level = 'proof' if thms[p] else 'translation_validation'
        checks.append({
            'property_id': p,
            'quick_cmd': 'bin/check %s --tier quick' % p,
            'thorough_cmd': 'bin/check %s --tier thorough' % p,
            'evidence_file': 'evidence/%s.json' % p,
            'replay_cmd_template': 'bin/check %s --replay {path}' % p,
            'engine': 'lean-model+correspondence',
            'level_claimed': {'category': level, 'text': n['text'], 'design_ref': 'DESIGN.md ' + TEXT[p][0]},
            'level_note': n['note'],
            'technique': n['technique'],
        })
    m = {
        'version': 1,
        'setup_cmd': 'bin/setup',
        'hooks': {'guard': 'cargo feature verif_hooks (crates lexgen and char_range_gen)',
                  'enable': 'harness crates depend on lexgen with features = ["verif_hooks"]; component servers run `cargo test --features verif_hooks`; dumps go to $LEXGEN_VERIF_DUMP_DIR',
                  'baseline_off_cmd': 'cd /repo && cargo test --workspace --no-fail-fast --offline',
                  'source_commits': hooks, 'add_only': True},
        'engines': [{'name': 'lean-model+correspondence', 'path': 'lean/ harness/ bin/check', 'serves_properties': check.ALL_PROPS,
                     'kind_free_text': 'Lean 4 model with theorems (lean/LexgenModel), tied to /repo by dump hooks, a Rust trace runner, component servers and regenerated table obligations; Python driver'}],
        'checks': checks,
        'not_applicable': [],
        'notes': 'See DESIGN.md. Every check: proof obligations (lake build + #print axioms audit), correspondence of the Lean model with /repo on the property slice, and on any break a failing-input search against the property oracle.',
    }
    json.dump(m, open(os.path.join(VERIF, 'MANIFEST.json'), 'w'), indent=1)
    print('MANIFEST.json written:', {c['property_id']: c['level_claimed']['category'] for c in checks})

main()
