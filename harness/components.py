"""Property-specific machinery: component protocols (RangeMap, parser, backtrack analysis, table
generator), expansion checks, built-in tables, ill-formed definitions, language-equivalent twins."""
import os, sys, json, random, subprocess, time, shutil, re, itertools

HERE = os.path.dirname(os.path.abspath(__file__))
sys.path.insert(0, HERE)
import corpus, pipeline, gen_defs, reflex
from lexast import (def_lines, print_re, re_tokens, print_tokens, render_tokens, tokens_for_lean, iv_norm, iv_diff, iv_contains, CHAR_MAX, is_scalar, rules_in_order)

VERIF = os.path.dirname(HERE)
LEAN = os.path.join(VERIF, 'lean')


def lexmodel_lines(lines, timeout=900):
    p = subprocess.run([corpus.LEXMODEL], input=('\n'.join(lines) + '\n').encode(), stdout=subprocess.PIPE, stderr=subprocess.PIPE, timeout=timeout)
    return p.stdout.decode('utf-8', 'replace').split('\n')


def component_server(package, ops_lines, timeout=900):
    """run the in-crate test server of /repo (feature verif_hooks) on a file of ops"""
    work = pipeline.scratch_dir()
    ops = os.path.join(work, 'ops_%s.txt' % package)
    out = os.path.join(work, 'out_%s.txt' % package)
    open(ops, 'w').write('\n'.join(ops_lines) + '\n')
    if os.path.exists(out):
        os.remove(out)
    env = corpus.cargo_env({'LEXGEN_VERIF_OPS': ops, 'LEXGEN_VERIF_OUT': out, 'CARGO_TARGET_DIR': os.path.join(pipeline.shared_target(), 'repo-tests')})
    rc, txt, secs = corpus.run(['cargo', 'test', '-q', '-p', package, '--features', 'verif_hooks', '--offline', 'verif_component_server'],
                               cwd=corpus.REPO, env=env, timeout=timeout)
    if rc != 0 or not os.path.exists(out):
        return None, 'component server failed (rc=%s): %s' % (rc, txt[-1500:])
    return open(out).read().split('\n'), None


# ---------------------------------------------------------------------------------------------
# C11: RangeMap operation sequences


def canon_maps(s):
    return [' '.join(x.split()) for x in s.split(';')]


def rm_ops_exhaustive(universe, max_len):
    """all operation sequences up to max_len over a small universe (values distinguish the ops)"""
    ranges = [(s, e) for s in range(universe) for e in range(s, universe)]
    single = []
    for (s, e) in ranges:
        single.append(('i', s, e))
    # removed/merged range lists: one or two sorted disjoint ranges
    lists = [[r] for r in ranges] + [[a, b] for a in ranges for b in ranges if a[1] < b[0]]
    for l in lists:
        single.append(('r', l))
        single.append(('m', l))
    return single


def rm_format(seq):
    parts = []
    for k, op in enumerate(seq):
        if op[0] == 'i':
            parts.append('i %d %d %d' % (op[1], op[2], k + 1))
        elif op[0] == 'm':
            parts.append('m %d %s' % (len(op[1]), ' '.join('%d %d %d' % (s, e, k + 1) for s, e in op[1])))
        else:
            parts.append('r %d %s' % (len(op[1]), ' '.join('%d %d' % (s, e) for s, e in op[1])))
    return ' ; '.join(parts)


def rm_oracle(seq):
    """set semantics as interval maps: value k+1 -> interval set; returns list of states (dict v -> ivs)"""
    cur = {}
    out = []
    for k, op in enumerate(seq):
        if op[0] == 'i':
            cur = dict(cur)
            cur[k + 1] = iv_norm(cur.get(k + 1, []) + [(op[1], op[2])])
        elif op[0] == 'm':
            cur = dict(cur)
            cur[k + 1] = iv_norm(cur.get(k + 1, []) + list(op[1]))
        else:
            cur = {v: iv_diff(ivs, iv_norm(list(op[1]))) for v, ivs in cur.items()}
        out.append(cur)
    return out


def rm_check_against_oracle(map_str, expected):
    """map_str: 's e [v,..] s e [..]' -> (wf, equal to expected)"""
    toks = map_str.split()
    ranges = []
    for i in range(0, len(toks), 3):
        s, e = int(toks[i]), int(toks[i + 1])
        vs = [int(x) for x in toks[i + 2].strip('[]').split(',') if x]
        ranges.append((s, e, vs))
    wf = all(s <= e for s, e, _ in ranges) and all(ranges[i][1] < ranges[i + 1][0] for i in range(len(ranges) - 1)) and all(vs for _, _, vs in ranges)
    got = {}
    for s, e, vs in ranges:
        for v in vs:
            got.setdefault(v, []).append((s, e))
    got = {v: iv_norm(ivs) for v, ivs in got.items()}
    exp = {v: ivs for v, ivs in expected.items() if ivs}
    return wf, got == exp



def class_expr_stream(tier, seed, builtins, log):
    """C11 on the macro's class evaluator (`regex_to_range_map`, `add_re` on sets): random class expressions over a DENSE small
    alphabet (so that set elements nest, overlap, repeat and touch), each compiled as `E = 0, _ = 1` and run on every boundary
    code point +-1 of the set the expression denotes; oracle = brute-force interval semantics (lexast.class_of via reflex)."""
    import check
    from lexast import class_of, CHAR_MAX
    rng = random.Random(seed * 31 + 1111)
    letters = [ord(c) for c in 'abcdefgh']
    far = [0, 1, 0x7F, 0x80, 0xD7FF, 0xE000, 0x10FFFE, 0x10FFFF]

    def pt():
        return rng.choice(far) if rng.random() < 0.06 else rng.choice(letters)

    def dense_set():
        items = []
        # now and then a LONG item list (13-20 items over the same small alphabet: heavy nesting and overlap): an evaluator may treat long
        # lists differently (sort-and-merge instead of one-by-one insertion)
        for _ in range(rng.randint(13, 20) if rng.random() < 0.15 else rng.randint(1, 5)):
            if rng.random() < 0.45:
                items.append(('c', pt()))
            else:
                a, b = sorted([pt(), pt()])
                items.append(('r', a, b))
        return ('set', items)

    def wide_set():
        # ten or more ranges: the generated code tests such a set by binary search over a table instead of a guard chain; borders at the
        # positions where code-point arithmetic is delicate (0, the surrogate gap, plane borders, char::MAX)
        marks = sorted(set(rng.choice([0x0, 0x7F, 0x80, 0x7FF, 0x800, 0xD7FF, 0xE000, 0xFFFF, 0x10000, 0x10FFFF, 0xD7FE, 0xE001, 0x10FFFE]) if rng.random() < 0.35
                           else rng.randint(0x100, 0x11000) for _ in range(rng.randint(22, 30))))
        marks = [m for m in marks if not 0xD800 <= m <= 0xDFFF]
        items = []
        for i in range(0, len(marks) - 1, 2):
            a, b = marks[i], marks[i + 1]
            if a < 0xD800 <= 0xDFFF < b:
                b = 0xD7FF
            items.append(('r', a, b) if rng.random() < 0.8 else ('c', a))
        return ('set', items)

    def leaf():
        k = rng.random()
        if k < 0.12:
            return wide_set()
        if k < 0.7:
            return dense_set()
        if k < 0.82:
            return ('chr', pt())
        if k < 0.9:
            return ('any',)
        return ('bi', rng.choice(['ascii_lowercase', 'ascii_hexdigit', 'ascii_alphabetic', 'ascii_punctuation', 'lowercase']))

    def expr(depth):
        if depth <= 0 or rng.random() < 0.25:
            return leaf()
        if rng.random() < 0.7:
            return ('diff', expr(depth - 1), expr(depth - 1))
        return ('alt', expr(depth - 1), expr(depth - 1))

    n = 60 if tier == 'quick' else 700
    progs, cases, expected = [], {}, {}
    tries = 0
    while len(progs) < n and tries < n * 20:
        tries += 1
        e = expr(rng.randint(1, 3))
        if rng.random() < 0.75 and e[0] != 'diff':
            e = ('diff', e, leaf())     # force the evaluator path (`#`), not the bracket-set path of add_re
        try:
            ivs = class_of(e, {}, builtins)
        except Exception:  # noqa
            continue
        if not ivs:
            continue                    # empty class: excluded by well-formedness
        name = 'Cls%d' % len(progs)
        # the class as a whole rule (its transitions lead to an accept-only state) or under `+` (they lead to a state with transitions of its
        # own: the generator emits different membership tests for the two)
        e_rule = e if len(progs) % 2 == 0 else ('plus', e)
        d = {'name': name, 'items': [('errortype',), ('rule', 'simple', e_rule, None), ('rule', 'simple', ('any',), None)]}
        if not gen_defs.well_formed(d, builtins):
            continue
        pts = set(letters + [ord('i'), ord('`'), 0, 0xD7FF, 0xE000, CHAR_MAX])
        prev_end = None
        for (a, b) in ivs[:60]:
            pts.update([a - 1, a, a + 1, b - 1, b, b + 1])
            if prev_end is not None:
                pts.add((prev_end + a) // 2)        # the middle of every hole
            prev_end = b
        # a neighbour inside the surrogate gap stands for the nearest scalar on the other side of it
        pts = set(0xE000 if (0xD800 <= c <= 0xDFFF and c - 1 in pts) else 0xD7FF if 0xD800 <= c <= 0xDFFF else c for c in pts)
        w = sorted(c for c in pts if 0 <= c <= CHAR_MAX and not (0xD800 <= c <= 0xDFFF))
        progs.append(d)
        cases[name] = [{'prog': name, 'id': 'w0', 'ctor': 0, 'ncalls': len(w) + 2, 'input': w, 'script': [], 'clones': []}]
        expected[name] = ivs
    status, traces, dumps = check.build_and_run(progs, cases)
    violations, n_ok, n_pts = [], 0, 0
    for d in progs:
        nm = d['name']
        if status[nm]['build'] != 'ok':
            if len(violations) < 6:
                violations.append({'definition': corpus.lexer_text(d), 'def_json': pipeline.def_to_json(d), 'input': None, 'script': None, 'site': 'expansion',
                                   'what': 'class expression does not expand/compile: ' + status[nm].get('detail', '')[:300]})
            continue
        c = cases[nm][0]
        t = traces.get((nm, 'w0'))
        if t is None:
            continue
        ref = reflex.RefLexer(d, builtins)
        rl = ref.run(c['input'], [], c['ncalls'], True, t['widths'])
        pa = pipeline.proj('C01', [pipeline.parse_line(l) for l in t['lines']])
        pb = pipeline.proj('C01', [pipeline.parse_line(l) for l in rl])
        n_pts += len(c['input'])
        if pa == pb:
            n_ok += 1
        elif len(violations) < 6:
            # shrink to the first misclassified code point
            bad = None
            for i, (x, y) in enumerate(zip(pa, pb)):
                if x != y:
                    bad = c['input'][i] if i < len(c['input']) else None
                    break
            violations.append({'definition': corpus.lexer_text(d), 'def_json': pipeline.def_to_json(d), 'input': [bad] if bad is not None else c['input'], 'script': [],
                               'what': 'class expression accepts a different set than its set semantics (code point %s misclassified); expected set %s' % (bad, expected[nm][:8]),
                               'actual': pa[:8], 'expected': pb[:8]})
    return violations, {'class_expression_programs': len(progs), 'class_expressions_exact': n_ok, 'class_boundary_points': n_pts}


def check_C11(tier, seed, res, builtins, log):
    rng = random.Random(seed + 11)
    universe = 6 if tier == 'quick' else 7
    single = rm_ops_exhaustive(universe, 1)
    seqs = []
    # exhaustive length <= 2 over the small universe (thorough: a seeded slice of length 3 as well)
    for a in single:
        seqs.append([a])
    ins = [o for o in single if o[0] == 'i']
    for a in single:
        for b in single:
            if a[0] != 'r':
                seqs.append([a, b])
    n_exh = len(seqs)
    n3 = 4000 if tier == 'quick' else 120000
    for _ in range(n3):
        ln = rng.choice([3, 3, 4, 5])
        seqs.append([rng.choice(single) for _ in range(ln)])
    # random over the full code-point range
    pts = [0, 1, 0x7F, 0x80, 0xD7FF, 0xD800, 0xDFFF, 0xE000, 0x10FFFE, 0x10FFFF]
    nfull = 3000 if tier == 'quick' else 60000
    for _ in range(nfull):
        seq = []
        for _ in range(rng.randint(1, 6)):
            def rp():
                return rng.choice(pts) if rng.random() < 0.3 else rng.randint(0, 0x10FFFF) if rng.random() < 0.3 else rng.randint(0, 40)
            k = rng.random()
            if k < 0.5:
                a, b = sorted([rp(), rp()])
                seq.append(('i', a, b))
            else:
                n = rng.randint(1, 4)
                xs = sorted(set(rp() for _ in range(2 * n)))
                xs = xs[:len(xs) // 2 * 2]
                l = [(xs[i], xs[i + 1]) for i in range(0, len(xs), 2)]
                l = [l[0]] + [l[i] for i in range(1, len(l)) if l[i][0] > l[i - 1][1]] if l else []
                # keep strictly separated
                l2 = []
                for r in l:
                    if not l2 or r[0] > l2[-1][1]:
                        l2.append(r)
                if not l2:
                    continue
                seq.append(('r' if k < 0.75 else 'm', l2))
        if seq:
            seqs.append(seq)
    lines = [rm_format(s) for s in seqs]
    impl, err = component_server('lexgen', ['rangemap ' + l for l in lines])
    if impl is None:
        return {'unresolved': [{'site': 'component server rangemap', 'what': err, 'no_failing_input': True, 'definition': None, 'input': None, 'script': None}]}
    model = lexmodel_lines(['RM ' + l for l in lines])
    violations, unresolved = [], []
    n_dis = 0
    distinct = set()
    for i, seq in enumerate(seqs):
        il = impl[i][len('rangemap'):] if impl[i].startswith('rangemap') else None
        ml = model[i][len('RM'):] if i < len(model) and model[i].startswith('RM') else None
        if il is None:
            continue
        ic = canon_maps(il)
        distinct.add(tuple(ic))
        exp = rm_oracle(seq)
        bad = None
        if 'PANIC' in il:
            bad = 'RangeMap operation panicked'
        else:
            for k, st in enumerate(exp):
                if k >= len(ic):
                    bad = 'missing output for op %d' % k
                    break
                wf, eq = rm_check_against_oracle(ic[k], st)
                if not wf:
                    bad = 'malformed map after op %d: %s' % (k, ic[k])
                    break
                if not eq:
                    bad = 'wrong contents after op %d: %s, expected %s' % (k, ic[k], st)
                    break
        if bad and len(violations) < 5:
            violations.append({'definition': None, 'site': 'RangeMap', 'input': lines[i], 'script': None, 'what': bad, 'actual': il, 'ops': lines[i]})
        elif not bad and ml is not None and canon_maps(ml) != ic:
            n_dis += 1
            if len(unresolved) < 3:
                unresolved.append({'definition': None, 'site': 'RangeMap model', 'input': lines[i], 'script': None, 'no_failing_input': True,
                                   'what': 'correspondence no longer checks: RangeMap model and implementation differ on `%s`: impl %s model %s (both satisfy the set semantics)' % (lines[i], il, ml)})
    cov = {'evaluations': len(seqs), 'distinct_nontrivial': len(distinct), 'exhaustive_small_universe_sequences': n_exh,
           'rangemap_model_disagreements': n_dis, 'samples': [{'ops': lines[len(lines) // 2], 'result': impl[len(lines) // 2]}]}
    # the macro's own class evaluator on random class expressions, every boundary code point
    v2, cov2 = class_expr_stream(tier, seed, builtins, log)
    violations += v2
    cov.update(cov2)
    cov['evaluations'] += cov2['class_boundary_points']
    return {'violations': violations, 'unresolved': unresolved, 'coverage': cov,
            'assumptions': ['RangeMap driven through the in-crate test server (feature verif_hooks) of /repo']}


# ---------------------------------------------------------------------------------------------
# C18: table generator


def tg_oracle(bs):
    """maximal runs of scalars where the predicate (flip at each boundary) holds"""
    f_true = []
    pts = sorted(set(bs))
    # intervals of code points where the number of boundaries <= c is odd
    ivs = []
    cnt = 0
    allb = sorted(bs)
    i = 0
    # boundaries may repeat (a repeated boundary flips twice)
    uniq = sorted(set(allb))
    state = False
    prev = 0
    for b in uniq:
        k = allb.count(b)
        if state and b > prev:
            ivs.append((prev, b - 1))
        if k % 2 == 1:
            state = not state
        prev = b
    if state:
        ivs.append((prev, CHAR_MAX))
    ivs = iv_norm(ivs)
    # restrict to scalars; runs continue across the gap
    out = []
    for s, e in ivs:
        if 0xD800 <= s <= 0xDFFF:
            s = 0xE000
        if 0xD800 <= e <= 0xDFFF:
            e = 0xD7FF
        if s > e:
            continue
        out.append((s, e))
    merged = []
    for s, e in out:
        if merged and (s == merged[-1][1] + 1 or (merged[-1][1] == 0xD7FF and s == 0xE000)):
            merged[-1] = (merged[-1][0], e)
        else:
            merged.append((s, e))
    return merged


def check_C18(tier, seed, res, builtins, log):
    positions = [0, 1, 0xD7FF, 0xE000, 0x10FFFE, 0x10FFFF] if tier == 'quick' else [0, 1, 65, 0xD7FE, 0xD7FF, 0xE000, 0xE001, 0x10FFFE, 0x10FFFF]
    maxb = 3 if tier == 'quick' else 4
    cases = [[]]
    for k in range(1, maxb + 1):
        for comb in itertools.combinations(positions, k):
            cases.append(list(comb))
    # boundaries inside the gap (the predicate is never asked about them)
    cases += [[0xD800], [0xD7FF, 0xD900], [0xDFFF, 0xE001], [0xD800, 0xDFFF], [100, 0xDABC, 0xF000]]
    # random boundary lists over the WHOLE scalar range (uniform, plane borders, powers of two, the critical positions):
    # a generator that treats some region specially (skips it, batches it) is wrong exactly for predicates that change inside it
    rng = random.Random(seed + 18)
    borders = [k * 0x10000 + d for k in range(1, 17) for d in (-1, 0, 1)] + [2 ** k + d for k in range(1, 21) for d in (-1, 0, 1)] + positions
    n_exact = len(cases)
    for _ in range(150 if tier == 'quick' else 3000):
        bs = set()
        for _ in range(rng.randint(1, 6)):
            r = rng.random()
            bs.add(rng.choice(borders) if r < 0.35 else rng.randint(0, 0x10FFFF) if r < 0.85 else rng.randint(0, 0x400))
        cases.append(sorted(b for b in bs if 0 <= b <= 0x10FFFF))
    # run/hole lists: a start, then alternating run and hole WIDTHS drawn from the widths that matter in this domain (1, 2, the width of the
    # surrogate gap and its neighbours, plane and byte sizes, powers of two +-1) or at random: a generator that decides contiguity by a
    # DISTANCE (instead of by "the previous scalar satisfied the predicate") is wrong exactly for holes of a special width
    widths = [1, 2, 3, 0x7FF, 0x800, 0x801, 0x802, 0xFF, 0x100, 0x101, 0xFFFF, 0x10000, 0x10001, 0x7F, 0x80, 0x81] + [2 ** k + d for k in (4, 10, 12, 15) for d in (-1, 0, 1)]
    for _ in range(120 if tier == 'quick' else 3000):
        r = rng.random()
        pos = rng.choice(borders) if r < 0.3 else rng.randint(0, 0x10FFFF) if r < 0.8 else rng.choice([0, 0xD7FF - rng.choice(widths), 0xE000, 0xE000 + rng.choice(widths)])
        bs = []
        for k in range(rng.randint(2, 7)):
            if not 0 <= pos <= 0x10FFFF:
                break
            bs.append(pos)
            pos += rng.choice(widths) if rng.random() < 0.7 else rng.randint(1, 0x3000)
        cases.append(sorted(set(bs)))
    ops = ['gen ' + ' '.join(map(str, c)) for c in cases]
    names = ['ALPHABETIC', 'ALPHANUMERIC', 'ASCII', 'ASCII_ALPHABETIC', 'ASCII_ALPHANUMERIC', 'ASCII_CONTROL', 'ASCII_DIGIT', 'ASCII_GRAPHIC',
             'ASCII_HEXDIGIT', 'ASCII_LOWERCASE', 'ASCII_PUNCTUATION', 'ASCII_UPPERCASE', 'ASCII_WHITESPACE', 'CONTROL', 'LOWERCASE', 'NUMERIC',
             'UPPERCASE', 'WHITESPACE', 'XID_START', 'XID_CONTINUE']
    ops += ['real ' + n for n in names]
    impl, err = component_server('char_range_gen', ops)
    if impl is None:
        return {'unresolved': [{'site': 'component server char_range_gen', 'what': err, 'no_failing_input': True, 'definition': None, 'input': None, 'script': None}]}
    model = lexmodel_lines(['TG ' + ' '.join(map(str, c)) for c in cases], timeout=3000)
    preds, perr = enumerate_predicates()
    violations, unresolved = [], []
    distinct = set()
    for i, c in enumerate(cases):
        got = [int(x) for x in impl[i].split()[1:]]
        got = [(got[j], got[j + 1]) for j in range(0, len(got), 2)]
        distinct.add(tuple(got))
        exp = tg_oracle(c)
        if got != exp:
            if len(violations) < 5:
                violations.append({'definition': None, 'site': 'generate_char_fn_ranges', 'input': c, 'script': None,
                                   'what': 'predicate flipping at %s: generator emits %s, the maximal scalar ranges are %s' % (c, got[:6], exp[:6]), 'actual': got[:20], 'expected': exp[:20]})
            continue
        m = [int(x) for x in model[i].split()[1:]] if i < len(model) and model[i].startswith('TG') else None
        if m is not None:
            m = [(m[j], m[j + 1]) for j in range(0, len(m), 2)]
            if m != got and len(unresolved) < 3:
                unresolved.append({'definition': None, 'site': 'TableGen model', 'input': c, 'script': None, 'no_failing_input': True,
                                   'what': 'correspondence no longer checks: TableGen model %s vs implementation %s for boundaries %s' % (m[:6], got[:6], c)})
    # the 20 real predicates: generator output = independent enumeration
    name_map = {'ALPHABETIC': 'alphabetic', 'ALPHANUMERIC': 'alphanumeric', 'ASCII': 'ascii', 'ASCII_ALPHABETIC': 'ascii_alphabetic',
                'ASCII_ALPHANUMERIC': 'ascii_alphanumeric', 'ASCII_CONTROL': 'ascii_control', 'ASCII_DIGIT': 'ascii_digit', 'ASCII_GRAPHIC': 'ascii_graphic',
                'ASCII_HEXDIGIT': 'ascii_hexdigit', 'ASCII_LOWERCASE': 'ascii_lowercase', 'ASCII_PUNCTUATION': 'ascii_punctuation',
                'ASCII_UPPERCASE': 'ascii_uppercase', 'ASCII_WHITESPACE': 'ascii_whitespace', 'CONTROL': 'control', 'LOWERCASE': 'lowercase',
                'NUMERIC': 'numeric', 'UPPERCASE': 'uppercase', 'WHITESPACE': 'whitespace', 'XID_START': 'XID_Start', 'XID_CONTINUE': 'XID_Continue'}
    if preds is not None:
        for j, n in enumerate(names):
            got = [int(x) for x in impl[len(cases) + j].split()[1:]]
            got = [(got[k], got[k + 1]) for k in range(0, len(got), 2)]
            if got != preds[name_map[n]] and len(violations) < 5:
                violations.append({'definition': None, 'site': 'generate_char_fn_ranges(' + n + ')', 'input': n, 'script': None,
                                   'what': 'real predicate %s: generator output differs from exhaustive enumeration' % n})
    cov = {'evaluations': len(cases) + len(names), 'distinct_nontrivial': len(distinct), 'exhaustive': True, 'exhaustive_cases': n_exact, 'random_boundary_lists': len(cases) - n_exact, 'run_hole_lists_with_special_widths': 120 if tier == 'quick' else 3000,
           'rule': 'all predicates defined by <= %d boundaries placed at %s, plus boundaries inside the surrogate gap, plus random boundary lists over the whole scalar range (uniform, plane borders, powers of two), plus run/hole lists whose widths include the surrogate-gap width and its neighbours, plus the 20 real predicates; distinct by output' % (maxb, positions),
           'samples': [{'boundaries': cases[min(9, len(cases) - 1)], 'output': impl[min(9, len(cases) - 1)]}]}
    return {'violations': violations, 'unresolved': unresolved, 'coverage': cov}


_pred_cache = None


def enumerate_predicates():
    """{builtin name: [(s, e)..]} by exhaustive enumeration with the installed toolchain"""
    global _pred_cache
    if _pred_cache is not None:
        return _pred_cache, None
    work = pipeline.scratch_dir()
    src = os.path.join(HERE, 'enum_preds')
    dst = os.path.join(work, 'enum_preds')
    if os.path.exists(dst):
        shutil.rmtree(dst)
    shutil.copytree(src, dst)
    lock = os.path.join(corpus.REPO, 'Cargo.lock')
    if os.path.exists(lock):
        shutil.copy(lock, os.path.join(dst, 'Cargo.lock'))
    env = corpus.cargo_env({'CARGO_TARGET_DIR': os.path.join(pipeline.shared_target(), 'enum')})
    p = subprocess.run(['cargo', 'run', '-q', '--offline', '--release'], cwd=dst, env=env, stdout=subprocess.PIPE, stderr=subprocess.PIPE)
    if p.returncode != 0:
        return None, p.stderr.decode()[-1000:]
    out = {}
    for line in p.stdout.decode().split('\n'):
        w = line.split()
        if not w:
            continue
        nums = [int(x) for x in w[1:]]
        out[w[0]] = [(nums[i], nums[i + 1]) for i in range(0, len(nums), 2)]
    _pred_cache = out
    return out, None


# ---------------------------------------------------------------------------------------------
# C13: built-in classes


def write_predicates_lean(preds):
    path = os.path.join(LEAN, 'LexgenModel', 'Generated', 'Predicates.lean')
    lines = ['/-! GENERATED by harness/components.py: ranges of the Rust predicates, enumerated over all scalar values', '    with the installed toolchain — do not edit. -/',
             'namespace Lexgen.Generated', '']
    for name in sorted(preds):
        lines.append('def pred_%s : List (Nat × Nat) := [' % name)
        chunk = ['(%d, %d)' % p for p in preds[name]]
        for i in range(0, len(chunk), 8):
            lines.append('  ' + ', '.join(chunk[i:i + 8]) + (',' if i + 8 < len(chunk) else ''))
        lines.append(']')
        lines.append('')
    lines.append('def predicates : List (String × List (Nat × Nat)) := [')
    lines.append(',\n'.join('  ("%s", pred_%s)' % (n, n) for n in sorted(preds)))
    lines.append(']')
    lines.append('')
    lines.append('end Lexgen.Generated')
    txt = '\n'.join(lines) + '\n'
    old = open(path).read() if os.path.exists(path) else None
    if old != txt:
        open(path, 'w').write(txt)


def check_C13(tier, seed, res, builtins, log):
    violations, unresolved = [], []
    preds, perr = enumerate_predicates()
    if preds is None:
        return {'unresolved': [{'site': 'predicate enumeration', 'what': 'cannot enumerate predicates: ' + str(perr), 'no_failing_input': True, 'definition': None, 'input': None, 'script': None}]}
    write_predicates_lean(preds)
    # (1) kernel-checked obligations: tables canonical and equal to the enumerated predicates
    p = subprocess.run(['lake', 'build', 'LexgenModel.Generated.TablesCheck'], cwd=LEAN, stdout=subprocess.PIPE, stderr=subprocess.STDOUT)
    table_ok = p.returncode == 0
    # (2) direct oracle: which code points differ (concrete failing inputs)
    bad_points = {}
    for name in preds:
        tab = iv_norm(builtins.get(name, []))
        # compare as scalar sets
        pr = preds[name]
        a = iv_diff(iv_diff(tab, pr), [(0xD800, 0xDFFF)])
        b = iv_diff(iv_diff(pr, tab), [(0xD800, 0xDFFF)])
        if a or b or name not in builtins:
            bad_points[name] = (a[:3], b[:3])
    for name, (a, b) in list(bad_points.items())[:5]:
        c = a[0][0] if a else b[0][0]
        violations.append({'definition': 'lexer! { L -> u32; $$%s = 0, _ = 1, }' % name, 'site': 'table ' + name, 'input': [c], 'script': None,
                           'what': 'built-in %s: table and Rust predicate differ at U+%04X (table-only %s, predicate-only %s)' % (name, c, a, b)})
    if not table_ok and not bad_points:
        unresolved.append({'site': 'Generated/TablesCheck.lean', 'definition': None, 'input': None, 'script': None, 'no_failing_input': True,
                           'what': 'regenerated table obligations no longer check: ' + p.stdout.decode('utf-8', 'replace')[-1200:]})
    # (3) generated lexers: every built-in alone, split by an overlapping rule, and as right context, on all end points +-1
    rng = random.Random(seed + 13)
    progs, cases = [], {}
    order = sorted(preds)
    if tier == 'quick':
        sel = ['alphabetic', 'lowercase', 'numeric', 'XID_Continue', 'uppercase', 'whitespace', 'ascii_punctuation', 'ascii_hexdigit', 'control', 'alphanumeric']
    else:
        sel = order
    R = gen_defs.rule
    for i, name in enumerate(sel):
        bi = ('bi', name)
        d1 = {'name': 'BiA%d' % i, 'items': [('errortype',), R('simple', bi), R('simple', ('any',))]}
        d2 = {'name': 'BiB%d' % i, 'items': [('errortype',), R('simple', ('cat', bi, ('chr', 33))), R('simple', ('set', [('r', 0x61, 0x66), ('c', 0x4E2D), ('r', 0x3B1, 0x3B5)])),
                                             R('simple', bi), R('simple', ('any',))]}
        d3 = {'name': 'BiC%d' % i, 'items': [('errortype',), R('simple', ('chr', 0x23), bi), R('simple', ('chr', 0x23), ('cat', bi, ('chr', 33))), R('simple', ('any',))]}
        pts = set()
        for s, e in preds[name] + builtins.get(name, []):
            pts.update([s - 1, s, e, e + 1])
        pts = sorted(p for p in pts if is_scalar(p))
        if tier == 'quick' and len(pts) > 1200:
            pts = sorted(rng.sample(pts, 1200))
        inp1 = pts
        inp2 = [x for p_ in pts[:400] for x in (p_, 33)] + pts[:200]
        inp3 = [x for p_ in pts[:600] for x in (0x23, p_)] + [x for p_ in pts[:200] for x in (0x23, p_, 33)]
        # one state reached from two different states over two different large classes (each compiled to a table)
        other = {'alphabetic': 'alphanumeric', 'lowercase': 'alphabetic', 'numeric': 'alphanumeric', 'XID_Continue': 'XID_Start',
                 'uppercase': 'alphabetic', 'alphanumeric': 'alphabetic', 'XID_Start': 'XID_Continue'}.get(name)
        extra = []
        if other is not None:
            bo = ('bi', other)
            d4 = {'name': 'BiD%d' % i, 'items': [('errortype',), R('simple', ('cat', ('alt', ('cat', ('chr', 0x23), bo), bi), ('star', bo))),
                                                 R('simple', ('chr', 32))]}
            pts4 = set()
            for s_, e_ in preds[name] + preds[other]:
                pts4.update([s_ - 1, s_, e_, e_ + 1])
            pts4 = sorted(p_ for p_ in pts4 if is_scalar(p_))
            if tier == 'quick' and len(pts4) > 700:
                pts4 = sorted(rng.sample(pts4, 700))
            inp4 = [x for p_ in pts4 for x in (p_, 32, 0x23, p_, 32, p_, p_, 32)]
            extra.append((d4, inp4))
        for d, inp in [(d1, inp1), (d2, inp2), (d3, inp3)] + extra:
            progs.append(d)
            cases[d['name']] = [{'prog': d['name'], 'id': 'all', 'ctor': 0, 'ncalls': len(inp) + 2, 'input': inp, 'script': [], 'clones': []}]
    # (4) built-ins combined with other classes (`|`, `#`, complement), so that the generated tables contain ranges no built-in has
    # on its own (e.g. a range across the ASCII / non-ASCII border, ranges up to char::MAX), in table-forcing positions
    from lexast import class_of
    combos = [('alt', ('bi', 'control'), ('bi', 'alphabetic')), ('diff', ('any',), ('bi', 'alphabetic')), ('diff', ('any',), ('bi', 'lowercase')),
              ('alt', ('bi', 'numeric'), ('set', [('r', 0x70, 0x90), ('r', 0x7F0, 0x810), ('r', 0xFFF0, 0x10010)])),
              ('diff', ('alt', ('bi', 'alphanumeric'), ('set', [('r', 0x20, 0xFF)])), ('bi', 'uppercase')),
              ('diff', ('any',), ('alt', ('bi', 'XID_Continue'), ('bi', 'whitespace')))]
    if tier != 'quick':
        combos += [('diff', ('any',), ('bi', nm)) for nm in order if len(preds[nm]) > 9][:12]
    # differences `$$a # $$b` of two built-ins, chosen so that every way a range of b can lie relative to the ranges of a occurs: b's range
    # inside one range of a, covering one or several ranges of a entirely, overhanging a range of a on the left / on the right INTO the next
    # range(s) of a, sharing an end point with it, touching it. (Which pairs show which geometry is computed from the tables themselves.)
    def geometry(ra, rb):
        cats = set()
        for (bs, be) in rb:
            hit = [(s_, e_) for (s_, e_) in ra if not (e_ < bs or be < s_)]
            if not hit:
                continue
            first, last = hit[0], hit[-1]
            cats.add('n%d' % min(len(hit), 3))
            cats.add('L' + ('in' if bs > first[0] else 'eq' if bs == first[0] else 'out'))
            cats.add('R' + ('in' if be < last[1] else 'eq' if be == last[1] else 'out'))
            if len(hit) >= 2 and bs > first[0]:
                cats.add('starts-inside-runs-into-next')
            if len(hit) >= 2 and be < last[1]:
                cats.add('ends-inside-after-covering')
            if bs == first[1] or be == last[0]:
                cats.add('one-point-overlap')
        return cats
    need, chosen = {}, []
    names13 = [nm for nm in order]
    pairs13 = [(a_, b_) for a_ in names13 for b_ in names13 if a_ != b_]
    geo = {pr_: geometry(preds[pr_[0]], preds[pr_[1]]) for pr_ in pairs13}
    allcats = set().union(*geo.values()) if geo else set()
    for cat in sorted(allcats):
        have = [pr_ for pr_ in chosen if cat in geo[pr_]]
        cands = sorted((pr_ for pr_ in pairs13 if cat in geo[pr_] and pr_ not in chosen), key=lambda pr_: (len(preds[pr_[0]]) + len(preds[pr_[1]]), pr_))
        for pr_ in cands[: max(0, 2 - len(have))]:
            chosen.append(pr_)
    for (a_, b_) in chosen[: (10 if tier == 'quick' else 40)]:
        try:
            if class_of(('diff', ('bi', a_), ('bi', b_)), {}, preds):
                combos.append(('diff', ('bi', a_), ('bi', b_)))
        except Exception:  # noqa
            pass
    for i, ce in enumerate(combos):
        try:
            ivs = class_of(ce, {}, preds)
        except Exception:  # noqa
            continue
        pts = set([0x7E, 0x7F, 0x80, 0x81, 0x7FF, 0x800, 0xFFFF, 0x10000, 0x10FFFF, 0])
        for s_, e_ in ivs:
            pts.update([s_ - 1, s_, s_ + 1, (s_ + e_) // 2, e_ - 1, e_, e_ + 1])
        pts = sorted(p_ for p_ in pts if is_scalar(p_))
        if tier == 'quick' and len(pts) > 900:
            pts = sorted(set(rng.sample(pts, 900) + [p_ for p_ in pts if p_ < 0x900]))
        d5 = {'name': 'BiE%d' % i, 'items': [('errortype',), R('simple', ('cat', ce, ('chr', 33))), R('simple', ('any',))]}
        d6 = {'name': 'BiF%d' % i, 'items': [('errortype',), R('simple', ('chr', 0x23), ('cat', ce, ('chr', 33))), R('simple', ('plus', ce)), R('simple', ('any',))]}
        inp5 = [x for p_ in pts for x in (p_, 33)]
        inp6 = [x for p_ in pts[:500] for x in (0x23, p_, 33)] + pts
        for d, inp in ((d5, inp5), (d6, inp6)):
            progs.append(d)
            cases[d['name']] = [{'prog': d['name'], 'id': 'all', 'ctor': 0, 'ncalls': len(inp) + 2, 'input': inp, 'script': [], 'clones': []}]
    status, traces, dumps = __import__('check').build_and_run(progs, cases, timeout=900)
    n_chars = 0
    shapes = {'table': 0, 'guards': 0}
    for d in progs:
        nm = d['name']
        if status[nm]['build'] != 'ok':
            violations.append({'definition': corpus.lexer_text(d), 'def_json': pipeline.def_to_json(d), 'site': 'expansion', 'input': None, 'script': None,
                               'what': 'built-in lexer does not build: ' + status[nm].get('detail', '')[:300]})
            continue
        dd = dumps[nm]
        code = ' '.join(dd['code'])
        if '_binary_search' in code:
            shapes['table'] += 1
        else:
            shapes['guards'] += 1
        c = cases[nm][0]
        it = traces.get((nm, 'all'))
        if it is None:
            continue
        ref = reflex.RefLexer(d, preds)  # oracle: the Rust predicates themselves
        rl = ref.run(c['input'], [], c['ncalls'], True, it['widths'])
        pil = [pipeline.parse_line(l) for l in it['lines']]
        prl = [pipeline.parse_line(l) for l in rl]
        n_chars += len(c['input'])
        pa, pb = pipeline.proj('C01', pil), pipeline.proj('C01', prl)
        if pa != pb and len(violations) < 8:
            k = next(i for i, (x, y) in enumerate(zip(pa + [None], pb + [None])) if x != y)
            sb = pa[k][2] if k < len(pa) else 0
            # find the char at that byte
            pos, ch, around = 0, None, c['input'][:8]
            for idx, cp in enumerate(c['input']):
                if pos == sb:
                    ch = cp
                    around = c['input'][idx:idx + 4]
                    break
                pos += reflex.utf8_len(cp)
            violations.append({'definition': corpus.lexer_text(d), 'def_json': pipeline.def_to_json(d), 'input': around, 'script': [],
                               'what': 'built-in class lexer differs from the Rust predicate at token %d (char %s): got %s expected %s' % (k, ch, pa[k] if k < len(pa) else None, pb[k] if k < len(pb) else None)})
    cov = {'evaluations': n_chars, 'distinct_nontrivial': len(progs), 'programs': len(progs), 'table_obligations_ok': table_ok,
           'lookup_shapes': shapes, 'tables_differing_from_predicates': sorted(bad_points),
           'rule': 'per built-in: used alone, split by overlapping rules, and as right context; built-ins combined with other classes by | and # (tables with ranges no built-in has alone); inputs = every range end point, its neighbours and a midpoint, plus the UTF-8 length borders',
           'samples': [{'builtin': sel[0], 'definition': corpus.lexer_text(progs[0]), 'input_prefix': cases[progs[0]['name']][0]['input'][:10]}]}
    return {'violations': violations, 'unresolved': unresolved, 'coverage': cov,
            'assumptions': ['the predicate ranges are enumerated from the installed toolchain (char::is_*, unicode-xid), not proved']}


# ---------------------------------------------------------------------------------------------
# C12: expansion


def check_C12(tier, seed, res, builtins, log):
    violations, unresolved = [], []
    n = 0
    times = []
    for nm, pr in res['programs'].items():
        n += 1
        if pr['build'] != 'ok':
            violations.append({'definition': pr['text'], 'def_json': pr['json'], 'input': None, 'script': None, 'site': 'expansion',
                               'what': 'well-formed definition does not expand/compile (%s): %s' % (pr['build'], pr['detail'][:400])})
            continue
        if not pr['dump_complete']:
            unresolved.append({'definition': pr['text'], 'def_json': pr['json'], 'input': None, 'script': None, 'site': 'dump', 'no_failing_input': True,
                               'what': 'expansion dump incomplete although the build succeeded'})
        if pr['double'] == 'differs':
            violations.append({'definition': pr['text'], 'def_json': pr['json'], 'input': None, 'script': None, 'site': 'determinism',
                               'what': 'two expansions of the same definition produce different code'})
        if pr['time_ms'] is not None:
            times.append(pr['time_ms'])
            if pr['time_ms'] > 10000:
                violations.append({'definition': pr['text'], 'def_json': pr['json'], 'input': None, 'script': None, 'site': 'time',
                                   'what': 'expansion took %d ms' % pr['time_ms']})
        for (chk, ok, detail) in pr['stage']:
            if not ok and (chk.startswith('compile') or chk.startswith('flags.model') or chk == 'dump'):
                unresolved.append({'definition': pr['text'], 'def_json': pr['json'], 'input': None, 'script': None, 'site': 'stage ' + chk, 'no_failing_input': True,
                                   'what': 'correspondence no longer checks: ' + chk + ' ' + detail[:400]})
    # compile shapes: several lexers with tables in one module, every context shape
    shapes, extra = compile_shapes()
    status, traces, dumps = __import__('check').build_and_run_extra(shapes, extra)
    for d in shapes:
        st = status[d['name']]
        if st['build'] != 'ok':
            violations.append({'definition': corpus.lexer_text(d) + ''.join('\n' + corpus.lexer_text(e) for e in extra.get(d['name'], [])),
                               'def_json': pipeline.def_to_json(d), 'input': None, 'script': None, 'site': 'expansion',
                               'what': 'well-formed definition (shape list) does not expand/compile (%s): %s' % (st['build'], st.get('detail', '')[:400])})
    # definitions the static rules accept but outside the well-formed fragment (`$` away from the tail, rules matching the empty string):
    # the behavioural properties do not quantify over them, C12 does — expansion must finish and the output must compile
    # (the model's counterpart: `compileLexer_no_internal` holds for EVERY definition with non-inverted bracket ranges)
    lrng = random.Random(seed + 1212)
    lgen = gen_defs.Gen(lrng, builtins)
    c_ = gen_defs.chr_
    loose = [{'name': 'LooseF%d' % i, 'items': [('errortype',)] + its} for i, its in enumerate([
        [gen_defs.rule('simple', ('cat', gen_defs.str_('end'), ('cat', gen_defs.EOI, ('opt', c_('\n'))))), gen_defs.rule('simple', gen_defs.ANY)],
        [gen_defs.rule('simple', ('cat', c_('a'), ('cat', gen_defs.EOI, c_('b')))), gen_defs.rule('simple', c_('b'))],
        [gen_defs.rule('simple', ('cat', gen_defs.str_('end'), ('cat', gen_defs.EOI, ('alt', gen_defs.EOI, c_('!')))))],
        [('ruleset', 'Init', [gen_defs.rule('infallible', c_('x'))]), ('ruleset', 'R1', [gen_defs.rule('simple', ('cat', c_('a'), ('cat', gen_defs.EOI, c_('b')))), gen_defs.rule('simple', ('star', c_('c')))])],
        [gen_defs.rule('simple', ('plus', ('alt', gen_defs.EOI, c_('b')))), gen_defs.rule('simple', c_('a'), ('cat', ('opt', gen_defs.EOI), c_('c')))],
        [gen_defs.rule('simple', ('star', c_('a'))), gen_defs.rule('none', ('opt', gen_defs.str_('bc')))],
    ])]
    for i in range(18 if tier == 'quick' else 150):
        loose.append(gen_defs.loose_definition(lgen, 'LooseR%d' % i))
    lstatus, _lt, _ld = __import__('check').build_and_run_extra(loose, {})
    for d in loose:
        st = lstatus[d['name']]
        if st['build'] != 'ok':
            violations.append({'definition': corpus.lexer_text(d), 'def_json': pipeline.def_to_json(d), 'input': None, 'script': None, 'site': 'expansion',
                               'what': 'statically acceptable definition (outside the well-formed fragment: `$` away from the tail or an empty-matching rule) does not expand/compile (%s): %s' % (st['build'], st.get('detail', '')[:400])})
    v5, n_hv = check_header_variants(log)
    violations += v5
    dbl = [pr['double'] for pr in res['programs'].values() if pr['double']]
    cov = {'programs': n + len(shapes) + n_hv + len(loose), 'evaluations': n + len(shapes) + n_hv + len(loose), 'header_variants_compiled': n_hv, 'accepted_but_not_well_formed_compiled': len(loose), 'distinct_nontrivial': len(set(tuple(pr['def']) for pr in res['programs'].values())),
           'double_expansions_compared': len(dbl), 'double_expansions_equal': dbl.count('same'),
           'expansion_ms_max': max(times) if times else None, 'expansion_ms_median': sorted(times)[len(times) // 2] if times else None,
           'rule': 'every corpus definition expanded by rustc under a watchdog; %d re-expanded into a second dump and compared (code text and artefacts); compile-shape list' % len(dbl),
           'samples': [{'definition': res['programs'][k]['text'], 'time_ms': res['programs'][k]['time_ms']} for k in list(res['programs'])[:2]]}
    return {'violations': violations[:8], 'unresolved': unresolved[:4], 'coverage': cov,
            'assumptions': ['rustc accepting the generated code and wall-clock time are observed on the corpus, not proved']}



def header_variant_modules():
    """raw-text lexer definitions that vary what the corpus keeps fixed — user state (none, plain, with lifetimes, two lifetimes), token and
    error types with and without `'input`, visibility, attributes — each combined with ALL FOUR rule kinds, a right context and rule sets.
    Every module must compile on a correct tree (C12: the generated code compiles whatever the header)."""
    rules = """
        rule Init {
            [' ' '\\t'],
            'a' = %(TOK_A)s,
            'b'+ > 'c' = %(TOK_A)s,
            ['c'-'e']+ => |lexer| { let m = lexer.match_(); %(USE_STATE)s lexer.return_(%(TOK_M)s) },
            ['0'-'9']+ =? |lexer| { let m = lexer.match_(); if m.len() > 3 { lexer.return_(Err(%(ERR_M)s)) } else { lexer.return_(Ok(%(TOK_M)s)) } },
            '[' => |lexer| lexer.switch(%(NAME)sRule::In),
        }
        rule In {
            ']' => |lexer| lexer.switch_and_return(%(NAME)sRule::Init, %(TOK_A)s),
            'x' = %(TOK_A)s,
            _ ,
        }
    """
    flat = """
        [' ' '\\t'],
        'a' = %(TOK_A)s,
        'b'+ > ('c' | $) = %(TOK_A)s,
        ['c'-'e']+ => |lexer| { let m = lexer.match_(); %(USE_STATE)s lexer.return_(%(TOK_M)s) },
        ['0'-'9']+ =? |lexer| { let m = lexer.match_(); if m.len() > 3 { lexer.return_(Err(%(ERR_M)s)) } else { lexer.return_(Ok(%(TOK_M)s)) } },
    """
    variants = []
    states = [('', '', ''), ('(u32)', '', '*lexer.state() += 1;'), ("(Buf<'a>)", "pub struct Buf<'a> { pub b: &'a mut String }", 'lexer.state().b.push_str(m);'),
              ("(Two<'a, 'b>)", "pub struct Two<'a, 'b> { pub x: &'a str, pub y: &'b mut usize }", '*lexer.state().y += lexer.state().x.len();')]
    toks = [('Tok', "#[derive(Debug, Clone, PartialEq)] pub enum Tok { A, M(usize) }", 'Tok::A', 'Tok::M(m.len())'),
            ("TokI<'input>", "#[derive(Debug, Clone, PartialEq)] pub enum TokI<'i> { A, M(&'i str) }", 'TokI::A', 'TokI::M(m)')]
    errs = [('u32', '', '7u32'), ("ErrI<'input>", "#[derive(Debug, Clone, PartialEq)] pub struct ErrI<'i>(pub &'i str);", 'ErrI(m)')]
    vis = ['', 'pub ', 'pub(crate) ']
    k = 0
    for si, (st_hdr, st_decl, use_state) in enumerate(states):
        for ti, (tok_ty, tok_decl, tok_a, tok_m) in enumerate(toks):
            for ei, (err_ty, err_decl, err_m) in enumerate(errs):
                for body_kind, body in (('sets', rules), ('flat', flat)):
                    name = 'Hv%d' % k
                    sub = {'TOK_A': tok_a, 'TOK_M': tok_m, 'ERR_M': err_m, 'USE_STATE': use_state, 'NAME': name}
                    attr = '#[derive(Debug)]\n        ' if (k % 3 == 0 and 'mut' not in st_decl) else ''
                    text = ('#![allow(dead_code, unused)]\nuse lexgen::lexer;\n%s\n%s\n%s\nlexer! {\n        %s%s%s%s -> %s;\n        type Error = %s;\n%s\n}\n'
                            % (st_decl, tok_decl, err_decl, attr, vis[k % 3], name, st_hdr, tok_ty, err_ty, body % sub))
                    variants.append((name, 'state=%s token=%s error=%s body=%s vis=%r' % (st_hdr or 'none', tok_ty, err_ty, body_kind, vis[k % 3]), text))
                    k += 1
    return variants


def check_header_variants(log):
    """compile (cargo check) every header variant with the real macro; returns (violations, n)"""
    work = pipeline.scratch_dir()
    ws = os.path.join(work, 'ws_hv')
    if os.path.exists(ws):
        shutil.rmtree(ws)
    os.makedirs(os.path.join(ws, 'hv', 'src'))
    open(os.path.join(ws, 'Cargo.toml'), 'w').write('[workspace]\nresolver = "2"\nmembers = ["hv"]\n[profile.dev]\ndebug = 0\n')
    lock = os.path.join(corpus.REPO, 'Cargo.lock')
    if os.path.exists(lock):
        shutil.copy(lock, os.path.join(ws, 'Cargo.lock'))
    open(os.path.join(ws, 'hv', 'Cargo.toml'), 'w').write(
        '[package]\nname = "hv"\nversion = "0.1.0"\nedition = "2021"\n[dependencies]\nlexgen = { path = "%s/crates/lexgen", features = ["verif_hooks"] }\n'
        'lexgen_util = { path = "%s/crates/lexgen_util" }\n' % (corpus.REPO, corpus.REPO))
    variants = header_variant_modules()
    for name, _desc, text in variants:
        open(os.path.join(ws, 'hv', 'src', name.lower() + '.rs'), 'w').write(text)
    open(os.path.join(ws, 'hv', 'src', 'lib.rs'), 'w').write('\n'.join('mod %s;' % name.lower() for name, _, _ in variants) + '\n')
    env = corpus.cargo_env({'CARGO_TARGET_DIR': pipeline.shared_target()})
    rc, out, secs = corpus.run(['cargo', 'check', '--offline', '-q', '-p', 'hv', '--message-format', 'short'], cwd=ws, env=env, timeout=900)
    violations = []
    if rc != 0:
        bad = {}
        for m in re.finditer(r'hv/src/(hv\d+)\.rs:\d+:\d+: error[^\n]*', out):
            bad.setdefault(m.group(1), m.group(0))
        for name, desc, text in variants:
            if name.lower() in bad and len(violations) < 4:
                violations.append({'definition': text, 'input': None, 'script': None, 'site': 'expansion (header variants)',
                                   'what': 'well-formed definition does not compile (%s): %s' % (desc, bad[name.lower()][:300])})
        if not violations:
            violations.append({'definition': None, 'input': None, 'script': None, 'site': 'expansion (header variants)',
                               'what': 'header-variant crate does not build: ' + out[-500:]})
    shutil.rmtree(ws, ignore_errors=True)
    return violations, len(variants)


def compile_shapes():
    R = gen_defs.rule
    c = gen_defs.chr_
    shapes, extra = [], {}
    # two and three lexers with binary-search tables in one module
    a = {'name': 'TwoA', 'items': [('errortype',), R('simple', ('plus', ('bi', 'alphabetic')))]}
    b = {'name': 'TwoB', 'items': [('errortype',), R('simple', ('plus', ('bi', 'lowercase'))), R('simple', c('a'), ('bi', 'numeric'))]}
    b2 = {'name': 'TwoC', 'items': [('errortype',), R('simple', ('plus', ('bi', 'alphabetic')))]}
    shapes.append(a)
    extra['TwoA'] = [b, b2]
    # context shapes
    ctxs = [gen_defs.str_('bc'), ('cat', c('b'), ('star', c('c'))), ('alt', gen_defs.str_('bc'), c('d')), ('plus', gen_defs.str_('ab')),
            ('cat', ('bi', 'alphabetic'), c('!')), ('cat', ('star', ('any',)), c('x')), ('opt', gen_defs.str_('xyz')), ('cat', c('b'), ('eoi',)),
            ('cat', ('set', [('r', 0x61, 0x7A), ('c', 0x5F)]), ('set', [('r', 0x30, 0x39)])), ('diff', ('any',), c('q'))]
    for i, cx in enumerate(ctxs):
        shapes.append({'name': 'CtxShape%d' % i, 'items': [('errortype',), R('simple', c('a'), cx), R('simple', ('any',))]})
    # repeated characters in sets, large built-ins, many rule sets
    shapes.append({'name': 'RepSet', 'items': [('errortype',), R('simple', gen_defs.set_('a', 'a', 'b', ('a', 'c'), 'b'))]})
    # nested postfix operators (each combination allocates and links its loop/option states differently)
    a_, b_ = c('a'), c('b')
    nest = [('opt', ('star', a_)), ('star', ('opt', a_)), ('opt', ('plus', a_)), ('plus', ('opt', a_)), ('star', ('star', a_)), ('opt', ('opt', a_)), ('plus', ('star', a_)),
            ('star', ('plus', a_)), ('opt', ('alt', ('star', a_), b_)), ('star', ('cat', ('opt', a_), ('opt', b_))), ('alt', ('opt', a_), ('opt', a_)), ('cat', ('opt', ('star', a_)), ('opt', ('star', a_)))]
    for i, r_ in enumerate(nest):
        shapes.append({'name': 'PostfixNest%d' % i, 'items': [('errortype',), R('simple', ('cat', c('<'), ('cat', r_, c('>')))), R('simple', ('any',))]})
    shapes.append({'name': 'ManySets', 'items': [('errortype',)] + [('ruleset', 'Init' if i == 0 else 'S%d' % i, [R('infallible', c(chr(97 + i))), R('simple', ('bi', 'XID_Continue'))]) for i in range(6)]})
    return shapes, extra


# ---------------------------------------------------------------------------------------------
# C02: language-equivalent twins


def rewrite_equiv(r, rng):
    """a regex denoting the same language"""
    t = r[0]
    if t == 'plus':
        x = rewrite_equiv(r[1], rng)
        return ('cat', x, ('star', x)) if rng.random() < 0.7 else ('plus', x)
    if t == 'alt':
        a, b = rewrite_equiv(r[1], rng), rewrite_equiv(r[2], rng)
        return ('alt', b, a) if rng.random() < 0.7 else ('alt', a, b)
    if t == 'str' and len(r[1]) >= 2:
        out = ('chr', r[1][0])
        for ch in r[1][1:]:
            out = ('cat', out, ('chr', ch))
        return out
    if t == 'opt':
        x = rewrite_equiv(r[1], rng)
        return ('alt', x, ('opt', x)) if rng.random() < 0.3 else ('opt', x)
    if t == 'star':
        x = rewrite_equiv(r[1], rng)
        return ('opt', ('plus', x)) if rng.random() < 0.5 else ('star', x)
    if t == 'cat':
        return ('cat', rewrite_equiv(r[1], rng), rewrite_equiv(r[2], rng))
    if t == 'set' and len(r[1]) >= 2 and rng.random() < 0.5:
        items = list(r[1])
        out = ('set', [items[0]])
        for it in items[1:]:
            out = ('alt', out, ('set', [it]))
        return out
    return r


def small_trees(max_size):
    """all regex trees with at most `max_size` nodes over the leaves 'a', 'b' and the operators * + ? concatenation |"""
    by_size = {1: [('chr', 97), ('chr', 98)]}
    for n in range(2, max_size + 1):
        out = []
        for t in by_size[n - 1]:
            for op in ('star', 'plus', 'opt'):
                out.append((op, t))
        for k in range(1, n - 1):
            for l in by_size[k]:
                for r in by_size[n - 1 - k]:
                    out.append(('cat', l, r))
                    out.append(('alt', l, r))
        by_size[n] = out
    return [t for n in sorted(by_size) for t in by_size[n]]


def exhaustive_small_regexes(tier, builtins, log):
    """every small regex tree T as the lexer `'<' T '>' = 0`: expanded by the real macro (cargo check, dump
    hooks) and compared with the model's DFA for every string (product exploration)"""
    import check
    trees = small_trees(5 if tier == 'quick' else 6)
    R = gen_defs.rule
    defs = [{'name': 'T%d' % i, 'items': [('errortype',), R('simple', ('cat', ('cat', ('chr', 60), t), ('chr', 62)))]} for i, t in enumerate(trees)]
    work = pipeline.scratch_dir()
    ws = os.path.join(work, 'ws_trees')
    dump = os.path.join(work, 'dump_trees')
    shutil.rmtree(dump, ignore_errors=True)
    byname = {d['name']: d for d in defs}
    crates = corpus.write_workspace(ws, defs, per_crate=max(40, len(defs) // 16 + 1))
    status, blog = corpus.build_workspace(ws, crates, dump, byname, timeout=1200, mode='check', target_dir=os.path.join(pipeline.shared_target(), 'trees'))
    lines = []
    for d in defs:
        dd = corpus.split_dump(corpus.read_dump(dump, d['name']))
        if dd is not None:
            dls, dd = corpus.canon_actions(def_lines(d, True), dd)
            lines += corpus.lexmodel_input(d['name'], dls, dd['body'], True, [])
    rc, out, err = corpus.run_lexmodel(lines, timeout=3000)
    stage, info, _, _ = corpus.parse_lexmodel(out)
    shutil.rmtree(ws, ignore_errors=True)
    failures = []
    for d in defs:
        nm = d['name']
        if status.get(nm, {}).get('build') != 'ok':
            failures.append((d, 'expansion', status.get(nm, {}).get('detail', '')[:200], []))
            continue
        for (chk, ok, detail) in stage.get(nm, []):
            if not ok and (chk.startswith('bisim') or chk in ('compile', 'dump')):
                failures.append((d, chk, detail[:300], check.words_of_detail(detail)))
                break
        if nm not in stage:
            failures.append((d, 'stage', 'no stage result', []))
    return len(defs), failures


def check_C02(tier, seed, res, builtins, log):
    rng = random.Random(seed + 2)
    g = gen_defs.Gen(rng, builtins, unicode_p=0.03)
    n = 14 if tier == 'quick' else 120
    progs, cases, pairs = [], {}, []
    for i in range(n):
        d = g.definition('EqA%d' % i, scripted_p=0.0, ctx_p=0.15, max_rules=4, depth=3, n_sets=0)
        items2 = []
        lets = []
        for k, it in enumerate(d['items']):
            if it[0] == 'rule':
                re2 = rewrite_equiv(it[2], rng)
                if rng.random() < 0.4:
                    vn = 'q%d' % k
                    lets.append(('let', vn, re2))
                    re2 = ('var', vn)
                items2.append(('rule', it[1], re2, it[3]))
            else:
                items2.append(it)
        d2 = {'name': 'EqB%d' % i, 'items': [items2[0]] + lets + items2[1:]}
        if not gen_defs.well_formed(d2, builtins):
            continue
        inputs = gen_defs.gen_inputs(rng, d, builtins, n_random=10, exhaustive_len=4 if tier == 'thorough' else 3, max_alpha=3)
        for dd in (d, d2):
            progs.append(dd)
            cases[dd['name']] = [{'prog': dd['name'], 'id': 'w%d' % j, 'ctor': 0, 'ncalls': len(w) + 2, 'input': w, 'script': [], 'clones': []} for j, w in enumerate(inputs)]
        pairs.append((d, d2))
    status, traces, dumps = __import__('check').build_and_run(progs, cases)
    violations, unresolved = [], []
    n_cmp = 0
    for d, d2 in pairs:
        if status[d['name']]['build'] != 'ok' or status[d2['name']]['build'] != 'ok':
            bad = d if status[d['name']]['build'] != 'ok' else d2
            violations.append({'definition': corpus.lexer_text(bad), 'def_json': pipeline.def_to_json(bad), 'input': None, 'script': None, 'site': 'expansion',
                               'what': 'definition does not build: ' + status[bad['name']].get('detail', '')[:300]})
            continue
        ref = reflex.RefLexer(d, builtins)
        for c in cases[d['name']]:
            a = traces.get((d['name'], c['id']))
            b = traces.get((d2['name'], c['id']))
            if a is None or b is None:
                continue
            n_cmp += 1
            if a['lines'] != b['lines'] and len(violations) < 6:
                x, y = pipeline.first_diff(a['lines'], b['lines'])
                violations.append({'definition': corpus.lexer_text(d) + '\n// language-equivalent rewriting:\n' + corpus.lexer_text(d2), 'def_json': pipeline.def_to_json(d),
                                   'input': c['input'], 'script': [], 'what': 'language-equivalent regexes are not interchangeable', 'actual': x, 'expected': y})
            rl = ref.run(c['input'], [], c['ncalls'], True, a['widths'])
            pa = pipeline.proj('C01', [pipeline.parse_line(l) for l in a['lines']])
            pb = pipeline.proj('C01', [pipeline.parse_line(l) for l in rl])
            if pa != pb and len(violations) < 6:
                violations.append({'definition': corpus.lexer_text(d), 'def_json': pipeline.def_to_json(d), 'input': c['input'], 'script': [],
                                   'what': 'tokens differ from the derivative-based reference matcher', 'actual': pa[:6], 'expected': pb[:6]})
    # bounded-exhaustive stream: every small regex tree, compared for every string
    n_trees, failures = exhaustive_small_regexes(tier, builtins, log)
    import check
    for i, (d, chk, detail, words) in enumerate(failures[:6]):
        v = None
        if i < 3 and chk != 'expansion':
            try:
                v = check.search_failing_input('C01', pipeline.def_to_json(d), words, builtins, rng, budget=300)
            except Exception as e:  # noqa
                log('search failed: %r' % (e,))
        if v is not None:
            violations.append(v)
        elif chk == 'expansion':
            violations.append({'definition': corpus.lexer_text(d), 'def_json': pipeline.def_to_json(d), 'input': None, 'script': None, 'site': 'expansion',
                               'what': 'small regex tree does not expand/compile: ' + detail})
        else:
            unresolved.append({'definition': corpus.lexer_text(d), 'def_json': pipeline.def_to_json(d), 'input': None, 'script': None, 'site': 'stage ' + chk,
                               'no_failing_input': True, 'what': 'correspondence no longer checks: %s %s' % (chk, detail)})
    # class operators (`|`, `#`, `_`, sets, built-ins) denote exact sets: the class-expression stream of C11, here as a C02 obligation
    v3, cov3 = class_expr_stream(tier, seed + 5, builtins, log)
    violations += v3[:4]
    cov = {'programs': len(progs) + n_trees + cov3['class_expression_programs'], 'evaluations': n_cmp + n_trees + cov3['class_boundary_points'], 'distinct_nontrivial': len(pairs) + n_trees,
           'class_expression_programs': cov3['class_expression_programs'], 'class_expressions_exact': cov3['class_expressions_exact'],
           'exhaustive_small_trees': n_trees, 'small_tree_failures': len(failures),
           'samples': [{'base': corpus.lexer_text(pairs[0][0]), 'rewritten': corpus.lexer_text(pairs[0][1])}] if pairs else [{}]}
    return {'violations': violations, 'unresolved': unresolved[:4], 'coverage': cov}


# ---------------------------------------------------------------------------------------------
# C16: parser


def def_text_for_parser(d, redundant=None):
    """a whole definition as the text handed to `make_lexer_parser` (semantic actions are trivial)"""
    out = ['L -> u32;']
    for it in d['items']:
        if it[0] == 'errortype':
            out.append('type Error = u32;')
        elif it[0] == 'let':
            out.append('let %s = %s;' % (it[1], print_re(it[2], 0, redundant)))
        elif it[0] == 'rule':
            out.append(rule_text_plain(it, redundant))
        elif it[0] == 'ruleset':
            out.append('rule %s {' % it[1])
            for x in it[2]:
                if x[0] == 'let':
                    out.append('let %s = %s;' % (x[1], print_re(x[2], 0, redundant)))
                else:
                    out.append(rule_text_plain(x, redundant))
            out.append('}')
    return ' '.join(out)


def rule_text_plain(it, redundant):
    lhs = print_re(it[2], 0, redundant)
    if it[3] is not None:
        lhs += ' > ' + print_re(it[3], 0, redundant)
    kind = it[1]
    if kind == 'none':
        return lhs + ','
    if kind == 'simple':
        return lhs + ' = 1,'
    if kind == 'infallible':
        return lhs + ' => |l| l.continue_(),'
    return lhs + ' =? |l| l.continue_(),'


def expected_parse(d, expr_of=None):
    """what the parse op of the component server prints for a definition: the AST, and for every rule its kind and the index of its
    right-hand side in the semantic action table (assigned in source order)"""
    out = ['OK']
    idx = [0]

    def rule_s(x):
        ex = (expr_of or (lambda kind, k: {'none': '-', 'simple': '1'}.get(kind, '|l|l.continue_()')))(x[1], idx[0])
        s = ' '.join(['rule', 're'] + re_tokens(x[2], []) + ((['ctx'] + re_tokens(x[3], [])) if x[3] is not None else []) + ['kind', x[1], 'rhs', str(idx[0]), 'expr', ex])
        idx[0] += 1
        return s
    for it in d['items']:
        if it[0] == 'errortype':
            out.append('errortype')
        elif it[0] == 'let':
            out.append(' '.join(['let', it[1]] + re_tokens(it[2], [])))
        elif it[0] == 'rule':
            out.append(rule_s(it))
        else:
            out.append('ruleset %s {' % it[1])
            for x in it[2]:
                if x[0] == 'let':
                    out.append(' '.join(['let', x[1]] + re_tokens(x[2], [])))
                else:
                    out.append(rule_s(x))
            out.append('}')
    return ' | '.join(out)


def random_tree(rng, depth, g):
    """arbitrary regex trees (not necessarily well-formed lexers: the parser does not care)"""
    if depth <= 0:
        k = rng.random()
        if k < 0.3:
            return ('chr', g.char())
        if k < 0.45:
            return ('str', [g.char() for _ in range(rng.randint(1, 3))])
        if k < 0.6:
            return g.set_()
        if k < 0.7:
            return ('any',)
        if k < 0.78:
            return ('eoi',)
        if k < 0.9:
            return ('var', rng.choice(['x', 'y', 'id_']))
        return ('bi', rng.choice(['alphabetic', 'ascii_digit']))
    k = rng.random()
    if k < 0.25:
        return ('cat', random_tree(rng, depth - 1, g), random_tree(rng, depth - 1, g))
    if k < 0.45:
        return ('alt', random_tree(rng, depth - 1, g), random_tree(rng, depth - 1, g))
    if k < 0.55:
        return ('star', random_tree(rng, depth - 1, g))
    if k < 0.65:
        return ('plus', random_tree(rng, depth - 1, g))
    if k < 0.75:
        return ('opt', random_tree(rng, depth - 1, g))
    if k < 0.9:
        return ('diff', random_tree(rng, depth - 1, g), random_tree(rng, depth - 1, g))
    return random_tree(rng, 0, g)


def fix_dollar_adjacency(r):
    """`$ $x` cannot be printed (it reads as `$$x`); `$` followed by an identifier reads as a
    variable. Replace an `eoi` that is directly followed by a var/builtin in a concatenation."""
    return r


def printable(r):
    """trees whose minimal printing is ambiguous at the token level are excluded:
    an `eoi` immediately followed (in a concatenation) by something starting with `$` or an identifier"""
    def first_tok(x):
        t = x[0]
        if t in ('var', 'bi', 'eoi'):
            return '$'
        if t in ('cat', 'alt', 'diff'):
            return first_tok(x[1]) if True else None
        if t in ('star', 'plus', 'opt'):
            return first_tok(x[1])
        return 'o'

    def last_is_eoi(x, min_level):
        t = x[0]
        from lexast import level_of
        if level_of(x) < min_level:
            return False  # parenthesised
        if t == 'eoi':
            return True
        if t in ('cat', 'alt', 'diff'):
            return last_is_eoi(x[2], {'cat': 2, 'alt': 1, 'diff': 4}[t])
        return False

    def ok(x):
        t = x[0]
        if t == 'cat':
            if last_is_eoi(x[1], 1) and first_tok(x[2]) == '$' and not (__import__('lexast').level_of(x[2]) < 2):
                return False
            return ok(x[1]) and ok(x[2])
        if t in ('alt', 'diff'):
            return ok(x[1]) and ok(x[2])
        if t in ('star', 'plus', 'opt'):
            return ok(x[1])
        return True
    return ok(r)


def check_C16(tier, seed, res, builtins, log):
    rng = random.Random(seed + 16)
    g = gen_defs.Gen(rng, builtins, unicode_p=0.1)
    n = 1500 if tier == 'quick' else 30000
    defs, texts, expect = [], [], []
    while len(defs) < n:
        t = random_tree(rng, rng.randint(0, 4), g)
        c = random_tree(rng, rng.randint(0, 2), g) if rng.random() < 0.3 else None
        if not printable(t) or (c is not None and not printable(c)):
            continue
        d = {'name': 'L', 'items': [('let', 'x', random_tree(rng, 1, g)), ('rule', rng.choice(['none', 'simple', 'infallible', 'fallible']), t, c)]}
        if not printable(d['items'][0][2]):
            continue
        if rng.random() < 0.3:
            d['items'] = [('ruleset', 'Init', d['items'])]
        defs.append(d)
    lines = []
    for d in defs:
        lines.append('parse ' + def_text_for_parser(d, None))
        lines.append('parse ' + def_text_for_parser(d, rng))
    # single regexes as token lists: minimal, redundant, and random token soups (mostly malformed),
    # for the Lean parser model against the real parser
    tok_cases = []
    for d in defs[: n // 2]:
        it = d['items'][-1] if d['items'][-1][0] == 'rule' else d['items'][0][2][-1]
        tok_cases.append((print_tokens(it[2], 0, None), it[2]))
        tok_cases.append((print_tokens(it[2], 0, rng), it[2]))
    alphabet = [('(',), (')',), ('[',), (']',), ('$',), ('id', 'x'), ('c', 97), ('c', 98), ('s', [97, 98]), ('_',), ('|',), ('*',), ('+',), ('?',), ('#',), ('-',)]
    for _ in range(n // 2):
        k = rng.randint(1, 7)
        soup = [rng.choice(alphabet) for _ in range(k)]
        # keep delimiters balanced (an unbalanced group is rejected by rustc's own lexer before the macro sees it)
        depth, ok = [], True
        for t in soup:
            if t[0] in '([':
                depth.append(t[0])
            elif t[0] in ')]':
                if not depth or (depth[-1] == '(') != (t[0] == ')'):
                    ok = False
                    break
                depth.pop()
        if ok and not depth:
            tok_cases.append((soup, None))
    n_def_lines = len(lines)
    for toks, _tree in tok_cases:
        lines.append('parse L -> u32; ' + render_tokens(toks) + ' = 1,')
    impl, err = component_server('lexgen', lines)
    if impl is None:
        return {'unresolved': [{'site': 'component server parse', 'what': err, 'no_failing_input': True, 'definition': None, 'input': None, 'script': None}]}
    model = lexmodel_lines(['PARSE ' + tokens_for_lean(toks) + ' =' for toks, _ in tok_cases])
    violations, unresolved = [], []
    distinct = set()
    for i, d in enumerate(defs):
        exp = expected_parse(d)
        distinct.add(exp)
        for k in (0, 1):
            got = impl[2 * i + k]
            got = got[len('parse '):] if got.startswith('parse ') else got
            if ' '.join(got.split()) != ' '.join(exp.split()) and len(violations) < 6:
                violations.append({'definition': lines[2 * i + k][len('parse '):], 'site': 'parser', 'input': None, 'script': None,
                                   'what': 'the parser reads a %s printing of a tree as a different tree' % ('minimal' if k == 0 else 'redundantly parenthesised'),
                                   'actual': got, 'expected': exp})
    n_model_agree = 0
    n_soup_accept = 0
    for j, (toks, tree) in enumerate(tok_cases):
        got = impl[n_def_lines + j]
        got = got[len('parse '):] if got.startswith('parse ') else got
        # normalise the real parser's verdict: 'OK | rule re <tokens>' -> 'ok <tokens>'; ERR/PANIC -> 'err'
        if got.startswith('OK'):
            body = got.split('|', 1)[1] if '|' in got else ''
            body = body.split(' kind ')[0]          # the rule kind / action index suffix is compared on whole definitions only
            real = 'ok ' + ' '.join(body.split()[2:]) if '|' in got else 'err'
        else:
            real = 'err'
        m = model[j][len('PARSE '):].strip() if j < len(model) and model[j].startswith('PARSE ') else None
        if tree is not None:
            exp = 'ok ' + ' '.join(re_tokens(tree, []))
            if real != exp and len(violations) < 8:
                violations.append({'definition': lines[n_def_lines + j][len('parse '):], 'site': 'parser', 'input': None, 'script': None,
                                   'what': 'the parser reads a printing of a tree as a different tree', 'actual': real, 'expected': exp})
                continue
        elif real.startswith('ok'):
            n_soup_accept += 1
        if m is not None and m == real:
            n_model_agree += 1
        elif m is not None and len(unresolved) < 3:
            unresolved.append({'definition': lines[n_def_lines + j][len('parse '):], 'site': 'Parser model', 'input': None, 'script': None, 'no_failing_input': True,
                               'what': 'correspondence no longer checks: Lean parser model `%s` vs real parser `%s` on tokens `%s`' % (m, real, tokens_for_lean(toks))})
    # the real macro path: dumped ASTs of the shared corpus equal the generator's trees
    n_ast = 0
    for nm, pr in res['programs'].items():
        if pr['build'] == 'ok' and pr['dump_complete']:
            n_ast += 1
            if not pr['ast_equal'] and len(violations) < 8:
                violations.append({'definition': pr['text'], 'def_json': pr['json'], 'site': 'macro parser', 'input': None, 'script': None,
                                   'what': 'the macro parsed the definition into a different tree', 'actual': pr['ast_dump'][:12], 'expected': pr['def'][:12]})
    v4, u4, cov4 = defparser_stream(tier, seed, builtins, log)
    violations += v4
    unresolved += u4
    cov = {'evaluations': 2 * len(defs) + n_ast + len(tok_cases) + cov4.get('definition_parser_cases', 0), 'distinct_nontrivial': len(distinct), 'programs': n_ast,
           'definition_parser_cases': cov4.get('definition_parser_cases'), 'definition_parser_agreements': cov4.get('definition_parser_agreements'),
           'definition_parser_verdicts': cov4.get('definition_parser_verdicts'),
           'parser_model_cases': len(tok_cases), 'parser_model_agreements': n_model_agree, 'token_soups_accepted_by_both': n_soup_accept,
           'rule': 'random regex trees printed with minimal and with random redundant parentheses, parsed by the real parser (in-crate server, real syn tokenisation); plus dumped ASTs of the corpus on the macro path',
           'samples': [{'text': lines[0][6:], 'parsed': impl[0][:200]}]}
    return {'violations': violations, 'unresolved': unresolved, 'coverage': cov,
            'assumptions': ['syn/proc_macro2 tokenisation is outside the model']}



# ---------------------------------------------------------------------------------------------
# C16: the parser of whole definitions (Model/ParserDef.lean) against the real `make_lexer_parser`


def _dt_render(tok):
    from lexast import char_lit, str_lit
    if tok.startswith('c:'):
        return char_lit(int(tok[2:]))
    if tok.startswith('s:'):
        return str_lit([int(x) for x in tok[2:].split(',') if x])
    if tok.startswith('id:'):
        return tok[3:]
    if tok.startswith('e:'):
        return 'T%s' % tok[2:]
    if tok.startswith('attr:'):
        return '#[a%s]' % tok[5:]
    if tok.startswith('vis:'):
        return 'pub'
    return tok


def _dt_regex(r, rng):
    """regex tree -> PARSEDEF tokens (minimal or randomly redundant parentheses), via the token printer used for PARSE"""
    return tokens_for_lean(print_tokens(r, 0, rng)).split()


def _dt_def(d, rng, redundant):
    toks = ['id:L', '->', 'e:0', ';']
    n = [0]

    def rb(it):
        if it[0] == 'let':
            return ['let', 'id:' + it[1], '='] + _dt_regex(it[2], redundant) + [';']
        t = _dt_regex(it[2], redundant)
        if it[3] is not None:
            t += ['>'] + _dt_regex(it[3], redundant)
        n[0] += 1
        return t + {'none': [','], 'simple': ['=', 'e:%d' % n[0], ','], 'fallible': ['=', '?', 'e:%d' % n[0], ','], 'infallible': ['=>', 'e:%d' % n[0], ',']}[it[1]]
    for it in d['items']:
        if it[0] == 'errortype':
            toks += ['type', 'id:Error', '=', 'e:99', ';']
        elif it[0] == 'ruleset':
            toks += ['id:rule', 'id:' + it[1], '{']
            for x in it[2]:
                toks += rb(x)
            toks += ['}'] + ([','] if rng.random() < 0.3 else [])
        else:
            toks += rb(it)
    return toks


def _dt_balanced(t):
    st = []
    m = {')': '(', ']': '[', '}': '{'}
    for x in t:
        if x in ('(', '[', '{'):
            st.append(x)
        elif x in m:
            if not st or st[-1] != m[x]:
                return False
            st.pop()
    return not st


def _dt_e_canonical(t):
    """opaque expression/type tokens stand where the real parser asks syn for an expression or a type (elsewhere `T3` would be read as an identifier)"""
    for i, x in enumerate(t):
        if x.startswith('e:'):
            prev = t[i - 1] if i else ''
            nxt = t[i + 1] if i + 1 < len(t) else ''
            if not ((prev in ('=', '=>', '?') and nxt == ',') or (prev == '->' and nxt == ';') or (prev == '=' and nxt == ';' and i >= 3 and t[i - 3] == 'type')):
                return False
    return True


def _dt_positions_canonical(t):
    """the converse: wherever the real parser asks syn for an EXPRESSION or a TYPE there is exactly one opaque token, followed by the
    delimiter. Rust's own expression and type grammars are outside the model: `= rule ,`, `= 'a' ,`, `= _ = T2 ,`, `type Error = _ ;` are all
    accepted by syn, and a mutation can produce them."""
    n = len(t)
    for i, x in enumerate(t):
        if x == '=>':
            if not (i + 2 < n and t[i + 1].startswith('e:') and t[i + 2] == ','):
                return False
        elif x == '=':
            if i >= 2 and t[i - 2] == 'let' and t[i - 1].startswith('id:'):
                continue                                    # a binding: a regex follows
            if i >= 2 and t[i - 2] == 'type':
                if not (i + 2 < n and t[i + 1].startswith('e:') and t[i + 2] == ';'):
                    return False
                continue
            j = i + 2 if (i + 1 < n and t[i + 1] == '?') else i + 1
            if not (j + 1 < n and t[j].startswith('e:') and t[j + 1] == ','):
                return False
        elif x == 'type':
            if not (i + 2 < n and t[i + 1] == 'id:Error' and t[i + 2] == '='):
                # `type X = ..` with another name, or `type` elsewhere: whether syn's lookahead sees an item, a type or an expression here is
                # again Rust grammar
                return False
    return True


def _canon_rhs(real, others):
    """`parse` outputs list every rule with `kind K rhs N`, N = index into the semantic-action table. The model numbers rules in source order;
    the macro may let rules WITHOUT a right-hand side share an entry (their actions are identical) or number entries differently — no property
    forbids that. Rename the indices of `real` to the source-order number of the first rule using the entry, and rename `others` (expected
    output, model output: same rules, source-order indices) rule by rule in the same way. Sharing between rules that have a right-hand
    side is NOT renamed away. -> (real', others')"""
    pat = re.compile(r'kind (\w+) rhs (\d+)')
    rr = pat.findall(real)
    if not rr:
        return real, others
    idx = [int(n) for _k, n in rr]
    if idx == list(range(len(idx))):
        return real, others
    users = {}
    for k, v in enumerate(idx):
        users.setdefault(v, []).append(k)
    for v, ks in users.items():
        if len(ks) > 1 and any(rr[k][0] != 'none' for k in ks):
            return real, others
    canon = [min(users[v]) for v in idx]

    def ren(text):
        if len(pat.findall(text)) != len(canon):
            return text
        it = iter(canon)
        return pat.sub(lambda m: 'kind %s rhs %d' % (m.group(1), next(it)), text)
    return ren(real), [ren(o) if o is not None else None for o in others]


def defparser_stream(tier, seed, builtins, log, verdict_only=False):
    rng = random.Random(seed * 17 + 160)
    g = gen_defs.Gen(rng, builtins, unicode_p=0.05)
    n = 300 if tier == 'quick' else 6000
    cases = []          # (tokens, expected or None)
    punct = ['(', ')', '[', ']', '{', '}', '$', 'id:x', 'id:rule', 'id:Error', 'c:97', 's:97,98', '_', '|', '*', '+', '?', '#', '-', ',', '=>', '=', ';', '>', 'let', 'type', '->']
    tries = 0
    while len(cases) < n and tries < n * 30:
        tries += 1
        k = rng.choice([0, 1, 2, 3])
        d = g.definition('L', scripted_p=0.5, ctx_p=0.3, max_rules=3, depth=2, n_sets=k)
        d = {'name': 'L', 'items': [it for it in d['items']]}
        ok = True
        for (_i, _rs, _k, re_, ctx) in rules_in_order(d):
            if not printable(re_) or (ctx is not None and not printable(ctx)):
                ok = False
        for it in d['items']:
            for x in ([it] if it[0] == 'let' else (it[2] if it[0] == 'ruleset' else [])):
                if x[0] == 'let' and not printable(x[2]):
                    ok = False
        if not ok:
            continue
        for red in (None, rng):
            t = _dt_def(d, rng, red)
            cases.append((t, expected_parse(d, lambda kind, k: '-' if kind == 'none' else 'T%d' % (k + 1))))
        # mutations of the token list: delete / insert / replace / swap punctuation, regex tokens and keywords
        for _ in range(3):
            t = list(_dt_def(d, rng, None))
            for _ in range(rng.randint(1, 2)):
                i = rng.randrange(len(t))
                r = rng.random()
                if r < 0.35:
                    del t[i]
                elif r < 0.7:
                    t.insert(i, rng.choice(punct))
                elif r < 0.9:
                    t[i] = rng.choice(punct)
                else:
                    j = rng.randrange(len(t))
                    t[i], t[j] = t[j], t[i]
            if _dt_balanced(t) and _dt_e_canonical(t) and _dt_positions_canonical(t) and t[:4] == ['id:L', '->', 'e:0', ';']:
                cases.append((t, None))
    impl, err = component_server('lexgen', ['parse ' + ' '.join(_dt_render(x) for x in t) for t, _ in cases])
    if impl is None:
        return [], [{'site': 'component server parse (definitions)', 'what': err, 'no_failing_input': True, 'definition': None, 'input': None, 'script': None}], {}
    model = lexmodel_lines(['PARSEDEF ' + ' '.join(t) for t, _ in cases])
    violations, unresolved = [], []
    n_agree, verdicts = 0, {}
    for i, (t, exp) in enumerate(cases):
        real = ' '.join(impl[i].split())[len('parse '):] if impl[i].startswith('parse') else impl[i]
        m = ' '.join(model[i].split())[len('PARSEDEF '):] if i < len(model) and model[i].startswith('PARSEDEF') else None
        verdicts[real.split()[0] if real else '?'] = verdicts.get(real.split()[0] if real else '?', 0) + 1
        text = ' '.join(_dt_render(x) for x in t)
        exp = ' '.join(exp.split()) if exp is not None else None
        real, (exp, m) = _canon_rhs(real, [exp, m])
        if verdict_only:
            # C17: a token sequence the definition-parser model rejects must be rejected by the real parser
            if m is not None and m.startswith('ERR') and real.startswith('OK') and len(violations) < 4:
                violations.append({'definition': text, 'site': 'syntax (definition)', 'input': None, 'script': None,
                                   'what': 'malformed definition (not derivable in the grammar: the definition-parser model rejects it) is accepted by the macro parser: ' + real[:200]})
            continue
        if exp is not None and real != ' '.join(exp.split()):
            if len(violations) < 4:
                violations.append({'definition': text, 'site': 'definition parser', 'input': None, 'script': None,
                                   'what': 'the parser reads a printed definition as a different definition (rules, kinds, action indices, scopes)', 'actual': real[:400], 'expected': exp[:400]})
            continue
        if m is None:
            continue
        if m == real:
            n_agree += 1
        elif len(unresolved) < 3:
            unresolved.append({'definition': text, 'site': 'ParserDef model', 'input': None, 'script': None, 'no_failing_input': True,
                               'what': 'correspondence no longer checks: Lean definition-parser model `%s` vs real parser `%s` on tokens `%s`' % (m[:200], real[:200], ' '.join(t))})
    return violations, unresolved, {'definition_parser_cases': len(cases), 'definition_parser_agreements': n_agree, 'definition_parser_verdicts': verdicts}


# ---------------------------------------------------------------------------------------------
# C17: ill-formed definitions


def mutate_illformed(d, rng):
    """one static violation injected into a well-formed definition; returns (kind, text) list"""
    out = []
    base = d
    sets = [it for it in d['items'] if it[0] == 'ruleset']
    text = corpus.lexer_text(d)

    def with_items(items):
        return corpus.lexer_text({'name': d['name'], 'items': items})

    items = list(d['items'])
    # unbound variable: in a rule, in a let that is used, in a context
    rules_pos = [i for i, it in enumerate(items) if it[0] == 'rule']
    if rules_pos:
        i = rng.choice(rules_pos)
        it = items[i]
        out.append(('unbound_var', with_items(items[:i] + [('rule', it[1], ('cat', it[2], ('var', 'nosuchvar')), it[3])] + items[i + 1:])))
        out.append(('unbound_var_ctx', with_items(items[:i] + [('rule', it[1], it[2], ('var', 'nosuchvar'))] + items[i + 1:])))
        out.append(('unknown_builtin', with_items(items[:i] + [('rule', it[1], ('alt', it[2], ('bi', 'nosuchbuiltin')), it[3])] + items[i + 1:])))
        out.append(('diff_operand', with_items(items[:i] + [('rule', it[1], ('diff', ('any',), ('str', [97, 98])), it[3])] + items[i + 1:])))
        out.append(('diff_operand_star', with_items(items[:i] + [('rule', it[1], ('diff', ('star', ('chr', 97)), ('chr', 98)), it[3])] + items[i + 1:])))
        # the same three ill-formed atoms at varied syntactic positions: operands of `#` and `|` whose sibling already decides the result
        # (empty left of `#`, full left of `|`), nested differences, under postfix operators, inside a `let` that is used, in a right context
        EMPTY = ('diff', ('chr', 97), ('chr', 97))
        for tag, bad in (('unbound_var', ('var', 'nosuchvar')), ('unknown_builtin', ('bi', 'nosuchbuiltin'))):
            wrappers = [('alt', it[2], ('opt', bad)), ('cat', ('star', bad), it[2]), ('alt', ('diff', ('any',), bad), it[2]), ('alt', ('diff', bad, ('chr', 98)), it[2]),
                        ('alt', ('diff', EMPTY, bad), it[2]), ('alt', ('diff', ('diff', ('set', [('r', 97, 99)]), ('set', [('r', 97, 122)])), bad), it[2]),
                        ('alt', ('diff', ('diff', ('any',), bad), ('chr', 98)), it[2]), ('alt', ('diff', ('alt', ('any',), bad), ('chr', 98)), it[2]),
                        ('alt', ('diff', ('any',), ('alt', ('chr', 98), bad)), it[2])]
            for k, w in enumerate(wrappers):
                out.append((tag + '@%d' % k, with_items(items[:i] + [('rule', it[1], w, it[3])] + items[i + 1:])))
            out.append((tag + '@ctx', with_items(items[:i] + [('rule', it[1], it[2], ('alt', ('chr', 98), ('diff', EMPTY, bad)))] + items[i + 1:])))
            out.append((tag + '@let', with_items(items[:i] + [('let', 'usedv', ('diff', EMPTY, bad)), ('rule', it[1], ('alt', it[2], ('var', 'usedv')), it[3])] + items[i + 1:])))
        # (a string literal is not a class whatever its length: one character, `"a"`, is still a string)
        for k, bad in enumerate([('str', [97, 98]), ('plus', ('chr', 97)), ('cat', ('chr', 97), ('chr', 98)), ('eoi',), ('opt', ('chr', 97)), ('str', [97]), ('str', [0x4E2D]),
                                 ('alt', ('chr', 98), ('str', [97]))]):
            for j, w in enumerate([('diff', ('any',), bad), ('diff', bad, ('chr', 98)), ('diff', EMPTY, bad), ('diff', ('any',), ('alt', ('chr', 98), bad)),
                                   ('diff', ('alt', ('any',), bad), ('chr', 98))]):
                out.append(('diff_operand@%d.%d' % (k, j), with_items(items[:i] + [('rule', it[1], ('alt', w, it[2]), it[3])] + items[i + 1:])))
        out.append(('mixed', with_items(items + [('ruleset', 'Init', [('rule', 'simple', ('chr', 97), None)])])))
        # exactly ONE unnamed rule (of several syntactic shapes) before, between and after rule sets
        rs_a = ('ruleset', 'Init', [('rule', 'simple', ('chr', 98), None)])
        rs_b = ('ruleset', 'Other', [('rule', 'simple', ('chr', 99), None)])
        hdr = [x for x in items if x[0] == 'errortype']
        for k, one in enumerate([('chr', 97), ('str', [97, 98]), ('set', [('r', 97, 99)]), ('any',), ('cat', ('chr', 97), ('chr', 100)), ('alt', ('chr', 97), ('chr', 100)),
                                 ('star', ('chr', 97)) if False else ('plus', ('chr', 97)), ('bi', 'ascii_digit')]):
            lone = ('rule', 'simple', one, None)
            out.append(('mixed_one_before@%d' % k, with_items(hdr + [lone, rs_a, rs_b])))
            if k < 3:
                out.append(('mixed_one_between@%d' % k, with_items(hdr + [rs_a, lone, rs_b])))
                out.append(('mixed_one_after@%d' % k, with_items(hdr + [rs_a, rs_b, lone])))
        out.append(('dup_var', with_items([items[0], ('let', 'dupv', ('chr', 97)), ('let', 'dupv', ('chr', 98))] + items[1:])))
    if sets:
        k = rng.randrange(len(sets))
        idx = [i for i, it in enumerate(items) if it[0] == 'ruleset'][k]
        rs = items[idx]
        if rs[2]:
            j = rng.randrange(len(rs[2]))
            x = rs[2][j]
            if x[0] == 'rule':
                nr = ('rule', x[1], ('cat', x[2], ('var', 'nosuchvar')), x[3])
                out.append(('unbound_var', with_items(items[:idx] + [('ruleset', rs[1], rs[2][:j] + [nr] + rs[2][j + 1:])] + items[idx + 1:])))
                nr = ('rule', x[1], ('diff', ('chr', 97), ('cat', ('chr', 98), ('chr', 99))), x[3])
                out.append(('diff_operand', with_items(items[:idx] + [('ruleset', rs[1], rs[2][:j] + [nr] + rs[2][j + 1:])] + items[idx + 1:])))
        for other in sets:
            # every rule set name, `Init` included, duplicated at the end and right after itself
            out.append(('dup_ruleset', with_items(items + [('ruleset', other[1], [('rule', 'simple', ('chr', 97), None)])])))
            pos = items.index(other)
            out.append(('dup_ruleset', with_items(items[:pos + 1] + [('ruleset', other[1], [('rule', 'simple', ('chr', 98), None)])] + items[pos + 1:])))
        out.append(('dup_var_local', with_items(items[:idx] + [('ruleset', rs[1], [('let', 'dv', ('chr', 97)), ('let', 'dv', ('chr', 98))] + rs[2])] + items[idx + 1:])))
        tl = [it for it in items if it[0] == 'let']
        if tl:
            out.append(('dup_var_shadow', with_items(items[:idx] + [('ruleset', rs[1], [('let', tl[0][1], ('chr', 97))] + rs[2])] + items[idx + 1:])))
        # first rule set not Init
        renamed = [('ruleset', 'Start' if it[1] == 'Init' else it[1], it[2]) if it[0] == 'ruleset' else it for it in items]
        out.append(('first_not_init', with_items(renamed)))
        # local variable used outside its rule set
        if len(sets) >= 2:
            first = [i for i, it in enumerate(items) if it[0] == 'ruleset'][0]
            last = [i for i, it in enumerate(items) if it[0] == 'ruleset'][-1]
            a, b = items[first], items[last]
            na = ('ruleset', a[1], [('let', 'localv', ('chr', 97))] + a[2])
            nb = ('ruleset', b[1], b[2] + [('rule', 'simple', ('var', 'localv'), None)])
            out.append(('local_var_leak', with_items(items[:first] + [na] + items[first + 1:last] + [nb] + items[last + 1:])))
            # the same, with the variable used in textually identical positions of both rule sets: in a right context, under `#`, under `*`
            # ... bound to a one-character class, to a big built-in class and to a long bracket set (anything that is remembered per NAME —
            # and perhaps only when it is big enough to be worth remembering — leaks into the scope where the name is unbound)
            big_set = ('set', [('r', 0x100 * k, 0x100 * k + 0x20) for k in range(1, 21)])
            for btag, bound in (('', ('chr', 97)), ('_bigbuiltin', ('bi', 'alphabetic')), ('_bigset', big_set)):
                for tag, use in (('ctx', lambda v: ('rule', 'simple', ('chr', 112), v)), ('diff', lambda v: ('rule', 'simple', ('diff', ('any',), v), None)),
                                 ('star', lambda v: ('rule', 'simple', ('cat', ('chr', 113), ('star', v)), None)), ('ctxdiff', lambda v: ('rule', 'simple', ('chr', 114), ('diff', ('any',), v))),
                                 ('diffleft', lambda v: ('rule', 'simple', ('cat', ('chr', 115), ('diff', v, ('chr', 120))), None))):
                    if btag and tag in ('ctx', 'star'):
                        continue
                    na2 = ('ruleset', a[1], [('let', 'localv', bound), use(('var', 'localv'))] + a[2])
                    nb2 = ('ruleset', b[1], b[2] + [use(('var', 'localv'))])
                    out.append(('local_var_leak_' + tag + btag, with_items(items[:first] + [na2] + items[first + 1:last] + [nb2] + items[last + 1:])))
                    if tag in ('diff', 'diffleft'):
                        # the same name bound in the second scope to something that is NOT a class: `#` must reject it there
                        nb3 = ('ruleset', b[1], [('let', 'localv', ('cat', ('str', [97, 98]), ('star', ('chr', 99))))] + b[2] + [use(('var', 'localv'))])
                        out.append(('not_a_class_after_class_' + tag + btag, with_items(items[:first] + [na2] + items[first + 1:last] + [nb3] + items[last + 1:])))
    out.append(('dup_error_type', with_items([('errortype',)] + items)))
    # variable used before... (lazy lookup: a let *after* the rule is unbound at the rule)
    if rules_pos:
        i = rules_pos[0]
        it = items[i]
        out.append(('use_before_def', with_items(items[:i] + [('rule', it[1], ('var', 'later'), it[3]), ('let', 'later', ('chr', 97))] + items[i + 1:])))
    # malformed syntax
    if ' = lv::Tok(' in text:
        out.append(('syntax_missing_op', text.replace(' = lv::Tok(', ' lv::Tok(', 1)))
    out.append(('syntax_empty_group', text.replace('-> lv::Tok;', "-> lv::Tok; () = lv::Tok(99),", 1)))
    out.append(('syntax_dangling_or', text.replace('-> lv::Tok;', "-> lv::Tok; 'a' | = lv::Tok(99),", 1)))
    out.append(('syntax_dangling_diff', text.replace('-> lv::Tok;', "-> lv::Tok; 'a' # = lv::Tok(99),", 1)))
    out.append(('syntax_bad_token', text.replace('-> lv::Tok;', '-> lv::Tok; @ ', 1)))
    out.append(('syntax_no_arrow', text.replace(' -> lv::Tok;', ' lv::Tok;', 1)))
    out.append(('syntax_bad_range', text.replace('-> lv::Tok;', "-> lv::Tok; ['a'-] = lv::Tok(99),", 1)))
    out.append(('syntax_unknown_ident', text.replace('-> lv::Tok;', '-> lv::Tok; foo Bar { }', 1)))
    # a sigil or operator that lacks its operand, at every kind of position a regex can stand in: as a whole rule, at the start / in the middle /
    # at the end of a concatenation, in a group, under a postfix operator, as an alternative, in a right context, in a `let` that is used,
    # inside a rule set when there is one. `$$` needs a name, `#` `|` `-` `>` need a right operand.
    holes = ["%s = lv::Tok(99),", "'a' %s = lv::Tok(99),", "%s 'a' = lv::Tok(99),", "'a' %s 'b' = lv::Tok(99),", "('a' | %s) = lv::Tok(99),", "'a' (%s)? = lv::Tok(99),",
             "'a' %s? 'b' = lv::Tok(99),", "'a' > %s = lv::Tok(99),", "'a' > 'b' %s = lv::Tok(99),", "'a' %s,", "let holev = 'a' %s; $holev = lv::Tok(99),"]
    inside = 'rule Init {' if 'rule Init {' in text else '-> lv::Tok;'
    for sig, tag in (('$$', 'builtin_sigil_without_name'), ("'a' #", 'diff_without_operand'), ("'a' |", 'or_without_operand'), ("['a' -]", 'range_without_end')):
        for k, h in enumerate(holes):
            if sig != '$$' and (k % 3 != rng.randrange(3) or (sig.endswith(('#', '|')) and k in (2, 3))):
                continue        # (holes 2 and 3 put an operand right after the sigil: `'a' | 'a'` is well-formed)
            out.append(('syntax_%s@%d' % (tag, k), text.replace(inside, inside + ' ' + (h % sig), 1)))
    return out


def syntax_membership_stream(tier, seed, builtins, log):
    """token sequences outside the grammar (according to the Lean parser models) that the real parser accepts -> C17 violations"""
    rng = random.Random(seed * 19 + 170)
    n = 1200 if tier == 'quick' else 20000
    alphabet = [('(',), (')',), ('[',), (']',), ('$',), ('$',), ('id', 'x'), ('c', 97), ('c', 98), ('s', [97, 98]), ('_',), ('|',), ('*',), ('+',), ('?',), ('#',), ('-',)]
    soups = []
    while len(soups) < n:
        soup = [rng.choice(alphabet) for _ in range(rng.randint(1, 7))]
        depth, ok = [], True
        for t in soup:
            if t[0] in '([':
                depth.append(t[0])
            elif t[0] in ')]':
                if not depth or (depth[-1] == '(') != (t[0] == ')'):
                    ok = False
                    break
                depth.pop()
        if ok and not depth:
            soups.append(soup)
    # positions: whole rule, right context, `let` body (the parser is the same function, the caller differs)
    frames = [('L -> u32; %s = 1,', 'rule'), ("L -> u32; 'a' > %s = 1,", 'ctx'), ("L -> u32; let y = %s; 'a' = 1,", 'let'), ('L -> u32; rule Init { %s, }', 'ruleset')]
    lines, meta = [], []
    for i, soup in enumerate(soups):
        fr, where = frames[i % len(frames)] if i % 3 == 0 else frames[0]
        lines.append('parse ' + fr % render_tokens(soup))
        meta.append((soup, where))
    impl, err = component_server('lexgen', lines)
    if impl is None:
        return [], [{'site': 'component server parse', 'what': err, 'no_failing_input': True, 'definition': None, 'input': None, 'script': None}], {}
    model = lexmodel_lines(['PARSE ' + tokens_for_lean(soup) + ' =' for soup, _ in meta])
    violations, unresolved = [], []
    n_rej_both, n_acc_both = 0, 0
    for i, (soup, where) in enumerate(meta):
        real_ok = impl[i].startswith('parse OK')
        m = model[i][len('PARSE '):].strip() if i < len(model) and model[i].startswith('PARSE ') else None
        if m is None:
            continue
        m_ok = m.startswith('ok')
        if real_ok and not m_ok:
            if len(violations) < 4:
                violations.append({'definition': lines[i][len('parse '):], 'site': 'syntax (%s position)' % where, 'input': None, 'script': None,
                                   'what': 'malformed regex syntax `%s` (not derivable in the grammar: the parser model rejects it) is accepted by the macro parser: %s' % (render_tokens(soup), impl[i][:200])})
        elif (not real_ok) and m_ok and where == 'rule' and len(unresolved) < 2:
            unresolved.append({'definition': lines[i][len('parse '):], 'site': 'Parser model', 'input': None, 'script': None, 'no_failing_input': True,
                               'what': 'correspondence no longer checks: the parser model accepts `%s`, the real parser rejects it' % tokens_for_lean(soup)})
        elif real_ok:
            n_acc_both += 1
        else:
            n_rej_both += 1
    # whole definitions
    dv, du, dcov = defparser_stream(tier, seed + 5, builtins, log, verdict_only=True)
    violations += dv
    return violations, unresolved, {'syntax_soups': len(meta), 'syntax_soups_rejected_by_both': n_rej_both, 'syntax_soups_accepted_by_both': n_acc_both,
                                    'malformed_definitions': dcov.get('definition_parser_cases'), 'malformed_definition_verdicts': dcov.get('definition_parser_verdicts')}


def check_C17(tier, seed, res, builtins, log):
    rng = random.Random(seed + 17)
    g = gen_defs.Gen(rng, builtins, unicode_p=0.02)
    n_base = 6 if tier == 'quick' else 60
    muts = []
    for i in range(n_base):
        d = g.definition('Ill%d' % i, scripted_p=0.0, ctx_p=0.2, max_rules=3, depth=1, n_sets=rng.choice([0, 2, 3]))
        for kind, text in mutate_illformed(d, rng):
            muts.append((kind, text, d))
    # one crate, one module per mutant; rustc reports every failing macro invocation
    work = pipeline.scratch_dir()
    ws = os.path.join(work, 'ws_ill')
    if os.path.exists(ws):
        shutil.rmtree(ws)
    os.makedirs(os.path.join(ws, 'ill', 'src'))
    shutil.copytree(os.path.join(HERE, 'lv_support'), os.path.join(ws, 'lv_support'))
    open(os.path.join(ws, 'Cargo.toml'), 'w').write('[workspace]\nresolver = "2"\nmembers = ["lv_support", "ill"]\n[profile.dev]\ndebug = 0\n')
    lock = os.path.join(corpus.REPO, 'Cargo.lock')
    if os.path.exists(lock):
        shutil.copy(lock, os.path.join(ws, 'Cargo.lock'))
    open(os.path.join(ws, 'ill', 'Cargo.toml'), 'w').write(
        '[package]\nname = "ill"\nversion = "0.1.0"\nedition = "2021"\n[dependencies]\nlexgen = { path = "%s/crates/lexgen", features = ["verif_hooks"] }\n'
        'lexgen_util = { path = "%s/crates/lexgen_util" }\nlv_support = { path = "../lv_support" }\n' % (corpus.REPO, corpus.REPO))
    mods = []
    # controls: the unmutated definitions must expand without error in the same crate
    bases = []
    for (kind, text, d) in muts:
        if d['name'] not in [b['name'] for b in bases]:
            bases.append(d)
    for d in bases:
        open(os.path.join(ws, 'ill', 'src', 'ok_%s.rs' % d['name'].lower()), 'w').write('#![allow(dead_code, unused)]\nuse lexgen::lexer;\nuse lv_support as lv;\n' + corpus.lexer_text(d) + '\n')
        mods.append('mod ok_%s;' % d['name'].lower())
    for i, (kind, text, d) in enumerate(muts):
        open(os.path.join(ws, 'ill', 'src', 'm%d.rs' % i), 'w').write('#![allow(dead_code, unused)]\nuse lexgen::lexer;\nuse lv_support as lv;\n' + text + '\n')
        mods.append('mod m%d;' % i)
    open(os.path.join(ws, 'ill', 'src', 'lib.rs'), 'w').write('\n'.join(mods) + '\n')
    env = corpus.cargo_env({'CARGO_TARGET_DIR': pipeline.shared_target()})
    rc, out, secs = corpus.run(['cargo', 'check', '--offline', '-q', '-p', 'ill', '--message-format', 'short'], cwd=ws, env=env, timeout=900)
    failed = set(int(m.group(1)) for m in re.finditer(r'ill/src/m(\d+)\.rs:\d+:\d+: error', out))
    # a syntax error inside the module file itself (unbalanced delimiters) is reported against lib.rs/mod
    failed |= set(int(m.group(1)) for m in re.finditer(r'm(\d+)\.rs', '\n'.join(l for l in out.split('\n') if 'error' in l)))
    violations, unresolved = [], []
    kinds = {}
    ctrl_bad = sorted(set(m.group(1) for m in re.finditer(r'ill/src/(ok_\w+)\.rs:\d+:\d+: error', out)))
    if ctrl_bad or (rc != 0 and not failed):
        unresolved.append({'site': 'rustc on ill-formed corpus', 'definition': None, 'input': None, 'script': None, 'no_failing_input': True,
                           'what': 'control (well-formed) definitions fail to expand, verdicts on mutants are void: %s %s' % (ctrl_bad, out[-600:])})
    for i, (kind, text, d) in enumerate(muts):
        kinds[kind] = kinds.get(kind, 0) + 1
        if i not in failed:
            if rc == 0 or True:
                violations.append({'definition': text, 'site': 'static check ' + kind, 'input': None, 'script': None,
                                   'what': 'ill-formed definition (%s) is accepted by the macro' % kind})
    if rc == 'timeout':
        unresolved.append({'site': 'rustc on ill-formed corpus', 'what': 'timeout', 'no_failing_input': True, 'definition': None, 'input': None, 'script': None})
    shutil.rmtree(ws, ignore_errors=True)
    # malformed syntax, by grammar membership: token sequences the grammar of the parser model (`Model/Parser.lean`, `Model/ParserDef.lean`,
    # round-trip theorems `parse_print`, `parseDef_printDef`) does not derive must be rejected by the real parser too — regex token soups and
    # whole definitions with deleted / inserted / replaced / swapped tokens
    sv, su, scov = syntax_membership_stream(tier, seed, builtins, log)
    violations = sv + violations
    unresolved += su
    cov = {'evaluations': len(muts), 'distinct_nontrivial': len(kinds), 'programs': len(muts), 'violation_kinds': kinds, 'rejected': len([i for i in range(len(muts)) if i in failed]),
           'rule': 'one static violation injected into a random well-formed definition (every listed kind, several positions), expanded by the real macro under rustc; distinct = kinds of violation',
           'samples': [{'kind': muts[0][0], 'definition': muts[0][1]}]}
    cov.update(scov)
    return {'violations': violations[:8], 'unresolved': unresolved, 'coverage': cov, 'assumptions': ['syn error paths for arbitrary garbage are sampled, not modelled']}


PROPERTY_CHECKS = {'C02': check_C02, 'C11': check_C11, 'C12': check_C12, 'C13': check_C13, 'C16': check_C16, 'C17': check_C17, 'C18': check_C18}


# ---------------------------------------------------------------------------------------------


def replay(prop, path):
    v = json.load(open(path))
    print(json.dumps({k: v.get(k) for k in ('property', 'what', 'definition', 'input', 'script', 'actual', 'expected')}, indent=1))
    if not v.get('def_json') or v.get('input') is None:
        print('replay: no runnable case recorded (see "what")')
        return 0
    import check
    builtins = pipeline.load_builtins()
    d = pipeline.json_to_def(v['def_json'])
    c = {'prog': d['name'], 'id': 'replay', 'ctor': v.get('ctor', 0) or 0, 'ncalls': len(v['input']) + 3, 'input': v['input'], 'script': v.get('script') or [], 'clones': []}
    status, traces, dumps = check.build_and_run([d], {d['name']: [c]})
    print('build:', status[d['name']])
    it = traces.get((d['name'], 'replay'))
    if it:
        print('implementation trace:')
        for l in it['lines']:
            print('  ' + l)
        try:
            ref = reflex.RefLexer(d, builtins)
            print('reference trace:')
            for l in ref.run(c['input'], c['script'], c['ncalls'], True, it['widths']):
                print('  ' + l)
        except Exception as e:  # noqa
            print('reference lexer rejects the definition:', e)
    return 0
