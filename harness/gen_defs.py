"""Generator of lexer definitions (the corpus of 'programs') and of inputs/scripts for them.

Every random choice derives from one `random.Random(seed)`; streams: regression (fixed),
shape-directed, random structured. Definitions are filtered by the well-formedness predicate the
properties grant (no nullable rule, no empty class/literal, `$` only in tail position, variables
bound); the malformed stream for C17 is produced by `mutate_illformed`.
"""
import random
from lexast import (nullable, core_of, tail_eoi_ok, pieces_ok, Unbound, NotAClass, CHAR_MAX, rules_in_order,
                    ruleset_names, class_of, iv_norm)

LETTERS = [ord(c) for c in 'abcde']


def chr_(c):
    return ('chr', ord(c) if isinstance(c, str) else c)


def str_(s):
    return ('str', [ord(c) for c in s])


def set_(*items):
    out = []
    for it in items:
        if isinstance(it, tuple):
            out.append(('r', ord(it[0]) if isinstance(it[0], str) else it[0], ord(it[1]) if isinstance(it[1], str) else it[1]))
        else:
            out.append(('c', ord(it) if isinstance(it, str) else it))
    return ('set', out)


def cat(*rs):
    out = rs[0]
    for r in rs[1:]:
        out = ('cat', out, r)
    return out


def alt(*rs):
    out = rs[0]
    for r in rs[1:]:
        out = ('alt', out, r)
    return out


ANY = ('any',)
EOI = ('eoi',)


def rule(kind, re, ctx=None):
    return ('rule', kind, re, ctx)


# ---------------------------------------------------------------------------------------------
# well-formedness


def elaborate_envs(d):
    """yield (rule item, env visible to it) following the macro's scoping"""
    env = {}
    for it in d['items']:
        if it[0] == 'let':
            env[it[1]] = it[2]
        elif it[0] == 'rule':
            yield it, dict(env)
        elif it[0] == 'ruleset':
            local = dict(env)
            for x in it[2]:
                if x[0] == 'let':
                    local[x[1]] = x[2]
                else:
                    yield x, dict(local)


def static_ok(d):
    """the static rules of C17"""
    names = ruleset_names(d)
    has_unnamed = any(it[0] == 'rule' for it in d['items'])
    if names and has_unnamed:
        return False
    if names and names[0] != 'Init':
        return False
    if len(set(names)) != len(names):
        return False
    if sum(1 for it in d['items'] if it[0] == 'errortype') > 1:
        return False
    seen = set()
    for it in d['items']:
        if it[0] == 'let':
            if it[1] in seen:
                return False
            seen.add(it[1])
        elif it[0] == 'ruleset':
            local = set(seen)
            for x in it[2]:
                if x[0] == 'let':
                    if x[1] in local:
                        return False
                    local.add(x[1])
    return True


def well_formed(d, builtins):
    if not static_ok(d):
        return False
    try:
        for it, env in elaborate_envs(d):
            re, ctx = it[2], it[3]
            if not pieces_ok(re, env, builtins) or not tail_eoi_ok(re, env):
                return False
            if nullable(core_of(re, env, builtins)):
                return False
            if ctx is not None:
                if not pieces_ok(ctx, env, builtins) or not tail_eoi_ok(ctx, env):
                    return False
    except (Unbound, NotAClass):
        return False
    return True


# ---------------------------------------------------------------------------------------------
# random structured definitions


class Gen:
    def __init__(self, rng, builtins, alphabet=None, unicode_p=0.08):
        self.rng = rng
        self.builtins = builtins
        self.alphabet = alphabet or LETTERS
        self.unicode_p = unicode_p
        self.special = [0, 1, 9, 10, 0x7F, 0x80, 0xE9, 0x7FF, 0x800, 0xD7FF, 0xE000, 0xFFFF, 0x10000, 0x4E2D, 0x1F600,
                        0x200D, 0x301, 0x1100, 0x10FFFE, 0x10FFFF]

    def char(self):
        if self.rng.random() < self.unicode_p:
            return self.rng.choice(self.special)
        return self.rng.choice(self.alphabet)

    def range_(self):
        a, b = self.char(), self.char()
        if a > b:
            a, b = b, a
        if self.rng.random() < 0.5 and a < 0x80 and b < 0x80:
            b = min(b, a + self.rng.randint(0, 3))
        return ('r', a, b)

    def set_(self):
        n = self.rng.randint(1, 4)
        items = []
        for _ in range(n):
            if self.rng.random() < 0.5:
                items.append(('c', self.char()))
            else:
                items.append(self.range_())
        return ('set', items)

    def cls(self, depth, vars_cls):
        r = self.rng.random()
        if depth <= 0 or r < 0.45:
            k = self.rng.random()
            if k < 0.35:
                return ('chr', self.char())
            if k < 0.8:
                return self.set_()
            if k < 0.88:
                return ANY
            if k < 0.95 and vars_cls:
                return ('var', self.rng.choice(vars_cls))
            return ('bi', self.rng.choice(['ascii_lowercase', 'ascii_digit', 'ascii_alphabetic', 'ascii_hexdigit',
                                           'ascii_punctuation', 'whitespace', 'lowercase', 'alphabetic', 'XID_Start',
                                           'numeric']))
        if r < 0.8:
            return ('diff', self.cls(depth - 1, vars_cls), self.cls(depth - 1, vars_cls))
        return ('alt', self.cls(depth - 1, vars_cls), self.cls(depth - 1, vars_cls))

    def regex(self, depth, vars_any, vars_cls, allow_eoi_tail=False):
        rng = self.rng
        if depth <= 0:
            k = rng.random()
            if k < 0.45:
                return ('chr', self.char())
            if k < 0.6:
                n = rng.randint(1, 3)
                return ('str', [self.char() for _ in range(n)])
            if k < 0.78:
                return self.set_()
            if k < 0.84:
                return ANY
            if k < 0.9 and vars_any:
                return ('var', rng.choice(vars_any))
            if k < 0.95:
                return ('diff', self.cls(1, vars_cls), self.cls(1, vars_cls))
            return ('bi', rng.choice(['ascii_lowercase', 'ascii_digit', 'ascii_alphabetic', 'alphabetic', 'lowercase']))
        k = rng.random()
        if k < 0.3:
            return ('cat', self.regex(depth - 1, vars_any, vars_cls), self.regex(depth - 1, vars_any, vars_cls, allow_eoi_tail))
        if k < 0.5:
            return ('alt', self.regex(depth - 1, vars_any, vars_cls, allow_eoi_tail),
                    self.regex(depth - 1, vars_any, vars_cls, allow_eoi_tail))
        if k < 0.62:
            return ('star', self.regex(depth - 1, vars_any, vars_cls))
        if k < 0.74:
            return ('plus', self.regex(depth - 1, vars_any, vars_cls))
        if k < 0.84:
            return ('opt', self.regex(depth - 1, vars_any, vars_cls, allow_eoi_tail))
        if k < 0.9 and allow_eoi_tail:
            return ('cat', self.regex(depth - 1, vars_any, vars_cls), EOI)
        return self.regex(0, vars_any, vars_cls)

    def kind(self, scripted_p):
        r = self.rng.random()
        if r < scripted_p * 0.6:
            return 'infallible'
        if r < scripted_p:
            return 'fallible'
        if r < scripted_p + (1 - scripted_p) * 0.25:
            return 'none'
        return 'simple'

    def definition(self, name, n_sets=None, scripted_p=0.35, ctx_p=0.2, max_rules=5, depth=2):
        rng = self.rng
        for _attempt in range(200):
            items = [('errortype',)]
            vars_any, vars_cls = [], []
            # top-level lets
            for i in range(rng.randint(0, 2)):
                # sometimes a variable is named like a built-in class: `$x` and `$$x` are separate namespaces
                vn = rng.choice(['lowercase', 'ascii_digit', 'alphabetic', 'whitespace']) if rng.random() < 0.2 else 'v%d' % i
                if vn in vars_any:
                    vn = 'v%d' % i
                if rng.random() < 0.5:
                    items.append(('let', vn, self.cls(1, vars_cls)))
                    vars_cls.append(vn)
                    vars_any.append(vn)
                else:
                    items.append(('let', vn, self.regex(1, vars_any, vars_cls)))
                    vars_any.append(vn)
            k = n_sets if n_sets is not None else rng.choice([0, 1, 1, 2, 2, 3, 4])

            def mk_rule(va, vc):
                d = rng.randint(0, depth)
                re = self.regex(d, va, vc, allow_eoi_tail=rng.random() < 0.25)
                if rng.random() < 0.06:
                    re = EOI
                ctx = None
                if rng.random() < ctx_p:
                    ctx = self.regex(rng.randint(0, 2), va, vc, allow_eoi_tail=rng.random() < 0.3)
                    if rng.random() < 0.1:
                        ctx = EOI
                return ('rule', self.kind(scripted_p), re, ctx)

            def with_eoi_sibling(r):
                # sometimes list the same regex with a trailing `$` as a sibling rule, before or after
                if r[2] != EOI and r[2][0] != 'cat' or (r[2][0] == 'cat' and r[2][2] != EOI):
                    if rng.random() < 0.12:
                        sib = ('rule', self.kind(scripted_p), ('cat', r[2], EOI), None)
                        return [sib, r] if rng.random() < 0.5 else [r, sib]
                return [r]

            if k == 0:
                for _ in range(rng.randint(1, max_rules)):
                    items.extend(with_eoi_sibling(mk_rule(vars_any, vars_cls)))
            else:
                names = ['Init'] + ['R%d' % i for i in range(1, k)]
                for nm in names:
                    rs_items = []
                    la, lc = list(vars_any), list(vars_cls)
                    n_rules = rng.randint(1, max_rules)
                    if nm != 'Init' and rng.random() < 0.08:
                        n_rules = 0  # empty rule set
                    for j in range(n_rules):
                        if rng.random() < 0.12:
                            # half of the time the SAME local name is used in every rule set (rule-set scoping: each `let` is
                            # local to its own rule set, so equal names in different rule sets must not clash or leak)
                            vn = ('lw%d' % (j % 2)) if rng.random() < 0.5 and ('lw%d' % (j % 2)) not in la else 'w%s%d' % (nm.lower(), j)
                            if rng.random() < 0.5:
                                rs_items.append(('let', vn, self.cls(1, lc)))
                                lc.append(vn)
                                la.append(vn)
                            else:
                                rs_items.append(('let', vn, self.regex(1, la, lc)))
                                la.append(vn)
                        rs_items.extend(with_eoi_sibling(mk_rule(la, lc)))
                    items.append(('ruleset', nm, rs_items))
            d = {'name': name, 'items': items}
            if well_formed(d, self.builtins):
                return d
        raise RuntimeError('could not generate a well-formed definition')


def loosen(rng, r, p_eoi=0.18, p_null=0.15):
    """rewrite a regex tree so that it may leave the well-formed fragment while staying statically acceptable: `$` at ANY position (followed by
    something, under `*` / `+` / `?`, inside alternations), and nullable sub-terms"""
    t = r[0]
    if rng.random() < p_eoi:
        k = rng.random()
        if k < 0.4:
            return ('cat', EOI, loosen(rng, r, 0, p_null))
        if k < 0.7:
            return ('cat', loosen(rng, r, 0, p_null), ('cat', EOI, ('chr', 0x62)))
        if k < 0.85:
            return ('alt', EOI, loosen(rng, r, 0, p_null))
        return ('opt', EOI) if rng.random() < 0.5 else ('cat', ('opt', EOI), loosen(rng, r, 0, p_null))
    if t in ('cat', 'alt'):
        return (t, loosen(rng, r[1], p_eoi, p_null), loosen(rng, r[2], p_eoi, p_null))
    if t in ('star', 'plus', 'opt'):
        return (t, loosen(rng, r[1], p_eoi, p_null))
    if rng.random() < p_null:
        return (rng.choice(['star', 'opt']), r)
    return r


def loose_definition(gen, name):
    """a definition the static rules accept but that is NOT in the well-formed fragment the behavioural properties quantify over (some rule or
    right context has `$` away from the tail, or matches the empty string). Only expansion and compilation are checked on these (C12)."""
    rng = gen.rng
    for _ in range(200):
        d = gen.definition(name, scripted_p=0.2, ctx_p=0.3, max_rules=4)

        def lo(it):
            if it[0] == 'rule':
                return ('rule', it[1], loosen(rng, it[2]), None if it[3] is None else loosen(rng, it[3]))
            if it[0] == 'ruleset':
                return ('ruleset', it[1], [lo(x) for x in it[2]])
            return it
        d2 = {'name': name, 'items': [lo(it) for it in d['items']]}
        if static_ok(d2) and not well_formed(d2, gen.builtins):
            return d2
    raise RuntimeError('could not generate a loose definition')


# ---------------------------------------------------------------------------------------------
# regression corpus: the reproducers of the defects found on the pinned tree, README-like cases


def regression_defs():
    out = []

    def add(name, items, inputs=(), scripts=((),)):
        out.append(({'name': name, 'items': [('errortype',)] + items},
                    [([ord(c) for c in s] if isinstance(s, str) else list(s)) for s in inputs], [list(s) for s in scripts]))

    # D1 (C01): non-monotone backtrack analysis
    add('RegD1a', [rule('simple', cat(set_(('b', 'c')), str_('bab'), alt(set_(('c', 'e')), str_('ab')))),
                   rule('simple', chr_('b')), rule('simple', chr_('a')), rule('simple', cat(str_('cbaa'), set_(('b', 'c'))))],
        ['bbabx', 'bbabab', 'cbaab', 'bbabc'])
    # D1 (C12): expansion loop
    add('RegD1b', [rule('simple', chr_('c')), rule('simple', cat(set_(('a', 'd')), str_('cc'))),
                   rule('simple', cat(('plus', set_(('a', 'd'))), str_('ba'))), rule('simple', chr_('c')), rule('simple', chr_('b'))],
        ['acc', 'abba', 'cb', 'dddba'])
    # D2 (C08): failure leaves the active rule set
    add('RegD2', [('ruleset', 'Init', [rule('infallible', chr_('[')), rule('simple', chr_('a')), rule('simple', chr_('x'))]),
                  ('ruleset', 'R1', [rule('simple', chr_('b'))])],
        ['[bxaab', '[x[b', '[', '[['], scripts=[(13,), (11,), (10,)])
    # D3 (C04/C12): context with a non-final literal
    add('RegD3', [rule('simple', chr_('a'), str_('bc')), rule('simple', chr_('a')), rule('simple', chr_('b')), rule('simple', chr_('c'))],
        ['abcab', 'ab', 'abc'])
    # D4 (C07): custom error location
    add('RegD4', [rule('none', chr_(' ')), rule('fallible', str_('ab')), rule('infallible', chr_('c'))],
        ['  ab', ' c ab', 'cab'], scripts=[(6,), (0, 6), (2,)])
    # D5 (C11): remove_ranges
    add('RegD5', [rule('simple', ('diff', set_(('0', '5'), ('7', '9')), set_(('0', '8')))), rule('simple', ANY)],
        ['0123456789'])
    add('RegD5b', [rule('simple', cat(('diff', ('bi', 'alphabetic'), set_(('a', 'z'))), chr_('x'))), rule('simple', ANY)],
        ['{x', 'Ax', 'ax', '\u00e9x'])
    # D8 (C12): repeated set character
    add('RegD8', [rule('simple', set_('a', 'a')), rule('simple', set_('b', ('a', 'c'), 'b'))], ['aa', 'abc'])
    # D10 (C12): surrogate end points
    add('RegD10a', [rule('simple', cat(('diff', ANY, chr_(0xE000)), chr_('x')))],
        [[0x61, 0x78], [0xE001, 0x78], [0xD7FF, 0x78], [0xE000, 0x78], [0x78]])
    add('RegD10b', [rule('simple', cat(set_((0xD000, 0xF000), (0xD7FF, 0xD7FF)), chr_('x')))],
        [[0xD7FF, 0x78], [0xE000, 0x78], [0xD000, 0x78], [0xF001, 0x78]])
    # D11 (C04/C13): unsorted context accept table
    add('RegD11', [rule('simple', chr_('a'), ('bi', 'alphabetic')), rule('simple', ANY)], ['aAa\u00e9a1', 'aa', 'a\u4e2d'])
    # README-like: identifiers, numbers, comments with rule sets
    add('RegReadme', [('let', 'id_init', ('alt', ('bi', 'ascii_alphabetic'), chr_('_'))),
                      ('let', 'id_rest', ('alt', ('var', 'id_init'), ('bi', 'ascii_digit'))),
                      ('ruleset', 'Init', [rule('none', ('bi', 'ascii_whitespace')),
                                           rule('simple', cat(('var', 'id_init'), ('star', ('var', 'id_rest')))),
                                           rule('simple', ('plus', ('bi', 'ascii_digit'))),
                                           rule('infallible', str_('/*')),
                                           rule('simple', cat(str_('//'), ('star', ('diff', ANY, chr_('\n')))))]),
                      ('ruleset', 'R1', [rule('infallible', str_('*/')), rule('infallible', ANY)])],
        ['ab_1 22 /* x */ y', 'a //c\nb', '/* un', 'x/'], scripts=[(3 + 8, 0, 0, 0, 5), (11, 1, 1, 1, 4)])
    # end-of-input handling in Init and elsewhere
    add('RegEoi', [('ruleset', 'Init', [rule('simple', cat(('plus', chr_('a')), EOI)), rule('simple', ('plus', chr_('a'))),
                                        rule('infallible', chr_('[')), rule('simple', EOI)]),
                   ('ruleset', 'R1', [rule('simple', chr_('b')), rule('infallible', cat(chr_('c'), EOI))]),
                   ('ruleset', 'R2', [rule('simple', chr_('b'))])],
        ['aa', 'aab', '[b', '[c', '[', '[bc', ''], scripts=[(11,), (19,), (11, 2)])
    # the same lexeme with and without `$`, in both listing orders, in Init and another rule set (C05)
    add('RegEoi2', [('ruleset', 'Init', [rule('simple', chr_('a')), rule('simple', cat(chr_('a'), EOI)),
                                         rule('simple', cat(('plus', chr_('b')), EOI)), rule('simple', ('plus', chr_('b'))),
                                         rule('infallible', chr_('['))]),
                    ('ruleset', 'R1', [rule('simple', str_('cd')), rule('simple', cat(str_('cd'), EOI)), rule('infallible', chr_(']')),
                                       rule('simple', chr_('e'), EOI), rule('simple', chr_('e'))])],
        ['a', 'ab', 'bb', 'bba', '[cd', '[cdcd', '[e', '[ee', '[cd]a', ''], scripts=[(11,), (3,), (11, 0, 2)])
    # `$` reached from non-entry states of non-Init rule sets, followed by rule sets with many
    # transition-less accepting states (C03: add_dfa offsets of every kind of transition; C05)
    for k, (mid1, mid2) in enumerate([(('star', chr_('x')), ('plus', chr_('y'))), (cat(chr_('x'), ('star', chr_('y'))), str_('xy')),
                                       (('plus', set_('x', 'y')), cat(('opt', chr_('x')), chr_('y'))), (cat(chr_('y'), ('star', str_('xy'))), ('star', chr_('y')))]):
        add('RegEoiSets%d' % k,
            [('ruleset', 'Init', [rule('infallible', chr_('[')), rule('simple', chr_('a'))]),
             ('ruleset', 'R1', [rule('simple', cat(mid1, EOI)), rule('simple', chr_('z')), rule('infallible', chr_(']'))]),
             ('ruleset', 'R2', [rule('simple', cat(mid2, EOI)), rule('simple', chr_('q')), rule('simple', chr_('r')), rule('infallible', chr_(']'))]),
             ('ruleset', 'R3', [rule('simple', chr_('q')), rule('simple', chr_('r')), rule('simple', chr_('s')), rule('simple', str_('tu')), rule('infallible', chr_(']'))])],
            ['[', '[x', '[xx', '[y', '[yy', '[xy', '[xyxy', '[yxy', '[z', '[q', '[xq', '[]a', '[x]'],
            scripts=[(11,), (19,), (27,), (11, 3), (19, 3)])
    add('RegEoiSets4', [('ruleset', 'Init', [rule('infallible', chr_('b')), rule('infallible', chr_('c'))]),
                        ('ruleset', 'R1', [rule('simple', cat(('star', chr_('x')), EOI)), rule('simple', chr_('y'))]),
                        ('ruleset', 'R2', [rule('simple', chr_('q')), rule('infallible', chr_('r'))])],
        ['b', 'bx', 'bxxx', 'byxx', 'byy', 'cqr', 'cq'], scripts=[(11,), (19,), (19, 5)])
    return out


# ---------------------------------------------------------------------------------------------
# shape-directed definitions


def shape_defs(rng, builtins):
    g = Gen(rng, builtins)
    out = []
    # rules whose right-hand sides are textually IDENTICAL: `=>` and `=?` rules with the same closure text (kinds `autoinf` / `autofal`), next
    # to several rules without right-hand side: whatever the macro shares between rules with equal text, each rule keeps the wrapper of its
    # own kind (`=>`: the value is the token; `=?`: `Err` is a lexer error) and its own place in the priority order (C10, C01)
    for i, order in enumerate([['autoinf', 'autofal'], ['autofal', 'autoinf'], ['autoinf', 'autofal', 'autoinf', 'autofal'], ['autofal', 'autofal', 'autoinf']]):
        a = [ord(ch) for ch in 'abcd']
        rs = [rule('none', chr_(ord(' ')))]
        for j, k in enumerate(order):
            rs.append(rule(k, ('plus', chr_(a[j]))))
        rs.insert(2, rule('none', chr_(ord('-'))))
        rs.append(rule(order[0], cat(chr_(a[0]), chr_(a[1]))))          # tie with two earlier rules' prefixes: longest match, then first rule
        rs.append(rule('none', cat(chr_(a[1]), chr_(ord('-')))))
        rs.append(rule('simple', ANY))
        if i % 2 == 0:
            out.append({'name': 'ShKinds%d' % i, 'items': [('errortype',)] + rs})
        else:
            out.append({'name': 'ShKinds%d' % i, 'items': [('errortype',), ('ruleset', 'Init', rs[:4] + [rule('infallible', chr_(ord('[')))]),
                                                          ('ruleset', 'R1', rs[4:] + [rule('infallible', chr_(ord(']')))])]})
    # cycles and joins reachable with and without an earlier accepting state (C01)
    for i in range(6):
        a, b, c = rng.sample(LETTERS, 3)
        items = [rule('simple', cat(chr_(a), ('plus', set_(b, c)), chr_(a))),
                 rule('simple', chr_(a)),
                 rule('simple', cat(('star', chr_(b)), chr_(c), ('opt', cat(chr_(b), chr_(b))))),
                 rule('simple', cat(set_((min(a, b), max(a, b))), str_(chr(a) + chr(b)), ('star', chr_(c)), chr_(a)))]
        rng.shuffle(items)
        out.append({'name': 'ShCyc%d' % i, 'items': [('errortype',)] + items})
    # a literal, a range covering it and `_` leaving one state, with different continuations (C02, issue 31)
    for i in range(6):
        a, b, c = sorted(rng.sample(LETTERS, 3))
        x, y, z = rng.sample([ord(ch) for ch in 'xyzw'], 3)
        variants = [
            [rule('simple', alt(cat(chr_(b), chr_(x)), cat(set_((a, c)), chr_(y)), cat(ANY, chr_(z))))],
            [rule('simple', cat(chr_(b), chr_(x))), rule('simple', cat(set_((a, c)), chr_(y))), rule('simple', cat(ANY, chr_(z)))],
            [rule('simple', cat(ANY, chr_(z))), rule('simple', cat(set_((a, b), c), ('plus', chr_(y)))), rule('simple', cat(chr_(a), ('star', chr_(x)), chr_(z)))],
            [rule('simple', cat(('opt', chr_(b)), alt(cat(chr_(b), chr_(x)), cat(set_((a, c)), chr_(y)), cat(ANY, chr_(z)))))],
            [rule('simple', cat(('star', alt(chr_(b), set_((a, c)), ANY)), chr_(x))), rule('simple', chr_(b))],
            [rule('simple', cat(alt(chr_(b), set_((a, c))), chr_(x))), rule('simple', cat(ANY, chr_(y))), rule('simple', chr_(b), alt(cat(chr_(b), chr_(x)), cat(ANY, chr_(y))))],
        ]
        out.append({'name': 'ShMix%d' % i, 'items': [('errortype',)] + variants[i]})
    # removed / inlined states before later entries (C03)
    for i in range(6):
        sets = []
        k = rng.randint(2, 5)
        for j in range(k):
            nm = 'Init' if j == 0 else 'R%d' % j
            rs = []
            for _ in range(rng.randint(0 if j else 1, 3)):
                shape = rng.random()
                if shape < 0.4:
                    re = ('chr', g.char())
                elif shape < 0.7:
                    re = ('str', [g.char() for _ in range(rng.randint(2, 3))])
                else:
                    re = cat(('chr', g.char()), ('plus', ('chr', g.char())))
                rs.append(rule(rng.choice(['infallible', 'infallible', 'simple', 'fallible']), re))
            sets.append(('ruleset', nm, rs))
        d = {'name': 'ShSets%d' % i, 'items': [('errortype',)] + sets}
        if well_formed(d, builtins):
            out.append(d)
    # Accept transitions with failing contexts next to any-transitions (C04)
    for i in range(10):
        a, b, c = rng.sample(LETTERS, 3)
        lo, hi = min(a, b, c), max(a, b, c)
        ctxs = [chr_(b), str_(chr(b) + chr(c)), ('star', chr_(b)), cat(('plus', chr_(b)), EOI), EOI, set_((a, c)), alt(chr_(b), EOI),
                cat(chr_(a), ('star', chr_(b)), chr_(c)),
                # a character that completes the context on its own inside a range that needs more input, and vice versa
                alt(cat(set_((lo, hi)), chr_('x')), chr_(b)), alt(cat(chr_(b), chr_('x')), set_((lo, hi))),
                cat(chr_(b), alt(cat(set_((lo, hi)), chr_(a)), chr_(c))), alt(cat(ANY, chr_('x')), chr_(b), cat(set_((lo, hi)), chr_('y')))]
        items = [rule('simple', chr_(a), rng.choice(ctxs)), rule('simple', chr_(a), rng.choice(ctxs)), rule('simple', ANY),
                 rule('simple', cat(chr_(a), chr_(b)), rng.choice(ctxs)), rule('simple', cat(ANY, ANY, ANY), rng.choice(ctxs))]
        rng.shuffle(items)
        out.append({'name': 'ShCtx%d' % i, 'items': [('errortype',)] + items})
    # rule-set scoping (C16/C12/C04): the SAME local name bound to different regexes in different rule sets, used in rules and in
    # syntactically identical right contexts; a top-level binding visible everywhere
    for i in range(4):
        a, b, c, t, p_, q_ = rng.sample([ord(ch) for ch in 'abcdefgh'], 6)
        body = ('plus', set_(p_, q_))          # disjoint from the context characters, so the context decides
        sets = []
        for j, bound in enumerate([chr_(a), chr_(b), str_(chr(c) + chr(a)), set_(a, c)][: 2 + i % 3]):
            nm = 'Init' if j == 0 else 'R%d' % j
            rs = [('let', 'x', bound), rule('infallible', ('var', 'x')), rule('simple', body, ('var', 'x')),
                  rule('infallible', body), rule('simple', ('var', 'tv')), rule('simple', ANY)]
            if i % 2:
                rs = [rs[3], rs[0], rs[2], rs[1], rs[4], rs[5]]   # a rule before the `let`, the context rule before the plain one
            sets.append(('ruleset', nm, rs))
        d = {'name': 'ShScope%d' % i, 'items': [('errortype',), ('let', 'tv', chr_(t))] + sets}
        if well_formed(d, builtins):
            out.append(d)
    # the same local name bound to different CLASSES in different rule sets, used as right/left operand of `#`, inside a context class, and plainly
    for i in range(3):
        l6 = rng.sample([ord(ch) for ch in 'abcdefgh'], 6)
        sets = []
        for j in range(2 + i % 2):
            nm = 'Init' if j == 0 else 'R%d' % j
            bound = set_(l6[j], l6[(j + 2) % 6])
            vname = 'lowercase' if i == 1 else 'y'
            rs = [('let', vname, bound), rule('infallible', ('diff', set_((ord('a'), ord('h'))), ('var', vname))),
                  rule('simple', cat(chr_('#'), ('diff', ('bi', 'lowercase'), ('var', vname)))),
                  rule('simple', ('plus', ('var', vname)), ('diff', ANY, ('var', vname))),
                  rule('simple', cat(('diff', ('var', vname), chr_(l6[j])), chr_('!'))), rule('simple', ANY)]
            sets.append(('ruleset', nm, rs))
        d = {'name': 'ShScopeCls%d' % i, 'items': [('errortype',)] + sets}
        if well_formed(d, builtins):
            out.append(d)
    # right contexts whose classes have one-character holes, in non-final position (C04: every arm of a context function must test its own class)
    for i in range(4):
        a, b, c, h = rng.sample([ord(ch) for ch in 'abcdefgh'], 4)
        holes = [cat(('diff', ANY, chr_(h)), chr_(c)), cat(set_((ord('a'), h - 1) if h > ord('a') else (h + 1, h + 1), (h + 1, ord('i'))), chr_(c)),
                 cat(chr_(b), ('diff', set_((ord('a'), ord('h'))), chr_(h)), chr_(c)), cat(('star', ('diff', ANY, chr_(h))), chr_(h), chr_(c))]
        items = [rule('simple', chr_(a), holes[i]), rule('simple', chr_(a), cat(chr_(h), chr_(c))), rule('simple', ('plus', chr_(a)), holes[(i + 1) % 4]), rule('simple', ANY)]
        d = {'name': 'ShCtxHole%d' % i, 'items': [('errortype',)] + items}
        if well_formed(d, builtins):
            out.append(d)
    # right contexts that are LARGE classes (ten or more ranges: the context function tests them through a search table or a long guard
    # chain, not through a handful of arms), as the whole context (accept-only target) and followed by more (target with transitions),
    # with ranges that straddle the ASCII / Latin-1 / BMP borders (C04, C13)
    big = [('bi', 'alphabetic'), ('diff', ANY, ('bi', 'alphabetic')), ('alt', ('bi', 'XID_Continue'), chr_('.')),
           ('diff', ANY, ('alt', ('alt', chr_('.'), chr_('_')), ('bi', 'XID_Start'))), ('bi', 'numeric'),
           ('set', [('r', 0x30, 0x39), ('r', 0x41, 0x5A), ('c', 0x5F), ('r', 0x61, 0x7A), ('r', 0x7B, 0xA9), ('r', 0xC0, 0x17F), ('r', 0x391, 0x3C9), ('r', 0x7F0, 0x810),
                    ('r', 0xFFF0, 0x1000F), ('r', 0x1F600, 0x1F64F), ('r', 0xD000, 0xD7FF), ('r', 0xE000, 0xE0FF)]),
           ('diff', ANY, ('set', [('r', 0x0, 0x2F), ('r', 0x3A, 0x40), ('r', 0x5B, 0x60), ('r', 0x7C, 0x9F), ('r', 0x2000, 0x206F), ('r', 0x3000, 0x303F), ('c', 0xFEFF),
                                  ('r', 0xFFF0, 0xFFFF), ('r', 0xE000, 0xF8FF), ('r', 0x10FFF0, 0x10FFFF)]))]
    for i, cls in enumerate(big):
        a, b = rng.sample([ord(ch) for ch in 'abcd'], 2)
        for j, ctx in enumerate([cls, cat(cls, chr_(b))]):
            items = [rule('simple', ('plus', chr_(a)), ctx), rule('simple', chr_(a)), rule('simple', ANY)]
            if i % 3 == j:
                items.insert(1, rule('simple', cat(chr_(a), chr_(b)), cat(('star', chr_(b)), cls)))
            d = {'name': 'ShCtxBig%d' % (2 * i + j), 'items': [('errortype',)] + items}
            if well_formed(d, builtins):
                out.append(d)
    # BIG definitions: the dimensions in which small random definitions never grow — many rules in one rule set (keywords of all lengths,
    # long literals, shared prefixes), many rule sets, many alternatives in one rule, a variable used many times, automata with dozens of
    # states. A fast path, a resized table, a narrow index or a coarse cache key only shows beyond such thresholds.
    kws = ['if', 'in', 'int', 'interface', 'internal', 'implements', 'import', 'else', 'elif', 'end', 'enum', 'extern', 'extends', 'exception_handler',
           'while', 'when', 'where', 'with', 'without_a_doubt', 'fn', 'for', 'foreach', 'function', 'functional', 'f', 'a_rather_long_keyword_indeed']
    ops = ['+', '++', '+=', '-', '--', '-=', '->', '=', '==', '===', '=>', '<', '<=', '<<', '<<=', '>', '>=', '>>', '>>=', '>>>', '!', '!=', '&&', '&', '||', '|']
    ident = cat(set_((ord('a'), ord('z')), ord('_')), ('star', set_((ord('a'), ord('z')), (ord('0'), ord('9')), ord('_'))))
    number = alt(('plus', set_((ord('0'), ord('9')))), cat(('plus', set_((ord('0'), ord('9')))), chr_('.'), ('plus', set_((ord('0'), ord('9'))))))
    big1 = [rule('none', ('plus', set_(ord(' '), 10, 9)))] + [rule('simple', str_(k)) for k in kws] + [rule('infallible', ident), rule('fallible', number)] + \
           [rule('simple', str_(o)) for o in ops] + [rule('simple', ANY)]
    out.append({'name': 'ShBigRules0', 'items': [('errortype',)] + big1})
    big2 = list(big1)
    rng.shuffle(big2)
    big2 = [r for r in big2 if r[2] != ANY] + [rule('simple', ANY)]
    out.append({'name': 'ShBigRules1', 'items': [('errortype',)] + big2})
    # one rule with many alternatives, a variable used many times, nested
    manyalt = alt(*[str_(k) for k in kws[:14]])
    out.append({'name': 'ShBigAlt0', 'items': [('errortype',), ('let', 'kw', manyalt), ('let', 'd', set_((ord('0'), ord('9')))),
                                               rule('simple', ('var', 'kw')), rule('simple', cat(('var', 'kw'), chr_('('), ('star', alt(('var', 'kw'), ('var', 'd'), chr_(','))), chr_(')'))),
                                               rule('infallible', cat(('var', 'd'), ('var', 'd'), ('var', 'd'), ('var', 'd'), chr_('-'), ('var', 'd'), ('var', 'd'))),
                                               rule('simple', ('plus', ('var', 'd'))), rule('simple', ident, alt(chr_('('), ('var', 'kw'))), rule('simple', ANY)]})
    # many rule sets, each with its own keywords, switches in a ring and back to Init
    names = ['Init'] + ['R%d' % j for j in range(1, 7)]
    sets = []
    for j, nm in enumerate(names):
        rs = [rule('infallible', chr_('[' if j % 2 == 0 else '{')), rule('infallible', chr_(']' if j % 2 == 0 else '}'))]
        rs += [rule('simple', str_(k)) for k in kws[3 * j: 3 * j + 4]] + [rule('none', chr_(' ')), rule('simple', ident if j % 3 else number), rule('simple', EOI)]
        sets.append(('ruleset', nm, rs))
    out.append({'name': 'ShBigSets0', 'items': [('errortype',)] + sets})
    # two different large classes (two search tables) in one lexer, interleavable through clones (C15, C13)
    for i, (n1, n2) in enumerate([('XID_Start', 'XID_Continue'), ('alphabetic', 'numeric')]):
        out.append({'name': 'ShTwoTab%d' % i, 'items': [('errortype',), rule('simple', cat(('bi', n1), ('star', ('bi', n2)))), rule('simple', ('plus', ('bi', 'whitespace'))),
                                                        rule('simple', ('plus', ('diff', ('bi', n2), ('bi', n1)))), rule('simple', chr_('='))]})
    # classes touching 0, the surrogate gap, char::MAX (C11, C12)
    cls_exprs = [('diff', ANY, set_((0xD000, 0xE000))), ('diff', ANY, chr_(0)), ('diff', ANY, chr_(0x10FFFF)),
                 ('diff', set_((0, 0x10FFFF)), set_((1, 0xD7FF), (0xE000, 0x10FFFE))),
                 ('diff', ('diff', ANY, set_(('a', 'c'))), set_(('b', 'x'))), set_((0xD7FF, 0xE000)),
                 ('diff', ('alt', ('bi', 'alphabetic'), ('bi', 'numeric')), ('bi', 'ascii_alphanumeric')),
                 ('diff', ('bi', 'XID_Continue'), ('bi', 'XID_Start')),
                 # pieces that end or start exactly at the borders of the surrogate gap after splitting / subtraction
                 ('diff', ANY, set_((0xE000, 0xF8FF))), ('diff', set_((0x80, 0x10FFFF)), set_((0xE000, 0xE000))),
                 ('diff', set_((0xD000, 0xF000)), set_((0xD000, 0xD7FF))), ('diff', ANY, set_((0x100, 0xD7FF))),
                 ('alt', set_((0x80, 0xD7FF)), set_((0xE000, 0xE001)))]
    for i, ce in enumerate(cls_exprs):
        out.append({'name': 'ShCls%d' % i, 'items': [('errortype',), rule('simple', cat(ce, chr_('x'))), rule('simple', ('plus', ce)), rule('simple', ANY)]})
    # built-ins: alone (table / per-range arms), split by overlapping rules (guard chain), as right context
    for i, nm in enumerate(['alphabetic', 'lowercase', 'numeric', 'XID_Start', 'ascii_punctuation', 'whitespace']):
        out.append({'name': 'ShBi%d' % i, 'items': [('errortype',), rule('simple', ('plus', ('bi', nm))),
                                                    rule('simple', chr_('a'), ('bi', nm)),
                                                    rule('simple', cat(chr_('b'), ('bi', nm)), cat(('bi', nm), chr_('!'))),
                                                    rule('simple', set_(('a', 'f'), 0xE9, (0x4E00, 0x4E10))), rule('simple', ANY)]})
    return out


# ---------------------------------------------------------------------------------------------
# inputs


UNICODE_POOL = [10, 9, 32, 0xE9, 0xDF, 0x4E2D, 0x1F600, 0x200D, 0x301, 0x1100, 0xAD, 0, 0x7F, 0x85, 0x2028, 0xFF21, 0x10FFFF,
                # characters that text-handling code likes to treat specially: BOM, CR, replacement char, non-characters, NBSP, ZWSP,
                # paragraph separator, the borders of the surrogate gap
                0xFEFF, 13, 0xFFFD, 0xFFFF, 0xA0, 0x200B, 0x2029, 0xD7FF, 0xE000]


def def_alphabet(d, builtins, limit=6):
    """characters the definition talks about (range end points and neighbours)"""
    pts = set()

    def walk(r):
        t = r[0]
        if t == 'chr':
            pts.add(r[1])
        elif t == 'str':
            pts.update(r[1])
        elif t == 'set':
            for it in r[1]:
                if it[0] == 'c':
                    pts.add(it[1])
                else:
                    pts.update([it[1], it[2], it[1] - 1, it[2] + 1])
        elif t in ('star', 'plus', 'opt'):
            walk(r[1])
        elif t in ('cat', 'alt', 'diff'):
            walk(r[1])
            walk(r[2])
        elif t == 'bi':
            rs = builtins.get(r[1], [])
            for s, e in rs[:2] + rs[-1:]:
                pts.update([s, e + 1])

    for it in d['items']:
        if it[0] == 'let':
            walk(it[2])
        elif it[0] == 'rule':
            walk(it[2])
            if it[3] is not None:
                walk(it[3])
        elif it[0] == 'ruleset':
            for x in it[2]:
                walk(x[2])
                if x[0] == 'rule' and x[3] is not None:
                    walk(x[3])
    from lexast import is_scalar
    pts = sorted(p for p in pts if is_scalar(p))
    return pts


def gen_inputs(rng, d, builtins, n_random=20, exhaustive_len=3, max_alpha=4):
    alpha = def_alphabet(d, builtins)
    inputs = [[]]
    core = list(alpha)
    rng.shuffle(core)
    core = sorted(core[:max_alpha])
    foreign = ord('z')
    ex_alpha = core + [foreign]
    # exhaustive short strings
    frontier = [[]]
    for _ in range(exhaustive_len):
        frontier = [w + [c] for w in frontier for c in ex_alpha]
        inputs.extend(frontier)
    # random longer strings
    pool = alpha + [foreign]
    for _ in range(n_random):
        n = rng.choice([4, 5, 6, 8, 12, 20, 40])
        w = []
        for _ in range(n):
            r = rng.random()
            if r < 0.85 and pool:
                w.append(rng.choice(pool))
            else:
                w.append(rng.choice(UNICODE_POOL))
        inputs.append(w)
    return inputs


def gen_scripts(rng, d, n=3):
    kinds = [k for (_i, _rs, k, _re, _ctx) in rules_in_order(d)]
    if not any(k in ('infallible', 'fallible') for k in kinds):
        return [[]]
    nsets = max(1, len(ruleset_names(d)))
    out = [[], [2], [66, 2, 69]]
    # directed rule-set walks: enter rule set i with a returned token, then keep asking for rule set j (i, j other than Init when possible):
    # two lexer instances parked in i and both switching to j is exactly what hidden per-type (not per-instance) state gets wrong
    if nsets >= 2:
        pairs = [(i, j) for i in range(1, nsets) for j in range(1, nsets) if i != j] or [(1, 0), (1, 1)]
        rng.shuffle(pairs)
        for (i, j) in pairs[:2]:
            out.append([8 * i + 5] + [8 * j + 5] * 4)
            out.append([8 * i + 3, 8 * j + 5, 8 * j + 3])
    for _ in range(n):
        ln = rng.randint(1, 6)
        out.append([rng.randrange(8) + 8 * rng.randrange(nsets) + (64 if rng.random() < 0.25 else 0) for _ in range(ln)])
    return out
