//! Enumerates the Rust predicates behind lexgen's built-in classes over all Unicode scalar values
//! and prints, per built-in name, the maximal runs of scalar values satisfying it (a run continues
//! across the surrogate gap, which holds no scalar values).
use unicode_xid::UnicodeXID;

fn main() {
    let preds: Vec<(&str, Box<dyn Fn(char) -> bool>)> = vec![
        ("alphabetic", Box::new(|c: char| c.is_alphabetic())),
        ("alphanumeric", Box::new(|c: char| c.is_alphanumeric())),
        ("ascii", Box::new(|c: char| c.is_ascii())),
        ("ascii_alphabetic", Box::new(|c: char| c.is_ascii_alphabetic())),
        ("ascii_alphanumeric", Box::new(|c: char| c.is_ascii_alphanumeric())),
        ("ascii_control", Box::new(|c: char| c.is_ascii_control())),
        ("ascii_digit", Box::new(|c: char| c.is_ascii_digit())),
        ("ascii_graphic", Box::new(|c: char| c.is_ascii_graphic())),
        ("ascii_hexdigit", Box::new(|c: char| c.is_ascii_hexdigit())),
        ("ascii_lowercase", Box::new(|c: char| c.is_ascii_lowercase())),
        ("ascii_punctuation", Box::new(|c: char| c.is_ascii_punctuation())),
        ("ascii_uppercase", Box::new(|c: char| c.is_ascii_uppercase())),
        ("ascii_whitespace", Box::new(|c: char| c.is_ascii_whitespace())),
        ("control", Box::new(|c: char| c.is_control())),
        ("lowercase", Box::new(|c: char| c.is_lowercase())),
        ("numeric", Box::new(|c: char| c.is_numeric())),
        ("uppercase", Box::new(|c: char| c.is_uppercase())),
        ("whitespace", Box::new(|c: char| c.is_whitespace())),
        ("XID_Start", Box::new(|c: char| UnicodeXID::is_xid_start(c))),
        ("XID_Continue", Box::new(|c: char| UnicodeXID::is_xid_continue(c))),
    ];
    for (name, f) in preds {
        // satisfying scalars, ascending
        let sat: Vec<u32> = (0..=0x10FFFFu32)
            .filter_map(char::from_u32)
            .filter(|c| f(*c))
            .map(|c| c as u32)
            .collect();
        // group: consecutive scalars (0xD7FF and 0xE000 are consecutive scalars)
        let next_scalar = |x: u32| if x == 0xD7FF { 0xE000 } else { x + 1 };
        let mut out = String::new();
        let mut i = 0;
        while i < sat.len() {
            let start = sat[i];
            let mut end = start;
            while i + 1 < sat.len() && sat[i + 1] == next_scalar(end) {
                i += 1;
                end = sat[i];
            }
            out.push_str(&format!(" {} {}", start, end));
            i += 1;
        }
        println!("{}{}", name, out);
    }
}
