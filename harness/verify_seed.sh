#!/bin/sh
# usage: verify_seed.sh <ID>   (worktree /tmp/seed/wt_<ID>, deliverables /tmp/seed/out_<ID>)
ID="$1"; WT=/tmp/seed/wt_$ID; OUT=/tmp/seed/out_$ID
cd "$WT" || exit 2
git checkout -q -- . 2>/dev/null
git apply "$OUT/patch.diff" || { echo "PATCH DOES NOT APPLY"; exit 1; }
for f in "$OUT"/*.rs; do cp "$f" crates/lexgen/tests/; done
echo "--- with change: full suite"
cargo test --workspace --no-fail-fast --offline 2>&1 | grep -E "^test result|^test .*FAILED|panicked at" | sort | uniq -c | head -30
echo "--- without change: demo only"
git apply -R "$OUT/patch.diff"
for f in "$OUT"/*.rs; do b=$(basename "$f" .rs); cargo test -p lexgen --offline --test "$b" 2>&1 | grep -E "^test result|FAILED" | head; done
