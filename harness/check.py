#!/usr/bin/env python3
"""bin/check <PROPERTY> --tier quick|thorough [--replay FILE]

Decides one property: (1) proof obligations (lake build of the property's theorem module, axiom
audit, regenerated table obligations), (2) correspondence between the Lean model and /repo's
current working tree on the property's observation slice, (3) on any break, a search for a
concrete failing input against the property's own oracle. Prints
`VIOLATION property=<id> replay=<path>[ no-failing-input-found]` and exits 1 on a violation that
`known_findings.json` does not list; writes evidence/<id>.json on every run.
"""
import os, sys, json, time, hashlib, subprocess, argparse, random, re, shutil

HERE = os.path.dirname(os.path.abspath(__file__))
sys.path.insert(0, HERE)
import pipeline, corpus, reflex, gen_defs, components
from lexast import def_lines

VERIF = os.path.dirname(HERE)
LEAN = os.path.join(VERIF, 'lean')
EVID = os.path.join(VERIF, 'evidence')
REPLAYS = os.path.join(EVID, 'replays')

# which stage checks (prefix match) guard which properties (DESIGN §7)
STAGE_ATTR = {
    'bisim.full': ['C01', 'C02', 'C03', 'C05'],
    'bisim.simplified': ['C01', 'C02', 'C03', 'C05'],
    'bisim.simplify': ['C01', 'C02', 'C03', 'C05'],
    'entries': ['C03'],
    'bisim.ctx': ['C04'], 'wf.ctx': ['C04'], 'ctx.count': ['C04'], 'wf.acceptany': ['C04'],
    'wf.flags': ['C01', 'C07', 'C09'], 'flags.full': ['C01', 'C07', 'C09'], 'flags.model': ['C01', 'C12'],
    'wf.entries': ['C03', 'C09'], 'wf.targets': ['C03'], 'wf.state0': ['C03', 'C05', 'C08'], 'dispatch.': ['C03'],
    'wf.ranges': ['C02', 'C11'], 'wf.chars': ['C02'], 'wf.eoi': ['C05'], 'wf.gotolive': ['C08'], 'stageok': ['C01'],
    'compile': ['C12', 'C17'], 'dump': ['C12'], 'def': ['C12'],
}
TRACE_PROPS = pipeline.TRACE_PROPS + ['C14', 'C15']
ALL_PROPS = ['C%02d' % i for i in range(1, 19)]


def log(msg):
    print('[check] ' + msg, file=sys.stderr, flush=True)


# ---------------------------------------------------------------------------------------------
# proof obligations


def theorem_table():
    """property -> list of theorem names, read from lean/LexgenModel/Props/<P>.lean headers"""
    out = {}
    pdir = os.path.join(LEAN, 'LexgenModel', 'Props')
    for p in ALL_PROPS:
        fn = os.path.join(pdir, p + '.lean')
        names = []
        if os.path.exists(fn):
            for m in re.finditer(r'^theorem\s+([A-Za-z0-9_\.]+)', open(fn).read(), re.M):
                names.append(m.group(1))
        if p == 'C13':
            g = os.path.join(LEAN, 'LexgenModel', 'Generated', 'TablesCheck.lean')
            if os.path.exists(g):
                names += ['Generated.' + m.group(1) for m in re.finditer(r'^theorem\s+([A-Za-z0-9_\.]+)', open(g).read(), re.M)]
        out[p] = names
    return out


def lean_closure(roots):
    """files of the lake project transitively imported from the given root files"""
    seen, todo = set(), list(roots)
    while todo:
        f = todo.pop()
        if f in seen or not os.path.exists(f):
            continue
        seen.add(f)
        for m in re.finditer(r'^import\s+(LexgenModel[\w\.]*)', open(f).read(), re.M):
            todo.append(os.path.join(LEAN, *m.group(1).split('.')) + '.lean')
    return sorted(seen)


def lean_scan_forbidden(prop):
    """no sorry/admit/axiom/native_decide/... in any Lean source the property's theorems, the model
    or the driver depend on (comments excluded)"""
    bad = []
    pat = re.compile(r'\bsorry\b|\badmit\b|^\s*axiom\s|native_decide|bv_decide|implemented_by|\bunsafe\s|maxHeartbeats\s+0\b')
    roots = [os.path.join(LEAN, 'Main.lean'), os.path.join(LEAN, 'LexgenModel.lean'), os.path.join(LEAN, 'LexgenModel', 'Props', prop + '.lean'),
             os.path.join(LEAN, 'LexgenModel', 'Generated', 'TablesCheck.lean')]
    for path in lean_closure(roots):
        txt = open(path).read()
        txt = re.sub(r'/-.*?-/', '', txt, flags=re.S)
        for i, line in enumerate(txt.split('\n')):
            line = line.split('--')[0]
            if pat.search(line):
                bad.append('%s:%d: %s' % (os.path.basename(path), i + 1, line.strip()))
    return bad


def run_proofs(prop, tier):
    """returns dict(ok, obligations, discharged, axioms, detail, wall_s)"""
    t0 = time.time()
    out = {'ok': True, 'obligations': 0, 'discharged': 0, 'axioms': {}, 'detail': [], 'theorems': []}
    # regenerate tables from /repo
    rc = subprocess.run([sys.executable, os.path.join(HERE, 'extract_tables.py')], stdout=subprocess.PIPE, stderr=subprocess.PIPE)
    if rc.returncode != 0:
        out['ok'] = False
        out['detail'].append('extract_tables failed: ' + rc.stderr.decode()[-500:])
        return out
    thms = theorem_table()[prop]
    out['theorems'] = thms
    targets = ['lexmodel']
    if thms:
        targets.append('LexgenModel.Props.' + prop)
    if prop == 'C13':
        targets.append('LexgenModel.Generated.TablesCheck')
    p = subprocess.run(['lake', 'build'] + targets, cwd=LEAN, stdout=subprocess.PIPE, stderr=subprocess.STDOUT)
    if p.returncode != 0:
        out['ok'] = False
        out['detail'].append('lake build failed: ' + p.stdout.decode('utf-8', 'replace')[-3000:])
        out['wall_s'] = time.time() - t0
        return out
    forb = lean_scan_forbidden(prop)
    if forb:
        out['ok'] = False
        out['detail'].append('forbidden constructs: ' + '; '.join(forb[:5]))
    if thms:
        # axiom audit
        src = 'import LexgenModel.Props.%s\nopen Lexgen\n' % prop + ''.join('#print axioms %s\n' % t for t in thms)
        if prop == 'C13':
            src = 'import LexgenModel.Generated.TablesCheck\n' + src
        af = os.path.join(LEAN, '.lake', 'audit_%s.lean' % prop)
        open(af, 'w').write(src)
        p = subprocess.run(['lake', 'env', 'lean', af], cwd=LEAN, stdout=subprocess.PIPE, stderr=subprocess.STDOUT)
        txt = p.stdout.decode('utf-8', 'replace')
        allowed = {'propext', 'Classical.choice', 'Quot.sound'}
        for m in re.finditer(r"'([^']+)' depends on axioms: \[([^\]]*)\]|'([^']+)' does not depend on any axioms", txt):
            if m.group(1):
                ax = [a.strip() for a in m.group(2).split(',') if a.strip()]
                out['axioms'][m.group(1)] = ax
                if not set(ax) <= allowed:
                    out['ok'] = False
                    out['detail'].append('theorem %s depends on %s' % (m.group(1), ax))
            else:
                out['axioms'][m.group(3)] = []
        if p.returncode != 0 or len(out['axioms']) < len(thms):
            out['ok'] = False
            out['detail'].append('axiom audit incomplete: ' + txt[-1500:])
        out['obligations'] = len(thms)
        out['discharged'] = len(out['axioms']) if out['ok'] else 0
        if tier == 'thorough':
            p = subprocess.run(['lake', 'env', 'leanchecker', 'LexgenModel.Props.' + prop], cwd=LEAN, stdout=subprocess.PIPE, stderr=subprocess.STDOUT)
            out['leanchecker_rc'] = p.returncode
            if p.returncode != 0:
                out['ok'] = False
                out['detail'].append('leanchecker: ' + p.stdout.decode('utf-8', 'replace')[-800:])
    out['wall_s'] = time.time() - t0
    return out


# ---------------------------------------------------------------------------------------------
# known findings, replays


def load_known():
    fn = os.path.join(VERIF, 'known_findings.json')
    if not os.path.exists(fn):
        return {'findings': [], 'fixed': []}
    return json.load(open(fn))


def fingerprint(prop, v):
    key = json.dumps([prop, v.get('definition'), v.get('input'), v.get('script'), v.get('site')], sort_keys=True)
    return hashlib.sha256(key.encode()).hexdigest()[:12]


def write_replay(prop, v):
    os.makedirs(REPLAYS, exist_ok=True)
    fp = fingerprint(prop, v)
    path = os.path.join(REPLAYS, '%s-%s.json' % (prop, fp))
    v = dict(v)
    v['property'] = prop
    v['fingerprint'] = fp
    v['rerun'] = 'bin/check %s --replay %s' % (prop, path)
    json.dump(v, open(path, 'w'), indent=1)
    return path, fp


# ---------------------------------------------------------------------------------------------
# search for a failing input (oracle = reference lexer / direct oracles), on a fresh build


def build_and_run_extra(defs, extra, timeout=600):
    return build_and_run(defs, {}, timeout=timeout, extra=extra)


def build_and_run(defs, cases_by_prog, timeout=600, extra=None):
    """compile definitions with the real macro, run cases; returns (status, traces, dumps)"""
    work = pipeline.scratch_dir()
    ws = os.path.join(work, 'ws_search')
    dump = os.path.join(work, 'dump_search')
    shutil.rmtree(dump, ignore_errors=True)
    byname = {d['name']: d for d in defs}
    crates = corpus.write_workspace(ws, defs, per_crate=8, extra=extra)
    status, blog = corpus.build_workspace(ws, crates, dump, byname, extra=extra, timeout=timeout, target_dir=pipeline.shared_target())
    traces = {}
    for c in sorted(set(st.get('crate') for st in status.values() if st.get('crate'))):
        cs = [x for nm, st in status.items() if st.get('crate') == c for x in cases_by_prog.get(nm, [])]
        if cs:
            traces.update(corpus.run_crate_cases(ws, c, cs, work, timeout=300, target_dir=pipeline.shared_target()))
    dumps = {nm: corpus.split_dump(corpus.read_dump(dump, nm)) for nm in byname}
    shutil.rmtree(ws, ignore_errors=True)
    return status, traces, dumps


def search_failing_input(prop, prog_json, seeds_inputs, builtins, rng, budget=400):
    """enlarged sweep on one program against the reference lexer; returns a violation dict or None"""
    d = pipeline.json_to_def(prog_json)
    try:
        ref = reflex.RefLexer(d, builtins)
    except Exception:  # noqa
        return None
    inputs = []
    for w in seeds_inputs:
        w = [c for c in w if c <= 0x10FFFF]
        for k in range(len(w) + 1):
            inputs.append(w[:k])
            inputs.append(w[:k] + [0x7A])
        inputs.append(w + w)
    inputs += gen_defs.gen_inputs(rng, d, builtins, n_random=60, exhaustive_len=4, max_alpha=3)
    seen, uniq = set(), []
    for w in inputs:
        if tuple(w) not in seen:
            seen.add(tuple(w))
            uniq.append(w)
    scripts = gen_defs.gen_scripts(rng, d, n=4)
    cases = []
    for i, inp in enumerate(uniq[:budget]):
        for j, sc in enumerate(scripts[:3]):
            cases.append({'prog': d['name'], 'id': 's%ds%d' % (i, j), 'ctor': 0, 'ncalls': len(inp) + 3, 'input': inp, 'script': sc, 'clones': []})
    # rule-set directed cases: enter rule set j through a scripted rule of the first rule set (every scripted action switches to j),
    # then a shortest lexeme of each rule of j, then each seed word (e.g. the word that distinguishes a right-context automaton)
    try:
        for k, (inp, sc) in enumerate(directed_cases(d, ref, builtins, seeds_inputs)[:budget]):
            cases.append({'prog': d['name'], 'id': 'd%d' % k, 'ctor': 0, 'ncalls': len(inp) + 3, 'input': inp, 'script': sc, 'clones': []})
    except Exception as e:  # noqa
        log('directed cases failed: %r' % (e,))
    status, traces, dumps = build_and_run([d], {d['name']: cases})
    if status[d['name']]['build'] != 'ok':
        return None
    dd = dumps[d['name']]
    sw = corpus.dump_switch_table(dd['body']) if dd else {}
    num2name = {v: k for k, v in sw.items()} if sw else {0: '_'}
    for c in cases:
        it = traces.get((d['name'], c['id']))
        if it is None:
            continue
        pil = pipeline.map_states(it['lines'], num2name)
        dirs = pipeline.direct_oracles(c, pil, it['widths'])
        if prop in dirs:
            return {'definition': corpus.lexer_text(d), 'def_json': prog_json, 'input': c['input'], 'script': c['script'], 'ctor': 0,
                    'what': 'direct oracle: ' + dirs[prop], 'actual': it['lines'][:8]}
        rl = ref.run(c['input'], c['script'], c['ncalls'], True, it['widths'])
        prl = [pipeline.parse_line(l) for l in rl]
        if prop in pipeline.TRACE_PROPS and pipeline.proj(prop, pil) != pipeline.proj(prop, prl):
            a, b = pipeline.first_diff(it['lines'], rl)
            return {'definition': corpus.lexer_text(d), 'def_json': prog_json, 'input': c['input'], 'script': c['script'], 'ctor': 0,
                    'what': 'implementation differs from the reference lexer', 'actual': a, 'expected': b}
    return None


def shortest_word(core, alpha, max_len=6):
    """a shortest word (over `alpha`, end-of-input excluded) in the language of a core regex, by breadth-first derivatives"""
    from lexast import deriv, nullable, is_empty_lang
    seen = {core}
    frontier = [(core, [])]
    for _ in range(max_len + 1):
        nxt = []
        for r, w in frontier:
            if nullable(r):
                return w
            for c in alpha:
                r2 = deriv(r, c)
                if r2 not in seen and not is_empty_lang(r2):
                    seen.add(r2)
                    nxt.append((r2, w + [c]))
        frontier = nxt[:400]
    return None


def directed_cases(d, ref, builtins, seeds):
    alpha = sorted(set(gen_defs.def_alphabet(d, builtins, limit=10) + [c for w in seeds for c in w if c <= 0x10FFFF]))[:24]
    words = {}
    for rs, rules in ref.sets.items():
        for (idx, kind, re_, ctx) in rules:
            w = shortest_word(re_, alpha)
            if w:
                words[idx] = w
    first = ref.init
    entry_words = [words[idx] for (idx, kind, re_, ctx) in ref.sets[first] if kind in ('infallible', 'fallible') and idx in words][:3]
    tails = [[]] + [[c for c in w if c <= 0x10FFFF] for w in seeds][:6]
    out = []
    order = ref.order or [first]
    for j, rs in enumerate(order):
        pres = [[]] if rs == first else entry_words
        for (idx, kind, re_, ctx) in ref.sets[rs]:
            if idx not in words:
                continue
            for pre in pres:
                for t in tails:
                    for dec in (8 * j + 3, 8 * j + 5):
                        out.append((pre + words[idx] + t, [dec]))
                        out.append((pre + words[idx] + t + words[idx] + t + [0x7A], [dec]))
    return out


def shrink_violation(prop, v, builtins, rounds=8):
    """delta-debug the input of a concrete violation against the reference lexer (same definition,
    same script); returns a violation dict with a shorter input when one is found"""
    if not v.get('def_json') or v.get('input') is None or len(v['input']) <= 8 or prop not in pipeline.TRACE_PROPS:
        return v
    d = pipeline.json_to_def(v['def_json'])
    try:
        ref = reflex.RefLexer(d, builtins)
    except Exception:  # noqa
        return v
    cur = list(v['input'])
    script = v.get('script') or []
    best = v
    for _ in range(rounds):
        n = len(cur)
        if n <= 3:
            break
        cands = []
        for parts in (2, 4, 8):
            size = max(1, n // parts)
            for i in range(0, n, size):
                c = cur[:i] + cur[i + size:]
                if c and c not in cands:
                    cands.append(c)
        cands = cands[:40]
        cases = [{'prog': d['name'], 'id': 'k%d' % i, 'ctor': 0, 'ncalls': len(c) + 3, 'input': c, 'script': script, 'clones': []} for i, c in enumerate(cands)]
        status, traces, dumps = build_and_run([d], {d['name']: cases})
        if status[d['name']]['build'] != 'ok':
            break
        dd = dumps[d['name']]
        sw = corpus.dump_switch_table(dd['body']) if dd else {}
        num2name = {x: k for k, x in sw.items()} if sw else {0: '_'}
        found = None
        for c in sorted(cases, key=lambda c: len(c['input'])):
            it = traces.get((d['name'], c['id']))
            if it is None:
                continue
            pil = pipeline.map_states(it['lines'], num2name)
            rl = ref.run(c['input'], script, c['ncalls'], True, it['widths'])
            prl = [pipeline.parse_line(l) for l in rl]
            if pipeline.proj(prop, pil) != pipeline.proj(prop, prl) or prop in pipeline.direct_oracles(c, pil, it['widths']):
                a, b = pipeline.first_diff(it['lines'], rl)
                found = dict(best)
                found.update({'input': c['input'], 'actual': a, 'expected': b, 'shrunk_from': len(v['input'])})
                break
        if found is None:
            break
        best = found
        cur = found['input']
    return best


# ---------------------------------------------------------------------------------------------
# the generic decision for trace/stage based properties


def words_of_detail(detail):
    m = re.search(r'word=\[([0-9, ]*)\]', detail)
    if not m:
        return []
    return [[int(x) for x in m.group(1).replace(',', ' ').split()]]


def decide_from_corpus(prop, res, builtins, seed, only_programs=None):
    """returns (violations: list of replay dicts, corr_breaks: list, stats)"""
    violations, breaks = [], []
    progs = res['programs']

    def wanted(nm):
        return only_programs is None or only_programs(nm, progs[nm])

    # (a) oracle violations on this property's projection: concrete failing inputs
    for v in sorted(res['oracle_violations'].get(prop, []), key=lambda v: (len(v['input']), len(v['script'])))[:6]:
        if not wanted(v['program']):
            continue
        violations.append({'definition': progs[v['program']]['text'], 'def_json': progs[v['program']]['json'], 'input': v['input'], 'script': v['script'],
                           'ctor': v['ctor'], 'what': v['msg'], 'actual': v['impl'], 'expected': v.get('expected')})
    # (b) correspondence: model/implementation trace differences on this projection
    for v in res['disagreements'].get(prop, []) + res['disagreements'].get('ALL', []):
        if not wanted(v['program']):
            continue
        breaks.append({'kind': 'trace', 'program': v['program'], 'input': v['input'], 'script': v['script'], 'detail': v['msg'], 'impl': v['impl'], 'model': v['other']})
    # (c) programs of this property's slice that could not be built: nothing is shown for them
    for nm, pr in progs.items():
        if wanted(nm) and pr['build'] != 'ok':
            breaks.append({'kind': 'build', 'program': nm, 'check': 'expansion', 'detail': 'the definition does not expand/compile (%s): %s' % (pr['build'], pr['detail'][:300]), 'words': []})
    # (d) stage checks attributed to this property
    for nm, pr in progs.items():
        if not wanted(nm):
            continue
        for (chk, ok, detail) in pr['stage']:
            if ok:
                continue
            for prefix, props in STAGE_ATTR.items():
                if chk.startswith(prefix) and prop in props:
                    breaks.append({'kind': 'stage', 'program': nm, 'check': chk, 'detail': detail[:600], 'words': words_of_detail(detail)})
                    break
    return violations, breaks


def resolve_breaks(prop, res, breaks, builtins, seed, max_searches=5):
    """search for concrete failing inputs for broken correspondences; returns (violations, unresolved)"""
    rng = random.Random(seed + 17)
    found, unresolved = [], []
    by_prog = {}
    for b in breaks:
        by_prog.setdefault(b['program'], []).append(b)
    def reachable_first(item):
        # breaks found from the `Init` entry (or in a lexer without rule sets) are reachable without switches
        nm, bs = item
        return 0 if any(('entry=Init' in b.get('detail', '') or 'entry=-' in b.get('detail', '') or b['kind'] == 'trace') for b in bs) else 1

    for i, (nm, bs) in enumerate(sorted(by_prog.items(), key=reachable_first)):
        v = None
        if i < max_searches and prop in TRACE_PROPS + ['C02']:
            seeds = []
            for b in bs:
                seeds += b.get('words', [])
                if b.get('input') is not None:
                    seeds.append(b['input'])
            try:
                p = 'C01' if prop == 'C02' else prop
                v = search_failing_input(p, res['programs'][nm]['json'], seeds, builtins, rng)
            except Exception as e:  # noqa
                log('search failed: %r' % (e,))
        if v is not None:
            found.append(v)
        else:
            b = bs[0]
            unresolved.append({'definition': res['programs'][nm]['text'], 'def_json': res['programs'][nm]['json'],
                               'site': '%s %s' % (b['kind'], b.get('check', 'trace')),
                               'what': 'correspondence no longer checks: %s %s — %s' % (b['kind'], b.get('check', 'model/implementation traces'), b['detail']),
                               'input': b.get('input'), 'script': b.get('script'), 'no_failing_input': True})
    return found, unresolved


# ---------------------------------------------------------------------------------------------
# evidence


def trusted_base():
    return ['Lean 4.33 kernel', 'axioms: propext, Classical.choice, Quot.sound (audited per theorem with #print axioms)',
            'hand-written Lean model of the Rust code; correspondence harness (hooks, Python driver, Rust trace runner, lexmodel)',
            'reference lexer harness/reflex.py (oracle of the failing-input search)',
            'rustc/cargo, syn, quote; unicode-width supplied per input by the crate itself']


def write_evidence(prop, tier, seed, level, coverage, assumptions, wall, nviol):
    os.makedirs(EVID, exist_ok=True)
    ev = {'property_id': prop, 'tier': tier, 'seed': seed, 'level': level, 'coverage': coverage, 'assumptions': assumptions,
          'wall_s': round(wall, 2), 'violations': nviol}
    json.dump(ev, open(os.path.join(EVID, prop + '.json'), 'w'), indent=1)


# ---------------------------------------------------------------------------------------------


def nontrivial_programs(res, pred):
    return [nm for nm, pr in res['programs'].items() if pr['build'] == 'ok' and pred(pr)]


PROGRAM_FILTER = {
    'C03': lambda nm, pr: True,
    'C04': lambda nm, pr: pr.get('features', {}).get('has_ctx', False),
}


def main():
    ap = argparse.ArgumentParser()
    ap.add_argument('prop')
    ap.add_argument('--tier', default=os.environ.get('VERIF_TIER', 'quick'))
    ap.add_argument('--replay')
    ap.add_argument('--no-cache', action='store_true')
    args = ap.parse_args()
    prop = args.prop
    tier = args.tier if args.tier in ('quick', 'thorough') else 'quick'
    seed = int(os.environ.get('VERIF_SEED', '1'))
    t0 = time.time()
    if args.replay:
        return components.replay(prop, args.replay)
    builtins = pipeline.load_builtins()
    proofs = run_proofs(prop, tier)
    log('proofs: ok=%s obligations=%d' % (proofs['ok'], proofs['obligations']))
    violations, unresolved = [], []
    coverage = {}
    assumptions = []
    if not proofs['ok']:
        unresolved.append({'site': 'proof obligations of ' + prop, 'what': 'proof obligations no longer check: ' + ' | '.join(proofs['detail'])[:1500],
                           'no_failing_input': True, 'definition': None, 'input': None, 'script': None})
    # property specific machinery
    res = None
    if prop in TRACE_PROPS + ['C02', 'C12', 'C16', 'C13']:
        res = pipeline.get_results(tier, seed, log=log, use_cache=not args.no_cache)
        log('corpus results (%s): %s' % ('cached' if res.get('cached') else 'fresh', json.dumps(res['counters'])))
    spec = components.PROPERTY_CHECKS.get(prop)
    if prop in TRACE_PROPS + ['C02']:
        flt = PROGRAM_FILTER.get(prop)
        v, breaks = decide_from_corpus(prop if prop != 'C02' else 'C01', res, builtins, seed, flt)
        if prop == 'C02':
            # C02 owns the language slice: stage checks attributed to C02 (not C01's flags)
            v2, breaks2 = decide_from_corpus('C02', res, builtins, seed, flt)
            breaks = [b for b in breaks if b['kind'] == 'trace'] + breaks2
        if v:
            try:
                v = [shrink_violation(prop if prop != 'C02' else 'C01', v[0], builtins)] + v[1:]
            except Exception as e:  # noqa
                log('shrinking failed: %r' % (e,))
        violations += v
        if not violations and breaks:
            f, u = resolve_breaks(prop, res, breaks, builtins, seed)
            violations += f
            unresolved += u[:4]
        c = res['counters']
        coverage.update({'programs': c['built'], 'evaluations': c['cases'], 'distinct_nontrivial': c['distinct_traces'],
                         'traces_validated_against_impl': c['impl_model_equal'], 'traces_equal_reference_lexer': c['impl_ref_equal'],
                         'disagreements_checked': len(breaks),
                         'rule': 'corpus = regression + shape-directed + random well-formed definitions (seeded); inputs = edge-covering words of the dumped DFA, '
                                 'exhaustive short strings over the definition alphabet plus a foreign character, random longer and Unicode-mix strings, long runs; '
                                 'scripted action decisions; a case is distinct by (program, trace) and non-trivial when it yields at least two items',
                         'stage_checks': sum(len(pr['stage']) for pr in res['programs'].values()),
                         'stage_failures': sum(1 for pr in res['programs'].values() for s in pr['stage'] if not s[1]),
                         'distribution': {k: c[k] for k in c if k in ('errors', 'customs', 'switch_cases', 'ctor_groups', 'clone_traces', 'nontrivial_cases', 'programs_with_rewind', 'spec_cases', 'impl_spec_equal', 'spec_unavailable', 'order_independence_cases') or k.startswith('ref_')},
                         'samples': res['samples'][:4]})
    if prop == 'C16':
        # scoping is behaviour: every corpus definition that uses `let` bindings (top-level, rule-set local, the same name in several
        # scopes, under `#`, in right contexts) must lex like the definition with the bindings substituted scope by scope — which is
        # what the reference lexer and the executable specification do
        v, _breaks = decide_from_corpus('C01', res, builtins, seed, lambda nm, pr: pr.get('features', {}).get('has_let', False))
        for x in v[:4]:
            x = dict(x)
            x['what'] = 'a definition with `let` bindings does not behave like the definition with its bindings substituted scope by scope: ' + x.get('what', '')
            violations.append(x)
        coverage['programs_with_bindings'] = sum(1 for pr in res['programs'].values() if pr.get('features', {}).get('has_let'))
    if spec is not None:
        r = spec(tier, seed, res, builtins, log)
        violations += r.get('violations', [])
        unresolved += r.get('unresolved', [])
        for k, v in r.get('coverage', {}).items():
            if k == 'samples':
                coverage['samples'] = (coverage.get('samples') or []) + v
            elif k in ('evaluations', 'distinct_nontrivial', 'programs', 'disagreements_checked') and k in coverage:
                coverage[k] += v
            else:
                coverage[k] = v
        assumptions += r.get('assumptions', [])
    # known findings
    known = load_known()
    open_fps = {f['fingerprint']: f for f in known.get('findings', [])}
    out_lines, fail = [], False
    for v in violations + unresolved:
        path, fp = write_replay(prop, v)
        if fp in open_fps:
            out_lines.append('KNOWN-FINDING: property=%s %s' % (prop, open_fps[fp].get('what', v.get('what', ''))))
            continue
        fail = True
        suffix = ' no-failing-input-found' if v.get('no_failing_input') else ''
        out_lines.append('VIOLATION property=%s replay=%s%s' % (prop, path, suffix))
        log('  -> %s' % (v.get('what', '')[:400],))
    for f in known.get('findings', []):
        if f.get('property') == prop and not any(f['fingerprint'] in l for l in out_lines) and f['fingerprint'] not in [fingerprint(prop, v) for v in violations + unresolved]:
            # listed finding that did not show up in this run: still announce it (it is a known defect of the tree)
            out_lines.append('KNOWN-FINDING: property=%s %s' % (prop, f.get('what', '')))
    # evidence
    level = 'proof' if proofs['obligations'] > 0 else 'translation_validation'
    coverage.update({'obligations': proofs['obligations'], 'discharged': proofs['discharged'],
                     'checker_cmd': 'cd lean && lake build LexgenModel.Props.%s && lake env lean .lake/audit_%s.lean  (#print axioms per theorem)' % (prop, prop),
                     'trusted_base': trusted_base(), 'theorems': proofs['theorems'], 'axioms': proofs['axioms']})
    if 'samples' not in coverage or not coverage['samples']:
        coverage['samples'] = [{'theorems': proofs['theorems'][:5]}]
    coverage.setdefault('programs', 1)
    coverage.setdefault('disagreements_checked', 0)
    coverage.setdefault('evaluations', max(1, proofs['obligations']))
    coverage.setdefault('distinct_nontrivial', max(2, proofs['obligations']))
    assumptions += ['u32/usize modelled by Nat; hash-map iteration order abstracted (artefacts compared by behaviour)',
                    'user actions are pure functions of the view their handle exposes; iterators are fused and clone = value copy']
    write_evidence(prop, tier, seed, level, coverage, assumptions, time.time() - t0, sum(1 for l in out_lines if l.startswith('VIOLATION')))
    for l in out_lines:
        print(l)
    sys.stdout.flush()
    return 1 if fail else 0


if __name__ == '__main__':
    sys.exit(main())
