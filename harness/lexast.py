"""Regex / lexer-definition trees shared by the generator, the printers and the reference lexer.

Regex trees are tuples:
  ('chr', c) ('str', [c..]) ('set', [('c', c) | ('r', s, e) ..]) ('any',) ('eoi',)
  ('star', r) ('plus', r) ('opt', r) ('cat', a, b) ('alt', a, b) ('diff', a, b)
  ('var', name) ('bi', name)
A definition is a dict:
  { 'name': str, 'items': [item..] } with items
  ('errortype',) | ('let', name, re) | ('rule', kind, re, ctx|None) | ('ruleset', name, [('let',..)|('rule',..)..])
Rule kinds: 'none' 'simple' 'fallible' 'infallible'. Action indices are assigned in source order.
"""

CHAR_MAX = 0x10FFFF
SUR_LO, SUR_HI = 0xD800, 0xDFFF


def is_scalar(c):
    return 0 <= c <= CHAR_MAX and not (SUR_LO <= c <= SUR_HI)


# ---------------------------------------------------------------------------------------------
# printing in the dump/AST token syntax (what the hooks emit, what lexmodel reads)


def re_tokens(r, out):
    t = r[0]
    if t == 'chr':
        out += ['chr', str(r[1])]
    elif t == 'str':
        out += ['str', str(len(r[1]))] + [str(c) for c in r[1]]
    elif t == 'set':
        out += ['set', str(len(r[1]))]
        for it in r[1]:
            if it[0] == 'c':
                out += ['c', str(it[1])]
            else:
                out += ['r', str(it[1]), str(it[2])]
    elif t in ('any', 'eoi'):
        out.append(t)
    elif t in ('star', 'plus', 'opt'):
        out.append(t)
        re_tokens(r[1], out)
    elif t in ('cat', 'alt', 'diff'):
        out.append(t)
        re_tokens(r[1], out)
        re_tokens(r[2], out)
    elif t == 'var':
        out += ['var', r[1]]
    elif t == 'bi':
        out += ['bi', r[1]]
    else:
        raise ValueError(r)
    return out


BASE_KIND = {'autoinf': 'infallible', 'autofal': 'fallible'}


def base_kinds(lines):
    """definition lines with the protocol-only kinds `autoinf` / `autofal` replaced by the macro's kinds (what the dumped AST shows)"""
    out = []
    for l in lines:
        w = l.split(' ')
        if len(w) > 2 and w[1] == 'rule' and w[2] in BASE_KIND:
            w[2] = BASE_KIND[w[2]]
            l = ' '.join(w)
        out.append(l)
    return out


def def_lines(d, model=False):
    """Definition in dump-AST syntax (one line per item), with action indices in source order. `model=True`: for the Lean driver (keeps the
    protocol-only kinds `autoinf` / `autofal`); otherwise as the macro's AST dump prints it."""
    if not model:
        return base_kinds(def_lines(d, True))
    lines = []
    idx = 0

    def rb(prefix, it):
        nonlocal idx
        if it[0] == 'let':
            lines.append(' '.join([prefix, 'let', it[1]] + re_tokens(it[2], [])))
        else:
            toks = [prefix, 'rule', it[1], str(idx), 're'] + re_tokens(it[2], [])
            if it[3] is not None:
                toks += ['ctx'] + re_tokens(it[3], [])
            lines.append(' '.join(toks))
            idx += 1

    for it in d['items']:
        if it[0] == 'errortype':
            lines.append('item errortype')
        elif it[0] in ('let', 'rule'):
            rb('item', it)
        elif it[0] == 'ruleset':
            lines.append('item ruleset ' + it[1])
            for x in it[2]:
                rb('rsitem', x)
            lines.append('endruleset')
    return lines


def rules_in_order(d):
    """[(action idx, ruleset name or None, kind, re, ctx)] in source order"""
    out = []
    idx = 0
    for it in d['items']:
        if it[0] == 'rule':
            out.append((idx, None, it[1], it[2], it[3]))
            idx += 1
        elif it[0] == 'ruleset':
            for x in it[2]:
                if x[0] == 'rule':
                    out.append((idx, it[1], x[1], x[2], x[3]))
                    idx += 1
    return out


def ruleset_names(d):
    return [it[1] for it in d['items'] if it[0] == 'ruleset']


# ---------------------------------------------------------------------------------------------
# printing as Rust `lexer!` syntax


def char_lit(c):
    if c == ord("'"):
        return "'\\''"
    if c == ord('\\'):
        return "'\\\\'"
    if c == 10:
        return "'\\n'"
    if c == 9:
        return "'\\t'"
    if c == 13:
        return "'\\r'"
    if 0x20 <= c < 0x7F:
        return "'" + chr(c) + "'"
    return "'\\u{%X}'" % c


def str_lit(cs):
    out = ['"']
    for c in cs:
        if c == ord('"'):
            out.append('\\"')
        elif c == ord('\\'):
            out.append('\\\\')
        elif c == 10:
            out.append('\\n')
        elif c == 9:
            out.append('\\t')
        elif c == 13:
            out.append('\\r')
        elif 0x20 <= c < 0x7F:
            out.append(chr(c))
        else:
            out.append('\\u{%X}' % c)
    out.append('"')
    return ''.join(out)


LEVEL = {'alt': 0, 'cat': 1, 'star': 2, 'plus': 2, 'opt': 2, 'diff': 3}


def level_of(r):
    return LEVEL.get(r[0], 4)


def print_tokens(r, min_level=0, redundant=None):
    """Token list of a printing with the fewest parentheses the grammar allows; `redundant`
    (a random.Random) adds extra parentheses at random. Tokens: ('(',) (')',) ('[',) (']',) ('$',)
    ('id', name) ('c', cp) ('s', [cps]) ('_',) ('|',) ('*',) ('+',) ('?',) ('#',) ('-',)"""
    t = r[0]
    if t == 'chr':
        toks = [('c', r[1])]
    elif t == 'str':
        toks = [('s', list(r[1]))]
    elif t == 'set':
        toks = [('[',)]
        for it in r[1]:
            if it[0] == 'c':
                toks.append(('c', it[1]))
            else:
                toks += [('c', it[1]), ('-',), ('c', it[2])]
        toks.append((']',))
    elif t == 'any':
        toks = [('_',)]
    elif t == 'eoi':
        toks = [('$',)]
    elif t == 'var':
        toks = [('$',), ('id', r[1])]
    elif t == 'bi':
        toks = [('$',), ('$',), ('id', r[1])]
    elif t == 'alt':
        toks = print_tokens(r[1], 0, redundant) + [('|',)] + print_tokens(r[2], 1, redundant)
    elif t == 'cat':
        lt, rt = print_tokens(r[1], 1, redundant), print_tokens(r[2], 2, redundant)
        if lt[-1] == ('$',) and rt[0] == ('$',):
            # `$` directly followed by `$..` would read as the prefix of a variable / built-in: keep the end-of-input `$` apart
            rt = [('(',)] + rt + [(')',)]
        toks = lt + rt
    elif t in ('star', 'plus', 'opt'):
        op = {'star': '*', 'plus': '+', 'opt': '?'}[t]
        toks = print_tokens(r[1], 2, redundant) + [(op,)]
    elif t == 'diff':
        toks = print_tokens(r[1], 3, redundant) + [('#',)] + print_tokens(r[2], 4, redundant)
    else:
        raise ValueError(r)
    if level_of(r) < min_level or (redundant is not None and redundant.random() < 0.25):
        toks = [('(',)] + toks + [(')',)]
    return toks


def render_tokens(toks):
    out = []
    for i, t in enumerate(toks):
        k = t[0]
        if k == 'c':
            out.append(char_lit(t[1]))
        elif k == 's':
            out.append(str_lit(t[1]))
        elif k == 'id':
            out.append(t[1])
        else:
            out.append(k)
    # `$` binds to a following `$` or identifier without a space; everything else is separated
    text = ''
    for i, w in enumerate(out):
        if i > 0 and not (toks[i - 1][0] == '$' and toks[i][0] in ('$', 'id')):
            text += ' '
        text += w
    return text


def tokens_for_lean(toks):
    out = []
    for t in toks:
        k = t[0]
        if k == 'c':
            out.append('c:%d' % t[1])
        elif k == 's':
            out.append('s:' + ','.join(map(str, t[1])))
        elif k == 'id':
            out.append('id:' + t[1])
        else:
            out.append(k)
    return ' '.join(out)


def print_re(r, min_level=0, redundant=None):
    """Print with the fewest parentheses the grammar allows; `redundant` (a random.Random) adds
    extra parentheses at random."""
    return render_tokens(print_tokens(r, min_level, redundant))


# ---------------------------------------------------------------------------------------------
# interval sets (sorted disjoint inclusive ranges) — the oracle's own class semantics


def iv_norm(ivs):
    ivs = sorted((s, e) for s, e in ivs if s <= e)
    out = []
    for s, e in ivs:
        if out and s <= out[-1][1] + 1:
            out[-1] = (out[-1][0], max(out[-1][1], e))
        else:
            out.append((s, e))
    return out


def iv_diff(a, b):
    out = []
    for s, e in a:
        cur = s
        for bs, be in b:
            if be < cur or bs > e:
                continue
            if bs > cur:
                out.append((cur, bs - 1))
            cur = max(cur, be + 1)
            if cur > e:
                break
        if cur <= e:
            out.append((cur, e))
    return iv_norm(out)


def iv_contains(ivs, c):
    for s, e in ivs:
        if s <= c <= e:
            return True
    return False


def iv_scalars_nonempty(ivs):
    """does the set contain at least one scalar value"""
    return len(iv_diff(iv_norm(ivs), [(SUR_LO, SUR_HI)])) > 0


class NotAClass(Exception):
    pass


class Unbound(Exception):
    pass


def class_of(r, env, builtins, depth=0):
    """interval set denoted by a class expression (the operands of `#`)"""
    t = r[0]
    if depth > 64:
        raise Unbound('cycle')
    if t == 'chr':
        return [(r[1], r[1])]
    if t == 'set':
        return iv_norm([(it[1], it[1]) if it[0] == 'c' else (it[1], it[2]) for it in r[1]])
    if t == 'any':
        return [(0, CHAR_MAX)]
    if t == 'bi':
        if r[1] not in builtins:
            raise Unbound('builtin ' + r[1])
        return iv_norm(builtins[r[1]])
    if t == 'var':
        if r[1] not in env:
            raise Unbound(r[1])
        return class_of(env[r[1]], env, builtins, depth + 1)
    if t == 'alt':
        return iv_norm(class_of(r[1], env, builtins, depth) + class_of(r[2], env, builtins, depth))
    if t == 'diff':
        return iv_diff(class_of(r[1], env, builtins, depth), class_of(r[2], env, builtins, depth))
    raise NotAClass(t)


# ---------------------------------------------------------------------------------------------
# core regexes for the oracle: variables substituted, classes evaluated
#   ('cls', ivs) ('eoi',) ('eps',) ('empty',) ('cat', a, b) ('alt', a, b) ('star', r)


def core_of(r, env, builtins, depth=0):
    t = r[0]
    if depth > 64:
        raise Unbound('cycle')
    if t == 'chr':
        return ('cls', ((r[1], r[1]),))
    if t == 'str':
        out = ('eps',)
        for c in reversed(r[1]):
            out = mk_cat(('cls', ((c, c),)), out)
        if not r[1]:
            return ('empty',)  # the macro adds no transition for an empty literal
        return out
    if t in ('set', 'any', 'bi', 'diff'):
        ivs = class_of(r, env, builtins, depth)
        return ('cls', tuple(ivs)) if ivs else ('empty',)
    if t == 'eoi':
        return ('eoi',)
    if t == 'var':
        if r[1] not in env:
            raise Unbound(r[1])
        return core_of(env[r[1]], env, builtins, depth + 1)
    if t == 'star':
        return mk_star(core_of(r[1], env, builtins, depth))
    if t == 'plus':
        x = core_of(r[1], env, builtins, depth)
        return mk_cat(x, mk_star(x))
    if t == 'opt':
        return mk_alt(('eps',), core_of(r[1], env, builtins, depth))
    if t == 'cat':
        return mk_cat(core_of(r[1], env, builtins, depth), core_of(r[2], env, builtins, depth))
    if t == 'alt':
        return mk_alt(core_of(r[1], env, builtins, depth), core_of(r[2], env, builtins, depth))
    raise ValueError(r)


def mk_cat(a, b):
    if a == ('empty',) or b == ('empty',):
        return ('empty',)
    if a == ('eps',):
        return b
    if b == ('eps',):
        return a
    return ('cat', a, b)


def mk_alt(a, b):
    if a == ('empty',):
        return b
    if b == ('empty',):
        return a
    if a == b:
        return a
    return ('alt', a, b)


def mk_star(a):
    if a in (('empty',), ('eps',)):
        return ('eps',)
    if a[0] == 'star':
        return a
    return ('star', a)


def nullable(r):
    t = r[0]
    if t in ('eps', 'star'):
        return True
    if t in ('cls', 'eoi', 'empty'):
        return False
    if t == 'cat':
        return nullable(r[1]) and nullable(r[2])
    if t == 'alt':
        return nullable(r[1]) or nullable(r[2])
    raise ValueError(r)


_deriv_cache = {}


def deriv(r, sym):
    """Brzozowski derivative; `sym` is a code point or the string 'eoi'."""
    key = (r, sym)
    v = _deriv_cache.get(key)
    if v is not None:
        return v
    t = r[0]
    if t in ('eps', 'empty'):
        v = ('empty',)
    elif t == 'cls':
        v = ('eps',) if sym != 'eoi' and iv_contains(r[1], sym) else ('empty',)
    elif t == 'eoi':
        v = ('eps',) if sym == 'eoi' else ('empty',)
    elif t == 'cat':
        v = mk_cat(deriv(r[1], sym), r[2])
        if nullable(r[1]):
            v = mk_alt(v, deriv(r[2], sym))
    elif t == 'alt':
        v = mk_alt(deriv(r[1], sym), deriv(r[2], sym))
    elif t == 'star':
        v = mk_cat(deriv(r[1], sym), r)
    else:
        raise ValueError(r)
    if len(_deriv_cache) > 2_000_000:
        _deriv_cache.clear()
    _deriv_cache[key] = v
    return v


def is_empty_lang(r):
    """exact given the smart constructors and non-empty classes"""
    return r == ('empty',)


def matches(r, syms):
    for s in syms:
        r = deriv(r, s)
        if is_empty_lang(r):
            return False
    return nullable(r)


# ---------------------------------------------------------------------------------------------
# well-formedness (the hypotheses the properties grant)


def tail_eoi_ok(r, env, tail=True, depth=0):
    t = r[0]
    if depth > 64:
        return False
    if t == 'eoi':
        return tail
    if t in ('chr', 'str', 'set', 'any', 'bi', 'diff'):
        return True
    if t == 'var':
        return r[1] in env and tail_eoi_ok(env[r[1]], env, tail, depth + 1)
    if t in ('star', 'plus'):
        return tail_eoi_ok(r[1], env, False, depth)
    if t == 'opt':
        return tail_eoi_ok(r[1], env, tail, depth)
    if t == 'cat':
        return tail_eoi_ok(r[1], env, False, depth) and tail_eoi_ok(r[2], env, tail, depth)
    if t == 'alt':
        return tail_eoi_ok(r[1], env, tail, depth) and tail_eoi_ok(r[2], env, tail, depth)
    return False


def pieces_ok(r, env, builtins, depth=0):
    """no empty class, no empty literal, no inverted range, `#` operands are classes, scalar chars"""
    t = r[0]
    if depth > 64:
        return False
    try:
        if t == 'chr':
            return is_scalar(r[1])
        if t == 'str':
            return len(r[1]) > 0 and all(is_scalar(c) for c in r[1])
        if t == 'set':
            if not r[1]:
                return False
            for it in r[1]:
                if it[0] == 'c':
                    if not is_scalar(it[1]):
                        return False
                else:
                    if not (is_scalar(it[1]) and is_scalar(it[2]) and it[1] <= it[2]):
                        return False
            return True
        if t in ('any', 'eoi'):
            return True
        if t == 'bi':
            return r[1] in builtins
        if t == 'var':
            return r[1] in env and pieces_ok(env[r[1]], env, builtins, depth + 1)
        if t == 'diff':
            return iv_scalars_nonempty(class_of(r, env, builtins)) and class_operands_ok(r, env, builtins)
        if t in ('star', 'plus', 'opt'):
            return pieces_ok(r[1], env, builtins, depth)
        if t in ('cat', 'alt'):
            return pieces_ok(r[1], env, builtins, depth) and pieces_ok(r[2], env, builtins, depth)
    except (NotAClass, Unbound):
        return False
    return False


def class_operands_ok(r, env, builtins, depth=0):
    t = r[0]
    if depth > 64:
        return False
    if t in ('chr', 'any'):
        return True
    if t == 'set':
        return pieces_ok(r, env, builtins)
    if t == 'bi':
        return r[1] in builtins
    if t == 'var':
        return r[1] in env and class_operands_ok(env[r[1]], env, builtins, depth + 1)
    if t in ('alt', 'diff'):
        return class_operands_ok(r[1], env, builtins, depth) and class_operands_ok(r[2], env, builtins, depth)
    return False
