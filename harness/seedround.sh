#!/bin/sh
# usage: seedround.sh <TAG> [extra props...] — verify an incoming seed (/tmp/seed/out_<TAG>) and run the quick check(s) against it
TAG="$1"; shift
PROP=$(echo "$TAG" | cut -c1-3)
LOG=/tmp/seed/log_$TAG.txt
{
echo "##### verify $TAG"
sh /verif/harness/verify_seed.sh "$TAG" 2>&1 | tail -25
if ls /tmp/seed/out_$TAG/*.sh >/dev/null 2>&1; then
  echo "--- shell demo with change"
  ( cd /tmp/seed/wt_$TAG && git apply /tmp/seed/out_$TAG/patch.diff && for f in /tmp/seed/out_$TAG/*.sh; do sh "$f" >/dev/null 2>&1; echo "demo rc=$?"; done; git checkout -q -- . )
  echo "--- shell demo without change"
  ( cd /tmp/seed/wt_$TAG && for f in /tmp/seed/out_$TAG/*.sh; do sh "$f" >/dev/null 2>&1; echo "demo rc=$?"; done )
fi
( cd /tmp/seed/wt_$TAG && git checkout -q -- . && git clean -fdq crates )
echo "##### checks"
sh /verif/harness/seedtest.sh /tmp/seed/out_$TAG/patch.diff $PROP "$@" 2>&1
} > $LOG 2>&1
echo "$TAG: $(grep -c '^VIOLATION' $LOG) violation lines; see $LOG"
