import sys, os, random, time, json
sys.path.insert(0, os.path.dirname(os.path.abspath(__file__)))
import extract_tables, gen_defs, corpus, reflex
from lexast import def_lines, ruleset_names

def load_builtins():
    t = extract_tables.parse_tables(open(corpus.REPO + '/crates/lexgen/src/char_ranges.rs').read())
    names, vt = extract_tables.parse_builtin(open(corpus.REPO + '/crates/lexgen/src/builtin.rs').read())
    return {n: t[vt[v]] for n, v in names}

def main():
    seed = int(sys.argv[1]) if len(sys.argv) > 1 else 1
    nrand = int(sys.argv[2]) if len(sys.argv) > 2 else 20
    rng = random.Random(seed)
    builtins = load_builtins()
    progs = []
    fixed_inputs = {}
    fixed_scripts = {}
    for d, inputs, scripts in gen_defs.regression_defs():
        assert gen_defs.well_formed(d, builtins), d['name']
        progs.append(d); fixed_inputs[d['name']] = inputs; fixed_scripts[d['name']] = scripts
    for d in gen_defs.shape_defs(rng, builtins):
        if gen_defs.well_formed(d, builtins):
            progs.append(d)
        else:
            print('not wf', d['name'])
    g = gen_defs.Gen(rng, builtins)
    for i in range(nrand):
        progs.append(g.definition('Rnd%d' % i))
    byname = {d['name']: d for d in progs}
    work = '/var/tmp/lvs/trial'
    ws = work + '/ws'; dump = work + '/dump'
    os.makedirs(work, exist_ok=True)
    import shutil
    shutil.rmtree(dump, ignore_errors=True)
    t0 = time.time()
    crates = corpus.write_workspace(ws, progs, per_crate=10)
    status, log = corpus.build_workspace(ws, crates, dump, byname)
    print('build', time.time() - t0, log)
    bad = {p: s for p, s in status.items() if s['build'] != 'ok'}
    print('bad builds', bad)
    # cases
    allcases = {}
    lm = []
    for d in progs:
        nm = d['name']
        if status[nm]['build'] != 'ok':
            continue
        dd = corpus.split_dump(corpus.read_dump(dump, nm))
        inputs = list(fixed_inputs.get(nm, [])) + corpus.edge_covering_inputs(dd['body'], 30) + gen_defs.gen_inputs(rng, d, builtins, n_random=6, exhaustive_len=2)
        scripts = fixed_scripts.get(nm) or gen_defs.gen_scripts(rng, d)
        cases = []
        for i, inp in enumerate(inputs):
            for j, sc in enumerate(scripts):
                cases.append({'prog': nm, 'id': 'i%ds%d' % (i, j), 'ctor': 0, 'ncalls': len(inp) + 3, 'input': inp, 'script': sc, 'clones': []})
        allcases[nm] = cases
    t0 = time.time()
    impl = {}
    for c, ps in crates.items():
        cs = [x for p in ps if p in allcases for x in allcases[p]]
        if cs:
            impl.update(corpus.run_crate_cases(ws, c, cs, work))
    print('run', time.time() - t0, len(impl))
    # model
    t0 = time.time()
    lines = []
    for d in progs:
        nm = d['name']
        if nm not in allcases: continue
        dd = corpus.split_dump(corpus.read_dump(dump, nm))
        for c in allcases[nm]:
            c['widths'] = impl.get((nm, c['id']), {}).get('widths', {})
        lines += corpus.lexmodel_input(nm, def_lines(d), dd['body'], True, allcases[nm])
    open(work + '/lexmodel.in', 'w').write('\n'.join(lines) + '\n')
    rc, out, err = corpus.run_lexmodel(lines)
    print('model', time.time() - t0, rc, err[:500])
    stage, info, mtr, comp = corpus.parse_lexmodel(out)
    nfail = 0
    for p, checks in stage.items():
        for (chk, ok, detail) in checks:
            if not ok:
                nfail += 1
                print('STAGE FAIL', p, chk, detail[:300])
    # AST compare
    for d in progs:
        nm = d['name']
        if nm not in allcases: continue
        dd = corpus.split_dump(corpus.read_dump(dump, nm))
        if dd['ast'] != def_lines(d):
            print('AST MISMATCH', nm)
            for a, b in zip(dd['ast'], def_lines(d)):
                if a != b: print('  dump:', a); print('  gen :', b)
    # traces
    ndis = 0; nref = 0; ncase = 0
    for d in progs:
        nm = d['name']
        if nm not in allcases: continue
        ref = reflex.RefLexer(d, builtins)
        dd = corpus.split_dump(corpus.read_dump(dump, nm))
        sw = corpus.dump_switch_table(dd['body'])
        num2name = {v: k for k, v in sw.items()} if sw else {0: '_'}
        for c in allcases[nm]:
            ncase += 1
            it = impl.get((nm, c['id']))
            mt = mtr.get((nm, c['id']))
            if it is None or mt is None:
                print('MISSING', nm, c['id'], it is None, mt is None); continue
            if it['lines'] != mt:
                ndis += 1
                if ndis <= 5:
                    print('DISAGREE impl/model', nm, c['id'], c['input'], c['script'])
                    for a, b in zip(it['lines'], mt):
                        if a != b: print('   impl :', a); print('   model:', b); break
            rl = ref.run(c['input'], c['script'], c['ncalls'], True, it['widths'])
            # map S numbers
            def maps(line):
                parts = line.split(' | ')
                s = parts[1].split()
                parts[1] = 'S %s %s %s' % (num2name.get(int(s[1]), '#' + s[1]), num2name.get(int(s[2]), '#' + s[2]), s[3])
                return ' | '.join(parts)
            il = [maps(l) if l.startswith('N ') and ' | ' in l else l for l in it['lines']]
            if il != rl:
                nref += 1
                if nref <= 8:
                    print('DISAGREE impl/ref', nm, c['id'], c['input'], c['script'])
                    for a, b in zip(il, rl):
                        if a != b: print('   impl:', a); print('   ref :', b); break
    print('cases', ncase, 'impl/model disagreements', ndis, 'impl/ref disagreements', nref, 'stage fails', nfail)

main()
