//! Support code of the trace runner: scripted semantic actions, observation of the lexer state,
//! the driver loop. Line formats must agree with `lexmodel` (Lean) and `reflex.py`.

pub use lexgen_util;
use lexgen_util::{LexerError, LexerErrorKind, Loc};
use std::fmt::Write as _;
use std::io::Write as _;

#[derive(Clone, Debug, Default)]
pub struct St {
    pub script: Vec<u32>,
    pub pos: usize,
    pub log: Vec<String>,
    pub counter: u32,
    pub with_text: bool,
    /// short input: actions also observe the lexer's saved match (must be empty when an action runs)
    pub short: bool,
}

#[derive(Clone, Debug, PartialEq, Eq)]
pub struct Tok(pub u32);

/// A value constructed by the SAME text whatever type the context wants: lets a `=>` rule (wants a token) and a `=?` rule (wants a
/// `Result`) have token-for-token identical right-hand sides, `|lexer| lexer.return_(lv::auto())`.
pub trait Auto {
    fn auto() -> Self;
}

impl Auto for Tok {
    fn auto() -> Tok {
        Tok(9000)
    }
}

impl Auto for Result<Tok, u32> {
    fn auto() -> Self {
        Err(9001)
    }
}

pub fn auto<T: Auto>() -> T {
    T::auto()
}

pub fn show_loc(l: Loc) -> String {
    format!("{}:{}:{}", l.line, l.col, l.byte_idx)
}

pub fn show_text(s: &str) -> String {
    if s.is_empty() {
        return "e".to_string();
    }
    let v: Vec<String> = s.chars().map(|c| (c as u32).to_string()).collect();
    v.join(",")
}

impl St {
    /// Log the view of an action invocation, return the next scripted decision.
    pub fn record(&mut self, id: u32, s: Loc, e: Loc, peek: Option<char>, text: String, stale: bool) -> u32 {
        self.counter += 1;
        let pk = match peek {
            Some(c) => (c as u32).to_string(),
            None => "-".to_string(),
        };
        self.log.push(format!(
            "A {} {} {} {} {} {}{}",
            id,
            show_loc(s),
            show_loc(e),
            pk,
            text,
            self.counter,
            if stale { " STALE" } else { "" }
        ));
        let d = if self.script.is_empty() {
            2
        } else {
            self.script[self.pos % self.script.len()]
        };
        self.pos += 1;
        d
    }
}

/// decision -> (reset_match first, switch target, result: 0 continue / 1 return ok / 2 return err)
pub fn decode(d: u32, nsets: usize, fallible: bool) -> (bool, Option<usize>, u32) {
    let mut k = d % 8;
    let tgt = if nsets == 0 {
        None
    } else {
        Some((((d / 8) % 8) as usize) % nsets)
    };
    if !fallible {
        k = match k {
            6 => 2,
            7 => 5,
            k => k,
        };
    }
    if nsets == 0 {
        k = match k {
            3 => 0,
            4 => 1,
            5 => 2,
            7 => 6,
            k => k,
        };
    }
    // bit 6: call reset_match() first, whatever the kind (e.g. reset and return in one invocation)
    let extra_reset = (d / 64) % 2 == 1;
    let (reset, tgt, res) = match k {
        0 => (false, None, 0),
        1 => (true, None, 0),
        2 => (false, None, 1),
        3 => (false, tgt, 0),
        4 => (true, tgt, 0),
        5 => (false, tgt, 1),
        6 => (false, None, 2),
        _ => (false, tgt, 2),
    };
    (reset || extra_reset, tgt, res)
}

pub trait ErrCode {
    fn code(&self) -> u32;
}

impl ErrCode for u32 {
    fn code(&self) -> u32 {
        *self
    }
}

impl ErrCode for std::convert::Infallible {
    fn code(&self) -> u32 {
        0
    }
}

pub trait Inspect {
    fn flags(&self) -> (usize, usize, bool);
    fn user(&mut self) -> &mut St;
    /// whether a saved match (`last_match`, a private field) is present, read off the `Debug` output
    fn saved_match(&self) -> bool;
}

/// `last_match: Some(..)` / `last_match: None` in the derived `Debug` output of `lexgen_util::Lexer`
pub fn saved_match_of_debug(dbg: &str) -> bool {
    match dbg.rfind("last_match: ") {
        Some(i) => dbg[i + "last_match: ".len()..].starts_with("Some"),
        None => false,
    }
}

pub struct Case {
    pub prog: String,
    pub id: String,
    /// 0 new_with_state, 1 new, 2 new_from_iter_with_state (vec), 3 new_from_iter (vec),
    /// 4 new_from_iter_with_state (chunked rope iterator)
    pub ctor: u32,
    pub ncalls: usize,
    pub input: String,
    pub script: Vec<u32>,
    pub clone_points: Vec<usize>,
}

/// A clonable iterator over a rope of chunks.
#[derive(Clone, Debug)]
pub struct RopeIter {
    chunks: std::rc::Rc<Vec<Vec<char>>>,
    chunk: usize,
    idx: usize,
}

impl RopeIter {
    pub fn new(s: &str) -> RopeIter {
        let chars: Vec<char> = s.chars().collect();
        let mut chunks = vec![];
        let mut i = 0;
        let mut size = 1;
        while i < chars.len() {
            let end = std::cmp::min(chars.len(), i + size);
            chunks.push(chars[i..end].to_vec());
            i = end;
            size = size % 3 + 1;
        }
        RopeIter {
            chunks: std::rc::Rc::new(chunks),
            chunk: 0,
            idx: 0,
        }
    }
}

impl Iterator for RopeIter {
    type Item = char;
    fn next(&mut self) -> Option<char> {
        while self.chunk < self.chunks.len() {
            if self.idx < self.chunks[self.chunk].len() {
                let c = self.chunks[self.chunk][self.idx];
                self.idx += 1;
                return Some(c);
            }
            self.chunk += 1;
            self.idx = 0;
        }
        None
    }
}

pub fn initial_state(case: &Case) -> St {
    St {
        script: case.script.clone(),
        pos: 0,
        log: vec![],
        counter: 0,
        with_text: case.ctor <= 1,
        short: case.input.chars().count() <= 64,
    }
}

fn step<L, E>(lx: &mut L, out: &mut String, prefix: &str, short: bool)
where
    L: Iterator<Item = Result<(Loc, Tok, Loc), LexerError<E>>> + Inspect,
    E: ErrCode,
{
    let item = lx.next();
    let item_s = match item {
        None => "none".to_string(),
        Some(Ok((s, t, e))) => format!("ok {} {} {}", show_loc(s), t.0, show_loc(e)),
        Some(Err(err)) => match err.kind {
            LexerErrorKind::InvalidToken => format!("err {} invalid", show_loc(err.location)),
            LexerErrorKind::Custom(c) => format!("err {} custom {}", show_loc(err.location), c.code()),
        },
    };
    let (state, initial, done) = lx.flags();
    // the saved match is observed on short inputs only (formatting the lexer is linear in the input)
    let saved = if short { if lx.saved_match() { "1" } else { "0" } } else { "-" };
    let user = lx.user();
    let logs = user.log.join(" ; ");
    user.log.clear();
    let counter = user.counter;
    writeln!(
        out,
        "{}N {} | S {} {} {} {} | U {} | {}",
        prefix,
        item_s,
        state,
        initial,
        if done { 1 } else { 0 },
        saved,
        counter,
        logs
    )
    .unwrap();
}

pub fn drive<L, E>(mut lx: L, case: &Case, out: &mut String)
where
    L: Iterator<Item = Result<(Loc, Tok, Loc), LexerError<E>>> + Inspect + Clone,
    E: ErrCode,
{
    let short = case.input.chars().count() <= 64;
    for k in 0..case.ncalls {
        if case.clone_points.contains(&k) {
            // the clone runs to the end first; the original must be unaffected
            let mut c = lx.clone();
            writeln!(out, "CLONE {}", k).unwrap();
            for _ in k..case.ncalls {
                step(&mut c, out, "C", short);
            }
            writeln!(out, "ENDCLONE").unwrap();
        }
        step(&mut lx, out, "", short);
    }
}

pub fn widths_line(input: &str) -> String {
    use unicode_width::UnicodeWidthChar;
    let mut seen: Vec<char> = vec![];
    let mut s = String::from("W");
    for c in input.chars() {
        if c == '\n' || c == '\t' || seen.contains(&c) {
            continue;
        }
        seen.push(c);
        let w = UnicodeWidthChar::width(c).unwrap_or(1);
        if w != 1 {
            write!(s, " {} {}", c as u32, w).unwrap();
        }
    }
    s
}

fn parse_nums(s: &str) -> Vec<u32> {
    s.split_whitespace().map(|t| t.parse().unwrap()).collect()
}

/// Case file: one case per line: `prog cid ctor ncalls ; cps ; script ; clone points`.
pub fn main_loop<F>(run: F)
where
    F: Fn(&Case, &mut String) -> bool + std::panic::RefUnwindSafe + Sync,
{
    let args: Vec<String> = std::env::args().collect();
    let input = std::fs::read_to_string(&args[1]).unwrap();
    let stdout = std::io::stdout();
    std::panic::set_hook(Box::new(|_| {}));
    // LV_MODE=fresh_rev: the cases in reverse order, each on a freshly spawned thread: a lexer's behaviour must not depend on what ran before
    // it in the process or on the thread (no state outside the lexer value)
    let fresh_rev = std::env::var("LV_MODE").map(|m| m == "fresh_rev").unwrap_or(false);
    let mut lines: Vec<&str> = input.lines().collect();
    if fresh_rev {
        lines.reverse();
    }
    for line in lines {
        let parts: Vec<&str> = line.split(';').collect();
        if parts.len() != 4 {
            continue;
        }
        let hdr: Vec<&str> = parts[0].split_whitespace().collect();
        let case = Case {
            prog: hdr[0].to_string(),
            id: hdr[1].to_string(),
            ctor: hdr[2].parse().unwrap(),
            ncalls: hdr[3].parse().unwrap(),
            input: parse_nums(parts[1])
                .into_iter()
                .map(|c| char::from_u32(c).unwrap())
                .collect(),
            script: parse_nums(parts[2]),
            clone_points: parse_nums(parts[3]).into_iter().map(|x| x as usize).collect(),
        };
        {
            let mut o = stdout.lock();
            writeln!(o, "TRACE {} {}", case.prog, case.id).unwrap();
            writeln!(o, "{}", widths_line(&case.input)).unwrap();
            o.flush().unwrap();
        }
        let mut out = String::new();
        let run_case = || {
            std::panic::catch_unwind(std::panic::AssertUnwindSafe(|| {
                let mut buf = String::new();
                let known = run(&case, &mut buf);
                (known, buf)
            }))
        };
        let res = if fresh_rev {
            std::thread::scope(|s| s.spawn(run_case).join().unwrap_or_else(Err))
        } else {
            run_case()
        };
        match res {
            Ok((true, buf)) => out.push_str(&buf),
            Ok((false, _)) => out.push_str("N UNKNOWNPROG\n"),
            Err(_) => out.push_str("N PANIC\n"),
        }
        let mut o = stdout.lock();
        o.write_all(out.as_bytes()).unwrap();
        writeln!(o, "ENDTRACE").unwrap();
        o.flush().unwrap();
    }
}

/// Defines `run` for a lexer type in the module that invoked `lexer!` (the tuple field of the
/// generated struct is visible there).
#[macro_export]
macro_rules! runner {
    ($lexer:ident) => {
        impl<'input, I: Iterator<Item = char> + Clone + std::fmt::Debug> $crate::Inspect for $lexer<'input, I> {
            fn flags(&self) -> (usize, usize, bool) {
                (self.0.__state, self.0.__initial_state, self.0.__done)
            }
            fn user(&mut self) -> &mut $crate::St {
                self.0.state()
            }
            fn saved_match(&self) -> bool {
                $crate::saved_match_of_debug(&format!("{:?}", self.0))
            }
        }

        pub fn run(case: &$crate::Case, out: &mut String) {
            let st = $crate::initial_state(case);
            match case.ctor {
                0 => $crate::drive($lexer::new_with_state(&case.input, st), case, out),
                1 => {
                    let mut lx = $lexer::new(&case.input);
                    *lx.0.state() = st;
                    $crate::drive(lx, case, out)
                }
                2 => {
                    let chars: Vec<char> = case.input.chars().collect();
                    $crate::drive($lexer::new_from_iter_with_state(chars.into_iter(), st), case, out)
                }
                3 => {
                    let chars: Vec<char> = case.input.chars().collect();
                    let mut lx = $lexer::new_from_iter(chars.into_iter());
                    *lx.0.state() = st;
                    $crate::drive(lx, case, out)
                }
                _ => $crate::drive(
                    $lexer::new_from_iter_with_state($crate::RopeIter::new(&case.input), st),
                    case,
                    out,
                ),
            }
        }
    };
}
