#!/usr/bin/env python3
"""seed_prompt.py <PROP> <TAG> [avoid ...]  — create a scratch worktree /tmp/seed/wt_<TAG> of /repo (HEAD) and print
the prompt for an independent sub-agent: the property text only, nothing from /verif."""
import json, os, subprocess, sys

prop, tag = sys.argv[1], sys.argv[2]
avoid = sys.argv[3:]
where = os.environ.get('SEED_WHERE', '')
hint = os.environ.get('SEED_HINT', '')
props = {json.loads(l)['id']: json.loads(l) for l in open('/verif/properties.jsonl')}
p = props[prop]
wt, out = '/tmp/seed/wt_' + tag, '/tmp/seed/out_' + tag
os.makedirs('/tmp/seed', exist_ok=True)
if not os.path.exists(wt):
    subprocess.run(['git', '-C', '/repo', 'worktree', 'add', '--detach', '-f', wt, 'HEAD'], check=True, stdout=subprocess.DEVNULL, stderr=subprocess.DEVNULL)
os.makedirs(out, exist_ok=True)
print(f"""You are helping to evaluate a verification effort for the Rust crate osa1/lexgen (a proc-macro lexer generator).
Your scratch copy of the repository is the git worktree {wt} (work only there; never touch /repo or /verif, and do not read /verif).
Build and test offline: `cd {wt} && CARGO_NET_OFFLINE=true cargo test --workspace --no-fail-fast --offline` (119 tests, all pass now).
Ignore the cargo feature `verif_hooks` and the files `verif_hooks.rs`: they are instrumentation, off by default; do not edit them.

Here is a semantic property of lexgen that holds on this tree:

PROPERTY {p['id']}: {p['title']}
Statement: {p['statement']}
Quantifier: {p['quantifier']['text']}
Why the existing tests cannot settle it: {p['why_tests_cant']}
Code anchors: {json.dumps(p['anchors'])}

TASK. Produce ONE realistic change to lexgen's source (the kind of slip or "optimisation" a maintainer could plausibly commit)
that BREAKS this property while the workspace still compiles and ALL 119 existing tests still pass. The break must need something
specific to manifest — an unusual input, a multi-step sequence of calls/actions, a particular automaton shape, a value at a boundary, or
two cooperating edits in different places that each look fine alone — not something ordinary use would expose at once. Prefer subtle,
small diffs (1–15 lines) in the anchored files. Do not special-case a literal input (no `if input == "xyz"`), do not add randomness,
do not change tests, do not touch Cargo features.
{('LOCATION CONSTRAINT for this round: the change (or, for a multi-part change, its essential part) MUST be in ' + where + ' — read that file completely first, and follow how its result is used downstream — even if the file is not among the anchors; the property must still be what breaks.') if where else ''}
{('EXTRA CONSTRAINT for this round: ' + hint) if hint else ''}
{('Ideas already used by others — pick a DIFFERENT mechanism: ' + '; '.join(avoid)) if avoid else ''}

DELIVERABLES, in {out}/ :
 1. patch.diff — `git -C {wt} diff` of the source change only (must apply to a clean checkout with `git apply`).
 2. demo_{tag.lower()}.rs — a self-contained integration test file (to be dropped into crates/lexgen/tests/) that FAILS with the change
    and PASSES without it. It must only use the public API (`lexgen::lexer!`, `lexgen_util`), like the files in crates/lexgen/tests/.
    (For the table generator crate char_range_gen, or when an integration test cannot reach the change, give instead demo_{tag.lower()}.sh, a
    script that exits non-zero with the change and 0 without; say so in notes.txt.)
 3. notes.txt — 5-15 lines: what the change is, why it is plausible, exactly what is needed for it to manifest, and the commands you ran.
Before finishing, VERIFY YOURSELF: (a) with the change the full suite passes (119 passed) and the demo fails; (b) after
`git -C {wt} checkout -- .` (and with the demo file still present) the demo passes. Leave the worktree with the change reverted and
without the demo file in crates/lexgen/tests/. Report in your final message: one paragraph describing the change and the trigger.""")
