"""Reference lexer: the specification `Ref` (DESIGN §4) as an executable oracle.

Independent of lexgen's pipeline: regexes are matched with Brzozowski derivatives over the
alphabet extended with an end-of-input symbol; selection is maximal munch / first rule with right
contexts; the rule-set / action / error-recovery / end-of-input protocol follows the README.
Produces the same trace-line syntax as the Rust trace runner and the Lean model, except that the
`S` field shows rule-set *names*.
"""
from lexast import (core_of, deriv, nullable, is_empty_lang, rules_in_order, ruleset_names, Unbound, NotAClass)


def utf8_len(c):
    return 1 if c < 0x80 else 2 if c < 0x800 else 3 if c < 0x10000 else 4


def advance(loc, c, widths):
    line, col, byte = loc
    if c == 10:
        return (line + 1, 0, byte + 1)
    if c == 9:
        return (line, col + 4, byte + 1)
    return (line, col + widths.get(c, 1), byte + utf8_len(c))


def show_loc(l):
    return '%d:%d:%d' % l


def decode(d, nsets, fallible):
    k = d % 8
    tgt = ((d // 8) % 8) % nsets if nsets else None
    if not fallible:
        k = 2 if k == 6 else 5 if k == 7 else k
    if not nsets:
        k = {3: 0, 4: 1, 5: 2, 7: 6}.get(k, k)
    extra_reset = (d // 64) % 2 == 1
    if k == 0:
        r = (False, None, 0)
    elif k == 1:
        r = (True, None, 0)
    elif k == 2:
        r = (False, None, 1)
    elif k == 3:
        r = (False, tgt, 0)
    elif k == 4:
        r = (True, tgt, 0)
    elif k == 5:
        r = (False, tgt, 1)
    elif k == 6:
        r = (False, None, 2)
    else:
        r = (False, tgt, 2)
    return (r[0] or extra_reset, r[1], r[2])


def has_word(r):
    """does the language contain a non-empty word (over the extended alphabet)"""
    t = r[0]
    if t in ('cls', 'eoi', 'star'):
        return True
    if t in ('eps', 'empty'):
        return False
    return has_word(r[1]) or has_word(r[2])


class RefLexer:
    def __init__(self, d, builtins):
        """raises Unbound / NotAClass for definitions the macro must reject"""
        import collections
        self.stats = collections.Counter()
        self.sets = {}
        self.order = ruleset_names(d)
        env = {}
        idx = 0
        unnamed = []
        for it in d['items']:
            if it[0] == 'let':
                env[it[1]] = it[2]
            elif it[0] == 'rule':
                unnamed.append(self._rule(idx, it, env, builtins))
                idx += 1
            elif it[0] == 'ruleset':
                local = dict(env)
                rules = []
                for x in it[2]:
                    if x[0] == 'let':
                        local[x[1]] = x[2]
                    else:
                        rules.append(self._rule(idx, x, local, builtins))
                        idx += 1
                self.sets[it[1]] = rules
        if not self.order:
            self.sets['_'] = unnamed
            self.init = '_'
        else:
            self.init = 'Init'

    @staticmethod
    def _rule(idx, it, env, builtins):
        re = core_of(it[2], env, builtins)
        ctx = core_of(it[3], env, builtins) if it[3] is not None else None
        return (idx, it[1], re, ctx)

    @staticmethod
    def ctx_ok(ctx, chars, pos):
        r = ctx
        if nullable(r):
            return True
        n = len(chars)
        i = pos
        while i < n:
            r = deriv(r, chars[i])
            if is_empty_lang(r):
                return False
            if nullable(r):
                return True
            i += 1
        r = deriv(r, 'eoi')
        return nullable(r)

    def select(self, rs, chars, pos):
        """returns (best, viable): best = (k, rule) or None, with k counted in symbols of the
        extended input (k = rest+1: match through end-of-input); viable = longest viable prefix"""
        rules = self.sets[rs]
        n = len(chars) - pos
        cur = [r[2] for r in rules]
        best = None
        viable = 0
        k = 0
        alive = any(not is_empty_lang(r) for r in cur)
        while alive and k < n:
            c = chars[pos + k]
            nxt = [deriv(r, c) for r in cur]
            if not any(not is_empty_lang(r) for r in nxt):
                break
            cur = nxt
            k += 1
            viable = k
            for i, r in enumerate(cur):
                if nullable(r):
                    ctx = rules[i][3]
                    if ctx is None or self.ctx_ok(ctx, chars, pos + k):
                        best = (k, rules[i])
                        break
                    self.stats['ctx_rejected'] += 1
        if any(not is_empty_lang(r) for r in cur) and k == n:
            # all remaining characters are a viable prefix: end-of-input symbol
            for i, r in enumerate(cur):
                if nullable(deriv(r, 'eoi')):
                    ctx = rules[i][3]
                    if ctx is None or self.ctx_ok(ctx, chars, pos + k):
                        best = (n + 1, rules[i])
                        break
                    self.stats['ctx_rejected'] += 1
        # does the automaton read on after the viable prefix? (it does unless every surviving
        # rule can only accept the empty continuation: an accepting state without successors)
        reads_on = viable == 0 or any(has_word(r) for r in cur if not is_empty_lang(r))
        return best, viable, reads_on

    def run(self, chars, script, ncalls, with_text, widths):
        """trace lines for `ncalls` calls of next()"""
        n = len(chars)
        locs = [(0, 0, 0)]
        for c in chars:
            locs.append(advance(locs[-1], c, widths))
        nsets = len(self.order)
        pos = 0
        start = 0
        rs = self.init
        done = False
        counter = 0
        spos = 0
        lines = []
        for _ in range(ncalls):
            log = []
            item = None
            while True:
                if done:
                    item = 'none'
                    break
                best, viable, reads_on = self.select(rs, chars, pos)
                if best is None:
                    if pos == n and rs == self.init:
                        done = True
                        item = 'none'
                        break
                    st = self.stats
                    st['err_at_eoi' if viable == n - pos else ('err_first_char' if viable == 0 else 'err_mid_lexeme')] += 1
                    if rs != self.init:
                        st['err_in_other_ruleset'] += 1
                    p = pos + viable + (1 if reads_on and viable < n - pos else 0)
                    item = 'err %s invalid' % show_loc(locs[start])
                    done = reads_on and (viable == n - pos)
                    pos = start = p
                    rs = self.init
                    break
                k, (idx, kind, _re, _ctx) = best
                endp = pos + min(k, n - pos)
                reached_eoi = (k == n - pos + 1)
                st = self.stats
                st['selections'] += 1
                if reached_eoi:
                    st['eoi_matches'] += 1
                    if rs != self.init:
                        st['eoi_matches_other_ruleset'] += 1
                elif viable > k or (viable == k and reads_on and k < n - pos):
                    st['rewinds'] += 1
                    if viable > k + 1:
                        st['rewinds_over_2plus_chars'] += 1
                reset, tgt, res = False, None, 0
                if kind == 'none':
                    reset = True
                elif kind == 'simple':
                    res = 1
                elif kind in ('autoinf', 'autofal'):
                    # `=>` / `=?` rules with the same right-hand side text `|lexer| lexer.return_(lv::auto())`: token 9000 / error 9001
                    res = 1 if kind == 'autoinf' else 2
                else:
                    counter += 1
                    pk = str(chars[endp]) if endp < n else '-'
                    if with_text:
                        txt = ','.join(str(c) for c in chars[start:endp]) or 'e'
                    else:
                        txt = '!'
                    log.append('A %d %s %s %s %s %d' % (idx, show_loc(locs[start]), show_loc(locs[endp]), pk, txt, counter))
                    dec = script[spos % len(script)] if script else 2
                    spos += 1
                    reset, tgt, res = decode(dec, nsets, kind == 'fallible')
                start1 = endp if reset else start
                pos = endp
                start = start1
                if tgt is not None:
                    rs = self.order[tgt]
                done = reached_eoi
                if res == 0:
                    continue
                if res == 1:
                    item = 'ok %s %d %s' % (show_loc(locs[start1]), 9000 if kind == 'autoinf' else idx, show_loc(locs[endp]))
                else:
                    item = 'err %s custom %d' % (show_loc(locs[start1]), 9001 if kind == 'autofal' else idx + 100)
                start = endp
                break
            saved = '0' if n <= 64 else '-'   # no saved match survives a call
            lines.append('N %s | S %s %s %d %s | U %d | %s' % (item, rs, rs, 1 if done else 0, saved, counter, ' ; '.join(log)))
        return lines
