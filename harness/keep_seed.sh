#!/bin/sh
# usage: keep_seed.sh <ID> <name> "<needs>" "<caught by>"  — store /tmp/seed/out_<ID> as /verif/seeded/<name>, remove worktree
ID="$1"; NAME="$2"; NEEDS="$3"; CAUGHT="$4"
D=/verif/seeded/$NAME; mkdir -p "$D"
cp /tmp/seed/out_$ID/patch.diff "$D/patch.diff"
cp /tmp/seed/out_$ID/*.rs /tmp/seed/out_$ID/*.sh "$D/" 2>/dev/null
cp /tmp/seed/out_$ID/notes.txt "$D/notes.txt" 2>/dev/null
python3 - "$ID" "$NAME" "$NEEDS" "$CAUGHT" <<'PY'
import json,sys
id_,name,needs,caught=sys.argv[1:5]
json.dump({'breaks_property': id_, 'needs_to_manifest': needs, 'origin': 'independent sub-agent given only the property text and a scratch worktree',
           'confirmed': 'harness/verify_seed.sh %s: with the change the 119 existing tests pass and the demo fails; without it the demo passes' % id_,
           'checks_run': 'harness/seedtest.sh seeded/%s/patch.diff <props>' % name, 'caught_by': caught}, open('/verif/seeded/%s/meta.json'%name,'w'), indent=1)
PY
git -C /repo worktree remove --force /tmp/seed/wt_$ID && rm -rf /tmp/seed/out_$ID
echo kept $NAME
