#!/bin/sh
# Re-run every stored seeded change against the quick check of the property it breaks.
cd /verif
for d in seeded/*/; do
  name=$(basename "$d")
  prop=$(echo "$name" | cut -c1-3)
  [ -f "$d/patch.diff" ] || continue
  case "$name" in *OUT-OF-SCOPE*|*NOT-A-*) echo "$name skipped (recorded only: see its meta.json)"; continue;; esac
  res=$(timeout 1200 harness/seedtest.sh "/verif/$d/patch.diff" "$prop" 2>&1 | grep -c "^VIOLATION")
  echo "$name $prop violations_reported=$res"
done
