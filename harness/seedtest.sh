#!/bin/sh
# usage: seedtest.sh <patch.diff> <prop> [<prop>...]  — apply a seeded change to /repo, run quick checks, undo
PATCH="$1"; shift
cd /repo || exit 2
if ! git diff --quiet; then echo "/repo has uncommitted changes"; exit 2; fi
git apply "$PATCH" || { echo "patch does not apply"; exit 2; }
EVBK=$(mktemp -d /var/tmp/evbk.XXXXXX); cp /verif/evidence/C*.json $EVBK/ 2>/dev/null
# evidence files written while a patch is applied describe the PATCHED tree: restore the committed ones afterwards
trap 'git -C /repo checkout -- . ; git -C /repo clean -fdq crates; cp $EVBK/C*.json /verif/evidence/ 2>/dev/null; rm -rf $EVBK' EXIT INT TERM
for p in "$@"; do
  echo "=== $p"
  ( cd /verif && bin/check "$p" --tier quick 2>/dev/null | grep -E "VIOLATION|KNOWN" | head -4; echo "rc=$?" )
  ( cd /verif && python3 - "$p" <<'PY'
import json,sys,glob,os
p=sys.argv[1]
fs=sorted(glob.glob('/verif/evidence/replays/%s-*.json'%p), key=os.path.getmtime)[-2:]
for f in fs:
    v=json.load(open(f)); print('  ', os.path.basename(f), '|', (v.get('what') or '')[:260].replace('\n',' '), '| input', str(v.get('input'))[:120], 'script', v.get('script'))
PY
  )
done
