#!/bin/sh
# usage: benigntest.sh <patch.diff> [props...] — apply a behaviour-preserving change to /repo, run the quick checks, undo; any VIOLATION is a false alarm
PATCH="$1"; shift
PROPS="${*:-C01 C02 C03 C04 C05 C06 C07 C08 C09 C10 C11 C12 C13 C14 C15 C16 C17 C18}"
cd /repo || exit 2
if ! git diff --quiet; then echo "/repo has uncommitted changes"; exit 2; fi
git apply "$PATCH" || { echo "patch does not apply"; exit 2; }
EVBK=$(mktemp -d /var/tmp/evbk.XXXXXX); cp /verif/evidence/C*.json $EVBK/ 2>/dev/null
# evidence files written while a patch is applied describe the PATCHED tree: restore the committed ones afterwards
trap 'git -C /repo checkout -- . ; git -C /repo clean -fdq crates; cp $EVBK/C*.json /verif/evidence/ 2>/dev/null; rm -rf $EVBK' EXIT INT TERM
for p in $PROPS; do
  out=$(cd /verif && bin/check "$p" --tier quick 2>/dev/null | grep -E "VIOLATION|KNOWN" | head -3)
  if [ -n "$out" ]; then echo "=== $p FALSE ALARM"; echo "$out"; else echo "=== $p quiet"; fi
done
