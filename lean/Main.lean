import LexgenModel.Model.Compile
import LexgenModel.Exec.StageCheck
import LexgenModel.Exec.Bisim
import LexgenModel.Exec.MachineWF
import LexgenModel.Model.TableGen
import LexgenModel.Model.Parser
import LexgenModel.Model.ParserDef
import LexgenModel.Exec.SpecRun
/-!
# `lexmodel`: line-protocol driver of the executable model (correspondence side; no proofs here)
-/
open Lexgen hiding ParsedDef parseDef

/-! ## Parsing of the AST/dump syntax -/

def toNat! (s : String) : Nat := s.toNat?.getD 0

partial def parseRegex : List String → Option (Regex × List String)
  | "bi" :: n :: r => some (.builtin n, r)
  | "var" :: n :: r => some (.var n, r)
  | "chr" :: c :: r => some (.chr (toNat! c), r)
  | "str" :: k :: r =>
    let k := toNat! k
    some (.str ((r.take k).map toNat!), r.drop k)
  | "set" :: k :: r =>
    let rec items : Nat → List String → List CharOrRange → Option (List CharOrRange × List String)
      | 0, r, acc => some (acc.reverse, r)
      | n + 1, "c" :: c :: r, acc => items n r (.chr (toNat! c) :: acc)
      | n + 1, "r" :: s :: e :: r, acc => items n r (.rng (toNat! s) (toNat! e) :: acc)
      | _, _, _ => none
    (items (toNat! k) r []).map fun (its, r) => (.set its, r)
  | "star" :: r => (parseRegex r).map fun (x, r) => (.star x, r)
  | "plus" :: r => (parseRegex r).map fun (x, r) => (.plus x, r)
  | "opt" :: r => (parseRegex r).map fun (x, r) => (.opt x, r)
  | "cat" :: r => do let (x, r) ← parseRegex r; let (y, r) ← parseRegex r; pure (.cat x y, r)
  | "alt" :: r => do let (x, r) ← parseRegex r; let (y, r) ← parseRegex r; pure (.alt x y, r)
  | "diff" :: r => do let (x, r) ← parseRegex r; let (y, r) ← parseRegex r; pure (.diff x y, r)
  | "any" :: r => some (.any, r)
  | "eoi" :: r => some (.eoi, r)
  | _ => none

/-- the rule kinds of the trace protocol: the four kinds of the macro, plus `autoinf` / `autofal`: rules of kind `=>` / `=?` whose right-hand
sides are token-for-token the SAME text (`|lexer| lexer.return_(lv::auto())`, a value constructed generically: token `9000` under `=>`, error
`9001` under `=?`) — the macro must still give each rule the wrapper of its own kind -/
inductive TKind where
  | k (r : RuleKind)
  | autoInf
  | autoFal

def parseKind : String → TKind
  | "simple" => .k .simple
  | "fallible" => .k .fallible
  | "infallible" => .k .infallible
  | "autoinf" => .autoInf
  | "autofal" => .autoFal
  | _ => .k .none

/-- `let NAME <regex>` or `rule KIND IDX re <regex> [ctx <regex>]` -/
def parseRB (toks : List String) : Option (RuleOrBinding × Option (Nat × TKind)) :=
  match toks with
  | "let" :: name :: r => (parseRegex r).map fun (re, _) => (.binding name re, none)
  | "rule" :: kind :: idx :: "re" :: r => do
    let (re, r) ← parseRegex r
    let ctx ← match r with
      | "ctx" :: r => (parseRegex r).map fun (c, _) => some c
      | _ => pure none
    pure (.rule { re := re, ctx := ctx, rhs := toNat! idx }, some (toNat! idx, parseKind kind))
  | _ => none

structure ParsedDef where
  items : LexerDef := []
  kinds : List (Nat × TKind) := []
  ruleSets : List String := []
  bad : Bool := false

def words (line : String) : List String := (line.splitOn " ").filter (· ≠ "")

/-- Parse the definition lines (dump AST syntax). -/
def parseDef (lines : List String) : ParsedDef := Id.run do
  let mut d : ParsedDef := {}
  let mut cur : Option (String × List RuleOrBinding) := none
  for line in lines do
    match words line with
    | "item" :: "errortype" :: _ => d := { d with items := d.items ++ [.errorType] }
    | "item" :: "ruleset" :: name :: _ => cur := some (name, [])
    | "endruleset" :: _ =>
      match cur with
      | some (name, rules) =>
        d := { d with items := d.items ++ [.ruleSet name rules], ruleSets := d.ruleSets ++ [name] }
        cur := none
      | none => d := { d with bad := true }
    | "item" :: r =>
      match parseRB r with
      | some (rb, k) => d := { d with items := d.items ++ [.rb rb], kinds := d.kinds ++ k.toList }
      | none => d := { d with bad := true }
    | "rsitem" :: r =>
      match parseRB r, cur with
      | some (rb, k), some (name, rules) =>
        cur := some (name, rules ++ [rb]); d := { d with kinds := d.kinds ++ k.toList }
      | _, _ => d := { d with bad := true }
    | [] => pure ()
    | _ => d := { d with bad := true }
  return d

def parseAccs : List String → Option (List Acc × List String)
  | k :: r =>
    let rec go : Nat → List String → List Acc → Option (List Acc × List String)
      | 0, r, acc => some (acc.reverse, r)
      | n + 1, v :: c :: r, acc =>
        go n r ({ value := toNat! v, ctx := if c = "-1" then none else some (toNat! c) } :: acc)
      | _, _, _ => none
    go (toNat! k) r []
  | [] => none

class ParseTarget (τ : Type) where
  parse : List String → Option τ

instance : ParseTarget Nat := ⟨fun | ["t", n] => some (toNat! n) | _ => none⟩
instance : ParseTarget Trans := ⟨fun
  | ["t", n] => some (.goto (toNat! n))
  | "a" :: r => (parseAccs r).map fun (accs, _) => .accept accs
  | _ => none⟩

structure Dump where
  entries0 : List (String × Nat) := []
  entries1 : List (String × Nat) := []
  full : DFA Nat := []
  simp : DFA Trans := []
  ctxs : List (DFA Nat) := []
  nStates : Nat := 0
  inlined : List Nat := []
  arms : List (Pat × Nat) := []
  switches : List (String × Nat) := []
  complete : Bool := false
  bad : Bool := false

def parseStates {τ : Type} [ParseTarget τ] (lines : List String) : Option (DFA τ) := Id.run do
  let mut states : Array (DState τ) := #[]
  let mut ok := true
  for line in lines do
    let n := states.size
    match words line with
    | ["state", _, ini, bt] => states := states.push { initial := ini = "1", backtrack := bt = "1" }
    | "acc" :: r =>
      match parseAccs r with
      | some (accs, _) => states := states.modify (n - 1) fun s => { s with accepting := accs }
      | none => ok := false
    | "ch" :: c :: r =>
      match ParseTarget.parse r with
      | some (t : τ) => states := states.modify (n - 1) fun s => { s with chars := s.chars ++ [(toNat! c, t)] }
      | none => ok := false
    | "rg" :: a :: b :: r =>
      match ParseTarget.parse r with
      | some (t : τ) => states := states.modify (n - 1) fun s => { s with ranges := s.ranges ++ [(toNat! a, toNat! b, t)] }
      | none => ok := false
    | "any" :: r =>
      match ParseTarget.parse r with
      | some (t : τ) => states := states.modify (n - 1) fun s => { s with any := some t }
      | none => ok := false
    | "eoi" :: r =>
      match ParseTarget.parse r with
      | some (t : τ) => states := states.modify (n - 1) fun s => { s with eoi := some t }
      | none => ok := false
    | "pred" :: r => states := states.modify (n - 1) fun s => { s with preds := r.map toNat! }
    | _ => ok := false
  return if ok then some states.toList else none

def parsePat (s : String) : Pat := if s = "_" then .wild else .num (toNat! ((s.splitOn "usize").headD ""))

/-- Split dump lines into sections. -/
def parseDump (lines : List String) : Dump := Id.run do
  let mut d : Dump := {}
  let mut sect : Option String := none
  let mut buf : List String := []
  for line in lines do
    match sect with
    | some tag =>
      if line = "ENDDFA" then
        let ls := buf.reverse
        if tag = "full" then
          match parseStates (τ := Nat) ls with
          | some x => d := { d with full := x }
          | none => d := { d with bad := true }
        else if tag = "simplified" then
          match parseStates (τ := Trans) ls with
          | some x => d := { d with simp := x }
          | none => d := { d with bad := true }
        else
          match parseStates (τ := Nat) ls with
          | some x => d := { d with ctxs := d.ctxs ++ [x] }
          | none => d := { d with bad := true }
        sect := none; buf := []
      else buf := line :: buf
    | none =>
      match words line with
      | ["entry0", name, idx] => d := { d with entries0 := d.entries0 ++ [(name, toNat! idx)] }
      | ["entry1", name, idx] => d := { d with entries1 := d.entries1 ++ [(name, toNat! idx)] }
      | ["DFA", tag, _] => sect := some tag
      | "CODEGEN" :: n :: "inlined" :: r => d := { d with nStates := toNat! n, inlined := r.map toNat! }
      | ["arm", s, pat] => d := { d with arms := d.arms ++ [(parsePat pat, toNat! s)] }
      | ["switch", name, n] => d := { d with switches := d.switches ++ [(name, toNat! n)] }
      | ["END"] => d := { d with complete := true }
      | _ => pure ()
  return d

/-! ## Scripted actions (must agree with the `act!` macro of the Rust trace runner) -/

structure U where
  script : Array Nat
  pos : Nat := 0
  log : List String := []
  counter : Nat := 0

def showLoc (l : Loc) : String := s!"{l.line}:{l.col}:{l.byte}"

def showText : Option (List Nat) → String
  | none => "!"
  | some [] => "e"
  | some cs => ",".intercalate (cs.map toString)

def logEntry (id : Nat) (v : View U) (counter : Nat) (withText : Bool) : String :=
  let pk := match v.peek with | some c => toString c | none => "-"
  let txt := if withText then showText v.text else "!"
  s!"A {id} {showLoc v.startLoc} {showLoc v.endLoc} {pk} {txt} {counter}"

/-- decision ↦ (reset, switch target, result: 0 = continue, 1 = return ok, 2 = return err) -/
def decode (d : Nat) (nsets : List String) (fallible : Bool) : Bool × Option String × Nat :=
  let k := d % 8
  let tgt := if nsets.isEmpty then none else nsets[((d / 8) % 8) % nsets.length]?
  let k := if fallible then k else (if k = 6 then 2 else if k = 7 then 5 else k)
  let k := if nsets.isEmpty then (if k = 3 then 0 else if k = 4 then 1 else if k = 5 then 2 else if k = 7 then 6 else k) else k
  let extraReset := (d / 64) % 2 == 1
  let r : Bool × Option String × Nat := match k with
    | 0 => (false, none, 0)
    | 1 => (true, none, 0)
    | 2 => (false, none, 1)
    | 3 => (false, tgt, 0)
    | 4 => (true, tgt, 0)
    | 5 => (false, tgt, 1)
    | 6 => (false, none, 2)
    | _ => (false, tgt, 2)
  (r.1 || extraReset, r.2.1, r.2.2)

def scripted (id : Nat) (nsets : List String) (withText : Bool) (fallible : Bool) (v : View U) :
    Effect U (Except Nat Nat) :=
  let u := v.user
  let counter := u.counter + 1
  let log := u.log ++ [logEntry id v counter withText]
  let d := if u.script.size = 0 then 2 else u.script[u.pos % u.script.size]!
  let u := { u with counter := counter, log := log, pos := u.pos + 1 }
  let (reset, sw, res) := decode d nsets fallible
  { user := u, reset := reset, switchTo := sw,
    res := match res with | 0 => none | 1 => some (.ok id) | _ => some (.error (id + 100)) }

def mkActions (kinds : List (Nat × TKind)) (nsets : List String) (withText : Bool) (id : Nat) :
    Action U Nat Nat :=
  match (kinds.find? (·.1 = id)).map (·.2) with
  | some TKind.autoInf => .infallible fun v => { user := v.user, res := some 9000 }
  | some TKind.autoFal => .fallible fun v => { user := v.user, res := some (.error 9001) }
  | some (TKind.k .simple) => .simple id
  | some (TKind.k .fallible) => .fallible (scripted id nsets withText true)
  | some (TKind.k .infallible) => .infallible fun v =>
      let e := scripted id nsets withText false v
      { user := e.user, reset := e.reset, switchTo := e.switchTo,
        res := match e.res with | some (.ok t) => some t | _ => none }
  | _ => .skip

def showItem : Option (Option (Item Nat Nat)) → String
  | none => "HANG"
  | some none => "none"
  | some (some (.tok s t e)) => s!"ok {showLoc s} {t} {showLoc e}"
  | some (some (.invalid l)) => s!"err {showLoc l} invalid"
  | some (some (.custom l e)) => s!"err {showLoc l} custom {e}"

/-- Run `n` calls of `next()`, one trace line per call. -/
def runTrace (cfg : Config U Nat Nat) (short : Bool) : Nat → LState U → List String → List String
  | 0, _, acc => acc.reverse
  | n + 1, st, acc =>
    match next cfg st with
    | none => (s!"N HANG" :: acc).reverse
    | some (item, st') =>
      let logs := " ; ".intercalate st'.user.log
      let saved := if short then (if st'.last.isSome then "1" else "0") else "-"
      let line := s!"N {showItem (some item)} | S {st'.state} {st'.initial} {if st'.done then 1 else 0} {saved} | U {st'.user.counter} | {logs}"
      runTrace cfg short n { st' with user := { st'.user with log := [] } } (line :: acc)

/-- Run `n` calls of `next()` of the REFERENCE lexer of the definition (`specNext`, `mach = spec`), one
trace line per call, in the format of the Python reference (`reflex.py`): as `runTrace`, except that the two
state fields after `S` are the NAME of the active rule set (twice; `_` for a definition without rule sets)
and the `saved` field is `0` (no saved match survives a call) or `-` for long inputs. -/
def runSpecTrace (items : LexerDef) (cfg : Config U Nat Nat) (short : Bool) : Nat → LState U → List String → List String
  | 0, _, acc => acc.reverse
  | n + 1, st, acc =>
    match specNext items cfg (st.iter.length + 2) st with
    | none => (s!"N HANG" :: acc).reverse
    | some (item, st') =>
      let logs := " ; ".intercalate st'.user.log
      let saved := if short then "0" else "-"
      let name := activeName items cfg st'.initial
      let line := s!"N {showItem (some item)} | S {name} {name} {if st'.done then 1 else 0} {saved} | U {st'.user.counter} | {logs}"
      runSpecTrace items cfg short n { st' with user := { st'.user with log := [] } } (line :: acc)

/-! ## Stage comparison -/

def checkLine (prog check : String) (ok : Bool) (detail : String) : String :=
  s!"STAGE {prog} {check} {if ok then "ok" else "FAIL"} {detail}"

def showBisim (rr : BisimResult × Nat) (names : List String := []) : String :=
  let r := rr.1
  if r.ok then s!"pairs={r.pairs}"
  else s!"pairs={r.pairs} entry={names.getD rr.2 "-"} word={if r.witness.isEmpty then r.word else r.witness} why={r.why}"

def stageChecks (prog : String) (pd : ParsedDef) (dump : Dump) : List String := Id.run do
  let mut out : List String := []
  if pd.bad then return [checkLine prog "def" false "unparsable definition"]
  match compileLexer pd.items with
  | .error e =>
    return [checkLine prog "compile" false s!"model rejects: {repr e}; dump complete={dump.complete}"]
  | .ok c =>
    if dump.bad || !dump.complete then
      return [checkLine prog "dump" false s!"dump incomplete or unparsable (complete={dump.complete})"]
    -- model vs dumped: full DFA
    match entryPairs c.entries0 dump.entries0 with
    | none => out := out ++ [checkLine prog "entries0" false s!"model {c.entries0} dump {dump.entries0}"]
    | some pairs =>
      let pairs := if pairs.isEmpty then [(0, 0)] else pairs
      let r := bisim c.full dump.full accEqExact pairs
      out := out ++ [checkLine prog "bisim.full" r.1.ok (showBisim r (c.entries0.map (·.1)) ++ s!" states={c.full.length}/{dump.full.length}")]
    -- model vs dumped: simplified DFA
    match entryPairs c.entries dump.entries1 with
    | none => out := out ++ [checkLine prog "entries1" false s!"model {c.entries} dump {dump.entries1}"]
    | some pairs =>
      let pairs := if pairs.isEmpty then [(0, 0)] else pairs
      let r := bisim c.dfa dump.simp accEqExact pairs
      out := out ++ [checkLine prog "bisim.simplified" r.1.ok (showBisim r (c.entries.map (·.1)) ++ s!" states={c.dfa.length}/{dump.simp.length}")]
    -- dumped full vs dumped simplified (simplify preserves behaviour, on the real artefacts)
    match entryPairs dump.entries0 dump.entries1 with
    | none => out := out ++ [checkLine prog "entries01" false ""]
    | some pairs =>
      let pairs := if pairs.isEmpty then [(0, 0)] else pairs
      let r := bisim dump.full dump.simp accEqExact pairs
      out := out ++ [checkLine prog "bisim.simplify" r.1.ok (showBisim r (dump.entries0.map (·.1)))]
    -- right contexts
    if c.ctxs.length ≠ dump.ctxs.length then
      out := out ++ [checkLine prog "ctx.count" false s!"model {c.ctxs.length} dump {dump.ctxs.length}"]
    else
      for (i, (a, b)) in (List.range c.ctxs.length).zip (c.ctxs.zip dump.ctxs) do
        let r := bisim a b accEqExact [(0, 0)]
        out := out ++ [checkLine prog s!"bisim.ctx{i}" r.1.ok (showBisim r)]
        out := out ++ [checkLine prog s!"wf.ctx{i}" (ctxWF b) ""]
    -- well-formedness of the dumped machine (hypotheses of the run-time theorem)
    let wf := machineWF dump.simp dump.entries1 dump.ctxs.length dump.inlined
    out := out ++ [checkLine prog "wf.entries" wf.entriesOK "", checkLine prog "wf.targets" wf.targetsOK "",
      checkLine prog "wf.ranges" wf.rangesOK "", checkLine prog "wf.chars" wf.charsOK "",
      checkLine prog "wf.eoi" wf.eoiOK "", checkLine prog "wf.acceptany" wf.acceptAnyOK "",
      checkLine prog "wf.flags" wf.flagsOK "", checkLine prog "wf.ctxidx" wf.ctxIdxOK "",
      checkLine prog "wf.state0" wf.state0OK ""]
    -- no transition into a state without transitions (`simplify` turns those into `Accept` transitions; `bisim` cannot tell the two forms
    -- apart, but an `InvalidToken` consumes one character more through the state form): needed by `dumped_machine_is_specification`
    out := out ++ [checkLine prog "wf.gotolive" (gotoLive c.dfa && gotoLive dump.simp) ""]
    -- the hypothesis of `dumped_machine_is_specification` as ONE predicate: when it holds, the model of the generated `next()` on the DUMPED
    -- machine provably equals the executable specification on every input (for `DefOK ∧ DefNE` definitions)
    out := out ++ [checkLine prog "stageok" (stageOK c dump.simp dump.entries1 dump.ctxs dump.inlined) ""]
    -- flags on the full DFA: locally closed; and compared with the model's analysis of the dumped graph
    let fullClosed := dump.full.all fun s =>
      (s.backtrack || !s.accepting.isEmpty) → (DFA.succs s).all fun t => (dump.full.st t).backtrack
    out := out ++ [checkLine prog "flags.full" fullClosed ""]
    let cleared := dump.full.map fun s => { s with backtrack := false }
    match updateBacktracks cleared with
    | none => out := out ++ [checkLine prog "flags.model" false "model analysis fails on dumped graph"]
    | some m =>
      let same := (m.map (·.backtrack)) == (dump.full.map (·.backtrack))
      let extra := ((m.zip dump.full).filter fun (a, b) => !a.backtrack && b.backtrack).length
      let missing := ((m.zip dump.full).filter fun (a, b) => a.backtrack && !b.backtrack).length
      out := out ++ [s!"INFO {prog} flags.precision same={same} extra={extra} missing={missing} elided={(dump.full.filter fun s => !s.backtrack && s.accepting.isEmpty).length}"]
    -- numbering tables
    -- the set of inlined states the macro reported is taken as given (any policy): it only has to be
    -- admissible (`inlOK`); the model's default policy result is printed for information
    let inl := inlinedStates dump.simp
    let inlDefault := inl == dump.inlined
    let policy := if inlDefault then "policy=default" else "policy=other"
    out := out ++ [checkLine prog "dispatch.inlined" (inlOK dump.simp dump.inlined && dump.nStates == dump.simp.length) s!"model {inl} dump {dump.inlined} {policy}"]
    let arms := stateArms dump.simp dump.inlined
    out := out ++ [checkLine prog "dispatch.arms" (arms == dump.arms) s!"model {repr arms} dump {repr dump.arms}"]
    let sw := switchTable dump.inlined dump.entries1
    let swOK := sw.length == dump.switches.length && sw.all fun e => dump.switches.contains e
    out := out ++ [checkLine prog "dispatch.switch" swOK s!"model {sw} dump {dump.switches}"]
    -- every number stored in `__state` resolves to the arm of the intended state
    let armsOK := (List.range dump.simp.length).all fun s =>
      dump.inlined.contains s || dispatch dump.arms (renumber dump.inlined s) == some s
    out := out ++ [checkLine prog "dispatch.resolve" armsOK ""]
    let stats := s!"INFO {prog} stats states_full={dump.full.length} states_simp={dump.simp.length} inlined={dump.inlined.length} rulesets={dump.entries1.length} ctxs={dump.ctxs.length} removed={dump.full.length - dump.simp.length} cyc={(dump.simp.filter fun s => (gotoSuccs s).any fun t => (dump.simp.st t).preds.length > 1).length} inl_default={if inlDefault then 1 else 0}"
    out := out ++ [stats]
    return out

/-! ## Component protocols -/

def showRangeMap (m : RangeMap (List Nat)) : String :=
  " ".intercalate (m.map fun (s, e, v) => s!"{s} {e} [{",".intercalate (v.map toString)}]")

/-- `RM i s e v ; m k s e v .. ; r k s e ..` -/
def rangeMapLine (line : String) : String := Id.run do
  let mut m : RangeMap (List Nat) := []
  let mut outs : List String := []
  for op in line.splitOn ";" do
    match words op with
    | ["i", s, e, v] => m := RangeMap.insert setUnion m (toNat! s) (toNat! e) [toNat! v]
    | "m" :: _k :: r =>
      let rec triples : List String → RangeMap (List Nat)
        | a :: b :: c :: r => (toNat! a, toNat! b, [toNat! c]) :: triples r
        | _ => []
      m := RangeMap.insertRanges setUnion m (triples r)
    | "r" :: _k :: r =>
      let rec pairs : List String → RangeMap Unit
        | a :: b :: r => (toNat! a, toNat! b, ()) :: pairs r
        | _ => []
      m := RangeMap.removeRanges m (pairs r)
    | [] => continue
    | _ => outs := outs ++ ["BAD"]; continue
    outs := outs ++ [showRangeMap m]
  return " ; ".intercalate outs

/-- `TG b1 b2 ..`: predicate that flips at every boundary (false below the first) -/
def tableGenLine (toks : List String) : String :=
  let bs := toks.map toNat!
  let f : Nat → Bool := fun c => (bs.filter (· ≤ c)).length % 2 == 1
  " ".intercalate ((generateRanges f charMax).map fun (s, e) => s!"{s} {e}")

/-- regex in the dump token syntax -/
partial def showRegex : Regex → String
  | .builtin n => s!"bi {n}"
  | .var n => s!"var {n}"
  | .chr c => s!"chr {c}"
  | .str cs => " ".intercalate (["str", toString cs.length] ++ cs.map toString)
  | .set items => " ".intercalate (["set", toString items.length] ++ items.map fun
      | .chr c => s!"c {c}"
      | .rng a b => s!"r {a} {b}")
  | .star r => "star " ++ showRegex r
  | .plus r => "plus " ++ showRegex r
  | .opt r => "opt " ++ showRegex r
  | .cat a b => "cat " ++ showRegex a ++ " " ++ showRegex b
  | .alt a b => "alt " ++ showRegex a ++ " " ++ showRegex b
  | .any => "any"
  | .eoi => "eoi"
  | .diff a b => "diff " ++ showRegex a ++ " " ++ showRegex b

def parseTok (w : String) : Tok :=
  if w = "(" then .lparen else if w = ")" then .rparen else if w = "[" then .lbracket else if w = "]" then .rbracket
  else if w = "$" then .dollar else if w = "_" then .underscore else if w = "|" then .bar else if w = "*" then .star
  else if w = "+" then .plus else if w = "?" then .question else if w = "#" then .pound else if w = "-" then .minus
  else if w.startsWith "id:" then .ident (w.drop 3).toString
  else if w.startsWith "c:" then .chr (toNat! (w.drop 2).toString)
  else if w.startsWith "s:" then .str ((((w.drop 2).toString.splitOn ",").filter (· ≠ "")).map toNat!)
  else .other w

/-- `PARSE <tokens>`: the parser model on a token list; succeeds when the regex is followed by
nothing or by a non-regex token -/
def parseLine (toks : List String) : String :=
  match parseRegex (toks.map parseTok) with
  | some (r, []) => "ok " ++ showRegex r
  | some (r, .other _ :: _) => "ok " ++ showRegex r
  | _ => "err"

/-! ## `PARSEDEF`: the parser of whole definitions on a token list

Token syntax of `PARSEDEF <tokens>`: words separated by blanks, one word per token (it extends the
syntax of `PARSE`):

* regex tokens, as for `PARSE`: `(` `)` `[` `]` `$` `_` `|` `*` `+` `?` `#` `-`,
  `id:<name>` (identifier; `rule` and `Error` are `id:rule`, `id:Error`), `c:<n>` (char literal with
  code point n), `s:<n>,<n>,..` (string literal; `s:` is the empty string);
* definition tokens: `,` `=>` `=` `;` `>` `let` `type` `{` `}` `->`,
  `e:<n>` (an opaque Rust expression or type), `attr:<n>` (an opaque outer attribute `#[..]`),
  `vis:<n>` (an opaque visibility such as `pub`);
* `=?` is accepted as an abbreviation of the two tokens `=` `?` (that is what it is in Rust), and the
  bare word `rule` as an abbreviation of `id:rule`;
* any other word is a token that fits nowhere (`Tok.other`).

The input is the whole definition including the header, e.g.
`PARSEDEF id:Lexer -> e:0 ; let id:x = c:97 ; rule id:Init { $ id:x > c:98 =? e:1 , } _ ,`.

Output, one line, in the format of the Rust hook (`parse_line` in `verif_hooks.rs`):
`PARSEDEF OK | errortype | let x <regex> | rule re <regex> [ctx <regex>] kind <none|simple|fallible|infallible> rhs <n> expr <T<k>|-> | ruleset Name { | .. | }`
with regexes in the dump syntax of `showRegex`, or `PARSEDEF ERR` (a `syn` error, which includes a
token list whose delimiters do not nest), or `PARSEDEF PANIC` (a Rust `panic!`). -/

def parseDToks (w : String) : List DTok :=
  if w = "," then [.comma] else if w = "=>" then [.fatArrow] else if w = "=" then [.eq]
  else if w = "=?" then [.eq, .re .question]
  else if w = ";" then [.semi] else if w = ">" then [.gt] else if w = "let" then [.kwLet]
  else if w = "type" then [.kwType] else if w = "{" then [.lbrace] else if w = "}" then [.rbrace]
  else if w = "->" then [.rarrow] else if w = "rule" then [.re (.ident "rule")]
  else if w.startsWith "e:" then [.expr (toNat! (w.drop 2).toString)]
  else if w.startsWith "attr:" then [.attr (toNat! (w.drop 5).toString)]
  else if w.startsWith "vis:" then [.vis (toNat! (w.drop 4).toString)]
  else [.re (parseTok w)]

def showKind : RuleKind → String
  | .none => "none"
  | .simple => "simple"
  | .fallible => "fallible"
  | .infallible => "infallible"

def showRB (tbl : List RuleRhs) : RuleOrBinding → String
  | .binding x re => s!"let {x} {showRegex re}"
  | .rule r =>
    let ctx := match r.ctx with
      | some c => " ctx " ++ showRegex c
      | none => ""
    let expr := match tbl.getD r.rhs .none with
      | .none => "-"
      | .simple e | .fallible e | .infallible e => s!"T{e}"
    s!"rule re {showRegex r.re}{ctx} kind {showKind (tbl.getD r.rhs .none).kind} rhs {r.rhs} expr {expr}"

def showTopItem (tbl : List RuleRhs) : TopItem → List String
  | .errorType => ["errortype"]
  | .rb x => [showRB tbl x]
  | .ruleSet name rules => [s!"ruleset {name} " ++ "{"] ++ rules.map (showRB tbl) ++ ["}"]

def parseDefLine (toks : List String) : String :=
  match Lexgen.parseDef (toks.flatMap parseDToks) with
  | .ok d => " | ".intercalate ("OK" :: d.items.flatMap (showTopItem d.table))
  | .error .syn => "ERR"
  | .error .panic => "PANIC"

/-! ## Main loop -/

def splitOnBar (line : String) : List (List String) := (line.splitOn ";").map words

partial def readLines (h : IO.FS.Stream) (acc : Array String) : IO (Array String) := do
  let line ← h.getLine
  if line.isEmpty then return acc
  readLines h (acc.push ((line.dropEndWhile (· == '\n')).toString))

def runCase (prog : String) (pd : ParsedDef) (dump : Dump) (model : Option Compiled) (line : String) : List String :=
  match splitOnBar line with
  | [hdr, cps, script, widths] =>
    match hdr with
    | ["CASE", cid, mach, inp, ncalls] =>
      let chars := cps.map toNat!
      let wl : List (Nat × Nat) :=
        let rec pairs : List String → List (Nat × Nat)
          | a :: b :: r => (toNat! a, toNat! b) :: pairs r
          | _ => []
        pairs widths
      let width : Nat → Nat := fun c => ((wl.find? (·.1 = c)).map (·.2)).getD 1
      let withText := inp = "str"
      -- inlined states: for the dumped machine the set the macro reported, for the model's own
      -- machine the model's default policy
      let machine : Option (DFA Trans × List (String × Nat) × List (DFA Nat) × List Nat) :=
        if mach = "dump" then some (dump.simp, dump.entries1, dump.ctxs, dump.inlined)
        else model.map fun c => (c.dfa, c.entries, c.ctxs, inlinedStates c.dfa)
      match machine with
      | none => [s!"TRACE {prog} {cid}", "N NOMACHINE", "ENDTRACE"]
      | some (dfa, entries, ctxs, inl) =>
        let cfg : Config U Nat Nat :=
          { dfa := dfa, ctxs := ctxs, entries := entries, inl := inl,
            actions := mkActions pd.kinds pd.ruleSets withText, width := width,
            input := if withText then some chars else none }
        let st : LState U := initState { script := (script.map toNat!).toArray } chars
        let short := decide (chars.length ≤ 64)
        -- `mach = spec`: the reference lexer of the definition; `cfg` (the model's own compiled machine) is
        -- only used for `callAction`/`switchNum`
        let trace :=
          if mach = "spec" then runSpecTrace pd.items cfg short (toNat! ncalls) st []
          else runTrace cfg short (toNat! ncalls) st []
        [s!"TRACE {prog} {cid}"] ++ trace ++ ["ENDTRACE"]
    | _ => [s!"BADCASE {line}"]
  | _ => [s!"BADCASE {line}"]

def main : IO Unit := do
  let stdin ← IO.getStdin
  let stdout ← IO.getStdout
  let lines ← readLines stdin #[]
  let mut prog := ""
  let mut defLines : List String := []
  let mut dumpLines : List String := []
  let mut mode := 0   -- 0: none, 1: def, 2: dump
  let mut pd : ParsedDef := {}
  let mut dump : Dump := {}
  let mut model : Option Compiled := none
  let mut modelTried := false
  for line in lines do
    if mode == 1 then
      if line = "ENDDEF" then
        pd := parseDef defLines.reverse; mode := 0
      else defLines := line :: defLines
    else if mode == 2 then
      if line = "ENDDUMP" then
        dump := parseDump dumpLines.reverse; mode := 0
      else dumpLines := line :: dumpLines
    else if line.startsWith "PROG " then
      prog := (line.drop 5).toString; defLines := []; dumpLines := []; pd := {}; dump := {}; model := none; modelTried := false
      mode := 1
    else if line = "DUMP" then mode := 2
    else if line = "STAGE" then
      for l in stageChecks prog pd dump do stdout.putStrLn l
    else if line.startsWith "CASE " then
      if !modelTried then
        modelTried := true
        model := match compileLexer pd.items with | .ok c => some c | .error _ => none
      for l in runCase prog pd dump model line do stdout.putStrLn l
    else if line.startsWith "RM " then
      stdout.putStrLn ("RM " ++ rangeMapLine (line.drop 3).toString)
    else if line.startsWith "PARSEDEF" then
      stdout.putStrLn ("PARSEDEF " ++ parseDefLine (words (line.drop 8).toString))
    else if line.startsWith "PARSE" then
      stdout.putStrLn ("PARSE " ++ parseLine (words (line.drop 5).toString))
    else if line.startsWith "TG" then
      stdout.putStrLn ("TG " ++ tableGenLine (words (line.drop 2).toString))
    else if line = "COMPILE" then
      -- model verdict on the definition alone (static checks)
      match compileLexer pd.items with
      | .ok c => stdout.putStrLn s!"COMPILE {prog} ok states={c.dfa.length}"
      | .error e => stdout.putStrLn s!"COMPILE {prog} error {repr e}"
    else pure ()
  stdout.flush
