import LexgenModel.Proofs.ClassEval
import LexgenModel.Proofs.Simplify
import LexgenModel.Proofs.BisimSound
import LexgenModel.Proofs.RuleSetLang
import LexgenModel.Proofs.CompileLang
import LexgenModel.Proofs.EndToEnd
import LexgenModel.Proofs.RefMatch
import LexgenModel.Proofs.Interchange
import LexgenModel.Proofs.RunCongr
/-!
# C02 — Regex operators denote their documented languages

Proved: `C02_language` — the DFA the model of `compile_rule_set` builds for a rule set accepts,
after ANY word over the extended alphabet, exactly the rules whose regex DENOTES that word (`den`:
the README's reading of every operator), in rule order (Thompson construction `addRegex_correct` +
subset construction `nfaToDfa_correct_partial`, composed in `ruleSet_lang`); the class fragment
denotes exact sets at every code point; removal of terminal states preserves accept lists; the
per-program DFA comparison used as the tie is sound. Interchangeability of regexes with equal
denotation is a corollary: `den` is all the theorem depends on. `C02_end_to_end` composes every
stage of the model of `lexer()` (binding scopes, rule desugaring, Thompson, subset construction,
`add_dfa` glue, backtrack analysis, `simplify`) into one statement about the FINAL machine.
-/
namespace Lexgen

/-- class expressions denote exact sets, and evaluation never yields a malformed class -/
theorem C02_class_denotation (e : Regex) (m : RangeMap Unit) (h : regexToRangeMap e = .ok m) (hp : classPiecesOK e) :
    RangeMap.WF m ∧ ∀ x, (RangeMap.lookup m x).isSome = true ↔ classDen e x :=
  regexToRangeMap_spec builtinsWF e m h hp

/-- `a | b` and `b | a` between classes, chained differences etc. are interchangeable: two class
expressions with the same denotation evaluate to classes accepting the same characters. -/
theorem C02_class_interchange (e1 e2 : Regex) (m1 m2 : RangeMap Unit)
    (h1 : regexToRangeMap e1 = .ok m1) (h2 : regexToRangeMap e2 = .ok m2)
    (hp1 : classPiecesOK e1) (hp2 : classPiecesOK e2) (hden : ∀ x, classDen e1 x ↔ classDen e2 x) (x : Nat) :
    (RangeMap.lookup m1 x).isSome = (RangeMap.lookup m2 x).isSome := by
  have a := (regexToRangeMap_spec builtinsWF e1 m1 h1 hp1).2 x
  have b := (regexToRangeMap_spec builtinsWF e2 m2 h2 hp2).2 x
  cases h : (RangeMap.lookup m1 x).isSome <;> cases h' : (RangeMap.lookup m2 x).isSome <;> simp_all

/-- dropping terminal states keeps, for every word, the accept list reached -/
theorem C02_simplify_preserves (d : DFA Nat) (entries : List (String × Nat)) (d' : DFA Trans) (entries' : List (String × Nat))
    (h : simplify d entries = .ok (d', entries')) (hT : TargetsInRange d)
    (s : Nat) (hs : s < d.length) (hk : (emptyStates d).contains s = false) (w : List Nat) :
    (reach d' (.st (newIdx d s)) w).map (Auto.acc d') = (reachN d s w).map (fun t => (d.st t).accepting) :=
  simplify_reach d entries d' entries' h hT s hs hk w

/-- The DFA of a rule set accepts after every word exactly the rules whose regex denotes it, in
priority order; where it is dead no rule matches. (`regexPiecesOK`: bracket ranges non-inverted —
the well-formedness the property grants.) -/
theorem C02_language (rules : List CoreRule) (hre : ∀ r ∈ rules, regexPiecesOK r.re) (nfa : NFA)
    (h : buildNfa rules = .ok nfa) (d : DFA Nat) (hd : nfaToDfa nfa = some d) (w : List Sym) :
    match reachSym d 0 w with
    | some t => (d.st t).accepting = matchingAccs rules w
    | none => matchingAccs rules w = [] :=
  ruleSet_lang rules hre nfa h d hd w

/-- `compile_rule_set` builds exactly that automaton from the rule set's items (variables
substituted with the bindings in scope, right contexts numbered sequentially). -/
theorem C02_rule_set_compilation (items : List RuleOrBinding) (b : Bindings) (ctxs : List (DFA Nat)) (d : DFA Nat) (ctxs' : List (DFA Nat))
    (h : compileRuleSet items b ctxs = .ok (d, ctxs')) :
    ∃ rules nfa, coreRules items b ctxs.length = some rules ∧ buildNfa rules = .ok nfa ∧ nfaToDfa nfa = some d :=
  compileRuleSet_core items b ctxs d ctxs' h

/-- Regexes that denote the same language are interchangeable: the accept lists of the two rule
sets coincide after every word (both are `matchingAccs`, which depends on `den` only). -/
theorem C02_interchange (rules1 rules2 : List CoreRule)
    (hsame : rules1.map (fun r => (r.ctx, r.value)) = rules2.map (fun r => (r.ctx, r.value)))
    (hden : ∀ w, matchingAccs rules1 w = matchingAccs rules2 w)
    (h1 : ∀ r ∈ rules1, regexPiecesOK r.re) (h2 : ∀ r ∈ rules2, regexPiecesOK r.re)
    (n1 n2 : NFA) (hn1 : buildNfa rules1 = .ok n1) (hn2 : buildNfa rules2 = .ok n2)
    (d1 d2 : DFA Nat) (hd1 : nfaToDfa n1 = some d1) (hd2 : nfaToDfa n2 = some d2) (w : List Sym)
    (t1 t2 : Nat) (hr1 : reachSym d1 0 w = some t1) (hr2 : reachSym d2 0 w = some t2) :
    (d1.st t1).accepting = (d2.st t2).accepting := by
  have a := ruleSet_lang rules1 h1 n1 hn1 d1 hd1 w
  have b := ruleSet_lang rules2 h2 n2 hn2 d2 hd2 w
  rw [hr1] at a
  rw [hr2] at b
  simp only at a b
  rw [a, b, hden w]

/-- The per-program comparison of the model's DFA with the macro's dumped DFA is sound: when the
product exploration `bisim` (run by `lexmodel stage` on every corpus program) succeeds, the two
automata have equal accept lists (rule and context ids, in order) and equal end-of-input behaviour
for EVERY word over code points `≤ char::MAX` from every compared entry — not for sampled words. -/
theorem C02_comparison_sound {τ₁ τ₂ : Type} [Target τ₁] [Target τ₂] (a : DFA τ₁) (b : DFA τ₂) (starts : List (Nat × Nat))
    (h : (bisim a b (fun l1 l2 => l1 == l2) starts).1.ok = true) (x y : Nat) (hxy : (x, y) ∈ starts) :
    EquivFrom a b x y :=
  bisim_sound a b starts h x y hxy

/-- End to end through the model of the macro: for every rule set of a lexer definition the model
compiles, the final machine (after `add_dfa` glue, backtrack analysis and `simplify`) has an entry for
that rule set from which, after every word of characters, the accept list is exactly the rules of the
set whose regex denotes the word — in rule order — and the end-of-input transition carries exactly the
rules denoting the word followed by end-of-input. The side condition is that the class fragments of the
desugared rules are the ones `C02_class_denotation` covers. -/
theorem C02_end_to_end (items : LexerDef) (c : Compiled) (h : compileLexer items = .ok c)
    (name : String) (rs : List RuleOrBinding) (b : Bindings) (k : Nat)
    (hmem : (name, rs, b, k) ∈ scopedRuleSets items [] 0) :
    ∃ e rules, (name, e) ∈ c.entries ∧ e < c.dfa.length ∧ coreRules rs b k = some rules ∧
      ((∀ r ∈ rules, regexPiecesOK r.re) → RealisesRules c.dfa e rules) :=
  compileLexer_lang items c h name rs b k hmem

/-- The same for definitions WITHOUT rule sets (the common case): the top-level rules form one unnamed rule
set entered at state 0. -/
theorem C02_end_to_end_unnamed (items : LexerDef) (c : Compiled) (h : compileLexer items = .ok c)
    (hno : hasRuleSets items = false) :
    0 < c.dfa.length ∧ ∃ rules, coreRules (topRules items) [] 0 = some rules ∧
      ((∀ r ∈ rules, regexPiecesOK r.re) → RealisesRules c.dfa 0 rules) :=
  compileLexer_lang_unnamed items c h hno

/-- What the compiled machine matches is what the definition denotes: from the entry of every rule set of a
well-formed definition, `(n, a, viaEoi)` is a match of the machine iff the first `n` characters (followed
by end-of-input when `viaEoi`) are denoted by the rule with action `a`, which is the first rule in source
order denoting them whose right context holds, as a language, on the rest of the input. -/
theorem C02_matches_are_language_matches {σ τ ε : Type} (items : LexerDef) (c : Compiled) (h : compileLexer items = .ok c)
    (hok : DefOK items) (ctxAt : Nat → Regex) (hnum : CtxNumbering items ctxAt)
    (name : String) (rs : List RuleOrBinding) (b : Bindings) (k : Nat) (hmem : (name, rs, b, k) ∈ allRuleSets items)
    (actions : Nat → Action σ τ ε) (width : Nat → Nat) (input : Option (List Nat)) :
    ∃ e rules, IsEntryOf items c name e ∧ e < c.dfa.length ∧ coreRules rs b k = some rules ∧
      ∀ iter n a viaEoi,
        Cand (c.config actions width input) e iter n a viaEoi ↔ LangCand rules ctxAt iter n a viaEoi :=
  compile_cand_iff items c h hok ctxAt hnum name rs b k hmem actions width input

/-- The denotation of every regex is DECIDABLE by Brzozowski derivatives, and the executable matcher is correct: this is the verified core of the
reference lexer the checks run against the implementation. -/
theorem C02_reference_matcher (r : Regex) (w : List Sym) : matchesR r w = true ↔ den r w :=
  matchesR_iff r w

/-- …and so is maximal munch with first-rule priority: the executable selector returns exactly the `Selects` triple. -/
theorem C02_reference_selector (rules : List CoreRule) (ctxAt : Nat → Regex) (iter : List Nat) (n a : Nat) (e : Bool) :
    selectRef rules ctxAt iter = some (n, a, e) ↔ Selects rules ctxAt iter n a e :=
  selectRef_some rules ctxAt iter n a e

/-- **Interchangeability at full behaviour.** The reference lexer — which the model of the generated code equals (`C01_model_is_specification`) — consults the
regexes of the active rule set only through the maximal-munch selection and the error-skip amount, and both depend on the regexes ONLY through their
denotations: rule lists with the same actions and right-context numbers and pairwise equal denotations (`r+` vs `r r*`, `a | b` vs `b | a`, a string literal vs
the concatenation of its characters, a variable vs its definition after substitution, …) select the same match on every input and skip the same amount after
a failure. -/
theorem C02_interchange_selection (rs1 rs2 : List CoreRule) (ctxAt1 ctxAt2 : Nat → Regex) (h : RulesEquiv rs1 rs2)
    (hc : ∀ i rest, CtxLang (ctxAt1 i) rest ↔ CtxLang (ctxAt2 i) rest) (iter : List Nat) :
    selectRef rs1 ctxAt1 iter = selectRef rs2 ctxAt2 iter :=
  selectRef_congr rs1 rs2 ctxAt1 ctxAt2 h hc iter

theorem C02_interchange_error_skip (rs1 rs2 : List CoreRule) (h : RulesEquiv rs1 rs2)
    (h1 : ∀ r ∈ rs1, NoEmptyPieces r.re) (h2 : ∀ r ∈ rs2, NoEmptyPieces r.re) (iter : List Nat) :
    errAdvance (rs1.map (·.re)) iter = errAdvance (rs2.map (·.re)) iter :=
  errAdvance_congr rs1 rs2 h h1 h2 iter

/-- **Interchangeability, end to end.** Two well-formed definitions with the same rule-set names in the same order and, rule by rule, the same action,
the same right-context number and the same DENOTATION of regex and right contexts (`DefEquiv` — however the regexes are written: with or without `let`
variables, `r+` or `r r*`, `a | b` or `b | a`, a string or the concatenation of its characters) compile to machines with different states and state
numbers, but the models of the two generated lexers return the same items on every input, for every action table, after any number of calls of
`next()`, and leave the same observable lexer state (position, user state, remaining input, end-of-input flag). Proof: both runs equal the run of the
executable reference lexer (`run_fresh_eq_spec`), which reads the definition only through `den`. -/
theorem C02_interchange_end_to_end {σ τ ε : Type} (items1 items2 : LexerDef) (c1 c2 : Compiled)
    (h1 : compileLexer items1 = .ok c1) (h2 : compileLexer items2 = .ok c2)
    (hok1 : DefOK items1) (hok2 : DefOK items2) (hne1 : DefNE items1) (hne2 : DefNE items2) (heq : DefEquiv items1 items2)
    (actions : Nat → Action σ τ ε) (width : Nat → Nat) (input : Option (List Nat)) (user : σ) (chars : List Nat) (n : Nat) :
    (runN (c1.config actions width input) n (initState user chars)).1 = (runN (c2.config actions width input) n (initState user chars)).1 ∧
    (runN (c1.config actions width input) n (initState user chars)).2.obs = (runN (c2.config actions width input) n (initState user chars)).2.obs :=
  run_congr items1 items2 c1 c2 h1 h2 hok1 hok2 hne1 hne2 heq actions width input user chars n

/-- non-vacuity: `rule Init { let d = 'b'; 'a' $d+ = 0 }` and `rule Init { 'a' 'b' 'b'* = 0 }` both compile, are well-formed and are `DefEquiv` -/
example : DefEquiv RunCongr.exLet RunCongr.exPlain ∧ DefOK RunCongr.exLet ∧ DefOK RunCongr.exPlain ∧ DefNE RunCongr.exLet ∧ DefNE RunCongr.exPlain ∧
    (∃ c, compileLexer RunCongr.exLet = .ok c) ∧ (∃ c, compileLexer RunCongr.exPlain = .ok c) :=
  ⟨RunCongr.exLet_equiv, RunCongr.exLet_ok, RunCongr.exPlain_ok, RunCongr.exLet_ne, RunCongr.exPlain_ne, RunCongr.exLet_compiles, RunCongr.exPlain_compiles⟩

/-- the documented identities, as instances -/
theorem C02_plus_is_r_rstar (r : Regex) (w : List Sym) : den (.plus r) w ↔ den (.cat r (.star r)) w := den_plus_unfold r w
theorem C02_alt_commutes (a b : Regex) (w : List Sym) : den (.alt a b) w ↔ den (.alt b a) w := den_alt_comm a b w

end Lexgen
