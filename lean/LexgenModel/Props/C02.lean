import LexgenModel.Proofs.ClassEval
import LexgenModel.Proofs.Simplify
import LexgenModel.Proofs.BisimSound
/-!
# C02 — Regex operators denote their documented languages

Proved: the class fragment (characters, bracket sets and ranges, `_`, built-ins, `|` between
classes, `#`) denotes exactly `classDen` at every code point; removal of terminal states and
concatenation of rule-set automata preserve the accept list reached by every word.
`C02_lang_partial` (ledger): the Thompson construction and the subset construction are not yet
proved in Lean; they are covered on every run by the complete per-program comparison of the model's
DFA with the macro's dumped DFA and by language-equivalent twins against a derivative-based matcher.
-/
namespace Lexgen

/-- class expressions denote exact sets, and evaluation never yields a malformed class -/
theorem C02_class_denotation (e : Regex) (m : RangeMap Unit) (h : regexToRangeMap e = .ok m) (hp : classPiecesOK e) :
    RangeMap.WF m ∧ ∀ x, (RangeMap.lookup m x).isSome = true ↔ classDen e x :=
  regexToRangeMap_spec builtinsWF e m h hp

/-- `a | b` and `b | a` between classes, chained differences etc. are interchangeable: two class
expressions with the same denotation evaluate to classes accepting the same characters. -/
theorem C02_class_interchange (e1 e2 : Regex) (m1 m2 : RangeMap Unit)
    (h1 : regexToRangeMap e1 = .ok m1) (h2 : regexToRangeMap e2 = .ok m2)
    (hp1 : classPiecesOK e1) (hp2 : classPiecesOK e2) (hden : ∀ x, classDen e1 x ↔ classDen e2 x) (x : Nat) :
    (RangeMap.lookup m1 x).isSome = (RangeMap.lookup m2 x).isSome := by
  have a := (regexToRangeMap_spec builtinsWF e1 m1 h1 hp1).2 x
  have b := (regexToRangeMap_spec builtinsWF e2 m2 h2 hp2).2 x
  cases h : (RangeMap.lookup m1 x).isSome <;> cases h' : (RangeMap.lookup m2 x).isSome <;> simp_all

/-- dropping terminal states keeps, for every word, the accept list reached -/
theorem C02_simplify_preserves (d : DFA Nat) (entries : List (String × Nat)) (d' : DFA Trans) (entries' : List (String × Nat))
    (h : simplify d entries = .ok (d', entries')) (hT : TargetsInRange d)
    (s : Nat) (hs : s < d.length) (hk : (emptyStates d).contains s = false) (w : List Nat) :
    (reach d' (.st (newIdx d s)) w).map (Auto.acc d') = (reachN d s w).map (fun t => (d.st t).accepting) :=
  simplify_reach d entries d' entries' h hT s hs hk w

/-- The per-program comparison of the model's DFA with the macro's dumped DFA is sound: when the
product exploration `bisim` (run by `lexmodel stage` on every corpus program) succeeds, the two
automata have equal accept lists (rule and context ids, in order) and equal end-of-input behaviour
for EVERY word over code points `≤ char::MAX` from every compared entry — not for sampled words. -/
theorem C02_comparison_sound {τ₁ τ₂ : Type} [Target τ₁] [Target τ₂] (a : DFA τ₁) (b : DFA τ₂) (starts : List (Nat × Nat))
    (h : (bisim a b (fun l1 l2 => l1 == l2) starts).1.ok = true) (x y : Nat) (hxy : (x, y) ∈ starts) :
    EquivFrom a b x y :=
  bisim_sound a b starts h x y hxy

end Lexgen
