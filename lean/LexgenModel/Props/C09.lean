import LexgenModel.Proofs.NextMore
/-!
# C09 — Every next() call terminates, makes progress, and never panics (model part)
-/
namespace Lexgen
variable {σ τ ε : Type}

/-- Termination: on a well-formed machine at a lexeme boundary the loop of `next()` finishes
within `|iter| + 2` rounds and its `match` is exhaustive (the model returns a result). -/
theorem C09_terminates (cfg : Config σ τ ε) (hm : MachineOK cfg) (st : LState σ) (hr : Ready cfg st) :
    ∃ r, next cfg st = some r :=
  next_total cfg hm st hr

/-- Progress: every item accounts for at least one input character or for the end-of-input event. -/
theorem C09_progress (cfg : Config σ τ ε) (hm : MachineOK cfg) (st : LState σ) (hr : Ready cfg st)
    (item : Item τ ε) (st' : LState σ) (h : next cfg st = some (some item, st')) :
    ∃ k, st'.iter = st.iter.drop k ∧ (0 < k ∨ st'.done = true) :=
  next_progress cfg hm st hr item st' h

/-- A lexer over `n` characters yields at most `n + 1` items, however many times `next()` is
called; no call runs out of fuel. -/
theorem C09_item_bound (cfg : Config σ τ ε) (hm : MachineOK cfg) (st : LState σ) (hr : Ready cfg st) (n : Nat) :
    itemCount (runN cfg n st).1 ≤ st.iter.length + 1 ∧ (∀ x ∈ (runN cfg n st).1, x ≠ none) :=
  ⟨(runN_items_le cfg hm st hr n).1, (runN_items_le cfg hm st hr n).2.1⟩

end Lexgen
