import LexgenModel.Proofs.NextMore
import LexgenModel.Proofs.EndToEnd
import LexgenModel.Proofs.DumpedMachine
/-!
# C09 — Every next() call terminates, makes progress, and never panics (model part)
-/
namespace Lexgen
variable {σ τ ε : Type}

/-- Termination: on a well-formed machine at a lexeme boundary the loop of `next()` finishes
within `|iter| + 2` rounds and its `match` is exhaustive (the model returns a result). -/
theorem C09_terminates (cfg : Config σ τ ε) (hm : MachineOK cfg) (st : LState σ) (hr : Ready cfg st) :
    ∃ r, next cfg st = some r :=
  next_total cfg hm st hr

/-- Progress: every item accounts for at least one input character or for the end-of-input event. -/
theorem C09_progress (cfg : Config σ τ ε) (hm : MachineOK cfg) (st : LState σ) (hr : Ready cfg st)
    (item : Item τ ε) (st' : LState σ) (h : next cfg st = some (some item, st')) :
    ∃ k, st'.iter = st.iter.drop k ∧ (0 < k ∨ st'.done = true) :=
  next_progress cfg hm st hr item st' h

/-- A lexer over `n` characters yields at most `n + 1` items, however many times `next()` is
called; no call runs out of fuel. -/
theorem C09_item_bound (cfg : Config σ τ ε) (hm : MachineOK cfg) (st : LState σ) (hr : Ready cfg st) (n : Nat) :
    itemCount (runN cfg n st).1 ≤ st.iter.length + 1 ∧ (∀ x ∈ (runN cfg n st).1, x ≠ none) :=
  ⟨(runN_items_le cfg hm st hr n).1, (runN_items_le cfg hm st hr n).2.1⟩

/-- Termination, progress and the item bound for EVERY well-formed definition the model compiles: the
hypothesis "no rule matches the empty string" enters through `DefOK` (it makes every rule-set entry
non-accepting); with a nullable rule the generated `next()` really loops (observed on the real macro). -/
theorem C09_compiled (items : LexerDef) (c : Compiled) (h : compileLexer items = .ok c) (hok : DefOK items)
    (actions : Nat → Action σ τ ε) (width : Nat → Nat) (input : Option (List Nat)) (st : LState σ)
    (hr : Ready (c.config actions width input) st) :
    (∃ r, next (c.config actions width input) st = some r) ∧
    (∀ n, itemCount (runN (c.config actions width input) n st).1 ≤ st.iter.length + 1 ∧
      ∀ x ∈ (runN (c.config actions width input) n st).1, x ≠ none) :=
  have hm := compileLexer_machineOK items c h hok actions width input
  ⟨next_total _ hm st hr, fun n => ⟨(runN_items_le _ hm st hr n).1, (runN_items_le _ hm st hr n).2.1⟩⟩

/-- a freshly constructed lexer is `Ready` (state 0 = entry of `Init` / of the unnamed rule set) -/
theorem C09_initial_ready (cfg : Config σ τ ε) (user : σ) (chars : List Nat) : Ready cfg (initState user chars) := by
  refine ⟨rfl, rfl, 0, Or.inl rfl, ?_⟩
  show (0 : Nat) = renumber cfg.inl 0
  unfold renumber
  simp

/-- The same for the machine the REAL macro dumped: `stageOK` (evaluated by `lexmodel` on every dumped machine) contains the well-formedness checker,
whose verdict implies `MachineOK` (`C01_checker_establishes_hypotheses`); so on that machine too every `next()` terminates, makes progress and the
item bound holds — whatever the inlining policy, state numbering and table shapes of the macro that produced it. -/
theorem C09_real_machine (c : Compiled) (dfa : DFA Trans) (entries : List (String × Nat)) (ctxs : List (DFA Nat)) (inl : List Nat)
    (hs : stageOK c dfa entries ctxs inl = true)
    (actions : Nat → Action σ τ ε) (width : Nat → Nat) (input : Option (List Nat)) (st : LState σ)
    (hr : Ready { dfa := dfa, ctxs := ctxs, entries := entries, inl := inl, actions := actions, width := width, input := input } st) :
    (∃ r, next { dfa := dfa, ctxs := ctxs, entries := entries, inl := inl, actions := actions, width := width, input := input } st = some r) ∧
    (∀ n, itemCount (runN { dfa := dfa, ctxs := ctxs, entries := entries, inl := inl, actions := actions, width := width, input := input } n st).1
        ≤ st.iter.length + 1 ∧
      ∀ x ∈ (runN { dfa := dfa, ctxs := ctxs, entries := entries, inl := inl, actions := actions, width := width, input := input } n st).1, x ≠ none) := by
  obtain ⟨_, _, _, _, _, hwf, _, _⟩ := Dumped.stageOK_unpack c dfa entries ctxs inl hs
  have hm : MachineOK ({ dfa := dfa, ctxs := ctxs, entries := entries, inl := inl, actions := actions, width := width, input := input } : Config σ τ ε) :=
    machineOK_of_checker _ ctxs.length hwf
  exact ⟨next_total _ hm st hr, fun n => ⟨(runN_items_le _ hm st hr n).1, (runN_items_le _ hm st hr n).2.1⟩⟩

end Lexgen
