import LexgenModel.Proofs.NextProtocol
import LexgenModel.Proofs.Accounting
import LexgenModel.Proofs.RefRefine
/-!
# C05 — End-of-input protocol (model part): fused stream, `$` matches via the end-of-input symbol
-/
namespace Lexgen
variable {σ τ ε : Type}

/-- Once end-of-input has been handled, every call returns `None` and changes nothing. -/
theorem C05_fused (cfg : Config σ τ ε) (st : LState σ) (h : st.done = true) : next cfg st = some (none, st) :=
  next_done cfg st h

/-- A match through `$` exists only when all characters are read, and is preferred to the same
lexeme without it (`candLe` puts the end-of-input match on top at full length). -/
theorem C05_eoi_only_at_end (cfg : Config σ τ ε) (s : Nat) (iter : List Nat) (k a : Nat)
    (h : Cand cfg s iter k a true) : k = iter.length := by
  obtain ⟨_, c, _, h2⟩ := h
  simp only [if_true] at h2
  exact h2.1

/-- The end-of-input protocol at the language level: every call is a step of the reference lexer `RefNext`, whose
constructors are exactly the protocol — `done` (fused stream), `ret`/`cont` with `viaEoi` (a match through `$` is preferred
at full length and sets `done`), `eof` (nothing matches, input exhausted, first rule set active: `None`), `invalid` (any other
rule set active at the end: `InvalidToken`). -/
theorem C05_refines_reference (items : LexerDef) (c : Compiled) (h : compileLexer items = .ok c) (hok : DefOK items)
    (ctxAt : Nat → Regex) (hnum : CtxNumbering items ctxAt)
    (actions : Nat → Action σ τ ε) (width : Nat → Nat) (input : Option (List Nat))
    (st : LState σ) (hr : Ready (c.config actions width input) st)
    (r : Option (Item τ ε) × LState σ) (hn : next (c.config actions width input) st = some r) :
    RefNext items c ctxAt (c.config actions width input) st r :=
  next_refines_ref items c h hok ctxAt hnum actions width input st hr r hn

/-- **Accounting.** Over any number of calls from a fresh lexer on a well-formed machine: no call is stuck; every returned token/error has a
character index span that begins at or after the position where the previous item ended and ends at the position its call reached
(`0 ≤ i₁ ≤ j₁ ≤ i₂ ≤ j₂ ≤ … ≤ q ≤ |input|`); once `None` has been returned only `None`s follow; and if some call returned `None` the whole
input was consumed — end-of-input is handled exactly once, when everything has been read. -/
theorem C05_accounting (cfg : Config σ τ ε) (hm : MachineOK cfg) (user : σ) (input : List Nat) (n : Nat) :
    ∃ start q, AtPos cfg.width input (runN cfg n (initState user input)).2 start q ∧
      Ordered cfg.width input 0 (runN cfg n (initState user input)).1 q ∧
      (some none ∈ (runN cfg n (initState user input)).1 → q = input.length) :=
  runN_spans_ordered cfg hm user input n

end Lexgen
