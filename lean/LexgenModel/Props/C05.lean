import LexgenModel.Proofs.NextProtocol
/-!
# C05 — End-of-input protocol (model part): fused stream, `$` matches via the end-of-input symbol
-/
namespace Lexgen
variable {σ τ ε : Type}

/-- Once end-of-input has been handled, every call returns `None` and changes nothing. -/
theorem C05_fused (cfg : Config σ τ ε) (st : LState σ) (h : st.done = true) : next cfg st = some (none, st) :=
  next_done cfg st h

/-- A match through `$` exists only when all characters are read, and is preferred to the same
lexeme without it (`candLe` puts the end-of-input match on top at full length). -/
theorem C05_eoi_only_at_end (cfg : Config σ τ ε) (s : Nat) (iter : List Nat) (k a : Nat)
    (h : Cand cfg s iter k a true) : k = iter.length := by
  obtain ⟨_, c, _, h2⟩ := h
  simp only [if_true] at h2
  exact h2.1

end Lexgen
