import LexgenModel.Proofs.NextProtocol
/-!
# C03 — Rule sets are entered only by switch or failure reset; numbering is exact
-/
namespace Lexgen
variable {σ τ ε : Type}

/-- The number stored in `__state` for a state that has an arm selects exactly that state's arm,
whatever was inlined before it. -/
theorem C03_dispatch (d : DFA Trans) (s : Nat) (hs : s < d.length) (as : hasArm d s = true) :
    dispatch (stateArms d) (renumber (inlinedStates d) s) = some s :=
  dispatch_correct d (initialNotInlined d) s hs as

/-- `switch R` stores the number whose arm is the code of `R`'s own entry state. -/
theorem C03_switch (d : DFA Trans) (entries : List (String × Nat)) (name : String) (e : Nat)
    (he : (name, e) ∈ entries) (hlt : e < d.length) (hini : (d.st e).initial = true) :
    ∃ n, (name, n) ∈ switchTable d entries ∧ dispatch (stateArms d) n = some e :=
  switch_correct d (initialNotInlined d) entries name e he hlt hini

/-- At every lexeme boundary `__state = __initial_state` is the number of a rule set's entry state
(or state 0): the active rule set changes only through `switch` or a failure. -/
theorem C03_boundary_state (cfg : Config σ τ ε) (hm : MachineOK cfg) (st : LState σ) (hr : Ready cfg st)
    (item : Option (Item τ ε)) (st' : LState σ) (h : next cfg st = some (item, st')) : Ready cfg st' :=
  next_ready cfg hm st hr item st' h

end Lexgen
