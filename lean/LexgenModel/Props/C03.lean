import LexgenModel.Proofs.NextProtocol
import LexgenModel.Proofs.EndToEnd
/-!
# C03 — Rule sets are entered only by switch or failure reset; numbering is exact
-/
namespace Lexgen
variable {σ τ ε : Type}

/-- The number stored in `__state` for a state that has an arm selects exactly that state's arm,
whatever was inlined before it — for any admissible set `inl` of inlined states (whatever policy
chose it). -/
theorem C03_dispatch (d : DFA Trans) (inl : List Nat) (hI : InlOK d inl) (s : Nat) (hs : s < d.length)
    (as : hasArm inl s = true) :
    dispatch (stateArms d inl) (renumber inl s) = some s :=
  dispatch_correct d inl hI s hs as

/-- `switch R` stores the number whose arm is the code of `R`'s own entry state. -/
theorem C03_switch (d : DFA Trans) (inl : List Nat) (hI : InlOK d inl) (entries : List (String × Nat))
    (name : String) (e : Nat)
    (he : (name, e) ∈ entries) (hlt : e < d.length) (hini : (d.st e).initial = true) :
    ∃ n, (name, n) ∈ switchTable inl entries ∧ dispatch (stateArms d inl) n = some e :=
  switch_correct d inl hI entries name e he hlt hini

/-- The macro's current policy is one admissible choice. -/
theorem C03_dispatch_default (d : DFA Trans) (s : Nat) (hs : s < d.length)
    (as : hasArm (inlinedStates d) s = true) :
    dispatch (stateArms d (inlinedStates d)) (renumber (inlinedStates d) s) = some s :=
  C03_dispatch d (inlinedStates d) (inlOK_inlinedStates d) s hs as

/-- At every lexeme boundary `__state = __initial_state` is the number of a rule set's entry state
(or state 0): the active rule set changes only through `switch` or a failure. -/
theorem C03_boundary_state (cfg : Config σ τ ε) (hm : MachineOK cfg) (st : LState σ) (hr : Ready cfg st)
    (item : Option (Item τ ε)) (st' : LState σ) (h : next cfg st = some (item, st')) : Ready cfg st' :=
  next_ready cfg hm st hr item st' h

/-- …for every well-formed definition the model compiles (no run of the checker needed). -/
theorem C03_boundary_state_compiled (items : LexerDef) (c : Compiled) (h : compileLexer items = .ok c) (hok : DefOK items)
    (actions : Nat → Action σ τ ε) (width : Nat → Nat) (input : Option (List Nat)) (st : LState σ)
    (hr : Ready (c.config actions width input) st) (item : Option (Item τ ε)) (st' : LState σ)
    (hn : next (c.config actions width input) st = some (item, st')) : Ready (c.config actions width input) st' :=
  next_ready _ (compileLexer_machineOK items c h hok actions width input) st hr item st' hn

/-- Rule sets are isolated at the language level: from the entry of a rule set, the compiled machine only
ever matches with rules of THAT rule set (`LangCand` ranges over `rules` alone). -/
theorem C03_isolation (items : LexerDef) (c : Compiled) (h : compileLexer items = .ok c) (hok : DefOK items)
    (ctxAt : Nat → Regex) (hnum : CtxNumbering items ctxAt)
    (name : String) (rs : List RuleOrBinding) (b : Bindings) (k : Nat) (hmem : (name, rs, b, k) ∈ allRuleSets items)
    (actions : Nat → Action σ τ ε) (width : Nat → Nat) (input : Option (List Nat)) :
    ∃ e rules, IsEntryOf items c name e ∧ coreRules rs b k = some rules ∧
      ∀ iter n a viaEoi, Cand (c.config actions width input) e iter n a viaEoi → ∃ r ∈ rules, r.value = a := by
  obtain ⟨e, rules, he, _, hc, hiff⟩ := compile_cand_iff items c h hok ctxAt hnum name rs b k hmem actions width input
  refine ⟨e, rules, he, hc, ?_⟩
  intro iter n a viaEoi hcand
  have hl := (hiff iter n a viaEoi).mp hcand
  -- the selected action is the value of an entry of `matchingAccs rules _`, i.e. of a rule of the set
  have key : ∀ (rest : List Nat) (accs : List Acc), firstLang ctxAt rest accs = some a → ∃ x ∈ accs, x.value = a := by
    intro rest accs
    induction accs with
    | nil => intro hx; cases hx
    | cons x more ih =>
      intro hx
      unfold firstLang at hx
      cases hcx : x.ctx with
      | none => rw [hcx] at hx; exact ⟨x, List.mem_cons_self, by simpa using hx⟩
      | some i =>
        rw [hcx] at hx
        simp only at hx
        by_cases hok' : CtxLang (ctxAt i) rest
        · rw [if_pos hok'] at hx; exact ⟨x, List.mem_cons_self, by simpa using hx⟩
        · rw [if_neg hok'] at hx
          obtain ⟨y, hy, hv⟩ := ih hx
          exact ⟨y, List.mem_cons_of_mem _ hy, hv⟩
  unfold LangCand at hl
  obtain ⟨_, hl⟩ := hl
  cases viaEoi with
  | true =>
    simp only [if_true] at hl
    obtain ⟨x, hx, hv⟩ := key _ _ hl.2
    obtain ⟨r, hr, rfl⟩ := mem_matchingAccs hx
    exact ⟨r, hr, hv⟩
  | false =>
    simp only [Bool.false_eq_true, if_false] at hl
    obtain ⟨x, hx, hv⟩ := key _ _ hl
    obtain ⟨r, hr, rfl⟩ := mem_matchingAccs hx
    exact ⟨r, hr, hv⟩

end Lexgen
