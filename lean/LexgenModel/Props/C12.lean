import LexgenModel.Proofs.Backtrack
import LexgenModel.Proofs.Totality
/-!
# C12 — Macro expansion terminates (model part)

The work-list analysis that looped forever on the pinned tree: its model terminates within
`backtrackFuel` on every graph whose targets are states, and never hits its assertion when all
states are reachable. (rustc accepting the output, wall-clock time and run-to-run determinism are
observed on the corpus, see DESIGN §10.)
-/
namespace Lexgen
open Backtrack

theorem C12_backtrack_terminates (d : DFA Nat) (hT : TargetsOK d) :
    ∃ vis, backtrackLoop d (backtrackFuel d) (initialWork d).reverse (List.replicate d.length none) = some vis :=
  backtrack_terminates d hT

theorem C12_backtrack_no_assert (d : DFA Nat) (hT : TargetsOK d)
    (hreach : ∀ s, s < d.length → ∃ i, i < d.length ∧ (d.st i).initial = true ∧ Path d i s) :
    ∃ d', updateBacktracks d = some d' :=
  backtrack_total d hT hreach

/-- The subset construction ends within its fuel on every well-formed NFA (the model's `none` stands for
a loop that would not end): at most `2^|nfa|` subsets are expanded, each pushing a bounded number of
closures. -/
theorem C12_subset_construction_terminates (nfa : NFA) (hwf : NFAWF nfa) : ∃ d, nfaToDfa nfa = some d :=
  nfaToDfa_total nfa hwf

/-- The Thompson construction never trips one of the NFA's own assertions (the `assert!`s of
`add_char_transition`, `add_empty_transition`, ..): the only errors of `add_regex` are the user's. -/
theorem C12_add_regex_no_assertion (nfa : NFA) (hwf : NFAWF nfa) (re : Regex) (ctx : Option Nat) (value : Nat) :
    ∀ e, nfa.addRegex re ctx value = .error e → e.isInternal = false :=
  addRegex_no_internal nfa hwf re ctx value

/-- **Expansion is total.** Whatever the definition (bracket ranges non-inverted), the model of `lexer()`
never hits an internal assertion (NFA assertions, the `assert_eq!` of `update_backtracks`, "predecessor of a
state is removed in simplification") and every work-list loop ends within its fuel: the macro either
produces a machine or reports an error of the user (mixed rules, duplicates, first rule set not `Init`,
unbound variable, unknown built-in, non-class operand of `#`, cyclic variable). -/
theorem C12_expansion_total (items : LexerDef) (hp : ItemsPiecesOK items) :
    ∀ e, compileLexer items = .error e → e.isInternal = false :=
  compileLexer_no_internal items hp

end Lexgen
