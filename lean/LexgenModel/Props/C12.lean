import LexgenModel.Proofs.Backtrack
/-!
# C12 — Macro expansion terminates (model part)

The work-list analysis that looped forever on the pinned tree: its model terminates within
`backtrackFuel` on every graph whose targets are states, and never hits its assertion when all
states are reachable. (rustc accepting the output, wall-clock time and run-to-run determinism are
observed on the corpus, see DESIGN §10.)
-/
namespace Lexgen
open Backtrack

theorem C12_backtrack_terminates (d : DFA Nat) (hT : TargetsOK d) :
    ∃ vis, backtrackLoop d (backtrackFuel d) (initialWork d).reverse (List.replicate d.length none) = some vis :=
  backtrack_terminates d hT

theorem C12_backtrack_no_assert (d : DFA Nat) (hT : TargetsOK d)
    (hreach : ∀ s, s < d.length → ∃ i, i < d.length ∧ (d.st i).initial = true ∧ Path d i s) :
    ∃ d', updateBacktracks d = some d' :=
  backtrack_total d hT hreach

end Lexgen
