import LexgenModel.Proofs.NextMore
import LexgenModel.Proofs.EndToEnd
import LexgenModel.Proofs.Totality
/-!
# C15 — A cloned lexer continues identically and independently

All run-time state is the by-value `LState` (the model has no other state), so a clone is an equal
state; equal states have equal futures, and the items after `m` calls are exactly those of the
state reached after `m` calls.
-/
namespace Lexgen
variable {σ τ ε : Type}

theorem C15_stream_of_state (cfg : Config σ τ ε) (m n : Nat) (st : LState σ) (h : ∀ x ∈ (runN cfg m st).1, x ≠ none) :
    runN cfg (m + n) st = ((runN cfg m st).1 ++ (runN cfg n (runN cfg m st).2).1, (runN cfg n (runN cfg m st).2).2) :=
  runN_add cfg m n st h

/-- For every well-formed definition the model compiles, at every clone point `m` (from a fresh lexer or any state at a lexeme start: after an error,
after a rule-set switch, after the final `None`), the remaining stream of the original equals the stream of the clone, for any number `n` of further
calls — no side condition: `next()` never runs out of fuel on a compiled machine. The clone is again at a lexeme start, so the statement applies to
clones of clones. -/
theorem C15_clone_compiled (items : LexerDef) (c : Compiled) (h : compileLexer items = .ok c) (hok : DefOK items)
    (actions : Nat → Action σ τ ε) (width : Nat → Nat) (input : Option (List Nat)) (st : LState σ)
    (hr : Ready (c.config actions width input) st) (m n : Nat) :
    runN (c.config actions width input) (m + n) st =
      ((runN (c.config actions width input) m st).1 ++ (runN (c.config actions width input) n (runN (c.config actions width input) m st).2).1,
       (runN (c.config actions width input) n (runN (c.config actions width input) m st).2).2) ∧
    Ready (c.config actions width input) (runN (c.config actions width input) m st).2 := by
  have hm := compileLexer_machineOK items c h hok actions width input
  refine ⟨runN_add _ m n st (runN_items_le _ hm st hr m).2.1, ?_⟩
  clear n
  induction m generalizing st with
  | zero => exact hr
  | succ m ih =>
    unfold runN
    obtain ⟨r, hn⟩ := next_total _ hm st hr
    obtain ⟨item, st'⟩ := r
    rw [hn]
    simp only
    exact ih st' (next_ready _ hm st hr item st' hn)

/-- a clone taken after the final `None` keeps returning `None` (fusedness, C05), like the original -/
theorem C15_clone_after_none (cfg : Config σ τ ε) (st : LState σ) (h : st.done = true) (n : Nat) :
    (runN cfg n st).1 = List.replicate n (some none) ∧ (runN cfg n st).2 = st := by
  induction n with
  | zero => exact ⟨rfl, rfl⟩
  | succ n ih =>
    have hn : next cfg st = some (none, st) := next_done cfg st h
    unfold runN
    rw [hn]
    simp only
    exact ⟨by rw [ih.1]; rfl, ih.2⟩

/-! ## Independence under every interleaving of calls on the original and on the clone -/

/-- Two lexer values driven by one schedule: `true` = a call of `next()` on the first, `false` = on the second. `none` = some call ran out of fuel
(never, on a compiled machine: see the theorem). -/
def runSched (cfg : Config σ τ ε) : List Bool → LState σ → LState σ →
    Option (List (Option (Item τ ε)) × List (Option (Item τ ε)) × LState σ × LState σ)
  | [], a, b => some ([], [], a, b)
  | true :: s, a, b =>
    match next cfg a with
    | none => none
    | some (item, a') =>
      match runSched cfg s a' b with
      | none => none
      | some (xs, ys, a'', b'') => some (item :: xs, ys, a'', b'')
  | false :: s, a, b =>
    match next cfg b with
    | none => none
    | some (item, b') =>
      match runSched cfg s a b' with
      | none => none
      | some (xs, ys, a'', b'') => some (xs, item :: ys, a'', b'')

/-- "each unaffected by calls made on the other", for EVERY schedule: however the calls on the two values are interleaved, each value yields exactly
the stream it yields when run alone for as many calls as the schedule gives it, and ends in the same state. -/
theorem C15_interleaving (cfg : Config σ τ ε) (hm : MachineOK cfg) (sched : List Bool) (a b : LState σ)
    (ha : Ready cfg a) (hb : Ready cfg b) :
    ∃ xs ys a' b', runSched cfg sched a b = some (xs, ys, a', b') ∧
      runN cfg (sched.count true) a = (xs.map some, a') ∧ runN cfg (sched.count false) b = (ys.map some, b') ∧
      Ready cfg a' ∧ Ready cfg b' := by
  induction sched generalizing a b with
  | nil => exact ⟨[], [], a, b, rfl, rfl, rfl, ha, hb⟩
  | cons c s ih =>
    cases c with
    | true =>
      obtain ⟨⟨item, a1⟩, hn⟩ := next_total cfg hm a ha
      obtain ⟨xs, ys, a', b', h1, h2, h3, h4, h5⟩ := ih a1 b (next_ready cfg hm a ha item a1 hn) hb
      refine ⟨item :: xs, ys, a', b', ?_, ?_, ?_, h4, h5⟩
      · simp only [runSched, hn, h1]
      · rw [List.count_cons_self, NextMore.runN_succ_some cfg _ a item a1 hn, h2]; rfl
      · rw [List.count_cons_of_ne (by decide)]; exact h3
    | false =>
      obtain ⟨⟨item, b1⟩, hn⟩ := next_total cfg hm b hb
      obtain ⟨xs, ys, a', b', h1, h2, h3, h4, h5⟩ := ih a b1 ha (next_ready cfg hm b hb item b1 hn)
      refine ⟨xs, item :: ys, a', b', ?_, ?_, ?_, h4, h5⟩
      · simp only [runSched, hn, h1]
      · rw [List.count_cons_of_ne (by decide)]; exact h2
      · rw [List.count_cons_self, NextMore.runN_succ_some cfg _ b item b1 hn, h3]; rfl

/-- The same for the original and its clone (`b = a`) of every compiled well-formed definition, at every clone point. -/
theorem C15_interleaving_compiled (items : LexerDef) (c : Compiled) (h : compileLexer items = .ok c) (hok : DefOK items)
    (actions : Nat → Action σ τ ε) (width : Nat → Nat) (input : Option (List Nat)) (st : LState σ)
    (hr : Ready (c.config actions width input) st) (sched : List Bool) :
    ∃ xs ys a' b', runSched (c.config actions width input) sched st st = some (xs, ys, a', b') ∧
      runN (c.config actions width input) (sched.count true) st = (xs.map some, a') ∧
      runN (c.config actions width input) (sched.count false) st = (ys.map some, b') :=
  let ⟨xs, ys, a', b', h1, h2, h3, _, _⟩ :=
    C15_interleaving _ (compileLexer_machineOK items c h hok actions width input) sched st st hr hr
  ⟨xs, ys, a', b', h1, h2, h3⟩

end Lexgen
