import LexgenModel.Proofs.NextMore
/-!
# C15 — A cloned lexer continues identically and independently

All run-time state is the by-value `LState` (the model has no other state), so a clone is an equal
state; equal states have equal futures, and the items after `m` calls are exactly those of the
state reached after `m` calls.
-/
namespace Lexgen
variable {σ τ ε : Type}

theorem C15_stream_of_state (cfg : Config σ τ ε) (m n : Nat) (st : LState σ) (h : ∀ x ∈ (runN cfg m st).1, x ≠ none) :
    runN cfg (m + n) st = ((runN cfg m st).1 ++ (runN cfg n (runN cfg m st).2).1, (runN cfg n (runN cfg m st).2).2) :=
  runN_add cfg m n st h

end Lexgen
