import LexgenModel.Proofs.NextMore
import LexgenModel.Proofs.EndToEnd
import LexgenModel.Proofs.Totality
/-!
# C15 — A cloned lexer continues identically and independently

All run-time state is the by-value `LState` (the model has no other state), so a clone is an equal
state; equal states have equal futures, and the items after `m` calls are exactly those of the
state reached after `m` calls.
-/
namespace Lexgen
variable {σ τ ε : Type}

theorem C15_stream_of_state (cfg : Config σ τ ε) (m n : Nat) (st : LState σ) (h : ∀ x ∈ (runN cfg m st).1, x ≠ none) :
    runN cfg (m + n) st = ((runN cfg m st).1 ++ (runN cfg n (runN cfg m st).2).1, (runN cfg n (runN cfg m st).2).2) :=
  runN_add cfg m n st h

/-- For every well-formed definition the model compiles, at every clone point `m` (from a fresh lexer or any state at a lexeme start: after an error,
after a rule-set switch, after the final `None`), the remaining stream of the original equals the stream of the clone, for any number `n` of further
calls — no side condition: `next()` never runs out of fuel on a compiled machine. The clone is again at a lexeme start, so the statement applies to
clones of clones. -/
theorem C15_clone_compiled (items : LexerDef) (c : Compiled) (h : compileLexer items = .ok c) (hok : DefOK items)
    (actions : Nat → Action σ τ ε) (width : Nat → Nat) (input : Option (List Nat)) (st : LState σ)
    (hr : Ready (c.config actions width input) st) (m n : Nat) :
    runN (c.config actions width input) (m + n) st =
      ((runN (c.config actions width input) m st).1 ++ (runN (c.config actions width input) n (runN (c.config actions width input) m st).2).1,
       (runN (c.config actions width input) n (runN (c.config actions width input) m st).2).2) ∧
    Ready (c.config actions width input) (runN (c.config actions width input) m st).2 := by
  have hm := compileLexer_machineOK items c h hok actions width input
  refine ⟨runN_add _ m n st (runN_items_le _ hm st hr m).2.1, ?_⟩
  clear n
  induction m generalizing st with
  | zero => exact hr
  | succ m ih =>
    unfold runN
    obtain ⟨r, hn⟩ := next_total _ hm st hr
    obtain ⟨item, st'⟩ := r
    rw [hn]
    simp only
    exact ih st' (next_ready _ hm st hr item st' hn)

/-- a clone taken after the final `None` keeps returning `None` (fusedness, C05), like the original -/
theorem C15_clone_after_none (cfg : Config σ τ ε) (st : LState σ) (h : st.done = true) (n : Nat) :
    (runN cfg n st).1 = List.replicate n (some none) ∧ (runN cfg n st).2 = st := by
  induction n with
  | zero => exact ⟨rfl, rfl⟩
  | succ n ih =>
    have hn : next cfg st = some (none, st) := next_done cfg st h
    unfold runN
    rw [hn]
    simp only
    exact ⟨by rw [ih.1]; rfl, ih.2⟩

end Lexgen
