import LexgenModel.Proofs.TableGen
/-!
# C18 — The table generator emits exact, maximal, sorted ranges for any predicate
-/
namespace Lexgen

/-- For every predicate and every upper bound: the output is canonical (scalar end points,
sorted, disjoint, separated by a non-satisfying scalar — also next to the surrogate gap and at the
upper bound), covers exactly the satisfying scalar values, and is the only such list. -/
theorem C18_generator_exact (f : Nat → Bool) (max : Nat) :
    Canon max (generateRanges f max) ∧
    (∀ c, c ≤ max → isScalar c = true → (f c = true ↔ covers (generateRanges f max) c)) ∧
    (∀ l, Canon max l → (∀ c, c ≤ max → isScalar c = true → (f c = true ↔ covers l c)) → l = generateRanges f max) :=
  ⟨generateRanges_canon f max, fun c hc hs => generateRanges_covers f max c hc hs,
   fun l hl h => generateRanges_unique f max l hl h⟩

/-- non-vacuity: a predicate true at the upper bound and across a gap -/
example : generateRanges (fun c => c % 2 == 0 || c ≥ 5) 8 = [(0, 0), (2, 2), (4, 8)] := by decide

end Lexgen
