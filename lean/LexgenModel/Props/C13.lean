import LexgenModel.Proofs.Search
import LexgenModel.Proofs.ClassEval
/-!
# C13 — Built-in classes accept exactly the characters of their Rust predicates

Three links: (1) `Generated/TablesCheck.lean` (regenerated from /repo and re-checked by the kernel
on every run): the table `BUILTIN_RANGES`/`get_ranges` associate with each name equals the ranges of
the Rust predicate of that name, enumerated over all scalar values, and is canonical; (2) a built-in
evaluates to a well-formed class denoting exactly its table (`C13_builtin_class`); (3) both
generated membership shapes — chain of range guards, binary search in a table — and the arm
grouping compute the range lookup (`C13_lookup_shapes`).
-/
namespace Lexgen

/-- the current tables are well-formed range maps -/
theorem C13_tables_wellformed : BuiltinsWF := builtinsWF

/-- `$$name` evaluates to a class containing exactly the code points of its table -/
theorem C13_builtin_class (n : String) (m : RangeMap Unit) (h : regexToRangeMap (.builtin n) = .ok m) :
    RangeMap.WF m ∧ ∀ x, (RangeMap.lookup m x).isSome = true ↔
      ∃ rs, builtinRanges n = some rs ∧ ∃ p ∈ rs, p.1 ≤ x ∧ x ≤ p.2 :=
  regexToRangeMap_spec builtinsWF (.builtin n) m h trivial

/-- Whether a group of ranges is compiled into a chain of guards or into a binary-search table
(whatever the threshold), the guard is membership; and the generated range arms select exactly the
transition the range map holds for the character. -/
theorem C13_lookup_shapes (maxGuard : Nat) :
    (∀ (ranges : List (Nat × Nat)) (c : Nat), SortedFrom 0 ranges →
      (rangeGuard maxGuard ranges c = true ↔ ∃ r ∈ ranges, r.1 ≤ c ∧ c ≤ r.2)) ∧
    (∀ (ranges : RangeMap Trans) (c : Nat), RangeMap.WF ranges →
      armLookup maxGuard ranges c = RangeMap.lookup ranges c) :=
  ⟨fun ranges c h => rangeGuard_iff maxGuard ranges c h, fun ranges c h => armLookup_eq_lookup maxGuard ranges h c⟩

/-- the binary search itself, on any sorted table -/
theorem C13_binary_search (table : List (Nat × Nat)) (c : Nat) (h : SortedFrom 0 table) :
    binarySearch table c = true ↔ ∃ r ∈ table, r.1 ≤ c ∧ c ≤ r.2 :=
  binarySearch_iff table c h

end Lexgen
