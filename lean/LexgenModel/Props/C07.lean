import LexgenModel.Proofs.MaxMunch
import LexgenModel.Proofs.NextProtocol
import LexgenModel.Proofs.RefRefine
/-!
# C07 — Errors are raised exactly when nothing matches and point at the lexeme start
-/
namespace Lexgen
variable {σ τ ε : Type}

/-- An `InvalidToken` from the state code means no match exists at all, and its location is the
start of the current match. -/
theorem C07_invalid_only_if_no_match (cfg : Config σ τ ε) (hm : MachineOK cfg) (s : Nat) (st : LState σ)
    (hlast : st.last = none) (loc : Loc) (st' : LState σ)
    (h : scan cfg (dispatch (stateArms cfg.dfa cfg.inl)) s st.iter st = .err loc st') :
    (∀ k a e, ¬ Cand cfg s st.iter k a e) ∧ loc = st.curStart := by
  have hns := dispatchOK_of_machineOK cfg hm
  rw [scan_eq_scanPlain cfg _ hm.flags hm.acceptAny hm.targets hns s st.iter st (by simp [hlast])] at h
  have := scanPlain_err cfg _ hm.targets hns s st hlast loc st' h
  exact ⟨this.1, this.2.1⟩

/-- Conversely a match is never turned into an error: when a match exists the state code calls an
action (it cannot return `.err`). -/
theorem C07_match_is_not_error (cfg : Config σ τ ε) (hm : MachineOK cfg) (s : Nat) (st : LState σ)
    (hlast : st.last = none) (k a : Nat) (e : Bool) (hc : Cand cfg s st.iter k a e) (loc : Loc) (st' : LState σ) :
    scan cfg (dispatch (stateArms cfg.dfa cfg.inl)) s st.iter st ≠ .err loc st' := by
  intro h
  exact (C07_invalid_only_if_no_match cfg hm s st hlast loc st' h).1 k a e hc

/-- A custom error carries the action's payload unchanged and is located at the match start taken
before the match is reset. -/
theorem C07_custom_location (cfg : Config σ τ ε) (a : Nat) (st : LState σ) (l : Loc) (e : ε) (st' : LState σ)
    (h : callAction cfg a st = .ret (some (.custom l e)) st') :
    ∃ eff, eff = (cfg.actions a).run (mkView cfg a st) ∧ eff.res = some (.error e) ∧
      l = (if eff.reset then st.curEnd else st.curStart) := by
  unfold callAction at h
  generalize hEff : (cfg.actions a).run (mkView cfg a st) = eff at h
  refine ⟨eff, rfl, ?_⟩
  cases hres : eff.res with
  | none => simp [hres] at h
  | some r =>
    cases r with
    | ok t => simp [hres] at h
    | error e' =>
      simp only [hres] at h
      injection h with h1 h2
      injection h1 with h1
      injection h1 with hl he
      subst he
      refine ⟨rfl, ?_⟩
      rw [← hl]
      cases hreset : eff.reset <;> cases hsw : eff.switchTo <;> simp [hreset, hsw]

/-- Errors at the language level: every call is a step of the reference lexer; its `invalid` constructor fires only when NO rule
of the active rule set matches any prefix of the remaining input (and it is not the end of the stream), reports the start of the
current match and leaves `ErrResume`; whenever some rule matches, `ret`/`cont` run that rule's action instead. -/
theorem C07_refines_reference (items : LexerDef) (c : Compiled) (h : compileLexer items = .ok c) (hok : DefOK items)
    (ctxAt : Nat → Regex) (hnum : CtxNumbering items ctxAt)
    (actions : Nat → Action σ τ ε) (width : Nat → Nat) (input : Option (List Nat))
    (st : LState σ) (hr : Ready (c.config actions width input) st)
    (r : Option (Item τ ε) × LState σ) (hn : next (c.config actions width input) st = some r) :
    RefNext items c ctxAt (c.config actions width input) st r :=
  next_refines_ref items c h hok ctxAt hnum actions width input st hr r hn

end Lexgen
