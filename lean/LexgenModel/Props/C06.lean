import LexgenModel.Proofs.NextLocations
import LexgenModel.Proofs.Accounting
import LexgenModel.Proofs.EndToEnd
/-!
# C06 — Spans and locations are exact, also after rewinding and across wide characters
-/
namespace Lexgen
variable {σ τ ε : Type}

/-- Every location in a returned token or error is the scan location (`locAt`: newline starts a
line, tab counts 4, other characters their width `cfg.width`, bytes = UTF-8 length) of a character
index of the input, spans are ordered, and the invariant holds again for the next call — for any
width function, after any number of rewinds. -/
theorem C06_locations (cfg : Config σ τ ε) (hm : MachineOK cfg) (input : List Nat) (st : LState σ)
    (hb : Boundary cfg.width input st) (item : Option (Item τ ε)) (st' : LState σ)
    (h : next cfg st = some (item, st')) :
    Boundary cfg.width input st' ∧ ItemLocOK cfg.width input item :=
  next_boundary cfg hm input st hb item st' h

/-- `match_loc()`, `match_()` and `peek()` inside every action are exact (`ViewOK`): actions are
only ever called on such views. -/
theorem C06_action_views (cfg cfg' : Config σ τ ε) (hm : MachineOK cfg) (input : List Nat) (st : LState σ)
    (hb : Boundary cfg.width input st)
    (hsame : cfg'.dfa = cfg.dfa ∧ cfg'.ctxs = cfg.ctxs ∧ cfg'.entries = cfg.entries ∧ cfg'.width = cfg.width ∧ cfg'.input = cfg.input ∧
      cfg'.inl = cfg.inl)
    (hact : ∀ a v, ViewOK cfg input v → (cfg.actions a).run v = (cfg'.actions a).run v) :
    next cfg st = next cfg' st :=
  next_views cfg cfg' hm input st hb hsame hact

/-- non-vacuity: a fresh lexer state is at a boundary -/
example (w : Nat → Nat) (input : List Nat) : Boundary w input (initState () input) :=
  ⟨rfl, 0, 0, Nat.le_refl _, Nat.zero_le _, by simp [initState], by simp [initState, locAt], by simp [initState, locAt]⟩

/-- …for every well-formed definition the model compiles. -/
theorem C06_locations_compiled (items : LexerDef) (c : Compiled) (h : compileLexer items = .ok c) (hok : DefOK items)
    (actions : Nat → Action σ τ ε) (width : Nat → Nat) (inp : Option (List Nat)) (input : List Nat) (st : LState σ)
    (hb : Boundary width input st) (item : Option (Item τ ε)) (st' : LState σ)
    (hn : next (c.config actions width inp) st = some (item, st')) :
    Boundary width input st' ∧ ItemLocOK width input item :=
  next_boundary (c.config actions width inp) (compileLexer_machineOK items c h hok actions width inp) input st hb item st' hn

/-- Spans of successive items are disjoint and in input order, read off the reported byte offsets alone: each item's byte span is well-formed
and ends at or before the start of every later item's. -/
theorem C06_spans_disjoint_ordered (cfg : Config σ τ ε) (hm : MachineOK cfg) (user : σ) (input : List Nat) (n : Nat) :
    (∀ a ∈ itemsOf (runN cfg n (initState user input)).1, a.byteSpan.1 ≤ a.byteSpan.2) ∧
    (itemsOf (runN cfg n (initState user input)).1).Pairwise (fun a b => a.byteSpan.2 ≤ b.byteSpan.1) :=
  runN_spans_ordered_bytes cfg hm user input n

/-- One call in positions: the input position never moves backwards; a token's span starts inside the accumulated match (at its start, or at a
later reset point) and ends exactly at the new position; an `InvalidToken` is located at the start of the current match — the start the call
began with unless an action of this call reset the match and continued (a skip rule), in which case it is that reset point —; after a returned
item the match is empty; `None` only once everything is consumed. (The version "always at the start the call began with" is FALSE — skip rules
move the start within a call; `next_accounting_counterexample` — and holds under `NoResetOnContinue`: `next_accounting_partial`.) -/
theorem C06_positions (cfg : Config σ τ ε) (hm : MachineOK cfg) (input : List Nat) (st : LState σ) (start pos : Nat)
    (hp : AtPos cfg.width input st start pos) (hr : Ready cfg st)
    (item : Option (Item τ ε)) (st' : LState σ) (h : next cfg st = some (item, st')) :
    ∃ start' pos', AtPos cfg.width input st' start' pos' ∧ pos ≤ pos' ∧ start ≤ start' ∧
      match item with
      | some (.tok s _ e) => ∃ i, start ≤ i ∧ i ≤ pos' ∧ (i = start ∨ pos ≤ i) ∧
          s = locAt cfg.width input i ∧ e = locAt cfg.width input pos' ∧ start' = pos'
      | some (.invalid l) => ∃ i, start ≤ i ∧ i ≤ pos' ∧ (i = start ∨ pos ≤ i) ∧ (NoResetOnContinue cfg input → i = start) ∧
          (i < pos' ∨ i = input.length) ∧ l = locAt cfg.width input i ∧ start' = pos' ∧ (pos < pos' ∨ pos = input.length)
      | some (.custom l _) => ∃ i, start ≤ i ∧ i ≤ pos' ∧ (i = start ∨ pos ≤ i) ∧ l = locAt cfg.width input i ∧ start' = pos'
      | none => st'.done = true ∧ pos' = input.length :=
  next_accounting_general cfg hm input st start pos hp hr item st' h

end Lexgen
