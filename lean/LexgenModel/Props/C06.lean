import LexgenModel.Proofs.NextLocations
import LexgenModel.Proofs.EndToEnd
/-!
# C06 — Spans and locations are exact, also after rewinding and across wide characters
-/
namespace Lexgen
variable {σ τ ε : Type}

/-- Every location in a returned token or error is the scan location (`locAt`: newline starts a
line, tab counts 4, other characters their width `cfg.width`, bytes = UTF-8 length) of a character
index of the input, spans are ordered, and the invariant holds again for the next call — for any
width function, after any number of rewinds. -/
theorem C06_locations (cfg : Config σ τ ε) (hm : MachineOK cfg) (input : List Nat) (st : LState σ)
    (hb : Boundary cfg.width input st) (item : Option (Item τ ε)) (st' : LState σ)
    (h : next cfg st = some (item, st')) :
    Boundary cfg.width input st' ∧ ItemLocOK cfg.width input item :=
  next_boundary cfg hm input st hb item st' h

/-- `match_loc()`, `match_()` and `peek()` inside every action are exact (`ViewOK`): actions are
only ever called on such views. -/
theorem C06_action_views (cfg cfg' : Config σ τ ε) (hm : MachineOK cfg) (input : List Nat) (st : LState σ)
    (hb : Boundary cfg.width input st)
    (hsame : cfg'.dfa = cfg.dfa ∧ cfg'.ctxs = cfg.ctxs ∧ cfg'.entries = cfg.entries ∧ cfg'.width = cfg.width ∧ cfg'.input = cfg.input ∧
      cfg'.inl = cfg.inl)
    (hact : ∀ a v, ViewOK cfg input v → (cfg.actions a).run v = (cfg'.actions a).run v) :
    next cfg st = next cfg' st :=
  next_views cfg cfg' hm input st hb hsame hact

/-- non-vacuity: a fresh lexer state is at a boundary -/
example (w : Nat → Nat) (input : List Nat) : Boundary w input (initState () input) :=
  ⟨rfl, 0, 0, Nat.le_refl _, Nat.zero_le _, by simp [initState], by simp [initState, locAt], by simp [initState, locAt]⟩

/-- …for every well-formed definition the model compiles. -/
theorem C06_locations_compiled (items : LexerDef) (c : Compiled) (h : compileLexer items = .ok c) (hok : DefOK items)
    (actions : Nat → Action σ τ ε) (width : Nat → Nat) (inp : Option (List Nat)) (input : List Nat) (st : LState σ)
    (hb : Boundary width input st) (item : Option (Item τ ε)) (st' : LState σ)
    (hn : next (c.config actions width inp) st = some (item, st')) :
    Boundary width input st' ∧ ItemLocOK width input item :=
  next_boundary (c.config actions width inp) (compileLexer_machineOK items c h hok actions width inp) input st hb item st' hn

end Lexgen
