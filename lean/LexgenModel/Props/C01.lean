import LexgenModel.Proofs.Backtrack
import LexgenModel.Proofs.MaxMunch
import LexgenModel.Proofs.NextProtocol
import LexgenModel.Proofs.CheckerSound
import LexgenModel.Proofs.CompileLang
/-!
# C01 — Longest match with first-rule priority, recovered by backtracking

Machine level: for every machine satisfying the decidable well-formedness predicate (evaluated on
the machine the macro produced, on every run), every state, input and saved-match-free lexer
state, the generated state code (with backtrack elision and fall-through of failing `Accept` arms)
calls exactly the action of the `candLe`-greatest match `Cand` — longest prefix, end-of-input
match preferred, first accepting entry whose right context holds — after rewinding to it if a
longer attempt died; and it reports an error only when there is no match at all. The flags the
analysis computes are closed/sound for every graph. The language level — the accept list of
the rule set's DFA after every word is exactly the rules whose regex denotes it, in rule order — is
`C02_language` (Thompson + subset construction), and `simplify`/`add_dfa` preserve accept lists
(`C02_simplify_preserves`, `Proofs/Simplify`); `C02_end_to_end` composes all stages of the model of
`lexer()` into one statement about the final machine (restated here as `C01_accept_lists`). The
per-program comparison of the model's machine with the dumped machine (sound:
`C02_comparison_sound`) ties that model output to what the macro really produced, on every run.
-/
namespace Lexgen
variable {σ τ ε : Type}

/-- The generated code selects the maximal match. -/
theorem C01_maximal_munch (cfg : Config σ τ ε) (hm : MachineOK cfg) (s : Nat) (st : LState σ)
    (hlast : st.last = none) (hdone : st.done = false) (a : Nat) (st' : LState σ)
    (h : scan cfg (dispatch (stateArms cfg.dfa)) s st.iter st = .act a st') :
    ∃ k e, Cand cfg s st.iter k a e ∧
      (∀ k' a' e', Cand cfg s st.iter k' a' e' → candLe k' e' k e) ∧
      ∃ n, st' = { advanceBy cfg.width st k with last := none, done := e, state := n } := by
  have hns := dispatchOK_of_machineOK cfg hm
  rw [scan_eq_scanPlain cfg _ hm.flags hm.acceptAny hm.targets hns s st.iter st (by simp [hlast])] at h
  exact scanPlain_act cfg _ hm.targets hns s st hlast hdone a st' h

/-- A lexeme that has a (possibly shorter) match is never reported as an error. -/
theorem C01_error_only_if_no_match (cfg : Config σ τ ε) (hm : MachineOK cfg) (s : Nat) (st : LState σ)
    (hlast : st.last = none) (loc : Loc) (st' : LState σ)
    (h : scan cfg (dispatch (stateArms cfg.dfa)) s st.iter st = .err loc st') :
    ∀ k a e, ¬ Cand cfg s st.iter k a e := by
  have hns := dispatchOK_of_machineOK cfg hm
  rw [scan_eq_scanPlain cfg _ hm.flags hm.acceptAny hm.targets hns s st.iter st (by simp [hlast])] at h
  exact (scanPlain_err cfg _ hm.targets hns s st hlast loc st' h).1

/-- Backtrack elision is exact: with locally closed flags the generated code equals the scan that
always rewinds. -/
theorem C01_elision_exact (cfg : Config σ τ ε) (hm : MachineOK cfg) (s : Nat) (iter : List Nat) (st : LState σ)
    (hinv : st.last.isSome = true → (cfg.dfa.st s).backtrack = true) :
    scan cfg (dispatch (stateArms cfg.dfa)) s iter st = scanPlain cfg (dispatch (stateArms cfg.dfa)) s iter st :=
  scan_eq_scanPlain cfg _ hm.flags hm.acceptAny hm.targets (dispatchOK_of_machineOK cfg hm) s iter st hinv

/-- The flags computed by the (repaired) analysis are locally closed on every graph — the
hypothesis `MachineOK.flags` — and sound along every path through an accepting state. -/
theorem C01_flags_sound (d d' : DFA Nat) (hT : Backtrack.TargetsOK d) (h : updateBacktracks d = some d')
    (i a t u : Nat) (hi : i < d.length) (hini : (d.st i).initial = true)
    (p1 : Backtrack.Path d i a) (hacc : Backtrack.accOf d a = true) (hstep : t ∈ DFA.succs (d.st a))
    (p2 : Backtrack.Path d t u) : (d'.st u).backtrack = true :=
  Backtrack.backtrack_sound d d' hT h i a t u hi hini p1 hacc hstep p2

/-- The hypotheses of these theorems are what the decidable checker `machineWF` establishes; it is
evaluated on the machine the macro actually produced, on every run. -/
theorem C01_checker_establishes_hypotheses (cfg : Config σ τ ε) (nCtx : Nat)
    (h : (machineWF cfg.dfa cfg.entries nCtx).all = true) : MachineOK cfg :=
  machineOK_of_checker cfg nCtx h

/-- First-rule priority at the language level, for the final machine of the model of `lexer()`: from
the entry of every rule set, the accept list reached after any word lists exactly the rules denoting
that word, earliest rule first — so the head of that list (what `Cand`/`selAt` pick when its right
context holds) is the first listed rule matching the lexeme. -/
theorem C01_accept_lists (items : LexerDef) (c : Compiled) (h : compileLexer items = .ok c)
    (name : String) (rs : List RuleOrBinding) (b : Bindings) (k : Nat)
    (hmem : (name, rs, b, k) ∈ scopedRuleSets items [] 0) :
    ∃ e rules, (name, e) ∈ c.entries ∧ e < c.dfa.length ∧ coreRules rs b k = some rules ∧
      ((∀ r ∈ rules, regexPiecesOK r.re) → RealisesRules c.dfa e rules) :=
  compileLexer_lang items c h name rs b k hmem

/-- non-vacuity: the machine of `'a' 'b'+ = 0, 'a' = 1` (states: 0 entry; 1 after `a`, accepting
rule 1; 2 after `ab+`, accepting rule 0, backtrack flag set) satisfies the checker, hence `MachineOK`. -/
def exampleMachine : DFA Trans :=
  [ { initial := true, chars := [(97, Trans.goto 1)] },
    { chars := [(98, Trans.goto 2)], accepting := [{ value := 1, ctx := none }], preds := [0] },
    { chars := [(98, Trans.goto 2)], accepting := [{ value := 0, ctx := none }], preds := [1, 2], backtrack := true } ]

example : (machineWF exampleMachine [] 0).all = true := by decide

def exampleCfg : Config Unit Unit Unit :=
  { dfa := exampleMachine, ctxs := [], entries := [], actions := fun _ => Action.skip, width := fun _ => 1, input := none }

example : MachineOK exampleCfg := machineOK_of_checker exampleCfg 0 (by decide)

end Lexgen
