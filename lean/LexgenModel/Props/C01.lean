import LexgenModel.Proofs.Backtrack
import LexgenModel.Proofs.MaxMunch
import LexgenModel.Proofs.NextProtocol
import LexgenModel.Proofs.CheckerSound
import LexgenModel.Proofs.CompileLang
import LexgenModel.Proofs.EndToEnd
import LexgenModel.Proofs.RefRefine
import LexgenModel.Proofs.CapstoneRun
import LexgenModel.Proofs.DumpedMachine
/-!
# C01 — Longest match with first-rule priority, recovered by backtracking

Machine level: for every machine satisfying the decidable well-formedness predicate (evaluated on
the machine the macro produced, on every run), every state, input and saved-match-free lexer
state, the generated state code (with backtrack elision and fall-through of failing `Accept` arms)
calls exactly the action of the `candLe`-greatest match `Cand` — longest prefix, end-of-input
match preferred, first accepting entry whose right context holds — after rewinding to it if a
longer attempt died; and it reports an error only when there is no match at all. The flags the
analysis computes are closed/sound for every graph. The language level — the accept list of
the rule set's DFA after every word is exactly the rules whose regex denotes it, in rule order — is
`C02_language` (Thompson + subset construction), and `simplify`/`add_dfa` preserve accept lists
(`C02_simplify_preserves`, `Proofs/Simplify`); `C02_end_to_end` composes all stages of the model of
`lexer()` into one statement about the final machine (restated here as `C01_accept_lists`). The
per-program comparison of the model's machine with the dumped machine (sound:
`C02_comparison_sound`) ties that model output to what the macro really produced, on every run.
-/
namespace Lexgen
variable {σ τ ε : Type}

/-- The generated code selects the maximal match. -/
theorem C01_maximal_munch (cfg : Config σ τ ε) (hm : MachineOK cfg) (s : Nat) (st : LState σ)
    (hlast : st.last = none) (hdone : st.done = false) (a : Nat) (st' : LState σ)
    (h : scan cfg (dispatch (stateArms cfg.dfa cfg.inl)) s st.iter st = .act a st') :
    ∃ k e, Cand cfg s st.iter k a e ∧
      (∀ k' a' e', Cand cfg s st.iter k' a' e' → candLe k' e' k e) ∧
      ∃ n, st' = { advanceBy cfg.width st k with last := none, done := e, state := n } := by
  have hns := dispatchOK_of_machineOK cfg hm
  rw [scan_eq_scanPlain cfg _ hm.flags hm.acceptAny hm.targets hns s st.iter st (by simp [hlast])] at h
  exact scanPlain_act cfg _ hm.targets hns s st hlast hdone a st' h

/-- A lexeme that has a (possibly shorter) match is never reported as an error. -/
theorem C01_error_only_if_no_match (cfg : Config σ τ ε) (hm : MachineOK cfg) (s : Nat) (st : LState σ)
    (hlast : st.last = none) (loc : Loc) (st' : LState σ)
    (h : scan cfg (dispatch (stateArms cfg.dfa cfg.inl)) s st.iter st = .err loc st') :
    ∀ k a e, ¬ Cand cfg s st.iter k a e := by
  have hns := dispatchOK_of_machineOK cfg hm
  rw [scan_eq_scanPlain cfg _ hm.flags hm.acceptAny hm.targets hns s st.iter st (by simp [hlast])] at h
  exact (scanPlain_err cfg _ hm.targets hns s st hlast loc st' h).1

/-- Backtrack elision is exact: with locally closed flags the generated code equals the scan that
always rewinds. -/
theorem C01_elision_exact (cfg : Config σ τ ε) (hm : MachineOK cfg) (s : Nat) (iter : List Nat) (st : LState σ)
    (hinv : st.last.isSome = true → (cfg.dfa.st s).backtrack = true) :
    scan cfg (dispatch (stateArms cfg.dfa cfg.inl)) s iter st = scanPlain cfg (dispatch (stateArms cfg.dfa cfg.inl)) s iter st :=
  scan_eq_scanPlain cfg _ hm.flags hm.acceptAny hm.targets (dispatchOK_of_machineOK cfg hm) s iter st hinv

/-- The flags computed by the (repaired) analysis are locally closed on every graph — the
hypothesis `MachineOK.flags` — and sound along every path through an accepting state. -/
theorem C01_flags_sound (d d' : DFA Nat) (hT : Backtrack.TargetsOK d) (h : updateBacktracks d = some d')
    (i a t u : Nat) (hi : i < d.length) (hini : (d.st i).initial = true)
    (p1 : Backtrack.Path d i a) (hacc : Backtrack.accOf d a = true) (hstep : t ∈ DFA.succs (d.st a))
    (p2 : Backtrack.Path d t u) : (d'.st u).backtrack = true :=
  Backtrack.backtrack_sound d d' hT h i a t u hi hini p1 hacc hstep p2

/-- The hypotheses of these theorems are what the decidable checker `machineWF` establishes; it is
evaluated on the machine the macro actually produced, on every run. -/
theorem C01_checker_establishes_hypotheses (cfg : Config σ τ ε) (nCtx : Nat)
    (h : (machineWF cfg.dfa cfg.entries nCtx cfg.inl).all = true) : MachineOK cfg :=
  machineOK_of_checker cfg nCtx h

/-- First-rule priority at the language level, for the final machine of the model of `lexer()`: from
the entry of every rule set, the accept list reached after any word lists exactly the rules denoting
that word, earliest rule first — so the head of that list (what `Cand`/`selAt` pick when its right
context holds) is the first listed rule matching the lexeme. -/
theorem C01_accept_lists (items : LexerDef) (c : Compiled) (h : compileLexer items = .ok c)
    (name : String) (rs : List RuleOrBinding) (b : Bindings) (k : Nat)
    (hmem : (name, rs, b, k) ∈ scopedRuleSets items [] 0) :
    ∃ e rules, (name, e) ∈ c.entries ∧ e < c.dfa.length ∧ coreRules rs b k = some rules ∧
      ((∀ r ∈ rules, regexPiecesOK r.re) → RealisesRules c.dfa e rules) :=
  compileLexer_lang items c h name rs b k hmem

/-- non-vacuity: the machine of `'a' 'b'+ = 0, 'a' = 1` (states: 0 entry; 1 after `a`, accepting
rule 1; 2 after `ab+`, accepting rule 0, backtrack flag set) satisfies the checker, hence `MachineOK`. -/
def exampleMachine : DFA Trans :=
  [ { initial := true, chars := [(97, Trans.goto 1)] },
    { chars := [(98, Trans.goto 2)], accepting := [{ value := 1, ctx := none }], preds := [0] },
    { chars := [(98, Trans.goto 2)], accepting := [{ value := 0, ctx := none }], preds := [1, 2], backtrack := true } ]

/-- under the macro's current policy state 1 (one predecessor, one arm) is inlined -/
example : inlinedStates exampleMachine = [1] := by decide

example : (machineWF exampleMachine [] 0 [1]).all = true := by decide

def exampleCfg : Config Unit Unit Unit :=
  { dfa := exampleMachine, ctxs := [], entries := [], inl := [1], actions := fun _ => Action.skip,
    width := fun _ => 1, input := none }

example : MachineOK exampleCfg := machineOK_of_checker exampleCfg 0 (by decide)

/-- the hypotheses do not depend on the inlining policy: the same machine with nothing inlined -/
example : MachineOK { exampleCfg with inl := [] } := machineOK_of_checker _ 0 (by decide)

/-- …but an initial state may not be inlined -/
example : (machineWF exampleMachine [] 0 [0]).all = false := by decide

/-! ## End to end, at the language level, for every well-formed definition -/

/-- The final machine of the model of `lexer()` satisfies `MachineOK` for EVERY well-formed definition
(`DefOK`: no rule matches the empty string, bracket ranges non-inverted, `$` only at the tail of rules
and right contexts) — so the machine-level theorems above apply to every compiled definition, not only
to machines that were run through the checker. -/
theorem C01_compiled_machine_ok (items : LexerDef) (c : Compiled) (h : compileLexer items = .ok c) (hok : DefOK items)
    (actions : Nat → Action σ τ ε) (width : Nat → Nat) (input : Option (List Nat)) :
    MachineOK (c.config actions width input) :=
  compileLexer_machineOK items c h hok actions width input

/-- **C01 as stated, end to end.** For every well-formed definition the model compiles, every rule set,
every remaining input and every lexer state at a lexeme start: the generated state code, started at the
entry of that rule set, calls the action of a match of the DEFINITION (regex denotations `den`, right
contexts as languages `CtxLang`) that is maximal among all its matches — the longest prefix some rule of
the rule set matches with its right context satisfied, a match through `$` preferred at full length — and
that action belongs to the FIRST rule (source order) matching that prefix; the lexer is advanced by
exactly that prefix (rewinding if a longer attempt died). It reports an error only if NO rule of the
rule set matches any prefix. -/
theorem C01_language_level (items : LexerDef) (c : Compiled) (h : compileLexer items = .ok c) (hok : DefOK items)
    (ctxAt : Nat → Regex) (hnum : CtxNumbering items ctxAt)
    (name : String) (rs : List RuleOrBinding) (b : Bindings) (k : Nat) (hmem : (name, rs, b, k) ∈ allRuleSets items)
    (actions : Nat → Action σ τ ε) (width : Nat → Nat) (input : Option (List Nat)) :
    ∃ e rules, IsEntryOf items c name e ∧ coreRules rs b k = some rules ∧
      ∀ (st : LState σ), st.last = none → st.done = false →
        (∀ a st', scan (c.config actions width input) (dispatch (stateArms c.dfa (inlinedStates c.dfa))) e st.iter st = .act a st' →
          ∃ n viaEoi, LangCand rules ctxAt st.iter n a viaEoi ∧
            (∀ n' a' e', LangCand rules ctxAt st.iter n' a' e' → candLe n' e' n viaEoi) ∧
            ∃ s', st' = { advanceBy width st n with last := none, done := viaEoi, state := s' }) ∧
        (∀ loc st', scan (c.config actions width input) (dispatch (stateArms c.dfa (inlinedStates c.dfa))) e st.iter st = .err loc st' →
          (∀ n a e', ¬ LangCand rules ctxAt st.iter n a e') ∧ loc = st.curStart) :=
  compile_maximal_munch items c h hok ctxAt hnum name rs b k hmem actions width input

/-! non-vacuity: `'a' 'b'+ = 0, 'a' > 'c' = 1` compiles in the model, is well-formed, and its right
contexts are numbered by the constant function -/
def exDef : LexerDef := [ .rb (.rule { re := .cat (.chr 97) (.plus (.chr 98)), ctx := none, rhs := 0 }),
    .rb (.rule { re := .chr 97, ctx := some (.chr 99), rhs := 1 }) ]
theorem exDef_compiles : ∃ c, compileLexer exDef = .ok c := by
  have : (compileLexer exDef).toOption.isSome = true := by
    rw [Static.compileLexer_eq]
    simp only [exDef, List.foldlM, Static.lexStep, compileSingleRule, newRightCtx, inlineVars, bind, Except.bind, pure, Except.pure]
    decide
  cases h : compileLexer exDef with
  | error e => rw [h] at this; cases this
  | ok c => exact ⟨c, rfl⟩

theorem exDef_ok : DefOK exDef := by
  have hall : allRuleSets exDef = [("", topRules exDef, [], 0)] := allRuleSets_unnamed (by decide)
  constructor
  · intro name rs b k hmem rules hc r hr
    rw [hall] at hmem
    simp only [List.mem_singleton, Prod.mk.injEq] at hmem
    obtain ⟨rfl, rfl, rfl, rfl⟩ := hmem
    simp only [exDef, topRules, List.filterMap, coreRules, inlineVars, bind, Except.bind, pure, Except.pure, List.length_nil,
      Option.map_some, Option.some.injEq] at hc
    subst hc
    simp only [List.mem_cons, List.not_mem_nil, or_false] at hr
    rcases hr with rfl | rfl
    · refine ⟨by simp [regexPiecesOK], by simp [tailEoi, eoiFree], ?_⟩
      simp only [den]
      rintro ⟨u, v, huv, hu, _⟩
      subst hu
      cases huv
    · refine ⟨by simp [regexPiecesOK], by simp [tailEoi], ?_⟩
      simp [den]
  · intro name rs b k hmem cres hc c hcm
    rw [hall] at hmem
    simp only [List.mem_singleton, Prod.mk.injEq] at hmem
    obtain ⟨rfl, rfl, rfl, rfl⟩ := hmem
    simp only [exDef, topRules, List.filterMap, coreCtxs, inlineVars, List.length_nil, Option.map_some, Option.some.injEq] at hc
    subst hc
    simp only [List.mem_cons, List.not_mem_nil, or_false] at hcm
    subst hcm
    exact ⟨by simp [regexPiecesOK], by simp [tailEoi]⟩

example : CtxNumbering exDef (fun _ => .chr 99) := by
  intro name rs b k hmem cres hc j hj
  rw [allRuleSets_unnamed (by decide)] at hmem
  simp only [List.mem_singleton, Prod.mk.injEq] at hmem
  obtain ⟨rfl, rfl, rfl, rfl⟩ := hmem
  simp only [exDef, topRules, List.filterMap, coreCtxs, inlineVars, List.length_nil, Option.map_some, Option.some.injEq] at hc
  subst hc
  have : j = 0 := by simp only [List.length_cons, List.length_nil] at hj; omega
  subst this
  rfl

/-- **Refinement to the reference lexer.** For every well-formed definition the model compiles, every call
of the model of the generated `next()` (generated state code with inlining and state numbering, backtrack
elision, saved matches, `lexgen_util::Lexer`) from a lexer state at a lexeme start is a step of the REFERENCE
lexer of the definition, `RefNext` (Spec/RefLexer.lean), which is defined from the definition alone: regex
and right-context denotations, maximal munch with first-rule priority (`Selects`, a function:
`C01_selection_unique`), the semantic-action protocol, the end-of-input and error rules. Hence the sequence of
(rule, lexeme) pairs produced equals the maximal-munch reference tokenisation. -/
theorem C01_refines_reference (items : LexerDef) (c : Compiled) (h : compileLexer items = .ok c) (hok : DefOK items)
    (ctxAt : Nat → Regex) (hnum : CtxNumbering items ctxAt)
    (actions : Nat → Action σ τ ε) (width : Nat → Nat) (input : Option (List Nat))
    (st : LState σ) (hr : Ready (c.config actions width input) st)
    (r : Option (Item τ ε) × LState σ) (hn : next (c.config actions width input) st = some r) :
    RefNext items c ctxAt (c.config actions width input) st r :=
  next_refines_ref items c h hok ctxAt hnum actions width input st hr r hn

/-- maximal munch with first-rule priority selects at most one (length, rule, via-`$`) triple -/
theorem C01_selection_unique (rules : List CoreRule) (ctxAt : Nat → Regex) (iter : List Nat) (n a n' a' : Nat) (e e' : Bool)
    (h : Selects rules ctxAt iter n a e) (h' : Selects rules ctxAt iter n' a' e') : n = n' ∧ a = a' ∧ e = e' :=
  selects_unique rules ctxAt iter n a n' a' e e' h h'

/-- **The model of the generated code computes the executable specification.** For every well-formed definition without empty classes or empty string
literals that the model of `lexer()` compiles, every call of the model of the generated `next()` from a lexeme start returns exactly what the executable
reference lexer returns — same item, same lexer state — where the reference lexer (`specNext`, Exec/SpecRun.lean) works on the definition itself: Brzozowski
derivatives, maximal munch with first-rule priority, the semantic-action protocol, and after a failure "skip the longest viable prefix plus the offending
character". `specNext` is sound w.r.t. the relational specification `RefNext` and is also RUN against the real generated lexers on every check. -/
theorem C01_model_is_specification (items : LexerDef) (c : Compiled) (h : compileLexer items = .ok c) (hok : DefOK items) (hne : DefNE items)
    (actions : Nat → Action σ τ ε) (width : Nat → Nat) (input : Option (List Nat))
    (st : LState σ) (hr : Ready (c.config actions width input) st) :
    next (c.config actions width input) st = specNextFull items (c.config actions width input) st :=
  next_eq_specNext items c h hok hne actions width input st hr

/-- …and for whole runs: from a freshly constructed lexer, any number of calls of the model of the generated `next()` produce exactly the items (and the
final lexer state) of the executable reference lexer of the definition — the sequence of (rule, lexeme) pairs IS the reference tokenisation. -/
theorem C01_run_is_reference_tokenisation (items : LexerDef) (c : Compiled) (h : compileLexer items = .ok c) (hok : DefOK items) (hne : DefNE items)
    (actions : Nat → Action σ τ ε) (width : Nat → Nat) (input : Option (List Nat)) (user : σ) (chars : List Nat) (n : Nat) :
    runN (c.config actions width input) n (initState user chars) = specRunN items (c.config actions width input) n (initState user chars) :=
  run_fresh_eq_spec items c h hok hne actions width input user chars n

/-- **The machine the real macro produced computes the specification.** The theorems above are about the machine the MODEL of the macro compiles.
The correspondence check does not assume the real macro produces that machine: on every run it dumps the machine the macro really built for each
definition and evaluates `stageOK` on it (`lexmodel`, stage `stageok`): same rule-set names, product exploration `bisim` with the model's machine from
every entry, right-context automata pairwise bisimilar, the well-formedness checker `machineWF` (with the macro's own inlining set), no transition
into a state without transitions. For ANY machine passing that executable test — whatever its state numbers, inlining, table shapes — the model of the
generated `next()` running on THAT machine returns exactly what the executable reference lexer of the definition returns, for every input over Unicode
scalar values, after any number of calls. What remains trusted is that the generated Rust text behaves like the model interpreter on the dumped
machine (compared on every trace of every run). Found while proving: `bisim` alone cannot tell an `Accept` transition from a transition into an
accepting state without transitions, and `InvalidToken` consumes one character more through the latter — hence the extra conjunct `gotoLive`. -/
theorem C01_real_machine_is_specification (items : LexerDef) (c : Compiled) (h : compileLexer items = .ok c)
    (hok : DefOK items) (hne : DefNE items)
    (dfa : DFA Trans) (entries : List (String × Nat)) (ctxs : List (DFA Nat)) (inl : List Nat)
    (hs : stageOK c dfa entries ctxs inl = true)
    (actions : Nat → Action σ τ ε) (width : Nat → Nat) (input : Option (List Nat)) (user : σ) (chars : List Nat)
    (hch : ∀ ch ∈ chars, ch ≤ charMax) (n : Nat) :
    runN { dfa := dfa, ctxs := ctxs, entries := entries, inl := inl, actions := actions, width := width, input := input } n (initState user chars) =
      specRunN items { dfa := dfa, ctxs := ctxs, entries := entries, inl := inl, actions := actions, width := width, input := input } n (initState user chars) :=
  dumped_machine_runs_are_specification items c h hok hne dfa entries ctxs inl hs actions width input user chars hch n

/-- …and the stage check contains the well-formedness checker: every theorem of these files that assumes `MachineOK cfg` (dispatch C03, context
gating C04, end of input C05, locations C06, errors C07, recovery C08, termination C09, action protocol C10) applies to the machine the real
macro dumped. -/
theorem C01_stage_check_establishes_hypotheses (c : Compiled) (dfa : DFA Trans) (entries : List (String × Nat)) (ctxs : List (DFA Nat)) (inl : List Nat)
    (hs : stageOK c dfa entries ctxs inl = true) (actions : Nat → Action σ τ ε) (width : Nat → Nat) (input : Option (List Nat)) :
    MachineOK ({ dfa := dfa, ctxs := ctxs, entries := entries, inl := inl, actions := actions, width := width, input := input } : Config σ τ ε) := by
  obtain ⟨_, _, _, _, _, hwf, _, _⟩ := Dumped.stageOK_unpack c dfa entries ctxs inl hs
  exact machineOK_of_checker _ ctxs.length hwf

/-- non-vacuity of `stageOK`: the machine the model compiles for `exDef` (`'a' 'b'+ = 0`, `'a' > 'c' = 1`) passes the stage check against itself —
evaluated by the kernel (product exploration, checker and all) -/
example : ∃ c, compileLexer exDef = .ok c ∧ stageOK c c.dfa c.entries c.ctxs (inlinedStates c.dfa) = true := by
  have : ((compileLexer exDef).toOption.map fun c => stageOK c c.dfa c.entries c.ctxs (inlinedStates c.dfa)) = some true := by
    rw [Static.compileLexer_eq]
    simp only [exDef, List.foldlM, Static.lexStep, compileSingleRule, newRightCtx, inlineVars, bind, Except.bind, pure, Except.pure]
    decide
  cases h : compileLexer exDef with
  | error e => rw [h] at this; cases this
  | ok c =>
    rw [h] at this
    simp only [Except.toOption, Option.map_some, Option.some.injEq] at this
    exact ⟨c, rfl, this⟩

end Lexgen
