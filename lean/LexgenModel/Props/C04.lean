import LexgenModel.Proofs.CtxFn
import LexgenModel.Proofs.MaxMunch
import LexgenModel.Proofs.CtxLang
import LexgenModel.Proofs.ContextNumbering
/-!
# C04 — Right context gates a match without consuming input
-/
namespace Lexgen
variable {σ τ ε : Type}

/-- The generated context function accepts exactly when the context automaton accepts some prefix
of what follows (end-of-input visible to `$`), for any context automaton. -/
theorem C04_context_function (d : DFA Nat) (rest : List Nat) : ctxRun d 0 rest = true ↔ CtxAccepts d rest :=
  ctxRun_iff d rest

/-- A candidate whose context fails is treated as if the rule had not matched there: the action
selected from an accept list is that of the first entry without context or whose context holds. -/
theorem C04_gate (ok : Nat → Bool) (accs : List Acc) (a : Nat) :
    firstOK ok accs = some a ↔
      ∃ pre x post, accs = pre ++ x :: post ∧ x.value = a ∧
        (x.ctx = none ∨ ∃ i, x.ctx = some i ∧ ok i = true) ∧
        ∀ y ∈ pre, ∃ i, y.ctx = some i ∧ ok i = false :=
  firstOK_spec ok accs a

/-- …and when every entry's context fails nothing is selected at that length, so shorter matches
remain eligible (the scan then rewinds to the saved shorter match, `C01_maximal_munch`). -/
theorem C04_all_fail (ok : Nat → Bool) (accs : List Acc) :
    firstOK ok accs = none ↔ ∀ y ∈ accs, ∃ i, y.ctx = some i ∧ ok i = false :=
  firstOK_none ok accs

/-- The context is evaluated on what follows the lexeme and is not consumed: the lexer state after
a match of length `k` is the start state advanced by exactly `k` characters, whatever the context
read. -/
theorem C04_not_consumed (cfg : Config σ τ ε) (ns : Nat → Option Nat)
    (htargets : targetsOK cfg.dfa = true) (hns : DispatchOK cfg.dfa cfg.inl ns)
    (s : Nat) (st : LState σ) (hlast : st.last = none) (hdone : st.done = false) (a : Nat) (st' : LState σ)
    (h : scanPlain cfg ns s st.iter st = .act a st') :
    ∃ k e n, Cand cfg s st.iter k a e ∧ st' = { advanceBy cfg.width st k with last := none, done := e, state := n } := by
  obtain ⟨k, e, hc, _, n, hn⟩ := scanPlain_act cfg ns htargets hns s st hlast hdone a st' h
  exact ⟨k, e, n, hc, hn⟩

/-- Language level: the automaton the macro builds for a right context (`new_right_ctx`: Thompson +
subset construction of the context regex alone) makes the generated context function accept exactly
when the context regex denotes some prefix of the rest of the input followed by the end-of-input symbol
— i.e. `$` inside a context sees the end of input, and nothing is consumed. -/
theorem C04_context_language (cre : Regex) (hp : regexPiecesOK cre) (ht : tailEoi cre) (nfa : NFA)
    (hn : NFA.new.addRegex cre none 0 = .ok nfa) (d : DFA Nat) (hd : nfaToDfa nfa = some d) (rest : List Nat) :
    ctxRun d 0 rest = true ↔ CtxLang cre rest :=
  ctxDfa_lang cre hp ht nfa hn d hd rest

/-- …and in a compiled definition the `j`-th right context of a rule set whose first context has number
`k` is realised by right-context function number `k + j` (the number stored in the rule's accept entry). -/
theorem C04_context_numbering (items : LexerDef) (c : Compiled) (h : compileLexer items = .ok c)
    (name : String) (rs : List RuleOrBinding) (b : Bindings) (k : Nat)
    (hmem : (name, rs, b, k) ∈ allRuleSets items) :
    ∃ cres, coreCtxs rs b = some cres ∧ k + cres.length ≤ c.ctxs.length ∧
      ∀ j (hj : j < cres.length), regexPiecesOK cres[j] → tailEoi cres[j] →
        ∀ rest, ctxRun (c.ctxs.getD (k + j) []) 0 rest = true ↔ CtxLang cres[j] rest :=
  compileLexer_ctxs items c h name rs b k hmem

/-- **The numbering of the right-context automata is irrelevant; equal contexts may share an automaton.** If the accept entries of a compiled
machine are renumbered by ANY `g` (not necessarily injective) and the automaton found under the new number decides, on every remaining input, what
the automaton under the old number decided, then the generated lexers behave identically — same items and same lexer state after any number of
calls from any state. (The generated code uses a context number only to call the context function.) This licenses comparing the
implementation's context numbers with the model's up to renaming. -/
theorem C04_context_numbering_irrelevant (g : Nat → Nat) (c c' : Compiled)
    (hdfa : c'.dfa = c.dfa.map (DState.mapCTrans g)) (hent : c'.entries = c.entries)
    (hsame : ∀ i iter, ctxRun (c'.ctxs.getD (g i) []) 0 iter = ctxRun (c.ctxs.getD i []) 0 iter)
    (acts : Nat → Action σ τ ε) (width : Nat → Nat) (input : Option (List Nat)) (n : Nat) (st : LState σ) :
    runN (c'.config acts width input) n st = runN (c.config acts width input) n st :=
  compiled_ctx_numbering_irrelevant g c c' hdfa hent hsame acts width input n st

end Lexgen
