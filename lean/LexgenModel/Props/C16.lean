import LexgenModel.Proofs.Parser
import LexgenModel.Proofs.ParserDef
import LexgenModel.Proofs.RunCongr
/-!
# C16 — Definitions are read with the documented precedence and variable scoping
-/
namespace Lexgen

/-- Printing any tree with the fewest parentheses the grammar allows and parsing it gives back the
tree (`#` tighter than postfix, postfix tighter than concatenation, concatenation tighter than `|`,
all left-associative). -/
theorem C16_minimal_printing (r : Regex) (hp : Printable r) (rest : List Tok)
    (hrest : rest = [] ∨ ∃ s ts, rest = .other s :: ts) :
    ∃ fuel0, ∀ fuel, fuel0 ≤ fuel → parse0 fuel (printRe r 0 ++ rest) = some (r, rest) :=
  parse_print r hp rest hrest

/-- …and so does every printing with redundant parentheses, at every level. (The hypothesis
`¬ DollarClash` is forced by the macro's grammar: `$` directly followed by `$`/an identifier reads
as a variable or built-in — found while proving; the full statement without it is false.) -/
theorem C16_redundant_parentheses (r : Regex) (k : Nat) (ts : List Tok) (hk : k ≤ 4) (h : PrintsAs r k ts)
    (rest : List Tok) (hrest : StopsAt k rest) (hclash : ¬ DollarClash ts rest) :
    ∃ fuel0, ∀ fuel, fuel0 ≤ fuel → parseLevel k fuel (ts ++ rest) = some (r, rest) :=
  parse_printsAs_partial r k ts hk h rest hrest hclash

/-- `$var` stands for its bound regex as a unit. -/
theorem C16_var_is_its_definition (b : Bindings) (n : String) (r : Regex) (fuel : Nat) (h : b.find? n = some r) :
    inlineVars b (fuel + 1) (.var n) = inlineVars b fuel r := by
  simp [inlineVars, h]

/-- **Factoring through variables never changes the lexer.** Two well-formed definitions whose rule sets have the same names and, after variable
substitution in the scope of each rule (`coreRules`, `specCtxAt`: top-level `let`s visible everywhere after their declaration, a rule set's own `let`s
only inside it), the SAME rules and right contexts — one written with `let` variables, the other with the regexes written out — compile to lexers
whose models return the same items on every input, for every action table, after any number of calls. -/
theorem C16_factoring_invariance {σ τ ε : Type} (items1 items2 : LexerDef) (c1 c2 : Compiled)
    (h1 : compileLexer items1 = .ok c1) (h2 : compileLexer items2 = .ok c2)
    (hok1 : DefOK items1) (hok2 : DefOK items2) (hne1 : DefNE items1) (hne2 : DefNE items2)
    (hsets : hasRuleSets items1 = hasRuleSets items2)
    (hnames : (allRuleSets items1).map (·.1) = (allRuleSets items2).map (·.1))
    (hrules : ∀ i (h1 : i < (allRuleSets items1).length) (h2 : i < (allRuleSets items2).length),
      coreRules (allRuleSets items1)[i].2.1 (allRuleSets items1)[i].2.2.1 (allRuleSets items1)[i].2.2.2 =
      coreRules (allRuleSets items2)[i].2.1 (allRuleSets items2)[i].2.2.1 (allRuleSets items2)[i].2.2.2)
    (hctx : specCtxAt items1 = specCtxAt items2)
    (actions : Nat → Action σ τ ε) (width : Nat → Nat) (input : Option (List Nat)) (user : σ) (chars : List Nat) (n : Nat) :
    (runN (c1.config actions width input) n (initState user chars)).1 = (runN (c2.config actions width input) n (initState user chars)).1 ∧
    (runN (c1.config actions width input) n (initState user chars)).2.obs = (runN (c2.config actions width input) n (initState user chars)).2.obs :=
  run_congr_of_core_eq items1 items2 c1 c2 h1 h2 hok1 hok2 hne1 hne2 hsets hnames hrules hctx actions width input user chars n

/-- Whole definitions (header, `let` bindings, rules of all four kinds with optional right contexts, rule
sets, `type Error`): printing a definition and parsing the tokens with the model of `make_lexer_parser` /
`parse_rule` / `parse_rule_or_binding` gives the definition back — items, scopes (which `let`s and rules
sit in which rule set), every rule's kind and its index in the semantic-action table. -/
theorem C16_definition_round_trip (d : ParsedDef) (h : WFDef d) : parseDef (printDef d) = .ok d :=
  parseDef_printDef d h

/-- On ANY token list the parser numbers the rules `0, 1, 2, …` in source order (across rule sets), one
action-table entry per rule. -/
theorem C16_rules_numbered_in_source_order {ts : List DTok} {d : ParsedDef} (h : parseDef ts = .ok d) :
    itemIndices d.items = List.range d.table.length ∧ errorTypeCount d.items = d.errorTypes.length :=
  parseDef_indices h

end Lexgen
