import LexgenModel.Proofs.RangeMapOps
/-!
# C11 — Character-class algebra is exact at every code point

`RangeMap` operations, for every operation sequence and every code point: well-formedness
(non-inverted, strictly increasing, disjoint ranges) is preserved and `lookup` has set semantics.
Property theorems only; helper lemmas live in `Proofs/`.
-/
namespace Lexgen
open RangeMap

/-- `insert`: the map stays well-formed; the value at every code point is the old value merged with
the inserted one where the new range covers it. -/
theorem C11_insert {α : Type} (merge : α → α → α) (l : RangeMap α) (ns ne : Nat) (v : α)
    (hwf : WF l) (hne : ns ≤ ne) :
    WF (RangeMap.insert merge l ns ne v) ∧
    ∀ c, lookup (RangeMap.insert merge l ns ne v) c = mergeOpt merge (lookup l c) (decide (ns ≤ c ∧ c ≤ ne)) v :=
  insert_spec merge l ns ne v hwf hne

/-- `insert_ranges` (class union `|`): pointwise merge of two well-formed maps. -/
theorem C11_insertRanges {α : Type} (merge : α → α → α) (l1 l2 : RangeMap α) (h1 : WF l1) (h2 : WF l2) :
    WF (insertRanges merge l1 l2) ∧
    ∀ c, lookup (insertRanges merge l1 l2) c = mergeOpt2 merge (lookup l1 c) (lookup l2 c) :=
  insertRanges_spec merge l1 l2 0 h1 h2

/-- `remove_ranges` (class difference `#`): exactly the points of the first map not in the second —
also when a removed range spans several pieces or equals a piece. -/
theorem C11_removeRanges {α β : Type} (l1 : RangeMap α) (l2 : RangeMap β) (h1 : WF l1) (h2 : WF l2) :
    WF (removeRanges l1 l2) ∧
    ∀ c, lookup (removeRanges l1 l2) c = if (lookup l2 c).isSome then none else lookup l1 c :=
  removeRanges_spec l1 l2 0 0 h1 h2

/-- Operations on a class (a `RangeMap Unit`). -/
inductive ClassOp where
  | ins (s e : Nat)
  | union (m : RangeMap Unit)
  | diff (m : RangeMap Unit)

def ClassOp.ok : ClassOp → Prop
  | .ins s e => s ≤ e
  | .union m => WF m
  | .diff m => WF m

def ClassOp.apply (m : RangeMap Unit) : ClassOp → RangeMap Unit
  | .ins s e => RangeMap.insert (fun _ _ => ()) m s e ()
  | .union m2 => insertRanges (fun _ _ => ()) m m2
  | .diff m2 => removeRanges m m2

/-- No sequence of operations produces a malformed class. -/
theorem C11_ops_wellformed (ops : List ClassOp) (hok : ∀ op ∈ ops, op.ok) (m : RangeMap Unit) (hm : WF m) :
    WF (ops.foldl ClassOp.apply m) := by
  induction ops generalizing m with
  | nil => exact hm
  | cons op ops ih =>
    apply ih (fun o ho => hok o (List.mem_cons_of_mem _ ho))
    have hop := hok op (List.mem_cons_self ..)
    cases op with
    | ins s e => exact (insert_spec _ m s e () hm hop).1
    | union m2 => exact (insertRanges_spec _ m m2 0 hm hop).1
    | diff m2 => exact (removeRanges_spec m m2 0 0 hm hop).1

/-- non-vacuity: the pinned tree's failing case `['0'-'5' '7'-'9'] # ['0'-'8']` now yields `['9']` -/
example : removeRanges [(48, 53, ()), (55, 57, ())] [(48, 56, ())] = [(57, 57, ())] := by simp [removeRanges]

example : WF ([(48, 53, ()), (55, 57, ())] : RangeMap Unit) := by
  simp [WF, WFFrom]

end Lexgen
