import LexgenModel.Proofs.NextMore
import LexgenModel.Proofs.Capstone
import LexgenModel.Proofs.RefRefine
import LexgenModel.Proofs.EndToEnd
/-!
# C08 — After a failure the lexer resumes past the bad text, in Init, and stays there
-/
namespace Lexgen
variable {σ τ ε : Type}

/-- After an `InvalidToken`: state 0 (`Init`) is both the current and the initial state (so the
lexer stays there until an action switches), the current match is empty, nothing is saved. -/
theorem C08_reset_to_init (cfg : Config σ τ ε) (hm : MachineOK cfg) (st : LState σ) (hr : Ready cfg st)
    (l : Loc) (st' : LState σ) (h : next cfg st = some (some (.invalid l), st')) :
    st'.state = 0 ∧ st'.initial = 0 ∧ st'.curStart = st'.curEnd ∧ st'.last = none :=
  next_invalid cfg hm st hr l st' h

/-- The failure resumes right after the characters examined — those read through `goto`
transitions plus the offending character when one was read —, does not touch the user state, and
flags end-of-input exactly when everything was read. -/
theorem C08_resume_position (cfg : Config σ τ ε) (hm : MachineOK cfg) (s : Nat) (st : LState σ)
    (hlast : st.last = none) (hdone : st.done = false) (loc : Loc) (st' : LState σ)
    (h : scan cfg (dispatch (stateArms cfg.dfa cfg.inl)) s st.iter st = .err loc st') :
    st'.iter = st.iter.drop (gotoLen cfg.dfa s st.iter + 1) ∧
    st'.done = decide (gotoLen cfg.dfa s st.iter = st.iter.length) ∧ st'.user = st.user := by
  have hns := dispatchOK_of_machineOK cfg hm
  rw [scan_eq_scanPlain cfg _ hm.flags hm.acceptAny hm.targets hns s st.iter st (by simp [hlast])] at h
  have h1 := scanPlain_err_pos cfg _ hm.targets hns s st hlast hdone loc st' h
  have h2 := scanPlain_err cfg _ hm.targets hns s st hlast loc st' h
  exact ⟨h1.1, h1.2, h2.2.2.2.2.2.2⟩

/-- …for every well-formed definition the model compiles. -/
theorem C08_reset_to_init_compiled (items : LexerDef) (c : Compiled) (h : compileLexer items = .ok c) (hok : DefOK items)
    (actions : Nat → Action σ τ ε) (width : Nat → Nat) (input : Option (List Nat)) (st : LState σ)
    (hr : Ready (c.config actions width input) st) (l : Loc) (st' : LState σ)
    (hn : next (c.config actions width input) st = some (some (.invalid l), st')) :
    st'.state = 0 ∧ st'.initial = 0 ∧ st'.curStart = st'.curEnd ∧ st'.last = none :=
  next_invalid _ (compileLexer_machineOK items c h hok actions width input) st hr l st' hn

/-- Recovery at the language level: after `RefNext.invalid` the state satisfies `ErrResume` (state 0 = `Init` active, empty match,
nothing saved, user state untouched, at least one character consumed unless the input ended), so the next call is again a
reference step from `Init`. -/
theorem C08_refines_reference (items : LexerDef) (c : Compiled) (h : compileLexer items = .ok c) (hok : DefOK items)
    (ctxAt : Nat → Regex) (hnum : CtxNumbering items ctxAt)
    (actions : Nat → Action σ τ ε) (width : Nat → Nat) (input : Option (List Nat))
    (st : LState σ) (hr : Ready (c.config actions width input) st)
    (r : Option (Item τ ε) × LState σ) (hn : next (c.config actions width input) st = some r) :
    RefNext items c ctxAt (c.config actions width input) st r :=
  next_refines_ref items c h hok ctxAt hnum actions width input st hr r hn

/-- Recovery at the language level, completely: the model's `next()` equals the executable reference lexer, whose `InvalidToken` branch (`errState`) resumes
after the longest VIABLE prefix of the remaining input (a prefix that some rule of the active rule set can still extend to one of its words) plus the
offending character if the automaton was still reading, with `Init` active, an empty match, nothing saved and the user state untouched; what `viableRef`
computes is characterised in terms of the regex denotations by `C08_viable_prefix`. -/
theorem C08_model_is_specification (items : LexerDef) (c : Compiled) (h : compileLexer items = .ok c) (hok : DefOK items) (hne : DefNE items)
    (actions : Nat → Action σ τ ε) (width : Nat → Nat) (input : Option (List Nat))
    (st : LState σ) (hr : Ready (c.config actions width input) st) :
    next (c.config actions width input) st = specNextFull items (c.config actions width input) st :=
  next_eq_specNext items c h hok hne actions width input st hr

/-- the viability scan of the reference lexer in terms of `den`: `k` is the length of the longest prefix all of whose non-empty prefixes some regex can extend
to a word, the next prefix (if any) cannot be extended by anything, and the flag says whether after `k` characters some regex can take at least one more symbol -/
theorem C08_viable_prefix (res : List Regex) (hne : ∀ r ∈ res, NoEmptyPieces r) (iter : List Nat) :
    (viableRef res iter).1 ≤ iter.length ∧
    (∀ j, 0 < j → j ≤ (viableRef res iter).1 → ∃ r ∈ res, ∃ v : List Sym, den r ((iter.take j).map Sym.ch ++ v)) ∧
    ((viableRef res iter).1 < iter.length →
      ¬ ∃ r ∈ res, ∃ v : List Sym, den r ((iter.take ((viableRef res iter).1 + 1)).map Sym.ch ++ v)) ∧
    (((viableRef res iter).2.any fun r => aliveR r && hasWordR r) = true ↔
      ∃ r ∈ res, ∃ (x : Sym) (v : List Sym), den r ((iter.take (viableRef res iter).1).map Sym.ch ++ x :: v)) :=
  viableRef_spec res hne iter

end Lexgen
