import LexgenModel.Proofs.NextMore
/-!
# C14 — Lexing depends on the characters only, not on how they are supplied
-/
namespace Lexgen
variable {σ τ ε : Type}

/-- The constructors differ only in `Config.input` (and the initial user state); the input string
is read by `match_()` alone, so for actions that do not call it the result of every `next()` is the
same for `&str` and iterator input. -/
theorem C14_input_irrelevant (cfg : Config σ τ ε) (inp' : Option (List Nat)) (hI : IgnoresText cfg.actions)
    (st : LState σ) : next cfg st = next { cfg with input := inp' } st :=
  next_input_irrelevant cfg inp' hI st

/-- …and so are whole runs: the four constructors (`new`, `new_with_state`: `input = some chars`; `new_from_iter`, `new_from_iter_with_state`:
`input = none`; the user state is `Default::default()` or the given one) start from the same lexer state `initState user chars` and differ only in
`Config.input`; any number of calls of `next()` give the same items (tokens, locations, errors) and the same final state. -/
theorem C14_runs_agree (cfg : Config σ τ ε) (inp1 inp2 : Option (List Nat)) (hI : IgnoresText cfg.actions) (n : Nat) (st : LState σ) :
    runN { cfg with input := inp1 } n st = runN { cfg with input := inp2 } n st := by
  induction n generalizing st with
  | zero => rfl
  | succ n ih =>
    have h1 := next_input_irrelevant { cfg with input := inp1 } inp2 hI st
    have e : ({ ({ cfg with input := inp1 } : Config σ τ ε) with input := inp2 } : Config σ τ ε) = { cfg with input := inp2 } := rfl
    rw [e] at h1
    unfold runN
    rw [h1]
    cases next { cfg with input := inp2 } st with
    | none => rfl
    | some r =>
      obtain ⟨item, st'⟩ := r
      simp only
      rw [ih st']

/-- the one difference: for iterator input `match_()` is unavailable (it would panic: the lexer holds no input string) as soon as the match is
non-empty; for `&str` input it is the slice of the input between the match's byte offsets -/
theorem C14_match_text (cfg : Config σ τ ε) (a : Nat) (st : LState σ) :
    (cfg.input = none → st.curEnd.byte ≠ 0 → (mkView cfg a st).text = none) ∧
    (∀ inp, cfg.input = some inp → (mkView cfg a st).text = sliceBytes inp st.curStart.byte st.curEnd.byte) := by
  constructor
  · intro h hb
    simp [mkView, h, hb]
  · intro inp h
    simp [mkView, h]

end Lexgen
