import LexgenModel.Proofs.NextMore
/-!
# C14 — Lexing depends on the characters only, not on how they are supplied
-/
namespace Lexgen
variable {σ τ ε : Type}

/-- The constructors differ only in `Config.input` (and the initial user state); the input string
is read by `match_()` alone, so for actions that do not call it the result of every `next()` is the
same for `&str` and iterator input. -/
theorem C14_input_irrelevant (cfg : Config σ τ ε) (inp' : Option (List Nat)) (hI : IgnoresText cfg.actions)
    (st : LState σ) : next cfg st = next { cfg with input := inp' } st :=
  next_input_irrelevant cfg inp' hI st

end Lexgen
