import LexgenModel.Proofs.Static
import LexgenModel.Proofs.Totality
import LexgenModel.Proofs.StaticIff
/-!
# C17 — Ill-formed definitions are rejected at expansion time (model of `lexer()`'s static checks)

`Rejected x`: the model of the macro returns an error (the macro panics or returns a `syn` error),
whatever else the definition contains. (Malformed syntax is the parser's part: the parser model is
tied to the real parser on malformed token sequences in the C16 check.)
-/
namespace Lexgen

theorem C17_mixed_rules (items : LexerDef) (h : mixedRules items = true) : Rejected (compileLexer items) :=
  reject_mixed items h

theorem C17_error_type_twice (pre mid post : LexerDef) :
    Rejected (compileLexer (pre ++ [.errorType] ++ mid ++ [.errorType] ++ post)) :=
  reject_dup_error_type pre mid post

theorem C17_variable_twice (pre mid post : LexerDef) (n : String) (r1 r2 : Regex) :
    Rejected (compileLexer (pre ++ [.rb (.binding n r1)] ++ mid ++ [.rb (.binding n r2)] ++ post)) :=
  reject_dup_var pre mid post n r1 r2

theorem C17_local_variable_twice (pre post : LexerDef) (name : String) (rpre rmid rpost : List RuleOrBinding) (n : String) (r1 r2 : Regex) :
    Rejected (compileLexer (pre ++ [.ruleSet name (rpre ++ [.binding n r1] ++ rmid ++ [.binding n r2] ++ rpost)] ++ post)) :=
  reject_local_dup_var pre post name rpre rmid rpost n r1 r2

theorem C17_rule_set_twice (pre mid post : LexerDef) (n : String) (rs1 rs2 : List RuleOrBinding) :
    Rejected (compileLexer (pre ++ [.ruleSet n rs1] ++ mid ++ [.ruleSet n rs2] ++ post)) :=
  reject_dup_ruleset pre mid post n rs1 rs2

theorem C17_first_rule_set_not_init (pre post : LexerDef) (n : String) (rs : List RuleOrBinding) (hn : n ≠ "Init")
    (hpre : ∀ it ∈ pre, ∀ m rs', it ≠ .ruleSet m rs') :
    Rejected (compileLexer (pre ++ [.ruleSet n rs] ++ post)) :=
  reject_first_not_init pre post n rs hn hpre

theorem C17_unbound_variable (lets post : LexerDef) (r : SingleRule) (n : String)
    (hlets : ∀ it ∈ lets, it = .errorType ∨ ∃ m re, it = .rb (.binding m re) ∧ m ≠ n)
    (h : MentionsVar n r.re ∨ ∃ c, r.ctx = some c ∧ MentionsVar n c) :
    Rejected (compileLexer (lets ++ [.rb (.rule r)] ++ post)) :=
  reject_unbound_var_unnamed lets post r n hlets h

theorem C17_unbound_variable_in_rule_set (lets post : LexerDef) (name : String) (rpre rpost : List RuleOrBinding) (r : SingleRule) (n : String)
    (hlets : ∀ it ∈ lets, it = .errorType ∨ ∃ m re, it = .rb (.binding m re) ∧ m ≠ n)
    (hrpre : ∀ it ∈ rpre, ∀ re, it ≠ .binding n re)
    (h : MentionsVar n r.re ∨ ∃ c, r.ctx = some c ∧ MentionsVar n c) :
    Rejected (compileLexer (lets ++ [.ruleSet name (rpre ++ [.rule r] ++ rpost)] ++ post)) :=
  reject_unbound_var_in_ruleset lets post name rpre rpost r n hlets hrpre h

theorem C17_unknown_builtin (n : String) (hn : builtinRanges n = none) (re : Regex) (h : MentionsBuiltin n re)
    (cur cont : Nat) (nfa : NFA) : Rejected (NFA.addRe re cur cont nfa) :=
  addRe_unknown_builtin n hn re h cur cont nfa

theorem C17_diff_operand_not_a_class (a b : Regex) (h : ¬ IsClassExpr a ∨ ¬ IsClassExpr b) (cur cont : Nat) (nfa : NFA) :
    Rejected (NFA.addRe (.diff a b) cur cont nfa) :=
  addRe_diff_operand a b h cur cont nfa

/-- non-vacuity: `'a' # "bc"` has a non-class operand -/
example : ¬ IsClassExpr (.chr 97) ∨ ¬ IsClassExpr (.str [98, 99]) := Or.inr (by simp [IsClassExpr])

/-- Conversely to the rejection theorems: the ONLY ways the model of the macro fails are those static errors —
it never fails for an internal reason (assertion, non-termination), whatever the definition. -/
theorem C17_only_user_errors (items : LexerDef) (hp : ItemsPiecesOK items) (e : CompileError)
    (h : compileLexer items = .error e) :
    (∃ w, e = .unboundVar w) ∨ (∃ w, e = .unknownBuiltin w) ∨ (∃ w, e = .notAClass w) ∨ (∃ w, e = .varCycle w) ∨
    (∃ w, e = .dupVar w) ∨ (∃ w, e = .dupRuleSet w) ∨ e = .dupErrorType ∨ e = .mixedRules ∨ e = .firstNotInit := by
  have hi := compileLexer_no_internal items hp e h
  cases e with
  | unboundVar w => exact Or.inl ⟨w, rfl⟩
  | unknownBuiltin w => exact Or.inr (Or.inl ⟨w, rfl⟩)
  | notAClass w => exact Or.inr (Or.inr (Or.inl ⟨w, rfl⟩))
  | varCycle w => exact Or.inr (Or.inr (Or.inr (Or.inl ⟨w, rfl⟩)))
  | dupVar w => exact Or.inr (Or.inr (Or.inr (Or.inr (Or.inl ⟨w, rfl⟩))))
  | dupRuleSet w => exact Or.inr (Or.inr (Or.inr (Or.inr (Or.inr (Or.inl ⟨w, rfl⟩)))))
  | dupErrorType => exact Or.inr (Or.inr (Or.inr (Or.inr (Or.inr (Or.inr (Or.inl rfl))))))
  | mixedRules => exact Or.inr (Or.inr (Or.inr (Or.inr (Or.inr (Or.inr (Or.inr (Or.inl rfl)))))))
  | firstNotInit => exact Or.inr (Or.inr (Or.inr (Or.inr (Or.inr (Or.inr (Or.inr (Or.inr rfl)))))))
  | internal w => simp [CompileError.isInternal] at hi

/-- **Exactly the statically well-formed definitions are accepted.** The model of the macro succeeds on a definition iff it satisfies the declarative
predicate `StaticOK` (Spec/StaticOK.lean): rules at top level and rule sets are not mixed; `type Error` at most once; rule-set names distinct and the first is
`Init`; a `let` repeats no earlier `let` in scope; every rule and right context elaborates in the bindings in scope (every reached variable bound, no cycle,
built-ins known, operands of `#` are class expressions). So every violation is rejected (C17) and nothing else is (C12). -/
theorem C17_accepts_exactly_static_ok (items : LexerDef) (hp : ItemsPiecesOK items) :
    (∃ c, compileLexer items = .ok c) ↔ StaticOK items :=
  compileLexer_ok_iff items hp

end Lexgen
