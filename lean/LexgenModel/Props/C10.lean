import LexgenModel.Proofs.NextLocations
import LexgenModel.Proofs.RefRefine
/-!
# C10 — Semantic-action protocol
-/
namespace Lexgen
variable {σ τ ε : Type}

/-- `re,` behaves as `reset_match(); continue_()`. -/
theorem C10_sugar_skip (v : View σ) :
    (Action.skip : Action σ τ ε).run v = { user := v.user, reset := true, switchTo := none, res := none } := rfl

/-- `re = t` behaves as `return_(t)`. -/
theorem C10_sugar_simple (t : τ) (v : View σ) :
    (Action.simple t : Action σ τ ε).run v = { user := v.user, reset := false, switchTo := none, res := some (.ok t) } := rfl

/-- `continue_()`: the match keeps accumulating (its start moves only on `reset_match()`), the
user state is the action's, the lexer goes back to the entry state of the (possibly switched)
rule set. -/
theorem C10_continue (cfg : Config σ τ ε) (a : Nat) (st : LState σ)
    (hres : ((cfg.actions a).run (mkView cfg a st)).res = none) :
    ∃ st', callAction cfg a st = .cont st' ∧
      st'.user = ((cfg.actions a).run (mkView cfg a st)).user ∧
      st'.curStart = (if ((cfg.actions a).run (mkView cfg a st)).reset then st.curEnd else st.curStart) ∧
      st'.curEnd = st.curEnd ∧ st'.iter = st.iter ∧ st'.state = st'.initial ∧
      st'.initial = (match ((cfg.actions a).run (mkView cfg a st)).switchTo with
        | some r => switchNum cfg r | none => st.initial) := by
  unfold callAction
  generalize (cfg.actions a).run (mkView cfg a st) = eff at *
  simp only [hres]
  refine ⟨_, rfl, ?_⟩
  cases hreset : eff.reset <;> cases hsw : eff.switchTo <;> simp

/-- `return_(t)` / `switch_and_return`: the token carries the accumulated span, then the match is
reset. -/
theorem C10_return (cfg : Config σ τ ε) (a : Nat) (st : LState σ) (t : τ)
    (hres : ((cfg.actions a).run (mkView cfg a st)).res = some (.ok t)) :
    ∃ st', callAction cfg a st =
        .ret (some (.tok (if ((cfg.actions a).run (mkView cfg a st)).reset then st.curEnd else st.curStart) t st.curEnd)) st' ∧
      st'.curStart = st.curEnd ∧ st'.curEnd = st.curEnd ∧ st'.state = st'.initial ∧
      st'.user = ((cfg.actions a).run (mkView cfg a st)).user := by
  unfold callAction
  generalize (cfg.actions a).run (mkView cfg a st) = eff at *
  simp only [hres]
  cases hreset : eff.reset <;> cases hsw : eff.switchTo <;> simp

/-- Actions are only ever handed exact views (span since the last reset, its text, the first
unconsumed character): see `C06_action_views`; restated here for the action protocol. -/
theorem C10_views (cfg cfg' : Config σ τ ε) (hm : MachineOK cfg) (input : List Nat) (st : LState σ)
    (hb : Boundary cfg.width input st)
    (hsame : cfg'.dfa = cfg.dfa ∧ cfg'.ctxs = cfg.ctxs ∧ cfg'.entries = cfg.entries ∧ cfg'.width = cfg.width ∧ cfg'.input = cfg.input ∧
      cfg'.inl = cfg.inl)
    (hact : ∀ a v, ViewOK cfg input v → (cfg.actions a).run v = (cfg'.actions a).run v) :
    next cfg st = next cfg' st :=
  next_views cfg cfg' hm input st hb hsame hact

/-- The semantic-action protocol at the language level: exactly one action runs per selected match (`RefNext.ret`/`cont` call
`callAction` on the state advanced by exactly the lexeme), in input order, none for abandoned candidates; `cont` re-selects from
the state the action left. -/
theorem C10_refines_reference (items : LexerDef) (c : Compiled) (h : compileLexer items = .ok c) (hok : DefOK items)
    (ctxAt : Nat → Regex) (hnum : CtxNumbering items ctxAt)
    (actions : Nat → Action σ τ ε) (width : Nat → Nat) (input : Option (List Nat))
    (st : LState σ) (hr : Ready (c.config actions width input) st)
    (r : Option (Item τ ε) × LState σ) (hn : next (c.config actions width input) st = some r) :
    RefNext items c ctxAt (c.config actions width input) st r :=
  next_refines_ref items c h hok ctxAt hnum actions width input st hr r hn

end Lexgen
