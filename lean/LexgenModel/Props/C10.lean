import LexgenModel.Proofs.NextLocations
import LexgenModel.Proofs.RefRefine
import LexgenModel.Proofs.ActionNumbering
/-!
# C10 — Semantic-action protocol
-/
namespace Lexgen
variable {σ τ ε : Type}

/-- `re,` behaves as `reset_match(); continue_()`. -/
theorem C10_sugar_skip (v : View σ) :
    (Action.skip : Action σ τ ε).run v = { user := v.user, reset := true, switchTo := none, res := none } := rfl

/-- `re = t` behaves as `return_(t)`. -/
theorem C10_sugar_simple (t : τ) (v : View σ) :
    (Action.simple t : Action σ τ ε).run v = { user := v.user, reset := false, switchTo := none, res := some (.ok t) } := rfl

/-- `continue_()`: the match keeps accumulating (its start moves only on `reset_match()`), the
user state is the action's, the lexer goes back to the entry state of the (possibly switched)
rule set. -/
theorem C10_continue (cfg : Config σ τ ε) (a : Nat) (st : LState σ)
    (hres : ((cfg.actions a).run (mkView cfg a st)).res = none) :
    ∃ st', callAction cfg a st = .cont st' ∧
      st'.user = ((cfg.actions a).run (mkView cfg a st)).user ∧
      st'.curStart = (if ((cfg.actions a).run (mkView cfg a st)).reset then st.curEnd else st.curStart) ∧
      st'.curEnd = st.curEnd ∧ st'.iter = st.iter ∧ st'.state = st'.initial ∧
      st'.initial = (match ((cfg.actions a).run (mkView cfg a st)).switchTo with
        | some r => switchNum cfg r | none => st.initial) := by
  unfold callAction
  generalize (cfg.actions a).run (mkView cfg a st) = eff at *
  simp only [hres]
  refine ⟨_, rfl, ?_⟩
  cases hreset : eff.reset <;> cases hsw : eff.switchTo <;> simp

/-- `return_(t)` / `switch_and_return`: the token carries the accumulated span, then the match is
reset. -/
theorem C10_return (cfg : Config σ τ ε) (a : Nat) (st : LState σ) (t : τ)
    (hres : ((cfg.actions a).run (mkView cfg a st)).res = some (.ok t)) :
    ∃ st', callAction cfg a st =
        .ret (some (.tok (if ((cfg.actions a).run (mkView cfg a st)).reset then st.curEnd else st.curStart) t st.curEnd)) st' ∧
      st'.curStart = st.curEnd ∧ st'.curEnd = st.curEnd ∧ st'.state = st'.initial ∧
      st'.user = ((cfg.actions a).run (mkView cfg a st)).user := by
  unfold callAction
  generalize (cfg.actions a).run (mkView cfg a st) = eff at *
  simp only [hres]
  cases hreset : eff.reset <;> cases hsw : eff.switchTo <;> simp

/-- Actions are only ever handed exact views (span since the last reset, its text, the first
unconsumed character): see `C06_action_views`; restated here for the action protocol. -/
theorem C10_views (cfg cfg' : Config σ τ ε) (hm : MachineOK cfg) (input : List Nat) (st : LState σ)
    (hb : Boundary cfg.width input st)
    (hsame : cfg'.dfa = cfg.dfa ∧ cfg'.ctxs = cfg.ctxs ∧ cfg'.entries = cfg.entries ∧ cfg'.width = cfg.width ∧ cfg'.input = cfg.input ∧
      cfg'.inl = cfg.inl)
    (hact : ∀ a v, ViewOK cfg input v → (cfg.actions a).run v = (cfg'.actions a).run v) :
    next cfg st = next cfg' st :=
  next_views cfg cfg' hm input st hb hsame hact

/-- The semantic-action protocol at the language level: exactly one action runs per selected match (`RefNext.ret`/`cont` call
`callAction` on the state advanced by exactly the lexeme), in input order, none for abandoned candidates; `cont` re-selects from
the state the action left. -/
theorem C10_refines_reference (items : LexerDef) (c : Compiled) (h : compileLexer items = .ok c) (hok : DefOK items)
    (ctxAt : Nat → Regex) (hnum : CtxNumbering items ctxAt)
    (actions : Nat → Action σ τ ε) (width : Nat → Nat) (input : Option (List Nat))
    (st : LState σ) (hr : Ready (c.config actions width input) st)
    (r : Option (Item τ ε) × LState σ) (hn : next (c.config actions width input) st = some r) :
    RefNext items c ctxAt (c.config actions width input) st r :=
  next_refines_ref items c h hok ctxAt hnum actions width input st hr r hn

/-- **The numbering of the semantic-action table is irrelevant; rules with equal actions may share an entry.** Rename the action index of every
rule of a definition by ANY function `f` (not necessarily injective: `f` may send all rules without a right-hand side, whose actions are all
`skip`, to one index, or permute the table). The model of the macro then produces the same automata with the accept values renamed and nothing else
changed (`compileLexer_mapV`: no stage compares, sorts or deduplicates accept values), and if the action table `acts'` of the renamed lexer gives every
renamed index the action the rule had (`acts' (f k) = acts k`), the two generated lexers return the same items after any number of calls on every input
and end in the same observable state. (`IndexBlind`: an action does not read the label `View.action` under which the MODEL calls it — an artefact of
the model: a Rust action has no access to its index; without the hypothesis the statement is false of the model, `ActionNumbering.lean` has the
counterexample.) This is what licenses comparing the implementation's action indices with the model's up to renaming. -/
theorem C10_action_numbering_irrelevant (f : Nat → Nat) (items : LexerDef) (c : Compiled) (hc : compileLexer items = .ok c)
    (acts acts' : Nat → Action σ τ ε) (h : ∀ k, acts' (f k) = acts k) (hblind : ∀ k, (acts k).IndexBlind)
    (width : Nat → Nat) (input : Option (List Nat)) (user : σ) (chars : List Nat) (n : Nat) :
    compileLexer (mapRhs f items) = .ok (c.mapV f) ∧
    (runN ((c.mapV f).config acts' width input) n (initState user chars)).1 = (runN (c.config acts width input) n (initState user chars)).1 ∧
    (runN ((c.mapV f).config acts' width input) n (initState user chars)).2.obs = (runN (c.config acts width input) n (initState user chars)).2.obs :=
  action_numbering_irrelevant f items c hc acts acts' h hblind width input user chars n

/-- the pipeline is natural in the action indices (errors included) -/
theorem C10_pipeline_natural_in_action_indices (f : Nat → Nat) (items : LexerDef) :
    compileLexer (mapRhs f items) = (compileLexer items).map (Compiled.mapV f) :=
  compileLexer_mapV f items

/-- the sugar forms satisfy the hypothesis -/
example : (Action.skip : Action σ τ ε).IndexBlind ∧ ∀ t : τ, (Action.simple t : Action σ τ ε).IndexBlind :=
  ⟨Action.indexBlind_skip, fun t => Action.indexBlind_simple t⟩

end Lexgen
