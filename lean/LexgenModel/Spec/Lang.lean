import LexgenModel.Model.Compile
import LexgenModel.Spec.Compile
/-!
# Language-level specification: regex denotation, NFA paths, DFA runs over the extended alphabet

The alphabet is extended with one end-of-input symbol that only `$` matches.
-/
namespace Lexgen

inductive Sym where
  | ch (c : Nat)
  | eoi
deriving Repr, DecidableEq, Inhabited

/-- Kleene star of a language -/
inductive Star (L : List Sym → Prop) : List Sym → Prop
  | nil : Star L []
  | cons {u v} : L u → Star L v → Star L (u ++ v)

/-- membership of a code point in a bracket-set item -/
def itemHas : CharOrRange → Nat → Prop
  | .chr c, x => x = c
  | .rng s e, x => s ≤ x ∧ x ≤ e

/-- Denotation of a variable-free regex (what the README assigns to each operator). An empty string
literal denotes the empty language (the macro adds no transition for it; excluded by
well-formedness). -/
def den : Regex → List Sym → Prop
  | .builtin n => fun w => ∃ c, w = [.ch c] ∧ classDen (.builtin n) c
  | .var _ => fun _ => False
  | .chr c => fun w => w = [.ch c]
  | .str cs => fun w => cs ≠ [] ∧ w = cs.map Sym.ch
  | .set items => fun w => ∃ c, w = [.ch c] ∧ ∃ it ∈ items, itemHas it c
  | .star r => Star (den r)
  | .plus r => fun w => ∃ u v, w = u ++ v ∧ den r u ∧ Star (den r) v
  | .opt r => fun w => w = [] ∨ den r w
  | .cat a b => fun w => ∃ u v, w = u ++ v ∧ den a u ∧ den b v
  | .alt a b => fun w => den a w ∨ den b w
  | .any => fun w => ∃ c, w = [.ch c]
  | .eoi => fun w => w = [.eoi]
  | .diff a b => fun w => ∃ c, w = [.ch c] ∧ classDen (.diff a b) c

/-! ## NFA semantics -/

/-- one character step of the NFA: char map, range map, or `_` -/
def NFA.stepCh (n : NFA) (s c t : Nat) : Prop :=
  (∃ tg, (c, tg) ∈ (n.st s).chars ∧ t ∈ tg) ∨
  (∃ r ∈ (n.st s).ranges, r.1 ≤ c ∧ c ≤ r.2.1 ∧ t ∈ r.2.2) ∨
  t ∈ (n.st s).any

def NFA.stepSym (n : NFA) (s : Nat) : Sym → Nat → Prop
  | .ch c, t => NFA.stepCh n s c t
  | .eoi, t => t ∈ (n.st s).eoi

/-- `NPath n s w t`: from `s` the NFA can read `w` (with ε-moves anywhere) and be in `t` -/
inductive NPath (n : NFA) : Nat → List Sym → Nat → Prop
  | refl (s : Nat) : NPath n s [] s
  | eps {s t u : Nat} {w : List Sym} : t ∈ (n.st s).eps → NPath n t w u → NPath n s w u
  | sym {s t u : Nat} {x : Sym} {w : List Sym} : NFA.stepSym n s x t → NPath n t w u → NPath n s (x :: w) u

/-- structural well-formedness of an NFA as `add_regex` builds it -/
structure NFAWF (n : NFA) : Prop where
  nonempty : 0 < n.length
  rangesWF : ∀ s, s < n.length → RangeMap.WF (n.st s).ranges
  charsNodup : ∀ s, s < n.length → ((n.st s).chars.map (·.1)).Nodup
  targets : ∀ s, s < n.length → ∀ t,
    (t ∈ (n.st s).eps ∨ t ∈ (n.st s).any ∨ t ∈ (n.st s).eoi ∨ (∃ e ∈ (n.st s).chars, t ∈ e.2) ∨
      (∃ r ∈ (n.st s).ranges, t ∈ r.2.2)) → t < n.length

/-! ## DFA runs over the extended alphabet -/

def stepD (d : DFA Nat) (s : Nat) : Sym → Option Nat
  | .ch c => lookupTrans (d.st s) c
  | .eoi => (d.st s).eoi

def reachSym (d : DFA Nat) : Nat → List Sym → Option Nat
  | s, [] => some s
  | s, x :: w =>
    match stepD d s x with
    | some t => reachSym d t w
    | none => none

/-- strictly ascending list -/
def Ascending : List Nat → Prop
  | [] => True
  | [_] => True
  | a :: b :: rest => a < b ∧ Ascending (b :: rest)

/-- The DFA state reached by `w` stands for exactly the NFA states reachable by `w`, and its
accepting list is theirs in ascending state order (= rule order); it is dead iff none is
reachable. -/
def SubsetCorrect (nfa : NFA) (d : DFA Nat) : Prop :=
  ∀ w : List Sym,
    match reachSym d 0 w with
    | some t => ∃ S : List Nat, Ascending S ∧ S ≠ [] ∧ (∀ u, u ∈ S ↔ NPath nfa 0 w u) ∧
        (d.st t).accepting = S.filterMap (fun u => (nfa.st u).acc)
    | none => ∀ u, ¬ NPath nfa 0 w u

end Lexgen

namespace Lexgen

/-- bracket-set ranges are non-inverted everywhere in the regex -/
def regexPiecesOK : Regex → Prop
  | .set items => ∀ it ∈ items, match it with | .chr _ => True | .rng s e => s ≤ e
  | .star r | .plus r | .opt r => regexPiecesOK r
  | .cat a b | .alt a b | .diff a b => regexPiecesOK a ∧ regexPiecesOK b
  | _ => True

/-- state `s` has no outgoing transition of any kind -/
def NFA.virgin (n : NFA) (s : Nat) : Prop :=
  (n.st s).chars = [] ∧ (n.st s).ranges = [] ∧ (n.st s).eps = [] ∧ (n.st s).any = [] ∧ (n.st s).eoi = []

end Lexgen

namespace Lexgen

/-! ## A rule set as a list of variable-free rules -/

structure CoreRule where
  re : Regex
  ctx : Option Nat
  value : Nat

/-- the NFA `compile_rule_set` builds: one `add_regex` per rule, in order -/
def buildNfa (rules : List CoreRule) : Except CompileError NFA :=
  rules.foldlM (fun n r => n.addRegex r.re r.ctx r.value) NFA.new

open Classical in
/-- accept entries of the rules whose regex denotes `w`, in rule order -/
noncomputable def matchingAccs (rules : List CoreRule) (w : List Sym) : List Acc :=
  (rules.filter (fun r => decide (den r.re w))).map (fun r => { value := r.value, ctx := r.ctx })

/-- the rules of a rule set after variable substitution, with the right-context indices the macro
assigns (sequentially, starting from `firstCtx`), in source order; `none` when a substitution fails -/
def coreRules (items : List RuleOrBinding) (b : Bindings) (firstCtx : Nat) : Option (List CoreRule) :=
  match items with
  | [] => some []
  | .binding name re :: rest => coreRules rest (b ++ [(name, re)]) firstCtx
  | .rule r :: rest =>
    match inlineVars b (b.length + 1) r.re with
    | .error _ => none
    | .ok re =>
      let (ctx, next) := match r.ctx with
        | some _ => (some firstCtx, firstCtx + 1)
        | none => (none, firstCtx)
      (coreRules rest b next).map fun l => { re := re, ctx := ctx, value := r.rhs } :: l

end Lexgen

namespace Lexgen

/-! ## The whole definition: rule sets with the bindings and right-context numbering in scope -/

def ctxCount (rs : List RuleOrBinding) : Nat :=
  (rs.filter fun | .rule r => r.ctx.isSome | .binding _ _ => false).length

/-- the rule sets of a definition, each with the top-level bindings visible to it (those declared
before it) and the index its first right context receives -/
def scopedRuleSets : LexerDef → Bindings → Nat → List (String × List RuleOrBinding × Bindings × Nat)
  | [], _, _ => []
  | .errorType :: rest, b, k => scopedRuleSets rest b k
  | .rb (.binding n re) :: rest, b, k => scopedRuleSets rest (b ++ [(n, re)]) k
  | .rb (.rule r) :: rest, b, k => scopedRuleSets rest b (k + if r.ctx.isSome then 1 else 0)
  | .ruleSet name rs :: rest, b, k => (name, rs, b, k) :: scopedRuleSets rest b (k + ctxCount rs)

/-- What the compiled machine accepts from the entry of a rule set: after every word of characters
the accept list is that of the rules denoting the word (in rule order; dead means none matches), and
the end-of-input transition there carries the rules denoting the word followed by end-of-input (none
when the automaton is dead). -/
def RealisesRules (d : DFA Trans) (e : Nat) (rules : List CoreRule) : Prop :=
  ∀ w : List Nat,
    match reach d (.st e) w with
    | some c =>
      Auto.acc d c = matchingAccs rules (w.map Sym.ch) ∧
      (match Auto.eoi d c with
       | some c' => Auto.acc d c' = matchingAccs rules (w.map Sym.ch ++ [Sym.eoi])
       | none => matchingAccs rules (w.map Sym.ch ++ [Sym.eoi]) = [])
    | none => matchingAccs rules (w.map Sym.ch) = [] ∧ matchingAccs rules (w.map Sym.ch ++ [Sym.eoi]) = []

end Lexgen
