import LexgenModel.Model.Runtime
import LexgenModel.Exec.Bisim
import LexgenModel.Exec.MachineWF
/-!
# Specification-side definitions for the run-time theorems

* `scanPlain`: the scan without backtrack elision (every failure calls `Lexer::backtrack()`) and
  without the fall-through of failing `Accept` arms, with one lookup in the order char, range, any.
* `reach`, `selAt`, `Cand`: the declarative reading of a machine — which (length, action) pairs are
  matches of the remaining input from a state — used to state maximal munch.
* `locAt`, `Boundary`: positions and the lexer-state invariant at lexeme boundaries.
-/
namespace Lexgen

variable {σ τ ε : Type}

/-- `fail` without elision: always `Lexer::backtrack()`. -/
def failPlain (st : LState σ) : Outcome σ :=
  match st.last with
  | none => .err st.curStart { st with last := none, state := 0, initial := 0, curStart := st.curEnd }
  | some sv =>
    .act sv.action { st with last := none, done := false, curStart := sv.start, curEnd := sv.stop, iter := sv.iter }

/-- The scan as a plain DFA run with a saved last match. -/
def scanPlain (cfg : Config σ τ ε) (nextState : Nat → Option Nat) :
    Nat → List Nat → LState σ → Outcome σ
  | s, [], st =>
    let d := cfg.dfa.st s
    let st := setAccepting cfg d { st with iter := [] }
    let st := { st with done := true }
    let dflt : Unit → Outcome σ := fun _ => if s = 0 then .fin st else failPlain st
    match d.eoi with
    | some (.accept accs) => testRightCtxs cfg accs st dflt
    | some (.goto t) => .goto { st with state := renumber cfg.inl t }
    | none => dflt ()
  | s, c :: rest, st =>
    let d := cfg.dfa.st s
    let st := setAccepting cfg d { st with iter := c :: rest }
    let st := { st with iter := rest, curEnd := st.curEnd.advance cfg.width c }
    let goto (t : Nat) : Outcome σ :=
      if inlinedAt cfg.inl t then scanPlain cfg nextState t rest st
      else
        let n := renumber cfg.inl t
        match nextState n with
        | some t' => scanPlain cfg nextState t' rest { st with state := n }
        | none => .goto { st with state := n }
    match lookupTrans d c with
    | some (.goto t) => goto t
    | some (.accept accs) => testRightCtxs cfg accs st (fun _ => failPlain st)
    | none => failPlain st

/-- `nextState` resolves the number stored for every non-inlined state to that state (what
`dispatch_correct` establishes for `dispatch (stateArms d inl)`). -/
def DispatchOK (d : DFA Trans) (inl : List Nat) (nextState : Nat → Option Nat) : Prop :=
  ∀ t, t < d.length → inlinedAt inl t = false → nextState (renumber inl t) = some t

/-- What the generated code needs of the set of inlined states, whatever policy chose it: strictly
ascending (the vector `renumber_state` searches), within range, and no initial state (those are
entered through `__state`, so they need an arm). -/
def InlOK (d : DFA Trans) (inl : List Nat) : Prop :=
  inl.Pairwise (· < ·) ∧ ∀ i ∈ inl, i < d.length ∧ (d.st i).initial = false

/-- every `goto` target is a state, and not an initial one -/
def targetsOK (d : DFA Trans) : Bool :=
  d.all fun s => (gotoSuccs s).all fun t => decide (t < d.length) && !(d.st t).initial

/-! ## Declarative reading of the machine -/

/-- Configuration reached from `c` by reading `w` (`none`: no transition). -/
def reach (d : DFA Trans) : Cfg → List Nat → Option Cfg
  | c, [] => some c
  | .st s, x :: w =>
    match lookupTrans (d.st s) x with
    | some t => reach d (Target.toCfg t) w
    | none => none
  | .term _, _ :: _ => none

/-- The action selected at a configuration when `rest` is what follows: first accepting entry
whose right context (if any) passes on `rest`. -/
def selAt (cfg : Config σ τ ε) (c : Cfg) (rest : List Nat) : Option Nat :=
  firstOK (fun i => ctxOK cfg i rest) (Auto.acc cfg.dfa c)

/-- `(k, a, viaEoi)` is a match of `iter` from state `s`: after `k` characters the machine is in
a configuration that selects action `a`; with `viaEoi` all characters are read and the
end-of-input transition selects `a`. -/
def Cand (cfg : Config σ τ ε) (s : Nat) (iter : List Nat) (k : Nat) (a : Nat) (viaEoi : Bool) : Prop :=
  k ≤ iter.length ∧ ∃ c, reach cfg.dfa (.st s) (iter.take k) = some c ∧
    if viaEoi then
      k = iter.length ∧ ∃ t accs, c = .st t ∧ (cfg.dfa.st t).eoi = some (.accept accs) ∧
        firstOK (fun i => ctxOK cfg i []) accs = some a
    else selAt cfg c (iter.drop k) = some a

/-- order on matches: longer first, and at full length the end-of-input match wins -/
def candLe (k₁ : Nat) (e₁ : Bool) (k₂ : Nat) (e₂ : Bool) : Prop :=
  k₁ < k₂ ∨ (k₁ = k₂ ∧ (e₁ = true → e₂ = true))

/-- The lexer state after reading `k` more characters (`Lexer::next` k times). -/
def advanceBy (width : Nat → Nat) (st : LState σ) (k : Nat) : LState σ :=
  { st with iter := st.iter.drop k, curEnd := (st.iter.take k).foldl (Loc.advance width) st.curEnd }

/-- Number of characters the scan reads through `goto` transitions before it stops (the viable
prefix read inside states that still have successors). -/
def gotoLen (d : DFA Trans) : Nat → List Nat → Nat
  | _, [] => 0
  | s, c :: rest =>
    match lookupTrans (d.st s) c with
    | some (.goto t) => gotoLen d t rest + 1
    | _ => 0

/-- Actions that do not look at the matched text (`match_()`). -/
def IgnoresText (acts : Nat → Action σ τ ε) : Prop :=
  ∀ a v t, (acts a).run v = (acts a).run { v with text := t }

/-- number of items (tokens and errors) in a list of `next()` results -/
def itemCount (l : List (Option (Option (Item τ ε)))) : Nat :=
  (l.filter fun x => match x with | some (some _) => true | _ => false).length

/-! ## Positions -/

/-- Location of character index `n` of `input`: what scanning from the beginning gives. -/
def locAt (width : Nat → Nat) (input : List Nat) (n : Nat) : Loc :=
  (input.take n).foldl (Loc.advance width) {}

/-- Lexer state at a lexeme boundary (top of the `loop` in `next()`), consistent with `input`:
the iterator is a suffix of the input, both locations are scan locations, no saved match. -/
def Boundary (width : Nat → Nat) (input : List Nat) (st : LState σ) : Prop :=
  st.last = none ∧ ∃ start pos, start ≤ pos ∧ pos ≤ input.length ∧
    st.iter = input.drop pos ∧ st.curEnd = locAt width input pos ∧ st.curStart = locAt width input start

/-- Locations of an item are scan locations of `input`, in order. -/
def ItemLocOK (width : Nat → Nat) (input : List Nat) : Option (Item τ ε) → Prop
  | none => True
  | some (.tok s _ e) => ∃ i j, i ≤ j ∧ j ≤ input.length ∧ s = locAt width input i ∧ e = locAt width input j
  | some (.invalid l) => ∃ i, i ≤ input.length ∧ l = locAt width input i
  | some (.custom l _) => ∃ i, i ≤ input.length ∧ l = locAt width input i

/-- A view an action may be handed: span = scan locations `i ≤ j`, `peek` = character `j`, text =
characters `i..j` (for `&str` input). -/
def ViewOK (cfg : Config σ τ ε) (input : List Nat) (v : View σ) : Prop :=
  ∃ i j, i ≤ j ∧ j ≤ input.length ∧ v.startLoc = locAt cfg.width input i ∧ v.endLoc = locAt cfg.width input j ∧
    v.peek = input[j]? ∧ (cfg.input = some input → v.text = some ((input.drop i).take (j - i)))

end Lexgen
