import LexgenModel.Spec.WellFormed
/-!
# The reference lexer of a definition (language level), as a relation on lexer states

`RefNext` describes one call of `next()` purely in terms of the DEFINITION: the rule set that is active,
the denotations of its regexes and right contexts (`LangCand`), maximal munch with first-rule priority
(`Selects`), and the semantic-action protocol (`callAction`: what the user's action does with the match).
No automaton, no backtrack flags, no saved match, no state numbering (other than the number that names
the active rule set). The refinement theorem `next_refines_ref` (Proofs/RefRefine.lean) says the model of
the generated code + runtime, run on the compiled machine of a well-formed definition, takes exactly
such steps.
-/
namespace Lexgen
variable {σ τ ε : Type}

/-- maximal munch with first-rule priority, at the language level: `(n, a, viaEoi)` is a match of the
definition and no match is longer (a match through `$` wins at full length) -/
def Selects (rules : List CoreRule) (ctxAt : Nat → Regex) (iter : List Nat) (n a : Nat) (viaEoi : Bool) : Prop :=
  LangCand rules ctxAt iter n a viaEoi ∧
  ∀ n' a' e', LangCand rules ctxAt iter n' a' e' → candLe n' e' n viaEoi

/-- the lexer is at the start of a lexeme with rule set `name` active: nothing saved, and
`__state = __initial_state` is the number the generated `switch` stores for `name` (`inl`: the
states the generator inlined — `cfg.inl` of the configuration that runs) -/
def ActiveIn (items : LexerDef) (c : Compiled) (inl : List Nat) (st : LState σ) (name : String) : Prop :=
  st.last = none ∧ st.state = st.initial ∧
  ∃ e, IsEntryOf items c name e ∧ st.state = renumber inl e

/-- the state handed to the semantic action of a match of `n` characters: the iterator and the match end
advanced by exactly `n` characters (whatever was read beyond is rewound), `done` set iff the match went
through `$` -/
def matchState (width : Nat → Nat) (st : LState σ) (n : Nat) (viaEoi : Bool) (s' : Nat) : LState σ :=
  { advanceBy width st n with last := none, done := viaEoi, state := s' }

/-- what an `InvalidToken` leaves behind: `Init` (state 0) active, empty match, nothing saved, user state
untouched, input consumed up to some point after at least one character unless the input ended -/
structure ErrResume (st st' : LState σ) : Prop where
  state0 : st'.state = 0 ∧ st'.initial = 0
  emptyMatch : st'.curStart = st'.curEnd
  noSaved : st'.last = none
  user : st'.user = st.user
  consumed : ∃ m, st'.iter = st.iter.drop m ∧ (0 < m ∨ st'.done = true)
  doneOnlyAtEnd : st'.done = true → st'.iter = []

/-- One call of `next()` of the reference lexer. -/
inductive RefNext (items : LexerDef) (c : Compiled) (ctxAt : Nat → Regex) (cfg : Config σ τ ε) :
    LState σ → Option (Item τ ε) × LState σ → Prop
  /-- the stream is fused: after end-of-input was handled every call returns `None` -/
  | done (st : LState σ) : st.done = true → RefNext items c ctxAt cfg st (none, st)
  /-- the maximal match's action runs and returns an item -/
  | ret (st : LState σ) (name : String) (rs : List RuleOrBinding) (b : Bindings) (k : Nat) (rules : List CoreRule)
      (n a : Nat) (viaEoi : Bool) (s' : Nat) (item : Option (Item τ ε)) (st' : LState σ) :
      st.done = false → (name, rs, b, k) ∈ allRuleSets items → coreRules rs b k = some rules →
      ActiveIn items c cfg.inl st name → Selects rules ctxAt st.iter n a viaEoi →
      callAction cfg a (matchState cfg.width st n viaEoi s') = .ret item st' →
      RefNext items c ctxAt cfg st (item, st')
  /-- the maximal match's action runs and continues: the next lexeme is selected from the new state -/
  | cont (st : LState σ) (name : String) (rs : List RuleOrBinding) (b : Bindings) (k : Nat) (rules : List CoreRule)
      (n a : Nat) (viaEoi : Bool) (s' : Nat) (st2 : LState σ) (r : Option (Item τ ε) × LState σ) :
      st.done = false → (name, rs, b, k) ∈ allRuleSets items → coreRules rs b k = some rules →
      ActiveIn items c cfg.inl st name → Selects rules ctxAt st.iter n a viaEoi →
      callAction cfg a (matchState cfg.width st n viaEoi s') = .cont st2 →
      RefNext items c ctxAt cfg st2 r →
      RefNext items c ctxAt cfg st r
  /-- no rule matches, the input is exhausted and the first rule set is active: end of stream -/
  | eof (st : LState σ) (name : String) (rs : List RuleOrBinding) (b : Bindings) (k : Nat) (rules : List CoreRule)
      (st' : LState σ) :
      st.done = false → (name, rs, b, k) ∈ allRuleSets items → coreRules rs b k = some rules →
      ActiveIn items c cfg.inl st name → (∀ n a e, ¬ LangCand rules ctxAt st.iter n a e) →
      st.iter = [] → st.state = 0 → st'.done = true → st'.user = st.user →
      RefNext items c ctxAt cfg st (none, st')
  /-- no rule matches: `InvalidToken` located at the start of the current match, then resume in `Init` -/
  | invalid (st : LState σ) (name : String) (rs : List RuleOrBinding) (b : Bindings) (k : Nat) (rules : List CoreRule)
      (st' : LState σ) :
      st.done = false → (name, rs, b, k) ∈ allRuleSets items → coreRules rs b k = some rules →
      ActiveIn items c cfg.inl st name → (∀ n a e, ¬ LangCand rules ctxAt st.iter n a e) →
      ¬ (st.iter = [] ∧ st.state = 0) → ErrResume st st' →
      RefNext items c ctxAt cfg st (some (.invalid st.curStart), st')

end Lexgen
