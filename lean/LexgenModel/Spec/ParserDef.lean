import LexgenModel.Model.ParserDef
import LexgenModel.Spec.Parser
/-!
# Printing of whole lexer definitions, and the definitions whose printing is parseable

`printDef` writes a `ParsedDef` as a token list: the header, then the items in order. Regexes are
printed with the minimal-parentheses printer `printRe` of `Model/Parser.lean`; the right-hand side
of a rule is looked up in the semantic action table at the rule's index (`,` / `= expr,` /
`=? expr,` / `=> expr,`); a rule set prints as `rule Name { .. }` (without the optional trailing
comma); the i-th `type Error = T;` takes its `T` from `errorTypes`.

`WFDef d` is what `parseDef (printDef d) = .ok d` needs:
* every regex of `d` (of rules, right contexts, bindings) is `Printable` (the condition of
  `parse_print`: no `$` directly followed by `$`/identifier inside a concatenation);
* the rules carry the indices `0, 1, 2, …` in source order, and the table has one entry per rule
  (what `SemanticActionTable::add` produces);
* there is one entry of `errorTypes` per `type Error` item.
Names need no condition in the model: `Tok.ident s` is an identifier token for any `s` (concretely,
`s` has to be a non-keyword Rust identifier for the token to exist).
-/
namespace Lexgen

def printRegexD (r : Regex) : List DTok := (printRe r 0).map DTok.re

def printCtx : Option Regex → List DTok
  | none => []
  | some c => .gt :: printRegexD c

def printRhs : RuleRhs → List DTok
  | .none => [.comma]
  | .simple e => [.eq, .expr e, .comma]
  | .fallible e => [.eq, .re .question, .expr e, .comma]
  | .infallible e => [.fatArrow, .expr e, .comma]

/-- `let x = re;` or `re [> ctx] rhs` (the rule's right-hand side is entry `rhs` of the table) -/
def printRob (tbl : List RuleRhs) : RuleOrBinding → List DTok
  | .binding x re => [.kwLet, .re (.ident x), .eq] ++ printRegexD re ++ [.semi]
  | .rule r => printRegexD r.re ++ printCtx r.ctx ++ printRhs (tbl.getD r.rhs .none)

def printRobs (tbl : List RuleRhs) : List RuleOrBinding → List DTok
  | [] => []
  | x :: xs => printRob tbl x ++ printRobs tbl xs

/-- the items; the second list is the types of the remaining `type Error` items -/
def printItemsD (tbl : List RuleRhs) : LexerDef → List Nat → List DTok
  | [], _ => []
  | .errorType :: is, tys =>
    [.kwType, .re (.ident "Error"), .eq, .expr (tys.headD 0), .semi] ++ printItemsD tbl is tys.tail
  | .rb x :: is, tys => printRob tbl x ++ printItemsD tbl is tys
  | .ruleSet name rules :: is, tys =>
    [.re (.ident "rule"), .re (.ident name), .lbrace] ++ printRobs tbl rules ++ [.rbrace] ++
      printItemsD tbl is tys

def printStateTy : Option Nat → List DTok
  | none => []
  | some t => [.re .lparen, .expr t, .re .rparen]

def printVis : Option Nat → List DTok
  | none => []
  | some v => [.vis v]

def printHeader (h : Header) : List DTok :=
  h.attrs.map DTok.attr ++ printVis h.vis ++ [.re (.ident h.name)] ++ printStateTy h.stateTy ++
    [.rarrow, .expr h.tokenTy, .semi]

def printDef (d : ParsedDef) : List DTok :=
  printHeader d.header ++ printItemsD d.table d.items d.errorTypes

/-! ## Well-formed definitions -/

def RobPrintable : RuleOrBinding → Prop
  | .binding _ re => Printable re
  | .rule r => Printable r.re ∧ ∀ c, r.ctx = some c → Printable c

def ItemPrintable : TopItem → Prop
  | .errorType => True
  | .rb x => RobPrintable x
  | .ruleSet _ rules => ∀ x ∈ rules, RobPrintable x

/-- the indices of the rules, in source order -/
def robIndices : List RuleOrBinding → List Nat
  | [] => []
  | .rule r :: xs => r.rhs :: robIndices xs
  | .binding _ _ :: xs => robIndices xs

def itemIndices : LexerDef → List Nat
  | [] => []
  | .errorType :: is => itemIndices is
  | .rb x :: is => robIndices [x] ++ itemIndices is
  | .ruleSet _ rules :: is => robIndices rules ++ itemIndices is

def errorTypeCount : LexerDef → Nat
  | [] => 0
  | .errorType :: is => errorTypeCount is + 1
  | _ :: is => errorTypeCount is

structure WFDef (d : ParsedDef) : Prop where
  /-- every regex is printable unambiguously -/
  printable : ∀ it ∈ d.items, ItemPrintable it
  /-- the k-th rule has index k, and the table has exactly one entry per rule -/
  indices : itemIndices d.items = List.range d.table.length
  /-- one type per `type Error` item -/
  errorTypes : errorTypeCount d.items = d.errorTypes.length

end Lexgen
