import LexgenModel.Exec.Bisim
/-!
# What a successful product exploration establishes
-/
namespace Lexgen

/-- configuration reached by reading characters -/
def runCfg {τ : Type} [Target τ] (d : DFA τ) : Cfg → List Nat → Option Cfg
  | c, [] => some c
  | c, x :: w =>
    match Auto.step d c x with
    | some c' => runCfg d c' w
    | none => none

/-- the two configurations agree on their accept lists and on what one end-of-input step gives -/
def CfgAgree {τ₁ τ₂ : Type} [Target τ₁] [Target τ₂] (a : DFA τ₁) (b : DFA τ₂) (cx cy : Cfg) : Prop :=
  Auto.acc a cx = Auto.acc b cy ∧
  match Auto.eoi a cx, Auto.eoi b cy with
  | some ex, some ey => Auto.acc a ex = Auto.acc b ey
  | none, none => True
  | _, _ => False

/-- For every word over code points `≤ charMax`: both automata can read it or neither can, and
where they end they agree. -/
def EquivFrom {τ₁ τ₂ : Type} [Target τ₁] [Target τ₂] (a : DFA τ₁) (b : DFA τ₂) (x y : Nat) : Prop :=
  ∀ w : List Nat, (∀ c ∈ w, c ≤ charMax) →
    match runCfg a (.st x) w, runCfg b (.st y) w with
    | some cx, some cy => CfgAgree a b cx cy
    | none, none => True
    | _, _ => False

end Lexgen
