import LexgenModel.Spec.Lang
import LexgenModel.Spec.Machine
/-!
# Well-formed definitions (the hypotheses the properties grant) and the language-level reading of a
definition: rules and right contexts after variable substitution, candidates in terms of `den`.

Everything here is a definition; the theorems are in `Proofs/` and `Props/`.
-/
namespace Lexgen

/-! ## `$` only in tail position -/

/-- `$` does not occur -/
def eoiFree : Regex → Prop
  | .eoi => False
  | .star r | .plus r | .opt r => eoiFree r
  | .cat a b | .alt a b => eoiFree a ∧ eoiFree b
  | _ => True

/-- `$` occurs only at the tail of the regex: nothing can follow it -/
def tailEoi : Regex → Prop
  | .cat a b => eoiFree a ∧ tailEoi b
  | .alt a b => tailEoi a ∧ tailEoi b
  | .opt r => tailEoi r
  | .star r | .plus r => eoiFree r
  | _ => True

/-- a rule of a well-formed definition: bracket ranges non-inverted, `$` only at the tail, does not
match the empty string -/
structure RuleOK (r : CoreRule) : Prop where
  pieces : regexPiecesOK r.re
  tail : tailEoi r.re
  nonNull : ¬ den r.re []

/-- a right context of a well-formed definition (it may match the empty string) -/
structure CtxReOK (c : Regex) : Prop where
  pieces : regexPiecesOK c
  tail : tailEoi c

/-! ## The rules of a definition without rule sets, and the right contexts of a list of rules -/

/-- the rules and bindings written at top level (a definition without `rule X { .. }` blocks) -/
def topRules (items : LexerDef) : List RuleOrBinding :=
  items.filterMap fun | .rb x => some x | _ => none

def hasRuleSets (items : LexerDef) : Bool :=
  items.any fun | .ruleSet _ _ => true | _ => false

/-- the right contexts of a list of rules after variable substitution, in source order (the `j`-th
one is compiled to right-context automaton number `firstCtx + j`); `none` when a substitution fails -/
def coreCtxs (items : List RuleOrBinding) (b : Bindings) : Option (List Regex) :=
  match items with
  | [] => some []
  | .binding name re :: rest => coreCtxs rest (b ++ [(name, re)])
  | .rule r :: rest =>
    match r.ctx with
    | none => coreCtxs rest b
    | some c =>
      match inlineVars b (b.length + 1) c with
      | .error _ => none
      | .ok c' => (coreCtxs rest b).map (c' :: ·)

/-- the rule sets of a definition as the macro compiles them: named ones with their scopes, or the
single unnamed one made of the top-level rules -/
def allRuleSets (items : LexerDef) : List (String × List RuleOrBinding × Bindings × Nat) :=
  if hasRuleSets items then scopedRuleSets items [] 0 else [("", topRules items, [], 0)]

/-- well-formed definition: every rule and right context of every rule set is well-formed -/
structure DefOK (items : LexerDef) : Prop where
  rules : ∀ name rs b k, (name, rs, b, k) ∈ allRuleSets items →
    ∀ rules, coreRules rs b k = some rules → ∀ r ∈ rules, RuleOK r
  ctxs : ∀ name rs b k, (name, rs, b, k) ∈ allRuleSets items →
    ∀ cres, coreCtxs rs b = some cres → ∀ c ∈ cres, CtxReOK c

/-! ## Language-level candidates -/

/-- the remaining input as a word over the extended alphabet: its characters, then end-of-input -/
def ext (rest : List Nat) : List Sym := rest.map Sym.ch ++ [Sym.eoi]

/-- the right context `c` is satisfied on what follows: it denotes some prefix of the rest of the
input extended with the end-of-input symbol (nothing is consumed) -/
def CtxLang (c : Regex) (rest : List Nat) : Prop := ∃ j, den c ((ext rest).take j)

open Classical in
/-- first entry of an accept list whose right context (`ctxAt i` is the regex of right context
number `i`) holds on `rest`, at the language level -/
noncomputable def firstLang (ctxAt : Nat → Regex) (rest : List Nat) : List Acc → Option Nat
  | [] => none
  | a :: more =>
    match a.ctx with
    | none => some a.value
    | some i => if CtxLang (ctxAt i) rest then some a.value else firstLang ctxAt rest more

/-- `ctxAt` numbers the right contexts of the definition the way the macro does: the `j`-th context
of a rule set whose first context has number `k` is number `k + j` -/
def CtxNumbering (items : LexerDef) (ctxAt : Nat → Regex) : Prop :=
  ∀ name rs b k, (name, rs, b, k) ∈ allRuleSets items → ∀ cres, coreCtxs rs b = some cres →
    ∀ j (hj : j < cres.length), ctxAt (k + j) = cres[j]

/-- `(k, a, viaEoi)` is a match of `iter` at the language level for the rule set `rules` with the
right contexts `ctxAt` (indexed by the numbers stored in the rules): the first rule, in source order,
that denotes the first `k` characters (followed by end-of-input when `viaEoi`, which requires all
characters to be read) and whose right context holds on the rest, is the rule with action `a`. -/
def LangCand (rules : List CoreRule) (ctxAt : Nat → Regex) (iter : List Nat) (k a : Nat) (viaEoi : Bool) : Prop :=
  k ≤ iter.length ∧
    if viaEoi then
      k = iter.length ∧ firstLang ctxAt [] (matchingAccs rules (iter.map Sym.ch ++ [Sym.eoi])) = some a
    else firstLang ctxAt (iter.drop k) (matchingAccs rules ((iter.take k).map Sym.ch)) = some a

/-- the run-time configuration of a compiled definition; the inlined states are those the macro's
current policy (`inlinedStates`) selects -/
def Compiled.config {σ τ ε : Type} (c : Compiled) (actions : Nat → Action σ τ ε) (width : Nat → Nat)
    (input : Option (List Nat)) : Config σ τ ε :=
  { dfa := c.dfa, ctxs := c.ctxs, entries := c.entries, inl := inlinedStates c.dfa, actions := actions,
    width := width, input := input }

/-- the entry state of a rule set in the final machine: the named entry, or state 0 for a definition
without rule sets -/
def IsEntryOf (items : LexerDef) (c : Compiled) (name : String) (e : Nat) : Prop :=
  if hasRuleSets items then (name, e) ∈ c.entries else e = 0

/-- no transition of any kind leads to NFA state 0 -/
def NoIncoming0 (n : NFA) : Prop := ∀ s, s < n.length →
  0 ∉ (n.st s).eps ∧ 0 ∉ (n.st s).any ∧ 0 ∉ (n.st s).eoi ∧
  (∀ e ∈ (n.st s).chars, 0 ∉ e.2) ∧ (∀ r ∈ (n.st s).ranges, 0 ∉ r.2.2)

/-- end-of-input transitions of the NFA lead to states without any outgoing transition -/
def EoiInert (n : NFA) : Prop := ∀ s t, s < n.length → t ∈ (n.st s).eoi → NFA.virgin n t

/-- facts about the DFA `nfaToDfa` builds for one rule set that the run-time theorems rely on
(beyond the language it accepts) -/
structure BlockOK (d : DFA Nat) : Prop where
  targets : TargetsInRange d
  init0 : 0 < d.length ∧ (d.st 0).initial = true
  initOnly0 : ∀ s, (d.st s).initial = true → s = 0
  /-- nothing leads back to the initial state -/
  noInto0 : ∀ s, s < d.length → 0 ∉ DFA.succs (d.st s)
  /-- end-of-input transitions lead to states without transitions (`$` only at the tail) -/
  eoiInert : ∀ s t, s < d.length → (d.st s).eoi = some t → DFA.hasNoTransitions (d.st t) = true
  /-- if a char/range transition leads to a state without transitions, so does the `_` transition
  of the same state, and its accept list is a sub-list (issue-31 merging) -/
  anyClause : ∀ s a, s < d.length → (d.st s).any = some a →
    ∀ t, (t ∈ (d.st s).chars.map (·.2) ∨ t ∈ (d.st s).ranges.map (·.2.2)) →
      DFA.hasNoTransitions (d.st t) = true →
      DFA.hasNoTransitions (d.st a) = true ∧ isSublist (d.st a).accepting (d.st t).accepting = true

end Lexgen
