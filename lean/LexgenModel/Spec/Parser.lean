import LexgenModel.Model.Parser
/-!
# Specification of printing: which token lists are printings of a regex tree

`PrintsAs r k ts`: `ts` is a printing of `r` acceptable at a position that requires level `k`
(0 alternation, 1 concatenation, 2 postfix, 3 `#`, 4 atom), with the parentheses the grammar
requires and possibly redundant ones.
-/
namespace Lexgen

/-- `$` directly followed by `$` or an identifier reads as a variable / built-in, not as
end-of-input followed by something (the macro's grammar is ambiguous there). -/
def DollarClash (ta tb : List Tok) : Prop :=
  ta.getLast? = some .dollar ∧ (tb.head? = some .dollar ∨ ∃ n, tb.head? = some (.ident n))

inductive ItemsPrint : List CharOrRange → List Tok → Prop
  | nil : ItemsPrint [] []
  | chr {c items ts} : ItemsPrint items ts → ItemsPrint (.chr c :: items) (.chr c :: ts)
  | rng {s e items ts} : ItemsPrint items ts → ItemsPrint (.rng s e :: items) (.chr s :: .minus :: .chr e :: ts)

inductive PrintsAs : Regex → Nat → List Tok → Prop
  | paren {r k ts} : PrintsAs r 0 ts → PrintsAs r k (.lparen :: ts ++ [.rparen])
  | builtin (n k) : PrintsAs (.builtin n) k [.dollar, .dollar, .ident n]
  | var (n k) : PrintsAs (.var n) k [.dollar, .ident n]
  | chr (c k) : PrintsAs (.chr c) k [.chr c]
  | str (cs k) : PrintsAs (.str cs) k [.str cs]
  | set {items ts} (k) : ItemsPrint items ts → PrintsAs (.set items) k (.lbracket :: ts ++ [.rbracket])
  | any (k) : PrintsAs .any k [.underscore]
  | eoi (k) : PrintsAs .eoi k [.dollar]
  | star {x ts k} : k ≤ 2 → PrintsAs x 2 ts → PrintsAs (.star x) k (ts ++ [.star])
  | plus {x ts k} : k ≤ 2 → PrintsAs x 2 ts → PrintsAs (.plus x) k (ts ++ [.plus])
  | opt {x ts k} : k ≤ 2 → PrintsAs x 2 ts → PrintsAs (.opt x) k (ts ++ [.question])
  | cat {a b ta tb k} : k ≤ 1 → PrintsAs a 1 ta → PrintsAs b 2 tb → ¬ DollarClash ta tb →
      PrintsAs (.cat a b) k (ta ++ tb)
  | alt {a b ta tb k} : k ≤ 0 → PrintsAs a 0 ta → PrintsAs b 1 tb → PrintsAs (.alt a b) k (ta ++ .bar :: tb)
  | diff {a b ta tb k} : k ≤ 3 → PrintsAs a 3 ta → PrintsAs b 4 tb → PrintsAs (.diff a b) k (ta ++ .pound :: tb)

/-- the parser of level `k` -/
def parseLevel (k : Nat) (fuel : Nat) (ts : List Tok) : Option (Regex × List Tok) :=
  match k with
  | 0 => parse0 fuel ts
  | 1 => parse1 fuel ts
  | 2 => parse2 fuel ts
  | 3 => parse3 fuel ts
  | _ => parse4 fuel ts

/-- `rest` does not start with a token the loops of levels `≥ k` would consume -/
def StopsAt (k : Nat) (rest : List Tok) : Prop :=
  (k ≤ 0 → rest.head? ≠ some .bar) ∧ (k ≤ 1 → startsAtom rest = false) ∧
  (k ≤ 2 → rest.head? ≠ some .star ∧ rest.head? ≠ some .plus ∧ rest.head? ≠ some .question) ∧
  (k ≤ 3 → rest.head? ≠ some .pound)

/-- the minimal printing is unambiguous: no `$` directly followed by `$`/identifier in a
concatenation (holds for every regex with `$` in tail position only) -/
def Printable : Regex → Prop
  | .star x | .plus x | .opt x => Printable x
  | .cat a b => Printable a ∧ Printable b ∧ ¬ DollarClash (printRe a 1) (printRe b 2)
  | .alt a b => Printable a ∧ Printable b
  | .diff a b => Printable a ∧ Printable b
  | _ => True

end Lexgen
