import LexgenModel.Spec.Scan
import LexgenModel.Proofs.Dispatch
/-!
# Well-formed machines and the lexer-state invariant at lexeme boundaries

`MachineOK` collects, as propositions, what the decidable checker `machineWF` (evaluated on the
machine the macro actually produced) establishes; the run-time theorems assume nothing else about
the machine.
-/
namespace Lexgen

variable {σ τ ε : Type}

structure MachineOK (cfg : Config σ τ ε) : Prop where
  flags : flagsClosed cfg.dfa = true
  acceptAny : acceptAnyClause cfg.dfa = true
  targets : targetsOK cfg.dfa = true
  /-- the set of inlined states is strictly ascending, in range and contains no initial state
  (nothing else is assumed about the inlining policy) -/
  inl : InlOK cfg.dfa cfg.inl
  /-- state 0 (where failures return to; `Init`) is an initial, non-accepting state -/
  state0 : 0 < cfg.dfa.length ∧ (cfg.dfa.st 0).initial = true ∧ (cfg.dfa.st 0).accepting = []
  /-- rule-set entries are initial, non-accepting states (no rule matches the empty string) -/
  entries : ∀ p ∈ cfg.entries, p.2 < cfg.dfa.length ∧ (cfg.dfa.st p.2).initial = true ∧ (cfg.dfa.st p.2).accepting = []
  /-- end-of-input transitions lead to transition-less states (`$` only in tail position) -/
  eoiAccept : ∀ s t, (cfg.dfa.st s).eoi ≠ some (.goto t)

/-- `e` is the entry state of a rule set (or state 0). -/
def IsEntry (cfg : Config σ τ ε) (e : Nat) : Prop := e = 0 ∨ ∃ name, (name, e) ∈ cfg.entries

/-- Lexer state at the top of the `loop` in `next()`: no saved match, `__state = __initial_state`
= the number of a rule set's entry state. -/
def Ready (cfg : Config σ τ ε) (st : LState σ) : Prop :=
  st.last = none ∧ st.state = st.initial ∧ ∃ e, IsEntry cfg e ∧ st.state = renumber cfg.inl e

end Lexgen
