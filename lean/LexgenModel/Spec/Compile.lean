import LexgenModel.Model.Compile
import LexgenModel.Model.Search
import LexgenModel.Spec.Scan
import LexgenModel.Proofs.RangeMapOps
/-!
# Specification-side definitions for the compile-time stages
-/
namespace Lexgen

/-! ## Class expressions (`regex_to_range_map`) -/

/-- the set a (variable-free) class expression denotes -/
def classDen : Regex → Nat → Prop
  | .chr c => fun x => x = c
  | .set items => fun x => ∃ it ∈ items, match it with | .chr c => x = c | .rng s e => s ≤ x ∧ x ≤ e
  | .any => fun x => x ≤ charMax
  | .builtin n => fun x => ∃ rs, builtinRanges n = some rs ∧ ∃ p ∈ rs, p.1 ≤ x ∧ x ≤ p.2
  | .alt a b => fun x => classDen a x ∨ classDen b x
  | .diff a b => fun x => classDen a x ∧ ¬ classDen b x
  | _ => fun _ => False

/-- the pieces a class expression is built from are well-formed: set ranges non-inverted -/
def classPiecesOK : Regex → Prop
  | .set items => ∀ it ∈ items, match it with | .chr _ => True | .rng s e => s ≤ e
  | .alt a b => classPiecesOK a ∧ classPiecesOK b
  | .diff a b => classPiecesOK a ∧ classPiecesOK b
  | _ => True

/-- every built-in table is sorted and disjoint (re-checked by the kernel for the current tables
in `Generated/TablesCheck.lean`) -/
def BuiltinsWF : Prop :=
  ∀ n rs, builtinRanges n = some rs → RangeMap.WF (builtinRangeMap rs)

/-! ## Right-context functions -/

/-- state reached in an (unsimplified) DFA by reading `w` -/
def reachN (d : DFA Nat) : Nat → List Nat → Option Nat
  | s, [] => some s
  | s, x :: w =>
    match lookupTrans (d.st s) x with
    | some t => reachN d t w
    | none => none

/-- `n` end-of-input transitions from `s` -/
def eoiChain (d : DFA Nat) : Nat → Nat → Option Nat
  | 0, s => some s
  | n + 1, s =>
    match (d.st s).eoi with
    | some t => eoiChain d n t
    | none => none

/-- The context automaton accepts some prefix of `rest` (end-of-input visible after all of
`rest`): an accepting state is reached after `j ≤ |rest|` characters, or after all characters and
some end-of-input transitions (at most one for contexts with `$` in tail position). -/
def CtxAccepts (d : DFA Nat) (rest : List Nat) : Prop :=
  (∃ j s, j ≤ rest.length ∧ reachN d 0 (rest.take j) = some s ∧ (d.st s).accepting ≠ []) ∨
  (∃ s n t, reachN d 0 rest = some s ∧ n ≤ d.length ∧ eoiChain d n s = some t ∧ (d.st t).accepting ≠ [])

end Lexgen

namespace Lexgen

/-! ## `simplify` and `add_dfa` -/

/-- every transition target of an (unsimplified) DFA is a state -/
def TargetsInRange (d : DFA Nat) : Prop := ∀ s, s < d.length → ∀ t ∈ DFA.succs (d.st s), t < d.length

/-- index of a kept state after the removed (transition-less, non-initial) states are dropped -/
def newIdx (d : DFA Nat) (s : Nat) : Nat := s - removedBelow (emptyStates d) s

/-- the configuration a state of the unsimplified DFA becomes: a removed state is the terminal
configuration carrying its accept list -/
def cfgOf (d : DFA Nat) (s : Nat) : Cfg :=
  if (emptyStates d).contains s then .term (d.st s).accepting else .st (newIdx d s)

end Lexgen

namespace Lexgen

/-! ## Static checks -/

/-- the macro rejects the definition (panic or `syn` error at expansion time) -/
def Rejected {α : Type} (x : Except CompileError α) : Prop := ∃ e, x = .error e

/-- the regex mentions a variable that is not bound in `b` (directly; bound variables are
followed by `inlineVars`) -/
def MentionsVar (n : String) : Regex → Prop
  | .var m => m = n
  | .star r | .plus r | .opt r => MentionsVar n r
  | .cat a b | .alt a b | .diff a b => MentionsVar n a ∨ MentionsVar n b
  | _ => False

/-- the regex mentions a built-in name -/
def MentionsBuiltin (n : String) : Regex → Prop
  | .builtin m => m = n
  | .star r | .plus r | .opt r => MentionsBuiltin n r
  | .cat a b | .alt a b | .diff a b => MentionsBuiltin n a ∨ MentionsBuiltin n b
  | _ => False

/-- `e` is (syntactically) a class expression: what `#` accepts as an operand -/
def IsClassExpr : Regex → Prop
  | .chr _ | .set _ | .any | .builtin _ => True
  | .alt a b | .diff a b => IsClassExpr a ∧ IsClassExpr b
  | _ => False

end Lexgen
