import LexgenModel.Model.Compile
/-!
# Which definitions does the macro accept?  (declarative statement)

`StaticOK items` is the list of conditions a parsed `lexer!` definition has to satisfy for the model of
the macro (`compileLexer`) to succeed.  Nothing here refers to `compileLexer`, to an automaton or to a
monadic fold: the conditions talk about the list of items, about the items *before* a given item
(`items = pre ++ x :: post`) and about the substitution of variables (`inlineVars`, the only function of
the model that is mentioned, because the scoping rule of the macro is "look the name up when it is used").

The theorem `compileLexer_ok_iff` (Proofs/StaticIff.lean) says that, for definitions whose bracket ranges
are not inverted, `compileLexer` succeeds **iff** `StaticOK` holds.

Definitions only; no theorem in this file.
-/
namespace Lexgen

/-! ## What is declared where -/

/-- the `let`s written at top level, in source order -/
def topBindings (items : List TopItem) : Bindings :=
  items.filterMap fun | .rb (.binding n re) => some (n, re) | _ => none

/-- the `let`s written inside a rule set (or in a list of rules), in source order -/
def localBindings (rs : List RuleOrBinding) : Bindings :=
  rs.filterMap fun | .binding n re => some (n, re) | _ => none

/-- the names a list of bindings binds -/
def boundNames (b : Bindings) : List String := b.map (·.1)

/-- the names of the `rule X { .. }` blocks, in source order -/
def ruleSetNames (items : List TopItem) : List String :=
  items.filterMap fun | .ruleSet n _ => some n | _ => none

/-- number of `type Error = ..;` declarations -/
def errorTypeDecls (items : List TopItem) : Nat :=
  items.countP fun | .errorType => true | _ => false

/-! ## Regexes that elaborate -/

/-- a class expression: what `#` accepts as an operand once variables are substituted — characters,
bracket sets, `_`, *known* built-ins, and unions / differences of class expressions -/
def ClassExpr : Regex → Prop
  | .chr _ | .set _ | .any => True
  | .builtin n => builtinRanges n ≠ none
  | .alt a b | .diff a b => ClassExpr a ∧ ClassExpr b
  | _ => False

/-- a variable-free regex the automaton construction accepts: every built-in is known, every `#` has
class expressions as operands (and no variable is left — there is none after substitution) -/
def ClassOK : Regex → Prop
  | .builtin n => builtinRanges n ≠ none
  | .var _ => False
  | .diff a b => ClassExpr a ∧ ClassExpr b
  | .star r | .plus r | .opt r => ClassOK r
  | .cat a b | .alt a b => ClassOK a ∧ ClassOK b
  | .chr _ | .str _ | .set _ | .any | .eoi => True

/-- Fuel-free reading of the substitution: `Expands b re re'` says that `re'` is `re` with every variable
replaced, transitively, by its definition in `b` (first binding of that name).  A derivation is a finite
tree, so it exists only if every variable that is reached is bound and no variable is reached from its own
definition.  `StaticIff.inlineVars_ok_iff_expands` proves `inlineVars b (b.length + 1) re = .ok re' ↔
Expands b re re'` (the fuel of the model is never the limiting factor), hence
`Elaborates b re ↔ ∃ re', Expands b re re' ∧ ClassOK re'` (`StaticIff.elaborates_iff_expands`). -/
inductive Expands (b : Bindings) : Regex → Regex → Prop
  | builtin (n : String) : Expands b (.builtin n) (.builtin n)
  | var {n : String} {r r' : Regex} : b.find? n = some r → Expands b r r' → Expands b (.var n) r'
  | chr (c : Nat) : Expands b (.chr c) (.chr c)
  | str (cs : List Nat) : Expands b (.str cs) (.str cs)
  | set (items : List CharOrRange) : Expands b (.set items) (.set items)
  | star {r r' : Regex} : Expands b r r' → Expands b (.star r) (.star r')
  | plus {r r' : Regex} : Expands b r r' → Expands b (.plus r) (.plus r')
  | opt {r r' : Regex} : Expands b r r' → Expands b (.opt r) (.opt r')
  | cat {x y x' y' : Regex} : Expands b x x' → Expands b y y' → Expands b (.cat x y) (.cat x' y')
  | alt {x y x' y' : Regex} : Expands b x x' → Expands b y y' → Expands b (.alt x y) (.alt x' y')
  | any : Expands b .any .any
  | eoi : Expands b .eoi .eoi
  | diff {x y x' y' : Regex} : Expands b x x' → Expands b y y' → Expands b (.diff x y) (.diff x' y')

/-- `re` elaborates in the scope `b`: substituting the variables (transitively, looking each name up in
`b`) ends within the nesting depth `b.length + 1` — that is: every variable that is reached is bound and
the chain of references is not cyclic — and the result is accepted by the automaton construction -/
def Elaborates (b : Bindings) (re : Regex) : Prop :=
  ∃ re', inlineVars b (b.length + 1) re = .ok re' ∧ ClassOK re'

/-- the regex and the right context (if any) of a rule elaborate in the scope `b` -/
def RuleElaborates (b : Bindings) (r : SingleRule) : Prop :=
  Elaborates b r.re ∧ ∀ c, r.ctx = some c → Elaborates b c

/-! ## The accepted definitions -/

/-- the conditions on the body of `rule X { .. }` (or on the rules of any list), `outer` being the
top-level `let`s declared **before** the rule set: the scope at an item is `outer` plus the local `let`s
before it -/
structure RuleSetOK (outer : Bindings) (rs : List RuleOrBinding) : Prop where
  /-- a local `let x` repeats neither an earlier local `let` nor a top-level `let` declared before the
  rule set -/
  letFresh : ∀ rpre x re rpost, rs = rpre ++ .binding x re :: rpost →
    x ∉ boundNames (outer ++ localBindings rpre)
  /-- every rule elaborates in the scope at the rule -/
  ruleElab : ∀ rpre r rpost, rs = rpre ++ .rule r :: rpost →
    RuleElaborates (outer ++ localBindings rpre) r

/-- **The definitions the macro accepts.** -/
structure StaticOK (items : LexerDef) : Prop where
  /-- 1. rules at top level and `rule X { .. }` blocks are not mixed -/
  notMixed : mixedRules items = false
  /-- 2. `type Error` is declared at most once -/
  errorTypeOnce : errorTypeDecls items ≤ 1
  /-- 3a. rule set names are pairwise distinct -/
  ruleSetsDistinct : (ruleSetNames items).Nodup
  /-- 3b. if there is a rule set, the first one is `Init` -/
  firstIsInit : ∀ n, (ruleSetNames items).head? = some n → n = "Init"
  /-- 4a. top-level `let` names are pairwise distinct -/
  topLetsDistinct : (boundNames (topBindings items)).Nodup
  /-- 4b, 5b. the body of every rule set is fine in the scope of the top-level `let`s declared before it
  (a top-level `let` declared after the rule set is not visible in it, and may reuse a local name) -/
  ruleSets : ∀ pre n rs post, items = pre ++ .ruleSet n rs :: post → RuleSetOK (topBindings pre) rs
  /-- 5a. every top-level rule elaborates in the scope of the top-level `let`s declared before it -/
  topRules : ∀ pre r post, items = pre ++ .rb (.rule r) :: post → RuleElaborates (topBindings pre) r

end Lexgen
