import LexgenModel.Spec.RefLexer
import LexgenModel.Exec.SpecRun
/-!
# Viable prefixes (definitions for the error-resume position and for `next = specNext`)
-/
namespace Lexgen

/-- every piece of the regex denotes something: classes contain at least one character, string literals are
non-empty, no variable is left (the well-formedness "no empty character class or empty string literal") -/
def NoEmptyPieces : Regex → Prop
  | .str cs => cs ≠ []
  | .set items => ∃ c, ∃ it ∈ items, itemHas it c
  | .builtin n => ∃ c, classDen (.builtin n) c
  | .diff a b => ∃ c, classDen (.diff a b) c
  | .var _ => False
  | .star r | .plus r | .opt r => NoEmptyPieces r
  | .cat a b | .alt a b => NoEmptyPieces a ∧ NoEmptyPieces b
  | _ => True

/-- `w` is a viable prefix: some rule denotes a word that starts with `w` -/
def Viable (rules : List CoreRule) (w : List Nat) : Prop :=
  ∃ r ∈ rules, ∃ v : List Sym, den r.re (w.map Sym.ch ++ v)

/-- `w` can be extended by at least one more symbol (a character or end-of-input) towards a word of some rule -/
def Extendable (rules : List CoreRule) (w : List Nat) : Prop :=
  ∃ r ∈ rules, ∃ (x : Sym) (v : List Sym), den r.re (w.map Sym.ch ++ x :: v)

/-- every rule of every rule set of the definition has no empty piece -/
def DefNE (items : LexerDef) : Prop :=
  ∀ name rs b k, (name, rs, b, k) ∈ allRuleSets items → ∀ rules, coreRules rs b k = some rules →
    ∀ r ∈ rules, NoEmptyPieces r.re

end Lexgen
