import LexgenModel.Spec.WellFormed
import LexgenModel.Proofs.Backtrack
/-!
# Definitions for the totality theorem of the model of `lexer()` (C12, C17)

`compileLexer` returns `.error (.internal what)` exactly where the macro would hit one of its own
assertions (`add_char_transition`, `add_empty_transition`, .., the `assert_eq!` of `update_backtracks`,
"Predecessor of a state is removed in simplification") or where a work-list loop of the model runs out of
fuel (the macro would not terminate). The totality theorem says this never happens.
-/
namespace Lexgen

def CompileError.isInternal : CompileError → Bool
  | .internal _ => true
  | _ => false

/-- bracket ranges are non-inverted in every regex of a rule or binding -/
def rbPiecesOK : RuleOrBinding → Prop
  | .rule r => regexPiecesOK r.re ∧ (∀ c, r.ctx = some c → regexPiecesOK c)
  | .binding _ re => regexPiecesOK re

/-- bracket ranges are non-inverted everywhere in the definition -/
def ItemsPiecesOK (items : LexerDef) : Prop :=
  ∀ it ∈ items, match it with
    | .errorType => True
    | .rb x => rbPiecesOK x
    | .ruleSet _ rs => ∀ x ∈ rs, rbPiecesOK x

/-- every state is reachable from state 0 -/
def AllReachable0 (d : DFA Nat) : Prop := ∀ s, s < d.length → Backtrack.Path d 0 s

/-- recorded predecessors are real predecessors -/
def PredsSound (d : DFA Nat) : Prop :=
  ∀ s, s < d.length → ∀ p ∈ (d.st s).preds, p < d.length ∧ s ∈ DFA.succs (d.st p)

end Lexgen
