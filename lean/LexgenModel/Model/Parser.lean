import LexgenModel.Model.Regex
/-!
# Model of the regex parser (`ast.rs`: `parse_regex_0..4`, `parse_charset`)

`syn` hands the parser token trees; here tokens are a flat list with explicit delimiters (a group's
content must be consumed entirely, as `syn` requires). Levels: alternation (0) < concatenation (1) <
postfix `* + ?` (2) < `#` (3) < atom (4).
-/
namespace Lexgen

inductive Tok where
  | lparen | rparen | lbracket | rbracket
  | dollar | ident (s : String) | chr (c : Nat) | str (cs : List Nat) | underscore
  | bar | star | plus | question | pound | minus
  | other (s : String)          -- `,` `=` `=>` `>` `;` … : whatever ends a regex
deriving Repr, DecidableEq, Inhabited

/-- `parse_charset`: a sequence of `<char>` or `<char>-<char>` up to the closing bracket -/
def parseCharset : Nat → List Tok → Option (List CharOrRange × List Tok)
  | 0, _ => none
  | _ + 1, .rbracket :: ts => some ([], ts)
  | fuel + 1, .chr c :: .minus :: .chr c2 :: ts =>
    (parseCharset fuel ts).map fun (items, rest) => (.rng c c2 :: items, rest)
  | _ + 1, .chr _ :: .minus :: _ => none
  | fuel + 1, .chr c :: ts =>
    (parseCharset fuel ts).map fun (items, rest) => (.chr c :: items, rest)
  | _ + 1, _ => none

/-- tokens at which `parse_regex_1` continues a concatenation -/
def startsAtom : List Tok → Bool
  | .lparen :: _ => true
  | .dollar :: _ => true
  | .chr _ :: _ => true
  | .str _ :: _ => true
  | .lbracket :: _ => true
  | .underscore :: _ => true
  | _ => false

/-- the postfix loop of `parse_regex_2` (consumes one token per round) -/
def parse2Loop : Regex → List Tok → Regex × List Tok
  | r, .star :: ts => parse2Loop (.star r) ts
  | r, .question :: ts => parse2Loop (.opt r) ts
  | r, .plus :: ts => parse2Loop (.plus r) ts
  | r, ts => (r, ts)

mutual

/-- `parse_regex_0`: `re_1 (| re_1)*`, left associative -/
def parse0 : Nat → List Tok → Option (Regex × List Tok)
  | 0, _ => none
  | fuel + 1, ts =>
    match parse1 fuel ts with
    | none => none
    | some (r, rest) => parse0Loop fuel r rest

def parse0Loop : Nat → Regex → List Tok → Option (Regex × List Tok)
  | 0, _, _ => none
  | fuel + 1, r, .bar :: ts =>
    match parse1 fuel ts with
    | none => none
    | some (r2, rest) => parse0Loop fuel (.alt r r2) rest
  | _ + 1, r, ts => some (r, ts)

/-- `parse_regex_1`: `re_2 re_2*`, left associative -/
def parse1 : Nat → List Tok → Option (Regex × List Tok)
  | 0, _ => none
  | fuel + 1, ts =>
    match parse2 fuel ts with
    | none => none
    | some (r, rest) => parse1Loop fuel r rest

def parse1Loop : Nat → Regex → List Tok → Option (Regex × List Tok)
  | 0, _, _ => none
  | fuel + 1, r, ts =>
    if startsAtom ts then
      match parse2 fuel ts with
      | none => none
      | some (r2, rest) => parse1Loop fuel (.cat r r2) rest
    else some (r, ts)

/-- `parse_regex_2`: `re_3` followed by any number of postfix operators -/
def parse2 : Nat → List Tok → Option (Regex × List Tok)
  | 0, _ => none
  | fuel + 1, ts =>
    match parse3 fuel ts with
    | none => none
    | some (r, rest) => some (parse2Loop r rest)

/-- `parse_regex_3`: `re_4 (# re_4)*`, left associative -/
def parse3 : Nat → List Tok → Option (Regex × List Tok)
  | 0, _ => none
  | fuel + 1, ts =>
    match parse4 fuel ts with
    | none => none
    | some (r, rest) => parse3Loop fuel r rest

def parse3Loop : Nat → Regex → List Tok → Option (Regex × List Tok)
  | 0, _, _ => none
  | fuel + 1, r, .pound :: ts =>
    match parse4 fuel ts with
    | none => none
    | some (r2, rest) => parse3Loop fuel (.diff r r2) rest
  | _ + 1, r, ts => some (r, ts)

/-- `parse_regex_4`: `( re_0 )`, `$`, `$x`, `$$x`, `_`, `'x'`, `"..."`, `[...]` -/
def parse4 : Nat → List Tok → Option (Regex × List Tok)
  | 0, _ => none
  | fuel + 1, .lparen :: ts =>
    match parse0 fuel ts with
    | some (r, .rparen :: rest) => some (r, rest)
    | _ => none
  | _ + 1, .dollar :: .dollar :: .ident n :: ts => some (.builtin n, ts)
  | _ + 1, .dollar :: .dollar :: _ => none
  | _ + 1, .dollar :: .ident n :: ts => some (.var n, ts)
  | _ + 1, .dollar :: ts => some (.eoi, ts)
  | _ + 1, .chr c :: ts => some (.chr c, ts)
  | _ + 1, .str cs :: ts => some (.str cs, ts)
  | fuel + 1, .lbracket :: ts =>
    (parseCharset fuel ts).map fun (items, rest) => (.set items, rest)
  | _ + 1, .underscore :: ts => some (.any, ts)
  | _ + 1, _ => none

end

/-- `parse_regex` with enough fuel for the whole token list -/
def parseRegex (ts : List Tok) : Option (Regex × List Tok) := parse0 (4 * ts.length + 8) ts

/-! ## Printing with the fewest parentheses the grammar allows -/

def Regex.level : Regex → Nat
  | .alt _ _ => 0
  | .cat _ _ => 1
  | .star _ | .plus _ | .opt _ => 2
  | .diff _ _ => 3
  | _ => 4

def printItems : List CharOrRange → List Tok
  | [] => []
  | .chr c :: rest => .chr c :: printItems rest
  | .rng s e :: rest => .chr s :: .minus :: .chr e :: printItems rest

/-- print at a position that requires at least level `minLevel` -/
def printRe : Regex → Nat → List Tok
  | r, minLevel =>
    let body : List Tok := match r with
      | .builtin n => [.dollar, .dollar, .ident n]
      | .var n => [.dollar, .ident n]
      | .chr c => [.chr c]
      | .str cs => [.str cs]
      | .set items => .lbracket :: printItems items ++ [.rbracket]
      | .star x => printRe x 2 ++ [.star]
      | .plus x => printRe x 2 ++ [.plus]
      | .opt x => printRe x 2 ++ [.question]
      | .cat a b => printRe a 1 ++ printRe b 2
      | .alt a b => printRe a 0 ++ .bar :: printRe b 1
      | .any => [.underscore]
      | .eoi => [.dollar]
      | .diff a b => printRe a 3 ++ .pound :: printRe b 4
    if r.level < minLevel then .lparen :: body ++ [.rparen] else body

end Lexgen
