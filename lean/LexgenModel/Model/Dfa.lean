import LexgenModel.Model.Nfa
/-!
# Model of `dfa.rs`, `nfa_to_dfa.rs`, `dfa/backtrack.rs`, `dfa/simplify.rs`
-/
namespace Lexgen

/-- `simplify::Trans` -/
inductive Trans where
  | goto (s : Nat)
  | accept (accs : List Acc)
deriving Repr, DecidableEq, Inhabited

/-- `dfa::State<T, A>` -/
structure DState (τ : Type) where
  initial : Bool := false
  chars : List (Nat × τ) := []
  ranges : RangeMap τ := []
  any : Option τ := none
  eoi : Option τ := none
  accepting : List Acc := []
  preds : List Nat := []
  backtrack : Bool := false
deriving Repr, Inhabited

def DState.empty {τ : Type} : DState τ := {}

abbrev DFA (τ : Type) := List (DState τ)

namespace DFA

def st {τ : Type} (d : DFA τ) (i : Nat) : DState τ := d.getD i DState.empty

def hasNoTransitions {τ : Type} (s : DState τ) : Bool :=
  s.chars.isEmpty && s.ranges.isEmpty && s.any.isNone && s.eoi.isNone

/-- All transition targets of a state, in the order the macro iterates over them
(chars, ranges, any, end-of-input). -/
def succs {τ : Type} (s : DState τ) : List τ :=
  s.chars.map (·.2) ++ s.ranges.map (·.2.2) ++ s.any.toList ++ s.eoi.toList

def addPred (d : DFA Nat) (t p : Nat) : DFA Nat :=
  d.modify t fun st => { st with preds := setInsert p st.preds }

end DFA

/-! ## Subset construction (`nfa_to_dfa`) -/

structure Builder where
  dfa : DFA Nat
  /-- `state_map`: sets of NFA states (sorted lists) to DFA states -/
  stateMap : List (List Nat × Nat)
deriving Repr

namespace Builder

/-- `dfa_state_of_nfa_states` -/
def stateOf (b : Builder) (set : List Nat) : Builder × Nat :=
  match b.stateMap.find? (fun e => e.1 = set) with
  | some (_, i) => (b, i)
  | none =>
    let i := b.dfa.length
    ({ dfa := b.dfa ++ [DState.empty], stateMap := b.stateMap ++ [(set, i)] }, i)

end Builder

/-- Insert into a char-keyed association list kept sorted by key, merging target sets. -/
def charMapInsert (c : Nat) (tgts : List Nat) : List (Nat × List Nat) → List (Nat × List Nat)
  | [] => [(c, tgts)]
  | (k, v) :: rest =>
    if c < k then (c, tgts) :: (k, v) :: rest
    else if c = k then (k, setUnion v tgts) :: rest
    else (k, v) :: charMapInsert c tgts rest

/-- What one pass over the NFA states of a DFA state collects. -/
structure Collected where
  accs : List Acc := []
  chars : List (Nat × List Nat) := []
  ranges : RangeMap (List Nat) := []
  any : List Nat := []
  eoi : List Nat := []

def collect (nfa : NFA) (states : List Nat) : Collected :=
  states.foldl (fun (c : Collected) s =>
    let st := nfa.st s
    { accs := match st.acc with | some a => c.accs ++ [a] | none => c.accs
      chars := st.chars.foldl (fun m e => charMapInsert e.1 e.2 m) c.chars
      ranges := st.ranges.foldl (fun m r => RangeMap.insert setUnion m r.1 r.2.1 r.2.2) c.ranges
      any := setUnion c.any st.any
      eoi := setUnion c.eoi st.eoi }) {}

/-- One iteration of the `while let Some(..) = work_list.pop()` body for an unfinished state
`d`: returns the builder and the closures pushed on the work list (last pushed first). -/
def expandState (nfa : NFA) (b : Builder) (d : Nat) (cur : List Nat) : Builder × List (List Nat) :=
  let col := collect nfa cur
  let b : Builder := { b with dfa := b.dfa.modify d fun st => { st with accepting := col.accs } }
  -- char transitions: range and any targets are merged in
  let (b, pushed) := col.chars.foldl (fun (acc : Builder × List (List Nat)) e =>
      let (b, pushed) := acc
      let c := e.1
      let tgts := col.ranges.foldl (fun t r => if r.1 ≤ c ∧ c ≤ r.2.1 then setUnion t r.2.2 else t) e.2
      let tgts := setUnion tgts col.any
      let cl := nfa.closure tgts
      let (b, t) := b.stateOf cl
      let dfa := b.dfa.modify d fun st => { st with chars := st.chars ++ [(c, t)] }
      ({ b with dfa := DFA.addPred dfa t d }, cl :: pushed)) (b, [])
  -- range transitions: any targets are merged in
  let (b, pushed, rng) := col.ranges.foldl (fun (acc : Builder × List (List Nat) × RangeMap Nat) r =>
      let (b, pushed, rng) := acc
      let tgts := setUnion r.2.2 col.any
      let cl := nfa.closure tgts
      let (b, t) := b.stateOf cl
      (b, cl :: pushed, rng ++ [(r.1, r.2.1, t)])) (b, pushed, [])
  -- `set_range_transitions`
  let dfa := rng.foldl (fun dfa r => DFA.addPred dfa r.2.2 d) b.dfa
  let b : Builder := { b with dfa := dfa.modify d fun st => { st with ranges := rng } }
  -- any
  let (b, pushed) :=
    let cl := nfa.closure col.any
    if cl.isEmpty then (b, pushed) else
      let (b, t) := b.stateOf cl
      let dfa := b.dfa.modify d fun st => { st with any := some t }
      ({ b with dfa := DFA.addPred dfa t d }, cl :: pushed)
  -- end of input
  let (b, pushed) :=
    let cl := nfa.closure col.eoi
    if cl.isEmpty then (b, pushed) else
      let (b, t) := b.stateOf cl
      let dfa := b.dfa.modify d fun st => { st with eoi := some t }
      ({ b with dfa := DFA.addPred dfa t d }, cl :: pushed)
  (b, pushed)

/-- The work-list loop of `nfa_to_dfa`. -/
def nfaToDfaLoop (nfa : NFA) : Nat → List (List Nat) → List Nat → Builder → Option Builder
  | 0, [], _, b => some b
  | 0, _ :: _, _, _ => none
  | _ + 1, [], _, b => some b
  | fuel + 1, cur :: wl, finished, b =>
    let (b, d) := b.stateOf cur
    if finished.contains d then nfaToDfaLoop nfa fuel wl finished b
    else
      let (b, pushed) := expandState nfa b d cur
      nfaToDfaLoop nfa fuel (pushed ++ wl) (d :: finished) b

/-- Number of transition-table entries a single DFA state can have: bounds the pushes per
expanded state. -/
def transBound (nfa : NFA) : Nat :=
  nfa.foldl (fun acc st => acc + st.chars.length + 2 * st.ranges.length) 0 + 3

/-- Fuel that always suffices: at most `2^|nfa|` subsets are expanded, each pushing at most
`transBound` closures; every pop is either an expansion or a skip of a pushed item. -/
def nfaToDfaFuel (nfa : NFA) : Nat := 2 ^ nfa.length * (transBound nfa + 1) + 2

def nfaToDfa (nfa : NFA) : Option (DFA Nat) :=
  let init := nfa.closure [0]
  let b : Builder := { dfa := [{ (DState.empty : DState Nat) with initial := true }], stateMap := [(init, 0)] }
  (nfaToDfaLoop nfa (nfaToDfaFuel nfa) [init] [] b).map (·.dfa)

/-! ## `DFA::add_dfa` -/

def shiftState (k : Nat) (s : DState Nat) : DState Nat :=
  { s with
    chars := s.chars.map fun e => (e.1, e.2 + k)
    ranges := RangeMap.mapVals (· + k) s.ranges
    any := s.any.map (· + k)
    eoi := s.eoi.map (· + k)
    preds := s.preds.map (· + k) }

/-- Returns the extended DFA and the initial state of the extension. -/
def addDfa (d other : DFA Nat) : DFA Nat × Nat :=
  (d ++ other.map (shiftState d.length), d.length)

/-! ## `update_backtracks` (repaired, monotone) -/

def initialWork (d : DFA Nat) : List (Nat × Bool) :=
  ((List.range d.length).filter fun i => (d.st i).initial).map fun i => (i, false)

/-- The work-list loop. `visited[i]` is `none` (not visited), `some false`, `some true`.
The Rust work list is a stack: initial states are popped from the back, successors are pushed
in the order chars, ranges, any, end-of-input. -/
def backtrackLoop (d : DFA Nat) : Nat → List (Nat × Bool) → List (Option Bool) → Option (List (Option Bool))
  | 0, [], vis => some vis
  | 0, _ :: _, _ => none
  | _ + 1, [], vis => some vis
  | fuel + 1, (s, bt) :: wl, vis =>
    let go (vis : List (Option Bool)) :=
      let sbt := bt || !(d.st s).accepting.isEmpty
      let pushed := (DFA.succs (d.st s)).map fun t => (t, sbt)
      backtrackLoop d fuel (pushed.reverse ++ wl) vis
    match vis.getD s none with
    | some v =>
      if v || !bt then backtrackLoop d fuel wl vis
      else go (vis.set s (some true))
    | none => go (vis.set s (some bt))

def edgeCount (d : DFA Nat) : Nat := d.foldl (fun acc s => acc + (DFA.succs s).length) 0

/-- Every state is expanded at most twice (`none → false → true`), each expansion pushes its
out-degree; every pop is a pushed item. -/
def backtrackFuel (d : DFA Nat) : Nat := 2 * edgeCount d + d.length + 1

/-- `None` models the `assert_eq!(visited.len(), dfa.states.len())` failing (or fuel running
out, which `backtrack_terminates` excludes). -/
def updateBacktracks (d : DFA Nat) : Option (DFA Nat) :=
  match backtrackLoop d (backtrackFuel d) (initialWork d).reverse (List.replicate d.length none) with
  | none => none
  | some vis =>
    if vis.all Option.isSome then
      some (d.zipWith (fun st v => { st with backtrack := v.getD false }) vis)
    else none

/-! ## `simplify` -/

/-- Indices of the removed states: no transitions and not initial (ascending). -/
def emptyStates (d : DFA Nat) : List Nat :=
  (List.range d.length).filter fun i => DFA.hasNoTransitions (d.st i) && !(d.st i).initial

/-- Number of removed states below `t`: the index both `binary_search` results carry. -/
def removedBelow (empties : List Nat) (t : Nat) : Nat := (empties.filter (· < t)).length

def mapTransition (d : DFA Nat) (empties : List Nat) (t : Nat) : Trans :=
  if empties.contains t then .accept (d.st t).accepting
  else .goto (t - removedBelow empties t)

def simplifyState (d : DFA Nat) (empties : List Nat) (s : DState Nat) : Except CompileError (DState Trans) := do
  let preds ← s.preds.mapM fun p =>
    match mapTransition d empties p with
    | .goto p' => pure p'
    | .accept _ => throw (.internal "Predecessor of a state is removed in simplification")
  pure { initial := s.initial
         chars := s.chars.map fun e => (e.1, mapTransition d empties e.2)
         ranges := RangeMap.mapVals (mapTransition d empties) s.ranges
         any := s.any.map (mapTransition d empties)
         eoi := s.eoi.map (mapTransition d empties)
         accepting := s.accepting
         preds := preds
         backtrack := s.backtrack }

/-- Returns the simplified DFA and the shifted entry map. -/
def simplify (d : DFA Nat) (entries : List (String × Nat)) :
    Except CompileError (DFA Trans × List (String × Nat)) := do
  let empties := emptyStates d
  let kept := (List.range d.length).filter fun i => !empties.contains i
  let states ← kept.mapM fun i => simplifyState d empties (d.st i)
  pure (states, entries.map fun e => (e.1, e.2 - removedBelow empties e.2))

end Lexgen
