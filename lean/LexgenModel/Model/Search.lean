import LexgenModel.Model.Runtime
/-!
# Model of the generated membership tests (`dfa/codegen.rs`, `codegen/search_table.rs`)

Range transitions of a state are compiled into `match` arms: every `Accept` range gets its own
guard arm, ranges with the same next state share one arm whose guard is a chain of range checks
(`||`) when there are at most `MAX_GUARD_SIZE` of them and a binary search in a static table
otherwise. `slice::binary_search_by` is modelled by its library implementation.
-/
namespace Lexgen

/-- `inclusive_range_contains` / `x == c` chain joined by `||` -/
def guardChain (ranges : List (Nat × Nat)) (c : Nat) : Bool :=
  ranges.any fun r => if r.1 = r.2 then c == r.1 else decide (r.1 ≤ c) && decide (c ≤ r.2)

/-- the comparator the generated `binary_search` passes to `binary_search_by` -/
def cmpRange (c : Nat) (r : Nat × Nat) : Ordering :=
  if c > r.1 then (if c ≤ r.2 then .eq else .lt)
  else if c = r.1 then .eq
  else .gt

/-- the `while size > 1` loop of `slice::binary_search_by` -/
def bsLoop (table : List (Nat × Nat)) (c : Nat) : Nat → Nat → Nat → Nat
  | 0, base, _ => base
  | fuel + 1, base, size =>
    if size > 1 then
      let half := size / 2
      let mid := base + half
      let base' := if cmpRange c (table.getD mid (0, 0)) == .gt then base else mid
      bsLoop table c fuel base' (size - half)
    else base

/-- generated `binary_search(c, &TABLE)` = `binary_search_by(..).is_ok()` -/
def binarySearch (table : List (Nat × Nat)) (c : Nat) : Bool :=
  if table.isEmpty then false
  else cmpRange c (table.getD (bsLoop table c table.length 0 table.length) (0, 0)) == .eq

/-- guard of the shared arm of a group of ranges -/
def rangeGuard (maxGuard : Nat) (ranges : List (Nat × Nat)) (c : Nat) : Bool :=
  if ranges.length > maxGuard then binarySearch ranges c else guardChain ranges c

/-- the ranges of a state that lead to state `t`, in table order -/
def rangesTo (ranges : RangeMap Trans) (t : Nat) : List (Nat × Nat) :=
  ranges.filterMap fun r => match r.2.2 with | .goto t' => if t' = t then some (r.1, r.2.1) else none | .accept _ => none

/-- distinct `goto` targets of the range transitions -/
def rangeTargets (ranges : RangeMap Trans) : List Nat :=
  (ranges.filterMap fun r => match r.2.2 with | .goto t => some t | .accept _ => none).eraseDups

/-- The range arms as generated: `Accept` ranges first (one guard arm each, in table order), then
one arm per next state; the first arm whose guard holds is taken. -/
def armLookup (maxGuard : Nat) (ranges : RangeMap Trans) (c : Nat) : Option Trans :=
  match ranges.find? (fun r => match r.2.2 with | .accept _ => decide (r.1 ≤ c) && decide (c ≤ r.2.1) | .goto _ => false) with
  | some r => some r.2.2
  | none =>
    ((rangeTargets ranges).find? fun t => rangeGuard maxGuard (rangesTo ranges t) c).map Trans.goto

end Lexgen
