import LexgenModel.Model.Runtime
/-!
# Model of `lib.rs::lexer` (static checks and the glue between stages)
-/
namespace Lexgen

inductive RuleKind where
  | none | simple | fallible | infallible
deriving Repr, DecidableEq, Inhabited

structure SingleRule where
  re : Regex
  ctx : Option Regex
  /-- index into the semantic action table (assigned by the parser, in source order) -/
  rhs : Nat
deriving Repr, Inhabited

inductive RuleOrBinding where
  | rule (r : SingleRule)
  | binding (name : String) (re : Regex)
deriving Repr, Inhabited

inductive TopItem where
  | errorType
  | rb (x : RuleOrBinding)
  | ruleSet (name : String) (rules : List RuleOrBinding)
deriving Repr, Inhabited

abbrev LexerDef := List TopItem

/-- `RightCtxDFAs::new_right_ctx` -/
def newRightCtx (ctxs : List (DFA Nat)) (b : Bindings) (re : Regex) :
    Except CompileError (List (DFA Nat) × Nat) := do
  let re ← inlineVars b (b.length + 1) re
  let nfa ← NFA.new.addRegex re none 0
  match nfaToDfa nfa with
  | none => throw (.internal "nfa_to_dfa")
  | some d => pure (ctxs ++ [d], ctxs.length)

/-- `compile_single_rule` -/
def compileSingleRule (nfa : NFA) (r : SingleRule) (b : Bindings) (ctxs : List (DFA Nat)) :
    Except CompileError (NFA × List (DFA Nat)) := do
  let (ctxs, ctx) ← match r.ctx with
    | some c => do let (ctxs, i) ← newRightCtx ctxs b c; pure (ctxs, some i)
    | none => pure (ctxs, none)
  let re ← inlineVars b (b.length + 1) r.re
  let nfa ← nfa.addRegex re ctx r.rhs
  pure (nfa, ctxs)

/-- `compile_rule_set` -/
def compileRuleSet (rules : List RuleOrBinding) (b : Bindings) (ctxs : List (DFA Nat)) :
    Except CompileError (DFA Nat × List (DFA Nat)) := do
  let (nfa, _, ctxs) ← rules.foldlM (fun (acc : NFA × Bindings × List (DFA Nat)) item => do
      let (nfa, b, ctxs) := acc
      match item with
      | .rule r => do
        let (nfa, ctxs) ← compileSingleRule nfa r b ctxs
        pure (nfa, b, ctxs)
      | .binding name re =>
        if (b.find? name).isSome then throw (.dupVar name)
        else pure (nfa, b ++ [(name, re)], ctxs)) (NFA.new, b, ctxs)
  match nfaToDfa nfa with
  | none => throw (.internal "nfa_to_dfa")
  | some d => pure (d, ctxs)

structure GlueState where
  entries : List (String × Nat) := []
  ctxs : List (DFA Nat) := []
  bindings : Bindings := []
  initDfa : Option (DFA Nat) := none
  errorType : Bool := false
  unnamed : NFA := NFA.new

structure Compiled where
  /-- concatenated DFA after `update_backtracks` -/
  full : DFA Nat
  entries0 : List (String × Nat)
  dfa : DFA Trans
  entries : List (String × Nat)
  ctxs : List (DFA Nat)
deriving Repr

def mixedRules (items : LexerDef) : Bool :=
  items.any (fun | .rb (.rule _) => true | _ => false) &&
  items.any (fun | .ruleSet _ _ => true | _ => false)

/-- The body of `lexer()` after parsing. -/
def compileLexer (items : LexerDef) : Except CompileError Compiled := do
  if mixedRules items then throw .mixedRules
  let g ← items.foldlM (fun (g : GlueState) item => do
      match item with
      | .errorType =>
        if g.errorType then throw .dupErrorType else pure { g with errorType := true }
      | .rb (.binding name re) =>
        if (g.bindings.find? name).isSome then throw (.dupVar name)
        else pure { g with bindings := g.bindings ++ [(name, re)] }
      | .rb (.rule r) => do
        let (nfa, ctxs) ← compileSingleRule g.unnamed r g.bindings g.ctxs
        pure { g with unnamed := nfa, ctxs := ctxs }
      | .ruleSet name rules => do
        let (g, idx) ←
          if name = "Init" then do
            let (d, ctxs) ← compileRuleSet rules g.bindings g.ctxs
            pure ({ g with initDfa := some d, ctxs := ctxs }, 0)
          else
            match g.initDfa with
            | none => throw .firstNotInit
            | some d0 => do
              let (d, ctxs) ← compileRuleSet rules g.bindings g.ctxs
              let (d', idx) := addDfa d0 d
              pure ({ g with initDfa := some d', ctxs := ctxs }, idx)
        if (g.entries.find? (·.1 = name)).isSome then throw (.dupRuleSet name)
        else pure { g with entries := g.entries ++ [(name, idx)] }) {}
  let dfa ← match g.initDfa with
    | some d => pure d
    | none => match nfaToDfa g.unnamed with
      | some d => pure d
      | none => throw (.internal "nfa_to_dfa")
  let full ← match updateBacktracks dfa with
    | some d => pure d
    | none => throw (.internal "update_backtracks")
  let (simp, entries) ← simplify full g.entries
  pure { full := full, entries0 := g.entries, dfa := simp, entries := entries, ctxs := g.ctxs }

end Lexgen
