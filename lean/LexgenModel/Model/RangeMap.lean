/-!
# Model of `crates/lexgen/src/range_map.rs`

A range map is a list of `(start, end, value)` triples (inclusive end points), kept sorted and
disjoint by the operations. One Lean function per Rust function, same case structure and the same
order of tests. `u32` is modelled by `Nat` (all end points are code points ≤ 0x10FFFF).
-/
namespace Lexgen

abbrev RangeMap (α : Type) := List (Nat × Nat × α)

namespace RangeMap

variable {α : Type}

/-- `RangeMap::insert`. `lastEnd` is the end of the last range pushed to `new_ranges` so far
(`None` when nothing was pushed): the Rust code inspects it after the loop. -/
def insertAux (merge : α → α → α) : RangeMap α → Option Nat → Nat → Nat → α → RangeMap α
  | [], lastEnd, ns, ne, v =>
    let push := match lastEnd with
      | none => true
      | some le => decide (le < ns)
    if push then [(ns, ne, v)] else []
  | (s, e, x) :: rest, _lastEnd, ns, ne, v =>
    if e < ns then
      (s, e, x) :: insertAux merge rest (some e) ns ne v
    else if s > ne then
      (ns, ne, v) :: (s, e, x) :: rest
    else
      let os := max ns s
      let oe := min ne e
      -- (1) new range before the overlap, (2) old range before the overlap
      let pre : RangeMap α :=
        if ns < os then [(ns, os - 1, v)]
        else if s < os then [(s, os - 1, x)]
        else []
      -- (3) the overlap
      let mid : RangeMap α := [(os, oe, merge x v)]
      -- (4) old range after the overlap
      if e > oe then
        pre ++ mid ++ (oe + 1, e, x) :: rest
      -- (5) new range after the overlap: handled in the next iteration
      else if ne > oe then
        pre ++ mid ++ insertAux merge rest (some oe) (oe + 1) ne v
      else
        pre ++ mid ++ rest

def insert (merge : α → α → α) (m : RangeMap α) (ns ne : Nat) (v : α) : RangeMap α :=
  insertAux merge m none ns ne v

/-- Termination measure component of `insertRanges`: 1 while the two heads overlap with different
starts (the next iteration then aligns them). -/
def startsDiffer {β : Type} : RangeMap α → RangeMap β → Nat
  | (s1, _, _) :: _, (s2, _, _) :: _ => if s1 = s2 then 0 else 1
  | _, _ => 0

theorem startsDiffer_le {β : Type} (l1 : RangeMap α) (l2 : RangeMap β) :
    startsDiffer l1 l2 ≤ 1 := by
  unfold startsDiffer; split <;> (try split) <;> omega

/-- Termination measure component of `removeRanges`: 0 once the removed head lies wholly before
the old head. -/
def removedNotBefore {β : Type} : RangeMap α → RangeMap β → Nat
  | (s, _, _) :: _, (_, re, _) :: _ => if re < s then 0 else 1
  | _, _ => 0

theorem removedNotBefore_le {β : Type} (l1 : RangeMap α) (l2 : RangeMap β) :
    removedNotBefore l1 l2 ≤ 1 := by
  unfold removedNotBefore; split <;> (try split) <;> omega

/-- `RangeMap::insert_ranges`: merge of two sorted range lists. The Rust loop mutates the heads
in place; here the updated head is consed back. -/
def insertRanges (merge : α → α → α) : RangeMap α → RangeMap α → RangeMap α
  | [], [] => []
  | (r1 :: rest1), [] => r1 :: rest1
  | [], (r2 :: rest2) => r2 :: rest2
  | (s1, e1, v1) :: rest1, (s2, e2, v2) :: rest2 =>
    if e1 < s2 then
      (s1, e1, v1) :: insertRanges merge rest1 ((s2, e2, v2) :: rest2)
    else if e2 < s1 then
      (s2, e2, v2) :: insertRanges merge ((s1, e1, v1) :: rest1) rest2
    else
      let os := max s1 s2
      let oe := min e1 e2
      if s1 < s2 then
        (s1, os - 1, v1) :: insertRanges merge ((os, e1, v1) :: rest1) ((s2, e2, v2) :: rest2)
      else if s2 < s1 then
        (s2, os - 1, v2) :: insertRanges merge ((s1, e1, v1) :: rest1) ((os, e2, v2) :: rest2)
      else
        let merged := (os, oe, merge v1 v2)
        if e1 < e2 then
          merged :: insertRanges merge rest1 ((oe + 1, e2, v2) :: rest2)
        else if e2 < e1 then
          merged :: insertRanges merge ((oe + 1, e1, v1) :: rest1) rest2
        else
          merged :: insertRanges merge rest1 rest2
termination_by l1 l2 => 2 * (l1.length + l2.length) + startsDiffer l1 l2
decreasing_by
  all_goals simp_wf
  · have := startsDiffer_le rest1 ((s2, e2, v2) :: rest2); omega
  · have := startsDiffer_le ((s1, e1, v1) :: rest1) rest2; omega
  · have h1 : max s1 s2 = s2 := by omega
    have h2 : ¬ s1 = s2 := by omega
    simp [startsDiffer, h1, h2]
  · have h1 : s1 = max s1 s2 := by omega
    have h2 : ¬ s1 = s2 := by omega
    simp [startsDiffer, ← h1, h2]
  · have := startsDiffer_le rest1 ((min e1 e2 + 1, e2, v2) :: rest2); omega
  · have := startsDiffer_le ((min e1 e2 + 1, e1, v1) :: rest1) rest2; omega
  · have := startsDiffer_le rest1 rest2; omega

/-- `RangeMap::remove_ranges` (with the repair of case (1): a fully covered old range is dropped
without advancing the removed range). -/
def removeRanges {β : Type} : RangeMap α → RangeMap β → RangeMap α
  | [], _ => []
  | (r :: rest), [] => r :: rest
  | (s, e, v) :: rest, (rs, re, rv) :: rrest =>
    if e < rs then
      (s, e, v) :: removeRanges rest ((rs, re, rv) :: rrest)
    else if re < s then
      removeRanges ((s, e, v) :: rest) rrest
    else
      let os := max s rs
      let oe := min e re
      -- (1) overlap starts at the left end of the old range
      if os = s then
        if oe = e then
          removeRanges rest ((rs, re, rv) :: rrest)
        else
          removeRanges ((oe + 1, e, v) :: rest) rrest
      -- (2) overlap ends at the right end of the old range
      else if oe = e then
        (s, os - 1, v) :: removeRanges rest ((rs, re, rv) :: rrest)
      -- (3) overlap in the middle of the old range
      else
        (s, os - 1, v) :: removeRanges ((oe + 1, e, v) :: rest) ((rs, re, rv) :: rrest)
termination_by l1 l2 => 2 * (l1.length + l2.length) + removedNotBefore l1 l2
decreasing_by
  all_goals simp_wf
  · have := removedNotBefore_le rest ((rs, re, rv) :: rrest); omega
  · have := removedNotBefore_le ((s, e, v) :: rest) rrest
    have h : re < s := by omega
    simp [removedNotBefore, h] at *; omega
  · have := removedNotBefore_le rest ((rs, re, rv) :: rrest); omega
  · have := removedNotBefore_le ((min e re + 1, e, v) :: rest) rrest; omega
  · have := removedNotBefore_le rest ((rs, re, rv) :: rrest); omega
  · have h1 : re < min e re + 1 := by omega
    have h2 : ¬ re < s := by omega
    simp [removedNotBefore, h1, h2]

/-- `RangeMap::map` -/
def mapVals {β : Type} (f : α → β) (m : RangeMap α) : RangeMap β :=
  m.map fun (s, e, v) => (s, e, f v)

/-- Value at a code point (first range containing it). -/
def lookup : RangeMap α → Nat → Option α
  | [], _ => none
  | (s, e, v) :: rest, c => if s ≤ c ∧ c ≤ e then some v else lookup rest c

/-- `debug_assert` of `from_non_overlapping_sorted_ranges`: consecutive ranges satisfy
`r1.end < r2.start`. -/
def sortedNonOverlapping : RangeMap α → Bool
  | [] => true
  | [_] => true
  | (_, e1, _) :: (s2, e2, v2) :: rest => decide (e1 < s2) && sortedNonOverlapping ((s2, e2, v2) :: rest)

end RangeMap
end Lexgen
