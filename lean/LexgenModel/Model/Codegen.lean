import LexgenModel.Model.Dfa
/-!
# Model of the numbering done by code generation (`dfa/codegen.rs`, `dfa/codegen/ctx.rs`)

States with exactly one predecessor are inlined at their transition sites and skipped in the
numbering of `match self.0.__state` arms.
-/
namespace Lexgen

/-- `CgCtx::new`: sorted vector of states with exactly one predecessor. -/
def inlinedStates (d : DFA Trans) : List Nat :=
  (List.range d.length).filter fun i => (d.st i).preds.length == 1

/-- `CgCtx::renumber_state`: both results of the binary search carry the number of inlined
states below `s`. -/
def renumber (inl : List Nat) (s : Nat) : Nat := s - (inl.filter (· < s)).length

/-- Pattern of a `match self.0.__state` arm. -/
inductive Pat where
  | num (n : Nat)
  | wild
deriving Repr, DecidableEq, Inhabited

/-- `generate_state_arms`: (pattern, state whose code the arm holds), in arm order. -/
def stateArms (d : DFA Trans) : List (Pat × Nat) :=
  let inl := inlinedStates d
  ((List.range d.length).filter fun i => !((d.st i).preds.length == 1 && !(d.st i).initial)).map fun i =>
    let n := renumber inl i
    (if n == d.length - inl.length - 1 then Pat.wild else Pat.num n, i)

/-- Rust `match` on the arms: first arm whose pattern matches. `none`: non-exhaustive match
(rustc would reject the generated code). -/
def dispatch : List (Pat × Nat) → Nat → Option Nat
  | [], _ => none
  | (Pat.num k, s) :: rest, n => if k = n then some s else dispatch rest n
  | (Pat.wild, s) :: _, _ => some s

/-- `generate_switch`: rule set name ↦ number stored in `__state`. -/
def switchTable (d : DFA Trans) (entries : List (String × Nat)) : List (String × Nat) :=
  let inl := inlinedStates d
  entries.map fun e => (e.1, renumber inl e.2)

/-- Whether the code of `t` is inlined at a transition site (`predecessors.len() == 1`). -/
def inlinedAt (d : DFA Trans) (t : Nat) : Bool := (d.st t).preds.length == 1

end Lexgen
