import LexgenModel.Model.Dfa
/-!
# Model of the numbering done by code generation (`dfa/codegen.rs`, `dfa/codegen/ctx.rs`)

Inlined states (under the macro's current policy: states with exactly one predecessor, reached by
a single arm) have their code placed at their transition sites and are skipped in the numbering of
`match self.0.__state` arms. The numbering is a function of the set of inlined states only.
-/
namespace Lexgen

/-- `n_inline_sites`: number of places in the code generated for `pred` where the code of its
successor `s` would be inlined. Characters with the same next state share one arm, and so do
ranges; the default (any) arm is also the fall-through of every accepting arm. -/
def inlineSites (pred : DState Trans) (s : Nat) : Nat :=
  let goes (t : Trans) : Bool := match t with | .goto n => n == s | .accept _ => false
  let isAcc (t : Trans) : Bool := match t with | .accept _ => true | .goto _ => false
  (if pred.chars.any (fun e => goes e.2) then 1 else 0) +
  (if pred.ranges.any (fun r => goes r.2.2) then 1 else 0) +
  (match pred.any with
   | some t =>
     if goes t then 1 + (pred.chars.filter (fun e => isAcc e.2)).length + (pred.ranges.filter (fun r => isAcc r.2.2)).length
     else 0
   | none => 0)

/-- The macro's current inlining policy: the code of state `i` is inlined at its only use site
when it is not an initial state, has exactly one predecessor, and is reached from it by a single
`match` arm. Nothing below depends on this policy: `stateArms`, `switchTable` and the run-time
model take the set of inlined states as a parameter. -/
def isInlined (d : DFA Trans) (i : Nat) : Bool :=
  !(d.st i).initial &&
  match (d.st i).preds with
  | [p] => inlineSites (d.st p) i == 1
  | _ => false

/-- `CgCtx::new`: sorted vector of the inlined states under the macro's current policy
(`isInlined`). -/
def inlinedStates (d : DFA Trans) : List Nat :=
  (List.range d.length).filter fun i => isInlined d i

/-- `CgCtx::renumber_state`: both results of the binary search carry the number of inlined
states below `s`. -/
def renumber (inl : List Nat) (s : Nat) : Nat := s - (inl.filter (· < s)).length

/-- Pattern of a `match self.0.__state` arm. -/
inductive Pat where
  | num (n : Nat)
  | wild
deriving Repr, DecidableEq, Inhabited

/-- `generate_state_arms`: (pattern, state whose code the arm holds), in arm order. `inl` is the
sorted vector of the states whose code is inlined at their use sites (whatever the policy). -/
def stateArms (d : DFA Trans) (inl : List Nat) : List (Pat × Nat) :=
  ((List.range d.length).filter fun i => !inl.contains i).map fun i =>
    let n := renumber inl i
    (if n == d.length - inl.length - 1 then Pat.wild else Pat.num n, i)

/-- Rust `match` on the arms: first arm whose pattern matches. `none`: non-exhaustive match
(rustc would reject the generated code). -/
def dispatch : List (Pat × Nat) → Nat → Option Nat
  | [], _ => none
  | (Pat.num k, s) :: rest, n => if k = n then some s else dispatch rest n
  | (Pat.wild, s) :: _, _ => some s

/-- `generate_switch`: rule set name ↦ number stored in `__state`. -/
def switchTable (inl : List Nat) (entries : List (String × Nat)) : List (String × Nat) :=
  entries.map fun e => (e.1, renumber inl e.2)

/-- Whether the code of `t` is inlined at a transition site (`ctx.is_inlined`). -/
def inlinedAt (inl : List Nat) (t : Nat) : Bool := inl.contains t

end Lexgen
