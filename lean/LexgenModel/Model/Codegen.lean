import LexgenModel.Model.Dfa
/-!
# Model of the numbering done by code generation (`dfa/codegen.rs`, `dfa/codegen/ctx.rs`)

States with exactly one predecessor are inlined at their transition sites and skipped in the
numbering of `match self.0.__state` arms.
-/
namespace Lexgen

/-- `n_inline_sites`: number of places in the code generated for `pred` where the code of its
successor `s` would be inlined. Characters with the same next state share one arm, and so do
ranges; the default (any) arm is also the fall-through of every accepting arm. -/
def inlineSites (pred : DState Trans) (s : Nat) : Nat :=
  let goes (t : Trans) : Bool := match t with | .goto n => n == s | .accept _ => false
  let isAcc (t : Trans) : Bool := match t with | .accept _ => true | .goto _ => false
  (if pred.chars.any (fun e => goes e.2) then 1 else 0) +
  (if pred.ranges.any (fun r => goes r.2.2) then 1 else 0) +
  (match pred.any with
   | some t =>
     if goes t then 1 + (pred.chars.filter (fun e => isAcc e.2)).length + (pred.ranges.filter (fun r => isAcc r.2.2)).length
     else 0
   | none => 0)

/-- Whether the code of state `i` is inlined at its only use site: not an initial state, exactly
one predecessor, reached from it by a single `match` arm. -/
def isInlined (d : DFA Trans) (i : Nat) : Bool :=
  !(d.st i).initial &&
  match (d.st i).preds with
  | [p] => inlineSites (d.st p) i == 1
  | _ => false

/-- `CgCtx::new`: sorted vector of the inlined states. -/
def inlinedStates (d : DFA Trans) : List Nat :=
  (List.range d.length).filter fun i => isInlined d i

/-- `CgCtx::renumber_state`: both results of the binary search carry the number of inlined
states below `s`. -/
def renumber (inl : List Nat) (s : Nat) : Nat := s - (inl.filter (· < s)).length

/-- Pattern of a `match self.0.__state` arm. -/
inductive Pat where
  | num (n : Nat)
  | wild
deriving Repr, DecidableEq, Inhabited

/-- `generate_state_arms`: (pattern, state whose code the arm holds), in arm order. -/
def stateArms (d : DFA Trans) : List (Pat × Nat) :=
  let inl := inlinedStates d
  ((List.range d.length).filter fun i => !isInlined d i).map fun i =>
    let n := renumber inl i
    (if n == d.length - inl.length - 1 then Pat.wild else Pat.num n, i)

/-- Rust `match` on the arms: first arm whose pattern matches. `none`: non-exhaustive match
(rustc would reject the generated code). -/
def dispatch : List (Pat × Nat) → Nat → Option Nat
  | [], _ => none
  | (Pat.num k, s) :: rest, n => if k = n then some s else dispatch rest n
  | (Pat.wild, s) :: _, _ => some s

/-- `generate_switch`: rule set name ↦ number stored in `__state`. -/
def switchTable (d : DFA Trans) (entries : List (String × Nat)) : List (String × Nat) :=
  let inl := inlinedStates d
  entries.map fun e => (e.1, renumber inl e.2)

/-- Whether the code of `t` is inlined at a transition site (`ctx.is_inlined`). -/
def inlinedAt (d : DFA Trans) (t : Nat) : Bool := isInlined d t

end Lexgen
