import LexgenModel.Model.Parser
import LexgenModel.Model.Compile
/-!
# Model of the parser of whole lexer definitions (`ast.rs`: `parse_regex_ctx`,
# `parse_rule_or_binding`, `parse_rule`, `make_lexer_parser`)

Tokens: `DTok` = the regex tokens `Tok` (embedded by `DTok.re`; identifiers, `?`, `(`, `)` are regex
tokens) plus the tokens that only occur outside regexes. `syn` hands the parser token *trees*; here
the tokens are a flat list with explicit delimiters, so a list whose delimiters do not nest properly
corresponds to no token stream at all (`parse_str` fails in the tokenizer: a `syn` error) — that is
the `balanced` check that `parseDef` performs first.

Opaque parts. `expr n` stands for one complete Rust expression or type (the real parser calls
`syn::Expr` / `syn::Type` there), `attr n` for one complete outer attribute `#[..]`, `vis n` for a
visibility (`pub`, `pub(crate)`, …). `Tok.ident s` stands for a non-keyword identifier (`let` and
`type` are the keywords `kwLet`, `kwType`); `rule` and `Error` are ordinary identifiers that the
parser compares by name.

How a regex ends: `parse_regex` stops at the first token that cannot continue a regex. `parseRegexD`
runs the existing `parseRegex` (`parse0` with the fuel of `Model/Parser.lean`) on the list in which
every non-regex token is replaced by `Tok.other`, and gives back the corresponding suffix of the
`DTok` list.

Deferred errors. When a parenthesised group is parsed (`syn::parenthesized!`) and its content is not
consumed entirely, `syn` does not fail there: it records an "unexpected token" error that is only
reported when the whole parse has finished successfully. So the parser goes on behind the group, and
a `panic!` that happens later wins over the recorded error. This matters for the two places where a
group's content is parsed without a loop: a parenthesised regex `( re junk )` and the state type
`( Type junk )`. It is modelled by `cleanGroups`, a pass over the rules part that removes from every
parenthesised group whatever the regex parser leaves unconsumed in it (innermost groups first) and
says whether it removed anything, followed by the strict parser of `Model/Parser.lean` (which wants a
group consumed entirely); `parseDef` reports the recorded error at the very end. (Brackets and braces
are parsed by loops that run until the group is empty, so they fail on the spot.)

The semantic action table is threaded through the parser like `&mut SemanticActionTable` is in
Rust: `SemanticActionTable::add` appends and returns the old length, so the k-th rule in source order
(rules of rule sets and top-level rules alike) gets index k.
-/
namespace Lexgen

deriving instance DecidableEq for SingleRule
deriving instance DecidableEq for RuleOrBinding
deriving instance DecidableEq for TopItem

/-- tokens of a lexer definition -/
inductive DTok where
  | re (t : Tok)                -- a regex token (also: identifiers, `?`, `(`, `)`, anything `other`)
  | comma | fatArrow | eq | semi | gt | kwLet | kwType | lbrace | rbrace | rarrow
  | expr (n : Nat)              -- an opaque Rust expression or type
  | attr (n : Nat)              -- an opaque outer attribute `#[..]`
  | vis (n : Nat)               -- an opaque visibility
deriving Repr, DecidableEq, Inhabited

/-- what the regex parser sees: a non-regex token is "whatever ends a regex" -/
def DTok.toTok : DTok → Tok
  | .re t => t
  | .comma => .other ","
  | .fatArrow => .other "=>"
  | .eq => .other "="
  | .semi => .other ";"
  | .gt => .other ">"
  | .kwLet => .other "let"
  | .kwType => .other "type"
  | .lbrace => .other "{"
  | .rbrace => .other "}"
  | .rarrow => .other "->"
  | .expr _ => .other "expr"
  | .attr _ => .other "attr"
  | .vis _ => .other "vis"

/-! ## Token trees: delimiters must nest -/

inductive Delim where
  | paren | bracket | brace
deriving Repr, DecidableEq, Inhabited

/-- effect of one token on the stack of open delimiters (`none`: a closing delimiter that does not
match) -/
def delimStep (stk : List Delim) : DTok → Option (List Delim)
  | .re .lparen => some (.paren :: stk)
  | .re .lbracket => some (.bracket :: stk)
  | .lbrace => some (.brace :: stk)
  | .re .rparen => match stk with | .paren :: s => some s | _ => none
  | .re .rbracket => match stk with | .bracket :: s => some s | _ => none
  | .rbrace => match stk with | .brace :: s => some s | _ => none
  | _ => some stk

/-- the token list is (the flattening of) a sequence of token trees -/
def balanced : List Delim → List DTok → Bool
  | stk, [] => stk.isEmpty
  | stk, t :: ts =>
    match delimStep stk t with
    | some s => balanced s ts
    | none => false

/-! ## Results -/

/-- `RuleRhs` (with its `RuleKind`): an entry of the semantic action table -/
inductive RuleRhs where
  | none                        -- `re,`
  | simple (e : Nat)            -- `re = expr,`
  | fallible (e : Nat)          -- `re =? expr,`
  | infallible (e : Nat)        -- `re => expr,`
deriving Repr, DecidableEq, Inhabited

def RuleRhs.kind : RuleRhs → RuleKind
  | .none => .none
  | .simple _ => .simple
  | .fallible _ => .fallible
  | .infallible _ => .infallible

/-- the header `attrs* vis? Name [(StateType)] -> TokenType ;` -/
structure Header where
  attrs : List Nat
  vis : Option Nat
  name : String
  stateTy : Option Nat
  tokenTy : Nat
deriving Repr, DecidableEq, Inhabited

/-- `Lexer` together with the semantic action table the parser filled -/
structure ParsedDef where
  header : Header
  /-- the rules; `SingleRule.rhs` is the index into `table` -/
  items : LexerDef
  /-- the semantic action table: entry k belongs to the k-th rule in source order -/
  table : List RuleRhs
  /-- the types of the `type Error = T;` items, in source order (`TopItem.errorType` has no field) -/
  errorTypes : List Nat
deriving Repr, DecidableEq, Inhabited

/-- the kind of every rule, in rule order -/
def ParsedDef.kinds (d : ParsedDef) : List RuleKind := d.table.map RuleRhs.kind

/-- a `syn` error (the macro reports a compile error) vs a Rust `panic!` -/
inductive ParseErr where
  | syn | panic
deriving Repr, DecidableEq, Inhabited

/-! ## Regexes inside a definition -/

/-- `parse_regex` on definition tokens: the existing regex parser, every non-regex token standing
for `Tok.other`; the rest is the corresponding suffix of the input -/
def parseRegexD (ts : List DTok) : Option (Regex × List DTok) :=
  match parseRegex (ts.map DTok.toTok) with
  | none => none
  | some (r, rest) => some (r, ts.drop (ts.length - rest.length))

/-! ## Groups whose content is not consumed entirely -/

def DTok.isOpen : DTok → Bool
  | .re .lparen | .re .lbracket | .lbrace => true
  | _ => false

def DTok.isClose : DTok → Bool
  | .re .rparen | .re .rbracket | .rbrace => true
  | _ => false

/-- behind an opening delimiter: the content of the group and what follows its closing delimiter
(`depth` counts the groups opened since; on a balanced list the closing delimiter at depth 0 is the
matching one) -/
def splitClose : Nat → List DTok → List DTok × List DTok
  | _, [] => ([], [])
  | depth, t :: ts =>
    if t.isClose then
      if depth = 0 then ([], ts)
      else let p := splitClose (depth - 1) ts; (t :: p.1, p.2)
    else if t.isOpen then let p := splitClose (depth + 1) ts; (t :: p.1, p.2)
    else let p := splitClose depth ts; (t :: p.1, p.2)

/-- Remove from every parenthesised group the tokens that `parse_regex` leaves unconsumed in it
(inner groups first), and say whether anything was removed. A group in which no regex can be parsed
stays as it is (parsing it fails on the spot). One round of fuel per token. -/
def cleanGroups : Nat → List DTok → List DTok × Bool
  | 0, ts => (ts, false)
  | _ + 1, [] => ([], false)
  | fuel + 1, .re .lparen :: ts =>
    let (inner, rest) := splitClose 0 ts
    let (inner, f1) := cleanGroups fuel inner
    let (rest, f2) := cleanGroups fuel rest
    match parseRegexD inner with
    | some (_, junk) =>
      (.re .lparen :: inner.take (inner.length - junk.length) ++ .re .rparen :: rest,
        f1 || f2 || !junk.isEmpty)
    | none => (.re .lparen :: inner ++ .re .rparen :: rest, f1 || f2)
  | fuel + 1, t :: ts =>
    let (ts, f) := cleanGroups fuel ts
    (t :: ts, f)

/-- `parse_regex_ctx`: `re [> re]` -/
def parseRegexCtx (ts : List DTok) : Option (Regex × Option Regex × List DTok) :=
  match parseRegexD ts with
  | none => none
  | some (re, .gt :: ts1) =>
    match parseRegexD ts1 with
    | none => none
    | some (c, ts2) => some (re, some c, ts2)
  | some (re, ts1) => some (re, none, ts1)

/-- the part of `parse_rule_or_binding` after the left-hand side: `,` | `=> expr,` | `= expr,` |
`=? expr,` (in Rust `=?` is `=` followed by an optional `?`); anything else is a `panic!` -/
def parseRhs : List DTok → Except ParseErr (RuleRhs × List DTok)
  | .comma :: ts => .ok (.none, ts)
  | .fatArrow :: .expr e :: .comma :: ts => .ok (.infallible e, ts)
  | .fatArrow :: _ => .error .syn
  | .eq :: .re .question :: .expr e :: .comma :: ts => .ok (.fallible e, ts)
  | .eq :: .re .question :: _ => .error .syn
  | .eq :: .expr e :: .comma :: ts => .ok (.simple e, ts)
  | .eq :: _ => .error .syn
  | _ => .error .panic

/-- `parse_rule_or_binding` (with the table: `semantic_action_table.add(rhs)`) -/
def parseRuleOrBinding (tbl : List RuleRhs) :
    List DTok → Except ParseErr (RuleOrBinding × List RuleRhs × List DTok)
  | .kwLet :: .re (.ident x) :: .eq :: ts =>
    match parseRegexD ts with
    | some (re, .semi :: rest) => .ok (.binding x re, tbl, rest)
    | _ => .error .syn
  | .kwLet :: _ => .error .syn
  | ts =>
    match parseRegexCtx ts with
    | none => .error .syn
    | some (re, ctx, ts1) =>
      match parseRhs ts1 with
      | .error e => .error e
      | .ok (rhs, rest) => .ok (.rule { re := re, ctx := ctx, rhs := tbl.length }, tbl ++ [rhs], rest)

/-- the loop `while !braced.is_empty() { rules.push(parse_rule_or_binding(..)?) }` up to and
including the closing brace (one round of fuel per rule) -/
def parseRuleSetBody :
    Nat → List RuleRhs → List DTok → Except ParseErr (List RuleOrBinding × List RuleRhs × List DTok)
  | 0, _, _ => .error .syn
  | _ + 1, tbl, .rbrace :: ts => .ok ([], tbl, ts)
  | fuel + 1, tbl, ts =>
    match parseRuleOrBinding tbl ts with
    | .error e => .error e
    | .ok (x, tbl1, ts1) =>
      match parseRuleSetBody fuel tbl1 ts1 with
      | .error e => .error e
      | .ok (xs, tbl2, ts2) => .ok (x :: xs, tbl2, ts2)

/-- "Consume optional trailing comma" -/
def skipComma : List DTok → List DTok
  | .comma :: ts => ts
  | ts => ts

/-- `parse_rule`; the result also says whether the item was a `type Error = T;` (and its `T`) -/
def parseTopItem (tbl : List RuleRhs) :
    List DTok → Except ParseErr (TopItem × Option Nat × List RuleRhs × List DTok)
  | .re (.ident s) :: ts =>
    if s = "rule" then
      match ts with
      | .re (.ident name) :: .lbrace :: ts1 =>
        match parseRuleSetBody ts1.length tbl ts1 with
        | .error e => .error e
        | .ok (rules, tbl1, ts2) => .ok (.ruleSet name rules, none, tbl1, skipComma ts2)
      | _ => .error .syn
    else .error .syn
  | .kwType :: .re (.ident s) :: ts =>
    if s = "Error" then
      match ts with
      | .eq :: .expr t :: .semi :: rest => .ok (.errorType, some t, tbl, rest)
      | _ => .error .syn
    else .error .panic
  | .kwType :: _ => .error .syn
  | ts =>
    match parseRuleOrBinding tbl ts with
    | .error e => .error e
    | .ok (x, tbl1, rest) => .ok (.rb x, none, tbl1, rest)

/-- the loop `while !input.is_empty() { rules.push(parse_rule(..)?) }` (one round of fuel per item) -/
def parseItems :
    Nat → List RuleRhs → List DTok → Except ParseErr (LexerDef × List RuleRhs × List Nat)
  | 0, _, _ => .error .syn
  | _ + 1, tbl, [] => .ok ([], tbl, [])
  | fuel + 1, tbl, ts =>
    match parseTopItem tbl ts with
    | .error e => .error e
    | .ok (x, ty, tbl1, ts1) =>
      match parseItems fuel tbl1 ts1 with
      | .error e => .error e
      | .ok (xs, tbl2, tys) => .ok (x :: xs, tbl2, ty.toList ++ tys)

/-! ## The header -/

/-- `syn::Attribute::parse_outer` -/
def parseAttrs : List DTok → List Nat × List DTok
  | .attr n :: ts => let (as, rest) := parseAttrs ts; (n :: as, rest)
  | ts => ([], ts)

def parseVis : List DTok → Option Nat × List DTok
  | .vis v :: ts => (some v, ts)
  | ts => (none, ts)

/-- `(StateType)` if the next token is a parenthesis; the flag says that something follows the type
inside the parentheses (a deferred error) -/
def parseStateTy : List DTok → Option (Option Nat × Bool × List DTok)
  | .re .lparen :: .expr t :: ts =>
    let (junk, rest) := splitClose 0 ts
    some (some t, !junk.isEmpty, rest)
  | .re .lparen :: _ => none
  | ts => some (none, false, ts)

/-- the header of `make_lexer_parser`; every failure is a `syn` error (the flag: a deferred one) -/
def parseHeader (ts : List DTok) : Option (Header × Bool × List DTok) :=
  let (attrs, ts) := parseAttrs ts
  let (vis, ts) := parseVis ts
  match ts with
  | .re (.ident name) :: ts =>
    match parseStateTy ts with
    | some (st, junk, .rarrow :: .expr tok :: .semi :: rest) =>
      some ({ attrs := attrs, vis := vis, name := name, stateTy := st, tokenTy := tok }, junk, rest)
    | _ => none
  | _ => none

/-- `make_lexer_parser(&mut table).parse_str(..)` on a token list: the tokenizer's check, the header,
the rules until the input is empty, and at the end the deferred errors -/
def parseDef (ts : List DTok) : Except ParseErr ParsedDef :=
  if balanced [] ts then
    match parseHeader ts with
    | none => .error .syn
    | some (h, junk1, rest) =>
      let (rest, junk2) := cleanGroups rest.length rest
      match parseItems (rest.length + 1) [] rest with
      | .error e => .error e
      | .ok (items, tbl, tys) =>
        if junk1 || junk2 then .error .syn
        else .ok { header := h, items := items, table := tbl, errorTypes := tys }
  else .error .syn

end Lexgen
