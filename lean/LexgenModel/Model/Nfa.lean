import LexgenModel.Model.Regex
/-!
# Model of `nfa.rs` and `regex_to_nfa.rs::add_re`

NFA states are numbered sequentially (`new_state`), as in the Rust code, so the numbering of the
model coincides with the macro's. Sets of states are sorted duplicate-free lists.
-/
namespace Lexgen

/-- Insert into a sorted duplicate-free list (`Set::insert` / `BTreeSet` order). -/
def setInsert (x : Nat) : List Nat → List Nat
  | [] => [x]
  | y :: ys => if x < y then x :: y :: ys else if x = y then y :: ys else y :: setInsert x ys

def setUnion (a b : List Nat) : List Nat := b.foldl (fun acc x => setInsert x acc) a

def setOfList (l : List Nat) : List Nat := setUnion [] l

/-- Value of an accepting state: semantic action index and optional right context index. -/
structure Acc where
  value : Nat
  ctx : Option Nat
deriving Repr, DecidableEq, Inhabited

structure NState where
  chars : List (Nat × List Nat) := []
  ranges : RangeMap (List Nat) := []
  eps : List Nat := []
  any : List Nat := []
  eoi : List Nat := []
  acc : Option Acc := none
deriving Repr, Inhabited

def NState.empty : NState := {}

abbrev NFA := List NState

namespace NFA

/-- `NFA::new`: one (initial) state. -/
def new : NFA := [NState.empty]

def st (n : NFA) (i : Nat) : NState := n.getD i NState.empty

/-- `new_state`: returns the NFA with a fresh state and its index. -/
def newState (n : NFA) : NFA × Nat := (n ++ [NState.empty], n.length)

def addCharTransition (n : NFA) (s c next : Nat) : Except CompileError NFA :=
  let st := n.st s
  match st.chars.find? (fun e => e.1 = c) with
  | some (_, tgts) =>
    if tgts.contains next then .error (.internal "add_char_transition")
    else .ok (n.modify s fun st =>
      { st with chars := st.chars.map fun e => if e.1 = c then (e.1, setInsert next e.2) else e })
  | none => .ok (n.modify s fun st => { st with chars := st.chars ++ [(c, [next])] })

def addRangeTransition (n : NFA) (s rs re next : Nat) : NFA :=
  n.modify s fun st => { st with ranges := RangeMap.insert setUnion st.ranges rs re [next] }

def addRangeTransitions (n : NFA) (s : Nat) (ranges : RangeMap Unit) (next : Nat) : NFA :=
  n.modify s fun st =>
    { st with ranges := RangeMap.insertRanges setUnion st.ranges (RangeMap.mapVals (fun _ => [next]) ranges) }

def addEmptyTransition (n : NFA) (s next : Nat) : Except CompileError NFA :=
  if (n.st s).eps.contains next then .error (.internal "add_empty_transition")
  else .ok (n.modify s fun st => { st with eps := setInsert next st.eps })

def addAnyTransition (n : NFA) (s next : Nat) : Except CompileError NFA :=
  if (n.st s).any.contains next then .error (.internal "add_any_transition")
  else .ok (n.modify s fun st => { st with any := setInsert next st.any })

def addEoiTransition (n : NFA) (s next : Nat) : Except CompileError NFA :=
  if (n.st s).eoi.contains next then .error (.internal "add_end_of_input_transition")
  else .ok (n.modify s fun st => { st with eoi := setInsert next st.eoi })

def makeStateAccepting (n : NFA) (s : Nat) (a : Acc) : Except CompileError NFA :=
  if (n.st s).acc.isSome then .error (.internal "make_state_accepting")
  else .ok (n.modify s fun st => { st with acc := some a })

/-- `Regex::String` loop of `add_re`. -/
def addStr : List Nat → Nat → Nat → NFA → Except CompileError NFA
  | [], _, _, n => .ok n
  | [c], cur, cont, n => n.addCharTransition cur c cont
  | c :: c' :: cs, cur, cont, n => do
    let (n, next) := n.newState
    let n ← n.addCharTransition cur c next
    addStr (c' :: cs) next cont n

/-- `Regex::CharSet` loop of `add_re` (with the repair: a repeated character is added once). -/
def addSet : List CharOrRange → List Nat → Nat → Nat → NFA → Except CompileError NFA
  | [], _, _, _, n => .ok n
  | .chr c :: items, seen, cur, cont, n =>
    if seen.contains c then addSet items seen cur cont n
    else do
      let n ← n.addCharTransition cur c cont
      addSet items (c :: seen) cur cont n
  | .rng s e :: items, seen, cur, cont, n =>
    addSet items seen cur cont (n.addRangeTransition cur s e cont)

/-- `add_re` on a variable-free regex (variables are substituted first, see `inlineVars`). -/
def addRe : Regex → Nat → Nat → NFA → Except CompileError NFA
  | .builtin name, cur, cont, n =>
    match builtinRanges name with
    | none => .error (.unknownBuiltin name)
    | some rs => .ok (n.addRangeTransitions cur (builtinRangeMap rs) cont)
  | .var name, _, _, _ => .error (.unboundVar name)
  | .chr c, cur, cont, n => n.addCharTransition cur c cont
  | .str cs, cur, cont, n => addStr cs cur cont n
  | .set items, cur, cont, n => addSet items [] cur cont n
  | .star r, cur, cont, n => do
    let (n, reInit) := n.newState
    let (n, reCont) := n.newState
    let n ← addRe r reInit reCont n
    let n ← n.addEmptyTransition cur cont
    let n ← n.addEmptyTransition cur reInit
    let n ← n.addEmptyTransition reCont cont
    n.addEmptyTransition reCont reInit
  | .plus r, cur, cont, n => do
    let (n, reInit) := n.newState
    let (n, reCont) := n.newState
    let n ← addRe r reInit reCont n
    let n ← n.addEmptyTransition cur reInit
    let n ← n.addEmptyTransition reCont cont
    n.addEmptyTransition reCont reInit
  | .opt r, cur, cont, n => do
    let (n, reInit) := n.newState
    let n ← addRe r reInit cont n
    let n ← n.addEmptyTransition cur cont
    n.addEmptyTransition cur reInit
  | .cat a b, cur, cont, n => do
    let (n, aCont) := n.newState
    let n ← addRe a cur aCont n
    addRe b aCont cont n
  | .alt a b, cur, cont, n => do
    let (n, aInit) := n.newState
    let (n, bInit) := n.newState
    let n ← addRe a aInit cont n
    let n ← addRe b bInit cont n
    let n ← n.addEmptyTransition cur aInit
    n.addEmptyTransition cur bInit
  | .any, cur, cont, n => n.addAnyTransition cur cont
  | .eoi, cur, cont, n => n.addEoiTransition cur cont
  | .diff a b, cur, cont, n => do
    let m ← regexToRangeMap (.diff a b)
    pure (n.addRangeTransitions cur m cont)

/-- `NFA::add_regex` on a variable-free regex. -/
def addRegex (n : NFA) (re : Regex) (ctx : Option Nat) (value : Nat) : Except CompileError NFA := do
  let (n, reAcc) := n.newState
  let n ← n.makeStateAccepting reAcc { value := value, ctx := ctx }
  let (n, reInit) := n.newState
  let n ← n.addEmptyTransition 0 reInit
  addRe re reInit reAcc n

/-- `compute_state_closure` worklist. Every state enters the worklist at most once, so
`fuel = n.length + initial.length + 1` suffices. -/
def closureAux (n : NFA) : Nat → List Nat → List Nat → List Nat
  | 0, _, cl => cl
  | _ + 1, [], cl => cl
  | fuel + 1, w :: wl, cl =>
    let (wl', cl') := (n.st w).eps.foldl
      (fun (acc : List Nat × List Nat) nx =>
        if acc.2.contains nx then acc else (nx :: acc.1, setInsert nx acc.2))
      (wl, cl)
    closureAux n fuel wl' cl'

def closure (n : NFA) (states : List Nat) : List Nat :=
  closureAux n (n.length + states.length + 1) states (setOfList states)

end NFA
end Lexgen
