import LexgenModel.Model.Regex
/-!
# Model of `char_range_gen::generate_char_fn_ranges` (repaired)
-/
namespace Lexgen

/-- `char::try_from(i).is_ok()` for `i ≤ char::MAX` -/
def isScalar (i : Nat) : Bool := !(0xD800 ≤ i && i ≤ 0xDFFF)

/-- The loop `for i in 0..=max`: `fuel` iterations remain, `acc` holds the ranges pushed so far
(most recent first), `cur` is `current_range_start`, `last` is `last_scalar`. After the loop an
open range is flushed. -/
def genLoop (f : Nat → Bool) : Nat → Nat → List (Nat × Nat) → Option Nat → Nat → List (Nat × Nat)
  | 0, _, acc, cur, last =>
    match cur with
    | some s => ((s, last) :: acc).reverse
    | none => acc.reverse
  | fuel + 1, i, acc, cur, last =>
    if !isScalar i then genLoop f fuel (i + 1) acc cur last
    else if f i then
      genLoop f fuel (i + 1) acc (match cur with | some s => some s | none => some i) i
    else
      match cur with
      | some s => genLoop f fuel (i + 1) ((s, last) :: acc) none i
      | none => genLoop f fuel (i + 1) acc none i

/-- `generate_char_fn_ranges` over the code points `0..=max`. -/
def generateRanges (f : Nat → Bool) (max : Nat) : List (Nat × Nat) :=
  genLoop f (max + 1) 0 [] none 0

/-- The scalar value after `x` (skipping the surrogate gap). -/
def nextScalar (x : Nat) : Nat := if x + 1 = 0xD800 then 0xE000 else x + 1

/-- Output contract of the generator, which the macro assumes of its tables: end points are
scalar values, ranges are non-inverted, strictly increasing and separated by at least one scalar
value (maximality), and nothing lies above `char::MAX`. -/
def canonicalRanges : List (Nat × Nat) → Bool
  | [] => true
  | [(s, e)] => isScalar s && isScalar e && decide (s ≤ e) && decide (e ≤ charMax)
  | (s1, e1) :: (s2, e2) :: rest =>
    isScalar s1 && isScalar e1 && decide (s1 ≤ e1) && decide (nextScalar e1 < s2) &&
    canonicalRanges ((s2, e2) :: rest)

end Lexgen
