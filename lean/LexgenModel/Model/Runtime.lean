import LexgenModel.Model.Codegen
/-!
# Model of the generated `Iterator::next` (`dfa/codegen.rs::generate_state` & co.) running on
`lexgen_util::Lexer`

The generated code is a function of the simplified DFA, the right-context DFAs and the entry
map; the model interprets those directly, following the generated text construct by construct.
-/
namespace Lexgen

structure Loc where
  line : Nat := 0
  col : Nat := 0
  byte : Nat := 0
deriving Repr, DecidableEq, Inhabited

def utf8Len (c : Nat) : Nat :=
  if c < 0x80 then 1 else if c < 0x800 then 2 else if c < 0x10000 then 3 else 4

/-- `Lexer::next`'s update of `current_match_end`. `width` is
`UnicodeWidthChar::width(c).unwrap_or(1)`. -/
def Loc.advance (width : Nat → Nat) (l : Loc) (c : Nat) : Loc :=
  if c = 10 then { line := l.line + 1, col := 0, byte := l.byte + utf8Len c }
  else if c = 9 then { l with col := l.col + 4, byte := l.byte + utf8Len c }
  else { l with col := l.col + width c, byte := l.byte + utf8Len c }

/-- `last_match` -/
structure Saved where
  start : Loc
  iter : List Nat
  action : Nat
  stop : Loc
deriving Repr, DecidableEq

/-- `lexgen_util::Lexer` (`iter_loc` is write-only and omitted; `input` is constant and lives
in `Config`). -/
structure LState (σ : Type) where
  state : Nat := 0
  done : Bool := false
  initial : Nat := 0
  user : σ
  iter : List Nat
  curStart : Loc := {}
  curEnd : Loc := {}
  last : Option Saved := none
deriving Repr

inductive Item (τ ε : Type) where
  | tok (s : Loc) (t : τ) (e : Loc)
  | invalid (l : Loc)
  | custom (l : Loc) (e : ε)
deriving Repr, DecidableEq

/-- Everything a semantic action can read through its handle. -/
structure View (σ : Type) where
  action : Nat
  startLoc : Loc
  endLoc : Loc
  /-- `match_()`: `none` when the slice would panic (iterator input) -/
  text : Option (List Nat)
  peek : Option Nat
  user : σ

/-- Everything a semantic action can do. `res = none` is `Continue`. -/
structure Effect (σ ρ : Type) where
  user : σ
  reset : Bool := false
  switchTo : Option String := none
  res : Option ρ := none

/-- Right-hand sides (`RuleRhs` × `RuleKind`). -/
inductive Action (σ τ ε : Type) where
  | skip                                              -- `re,`
  | simple (tok : τ)                                  -- `re = tok,`
  | infallible (f : View σ → Effect σ τ)              -- `re => f,`
  | fallible (f : View σ → Effect σ (Except ε τ))     -- `re =? f,`

/-- The wrappers of `generate_semantic_action_fns`, as one effect type. -/
def Action.run {σ τ ε : Type} (a : Action σ τ ε) (v : View σ) : Effect σ (Except ε τ) :=
  match a with
  | .skip => { user := v.user, reset := true, res := none }
  | .simple t => { user := v.user, res := some (.ok t) }
  | .infallible f => let e := f v; { user := e.user, reset := e.reset, switchTo := e.switchTo, res := e.res.map .ok }
  | .fallible f => f v

structure Config (σ τ ε : Type) where
  dfa : DFA Trans
  ctxs : List (DFA Nat)
  /-- rule set name ↦ entry state of the simplified DFA -/
  entries : List (String × Nat)
  /-- the states whose code the generator inlined at their use sites (sorted; any policy) -/
  inl : List Nat
  actions : Nat → Action σ τ ε
  width : Nat → Nat
  /-- chars of the `&str` input (`none`: constructed from an iterator, `input = ""`) -/
  input : Option (List Nat)

/-! ## Right-context functions (`generate_right_ctx_fns`) -/

def lookupChar {τ : Type} : List (Nat × τ) → Nat → Option τ
  | [], _ => none
  | (k, t) :: rest, c => if k = c then some t else lookupChar rest c

/-- `match char { char arms, range arms, _ => any }` -/
def lookupTrans {τ : Type} (s : DState τ) (c : Nat) : Option τ :=
  match lookupChar s.chars c with
  | some t => some t
  | none =>
    match RangeMap.lookup s.ranges c with
    | some t => some t
    | none => s.any

/-- After the iterator is exhausted the generated loop keeps following end-of-input
transitions; `fuel` = number of states (a longer chain is a cycle: the generated code loops). -/
def ctxEoi (d : DFA Nat) : Nat → Nat → Bool
  | 0, _ => false
  | fuel + 1, s =>
    if !(d.st s).accepting.isEmpty then true
    else match (d.st s).eoi with
      | some t => ctxEoi d fuel t
      | none => false

def ctxRun (d : DFA Nat) : Nat → List Nat → Bool
  | s, [] => ctxEoi d (d.length + 1) s
  | s, c :: rest =>
    if !(d.st s).accepting.isEmpty then true
    else match lookupTrans (d.st s) c with
      | some t => ctxRun d t rest
      | none => false

def ctxOK {σ τ ε : Type} (cfg : Config σ τ ε) (i : Nat) (iter : List Nat) : Bool :=
  ctxRun (cfg.ctxs.getD i []) 0 iter

/-! ## `generate_state` -/

/-- The `if ctx_i(iter.clone()) {..} else ..` chains of `set_accepting_state` and
`test_right_ctxs`: first entry without context or whose context passes. -/
def firstOK (ok : Nat → Bool) : List Acc → Option Nat
  | [] => none
  | a :: rest =>
    match a.ctx with
    | none => some a.value
    | some i => if ok i then some a.value else firstOK ok rest

/-- Byte offset ↦ char index, if on a char boundary. -/
def charIdxOfByte : List Nat → Nat → Option Nat
  | _, 0 => some 0
  | [], _ + 1 => none
  | c :: rest, b + 1 =>
    if utf8Len c ≤ b + 1 then (charIdxOfByte rest (b + 1 - utf8Len c)).map (· + 1) else none

/-- `&input[start..end]` -/
def sliceBytes (input : List Nat) (s e : Nat) : Option (List Nat) :=
  match charIdxOfByte input s, charIdxOfByte input e with
  | some i, some j => if i ≤ j then some ((input.drop i).take (j - i)) else none
  | _, _ => none

inductive StepOut (σ τ ε : Type) where
  /-- `return` from `next()` -/
  | ret (item : Option (Item τ ε)) (st : LState σ)
  /-- fall out of the `match`, go round the `loop` again -/
  | cont (st : LState σ)

variable {σ τ ε : Type}

def switchNum (cfg : Config σ τ ε) (name : String) : Nat :=
  ((switchTable cfg.inl cfg.entries).find? (·.1 = name)).elim 0 (·.2)

def mkView (cfg : Config σ τ ε) (action : Nat) (st : LState σ) : View σ :=
  { action := action
    startLoc := st.curStart
    endLoc := st.curEnd
    text := match cfg.input with
      | some inp => sliceBytes inp st.curStart.byte st.curEnd.byte
      | none => if st.curEnd.byte = 0 then some [] else none
    peek := st.iter.head?
    user := st.user }

/-- `generate_semantic_action_call`: call the action function, handle its result. -/
def callAction (cfg : Config σ τ ε) (action : Nat) (st : LState σ) : StepOut σ τ ε :=
  let eff := (cfg.actions action).run (mkView cfg action st)
  let st := { st with user := eff.user }
  let st := if eff.reset then { st with curStart := st.curEnd } else st
  let st := match eff.switchTo with
    | some r => let n := switchNum cfg r; { st with state := n, initial := n }
    | none => st
  match eff.res with
  | none => .cont { st with state := st.initial }
  | some r =>
    let st := { st with state := st.initial }
    let ms := st.curStart
    let me := st.curEnd
    let st := { st with curStart := st.curEnd }
    match r with
    | .ok t => .ret (some (.tok ms t me)) st
    | .error e => .ret (some (.custom ms e)) st

/-- What one pass through the state code decides, before the semantic action (if any) is
called: the generated code is `finish (scan ..)`. -/
inductive Outcome (σ : Type) where
  /-- call semantic action `a` in lexer state `st` (`generate_semantic_action_call`) -/
  | act (a : Nat) (st : LState σ)
  /-- `return Some(Err(InvalidToken at loc))`, lexer state `st` -/
  | err (loc : Loc) (st : LState σ)
  /-- `return None` -/
  | fin (st : LState σ)
  /-- fall out of the `match` with `__state` set (end-of-input `Trans::Trans`; excluded by well-formedness) -/
  | goto (st : LState σ)

def finish (cfg : Config σ τ ε) : Outcome σ → StepOut σ τ ε
  | .act a st => callAction cfg a st
  | .err loc st => .ret (some (.invalid loc)) st
  | .fin st => .ret none st
  | .goto st => .cont st

/-- `generate_rhs_code`: `reset_accepting_state()` then the call. -/
def rhsCode (action : Nat) (st : LState σ) : Outcome σ :=
  .act action { st with last := none }

/-- The `fail` closure of `generate_state`. -/
def failCode (d : DState Trans) (st : LState σ) : Outcome σ :=
  if d.backtrack || !d.accepting.isEmpty then
    -- `self.0.backtrack()`
    match st.last with
    | none =>
      .err st.curStart { st with last := none, state := 0, initial := 0, curStart := st.curEnd }
    | some sv =>
      .act sv.action
        { st with last := none, done := false, curStart := sv.start, curEnd := sv.stop, iter := sv.iter }
  else
    .err st.curStart { st with curStart := st.curEnd, state := 0, initial := 0 }

/-- `test_right_ctxs(accs, default)` -/
def testRightCtxs (cfg : Config σ τ ε) (accs : List Acc) (st : LState σ)
    (dflt : Unit → Outcome σ) : Outcome σ :=
  match firstOK (fun i => ctxOK cfg i st.iter) accs with
  | some a => rhsCode a st
  | none => dflt ()

/-- The `set_accepting_state` chain at the top of a state's code. -/
def setAccepting (cfg : Config σ τ ε) (d : DState Trans) (st : LState σ) : LState σ :=
  match firstOK (fun i => ctxOK cfg i st.iter) d.accepting with
  | some a => { st with last := some { start := st.curStart, iter := st.iter, action := a, stop := st.curEnd } }
  | none => st

/-- Code of state `s` (original index in the simplified DFA), executed with the iterator at
`iter` (= `st.iter`), up to the point where a semantic action is called or an item returned.
Structural recursion on the iterator: a transition to an inlined state runs its code at once; a
transition to any other state stores its number in `__state` and goes round the loop, which
dispatches to that state's arm — `nextState` resolves both. -/
def scan (cfg : Config σ τ ε) (nextState : Nat → Option Nat) :
    Nat → List Nat → LState σ → Outcome σ
  | s, [], st =>
    let d := cfg.dfa.st s
    let st := setAccepting cfg d { st with iter := [] }
    -- `self.0.next()` returned `None`
    let st := { st with done := true }
    let dflt : Unit → Outcome σ := fun _ =>
      if s = 0 then .fin st else failCode d st
    match d.eoi with
    | some (.accept accs) => testRightCtxs cfg accs st dflt
    | some (.goto t) => .goto { st with state := renumber cfg.inl t }
    | none => dflt ()
  | s, c :: rest, st =>
    let d := cfg.dfa.st s
    let st := setAccepting cfg d { st with iter := c :: rest }
    -- `self.0.next()` returned `Some(c)`
    let st := { st with iter := rest, curEnd := st.curEnd.advance cfg.width c }
    let fail : Unit → Outcome σ := fun _ => failCode d st
    let goto (t : Nat) : Outcome σ :=
      if inlinedAt cfg.inl t then scan cfg nextState t rest st
      else
        let n := renumber cfg.inl t
        match nextState n with
        | some t' => scan cfg nextState t' rest { st with state := n }
        | none => .goto { st with state := n }
    let dflt : Unit → Outcome σ := fun _ =>
      match d.any with
      | some (.goto t) => goto t
      | some (.accept accs) => testRightCtxs cfg accs st fail
      | none => fail ()
    let tr := match lookupChar d.chars c with
      | some t => some t
      | none => RangeMap.lookup d.ranges c
    match tr with
    | some (.goto t) => goto t
    | some (.accept accs) => testRightCtxs cfg accs st dflt
    | none => dflt ()

/-- Code of a `match self.0.__state` arm. -/
def execState (cfg : Config σ τ ε) (nextState : Nat → Option Nat) (s : Nat) (iter : List Nat)
    (st : LState σ) : StepOut σ τ ε :=
  finish cfg (scan cfg nextState s iter st)

/-- The `loop { if done {return None}; match __state {..} }` of `Iterator::next`. Each round
either returns or runs an action that consumed at least one character (or handled the end of
input), so `fuel = |iter| + 2` rounds suffice for non-nullable rules. `none`: out of fuel
(the generated code would loop) or non-exhaustive `match`. -/
def nextLoop (cfg : Config σ τ ε) : Nat → LState σ → Option (Option (Item τ ε) × LState σ)
  | 0, _ => none
  | fuel + 1, st =>
    if st.done then some (none, st)
    else
      let arms := stateArms cfg.dfa cfg.inl
      match dispatch arms st.state with
      | none => none
      | some s =>
        match execState cfg (dispatch arms) s st.iter st with
        | .ret item st' => some (item, st')
        | .cont st' => nextLoop cfg fuel st'

def next (cfg : Config σ τ ε) (st : LState σ) : Option (Option (Item τ ε) × LState σ) :=
  nextLoop cfg (st.iter.length + 2) st

/-- The four constructors differ in `user` and `cfg.input` only. -/
def initState (user : σ) (chars : List Nat) : LState σ := { user := user, iter := chars }

/-- `n` calls of `next()`. -/
def runN (cfg : Config σ τ ε) : Nat → LState σ → List (Option (Option (Item τ ε))) × LState σ
  | 0, st => ([], st)
  | n + 1, st =>
    match next cfg st with
    | none => ([none], st)
    | some (item, st') =>
      let (items, st'') := runN cfg n st'
      (some item :: items, st'')

end Lexgen
