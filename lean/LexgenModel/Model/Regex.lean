import LexgenModel.Model.RangeMap
import LexgenModel.Generated.Tables
/-!
# Model of the regex AST (`ast.rs`) and of class evaluation (`regex_to_nfa.rs::regex_to_range_map`)
-/
namespace Lexgen

/-- `char::MAX` -/
def charMax : Nat := 0x10FFFF

inductive CharOrRange where
  | chr (c : Nat)
  | rng (s e : Nat)
deriving Repr, DecidableEq, Inhabited

inductive Regex where
  | builtin (name : String)
  | var (name : String)
  | chr (c : Nat)
  | str (cs : List Nat)
  | set (items : List CharOrRange)
  | star (r : Regex)
  | plus (r : Regex)
  | opt (r : Regex)
  | cat (a b : Regex)
  | alt (a b : Regex)
  | any
  | eoi
  | diff (a b : Regex)
deriving Repr, DecidableEq, Inhabited

/-- Expansion-time failures (panics and `syn` errors of the macro). -/
inductive CompileError where
  | unboundVar (name : String)
  | unknownBuiltin (name : String)
  | notAClass (what : String)          -- operand of `#` that is not a character class
  | varCycle (name : String)           -- model only: the macro overflows its stack
  | dupVar (name : String)
  | dupRuleSet (name : String)
  | dupErrorType
  | mixedRules
  | firstNotInit
  | internal (what : String)           -- a modelled `assert!` fired
deriving Repr, DecidableEq, Inhabited

abbrev Bindings := List (String × Regex)

def Bindings.find? (b : Bindings) (name : String) : Option Regex :=
  match b with
  | [] => none
  | (n, r) :: rest => if n = name then some r else Bindings.find? rest name

/-- `get_builtin_regex`: first entry of `BUILTIN_RANGES` with that name. -/
def builtinRanges (name : String) : Option (List (Nat × Nat)) :=
  (Generated.builtins.find? (fun e => e.1 = name)).map (fun e => e.2.2)

/-- Substitution of variables (the macro does it lazily, at the use site, with the bindings in
scope where the rule is compiled). `fuel` bounds the nesting depth of variable references; a
cyclic definition (which overflows the macro's stack) runs out of fuel. -/
def inlineVars (b : Bindings) : Nat → Regex → Except CompileError Regex
  | _, .builtin n => .ok (.builtin n)
  | 0, .var n => .error (.varCycle n)
  | fuel + 1, .var n =>
    match b.find? n with
    | none => .error (.unboundVar n)
    | some r => inlineVars b fuel r
  | _, .chr c => .ok (.chr c)
  | _, .str cs => .ok (.str cs)
  | _, .set items => .ok (.set items)
  | fuel, .star r => do let r' ← inlineVars b fuel r; pure (.star r')
  | fuel, .plus r => do let r' ← inlineVars b fuel r; pure (.plus r')
  | fuel, .opt r => do let r' ← inlineVars b fuel r; pure (.opt r')
  | fuel, .cat x y => do let x' ← inlineVars b fuel x; let y' ← inlineVars b fuel y; pure (.cat x' y')
  | fuel, .alt x y => do let x' ← inlineVars b fuel x; let y' ← inlineVars b fuel y; pure (.alt x' y')
  | _, .any => .ok .any
  | _, .eoi => .ok .eoi
  | fuel, .diff x y => do let x' ← inlineVars b fuel x; let y' ← inlineVars b fuel y; pure (.diff x' y')

def unitMerge : Unit → Unit → Unit := fun _ _ => ()

def builtinRangeMap (ranges : List (Nat × Nat)) : RangeMap Unit :=
  ranges.map fun (s, e) => (s, e, ())

/-- `regex_to_range_map` on a variable-free regex. -/
def regexToRangeMap : Regex → Except CompileError (RangeMap Unit)
  | .builtin n =>
    match builtinRanges n with
    | none => .error (.unknownBuiltin n)
    | some rs => .ok (builtinRangeMap rs)
  | .var n => .error (.unboundVar n)
  | .chr c => .ok (RangeMap.insert unitMerge [] c c ())
  | .str _ => .error (.notAClass "string")
  | .set items =>
    .ok (items.foldl (fun m item =>
      match item with
      | .chr c => RangeMap.insert unitMerge m c c ()
      | .rng s e => RangeMap.insert unitMerge m s e ()) [])
  | .star _ => .error (.notAClass "*")
  | .plus _ => .error (.notAClass "+")
  | .opt _ => .error (.notAClass "?")
  | .cat _ _ => .error (.notAClass "concatenation")
  | .alt a b => do
    let m1 ← regexToRangeMap a
    let m2 ← regexToRangeMap b
    pure (RangeMap.insertRanges unitMerge m1 m2)
  | .any => .ok (RangeMap.insert unitMerge [] 0 charMax ())
  | .eoi => .error (.notAClass "$")
  | .diff a b => do
    let m1 ← regexToRangeMap a
    let m2 ← regexToRangeMap b
    pure (RangeMap.removeRanges m1 m2)

end Lexgen
