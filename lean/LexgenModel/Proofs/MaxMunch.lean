import LexgenModel.Spec.Scan
/-!
# Maximal munch of the plain scan

`scanPlain` (a DFA run with a saved last match) returns the `candLe`-greatest match `Cand` of the
remaining input, and reports an error exactly when there is no match.
-/
namespace Lexgen

variable {σ τ ε : Type}

/-! ## Transitions and their targets -/

theorem lookupChar_mem {τ : Type} (l : List (Nat × τ)) (c : Nat) (t : τ)
    (h : lookupChar l c = some t) : t ∈ l.map (·.2) := by
  induction l with
  | nil => simp [lookupChar] at h
  | cons e rest ih =>
    obtain ⟨k, v⟩ := e
    simp only [lookupChar] at h
    by_cases hk : k = c
    · simp only [hk, if_true, Option.some.injEq] at h
      simp [h]
    · simp only [hk, if_false] at h
      simp [ih h]

theorem rangeLookup_mem {τ : Type} (l : RangeMap τ) (c : Nat) (t : τ)
    (h : RangeMap.lookup l c = some t) : t ∈ l.map (·.2.2) := by
  induction l with
  | nil => simp [RangeMap.lookup] at h
  | cons e rest ih =>
    obtain ⟨s, e, v⟩ := e
    simp only [RangeMap.lookup] at h
    by_cases hk : s ≤ c ∧ c ≤ e
    · simp only [hk, and_self, if_true, Option.some.injEq] at h
      simp [h]
    · simp only [hk, if_false] at h
      simp [ih h]

theorem lookupTrans_mem {τ : Type} (s : DState τ) (c : Nat) (t : τ)
    (h : lookupTrans s c = some t) : t ∈ DFA.succs s := by
  unfold lookupTrans at h
  unfold DFA.succs
  cases h1 : lookupChar s.chars c with
  | some t1 =>
    simp only [h1, Option.some.injEq] at h
    subst h
    simp [lookupChar_mem _ _ _ h1]
  | none =>
    simp only [h1] at h
    cases h2 : RangeMap.lookup s.ranges c with
    | some t2 =>
      simp only [h2, Option.some.injEq] at h
      subst h
      have := rangeLookup_mem _ _ _ h2
      simp only [List.mem_append]
      exact Or.inl (Or.inl (Or.inr this))
    | none =>
      simp only [h2] at h
      simp [h]

theorem lookupTrans_empty {τ : Type} (c : Nat) : lookupTrans (DState.empty : DState τ) c = none := by
  simp [lookupTrans, DState.empty, lookupChar, RangeMap.lookup]

/-- Under `targetsOK`, every `goto` transition leads to a state of the machine. -/
theorem goto_lt (d : DFA Trans) (h : targetsOK d = true) (s c t : Nat)
    (ht : lookupTrans (d.st s) c = some (.goto t)) : t < d.length := by
  by_cases hs : s < d.length
  · have hmem : d.st s ∈ d := by
      simp only [DFA.st, List.getD_eq_getElem?_getD, List.getElem?_eq_getElem hs, Option.getD_some]
      exact List.getElem_mem hs
    simp only [targetsOK, List.all_eq_true] at h
    have h1 := h _ hmem
    have h2 : t ∈ gotoSuccs (d.st s) := by
      simp only [gotoSuccs, List.mem_filterMap]
      exact ⟨_, lookupTrans_mem _ _ _ ht, rfl⟩
    have h3 := h1 _ h2
    simp only [Bool.and_eq_true, decide_eq_true_eq] at h3
    exact h3.1
  · have : d.st s = DState.empty := by
      simp only [DFA.st, List.getD_eq_getElem?_getD]
      rw [List.getElem?_eq_none (by omega)]
      rfl
    rw [this, lookupTrans_empty] at ht
    cases ht

/-! ## Unfolding `scanPlain` -/

/-- The `goto` closure of `scanPlain`. -/
def gotoK (cfg : Config σ τ ε) (ns : Nat → Option Nat) (rest : List Nat) (st : LState σ) (t : Nat) :
    Outcome σ :=
  if inlinedAt cfg.inl t then scanPlain cfg ns t rest st
  else
    match ns (renumber cfg.inl t) with
    | some t' => scanPlain cfg ns t' rest { st with state := renumber cfg.inl t }
    | none => .goto { st with state := renumber cfg.inl t }

/-- lexer state after `set_accepting_state` and `next()` returning `c` -/
def stepSt (cfg : Config σ τ ε) (s : Nat) (c : Nat) (rest : List Nat) (st : LState σ) : LState σ :=
  { setAccepting cfg (cfg.dfa.st s) { st with iter := c :: rest } with
    iter := rest, curEnd := (setAccepting cfg (cfg.dfa.st s) { st with iter := c :: rest }).curEnd.advance cfg.width c }

theorem scanPlain_cons (cfg : Config σ τ ε) (ns : Nat → Option Nat) (s c : Nat) (rest : List Nat)
    (st : LState σ) :
    scanPlain cfg ns s (c :: rest) st =
      match lookupTrans (cfg.dfa.st s) c with
      | some (.goto t) => gotoK cfg ns rest (stepSt cfg s c rest st) t
      | some (.accept accs) =>
        testRightCtxs cfg accs (stepSt cfg s c rest st) (fun _ => failPlain (stepSt cfg s c rest st))
      | none => failPlain (stepSt cfg s c rest st) := by
  rfl

/-- lexer state after `set_accepting_state` and `next()` returning `None` -/
def endSt (cfg : Config σ τ ε) (s : Nat) (st : LState σ) : LState σ :=
  { setAccepting cfg (cfg.dfa.st s) { st with iter := [] } with done := true }

theorem scanPlain_nil (cfg : Config σ τ ε) (ns : Nat → Option Nat) (s : Nat) (st : LState σ) :
    scanPlain cfg ns s [] st =
      match (cfg.dfa.st s).eoi with
      | some (.accept accs) =>
        testRightCtxs cfg accs (endSt cfg s st) (fun _ => if s = 0 then .fin (endSt cfg s st) else failPlain (endSt cfg s st))
      | some (.goto t) => .goto { endSt cfg s st with state := renumber cfg.inl t }
      | none => if s = 0 then .fin (endSt cfg s st) else failPlain (endSt cfg s st) := by
  rfl

/-! ## Matches, one step at a time -/

theorem toCfg_goto (t : Nat) : (Target.toCfg (Trans.goto t) : Cfg) = .st t := rfl
theorem toCfg_accept (accs : List Acc) : (Target.toCfg (Trans.accept accs) : Cfg) = .term accs := rfl

theorem reach_nil (d : DFA Trans) (c : Cfg) : reach d c [] = some c := by
  cases c <;> rfl

theorem reach_term (d : DFA Trans) (accs : List Acc) (w : List Nat) (c : Cfg)
    (h : reach d (.term accs) w = some c) : w = [] ∧ c = .term accs := by
  cases w with
  | nil => rw [reach_nil] at h; exact ⟨rfl, (Option.some.inj h).symm⟩
  | cons x w => simp [reach] at h

theorem cand_zero_intro (cfg : Config σ τ ε) (s : Nat) (iter : List Nat) (a : Nat)
    (h : firstOK (fun i => ctxOK cfg i iter) (cfg.dfa.st s).accepting = some a) :
    Cand cfg s iter 0 a false := by
  refine ⟨Nat.zero_le _, .st s, ?_, ?_⟩
  · simp [reach_nil]
  · simpa [selAt, Auto.acc] using h

theorem cand_zero_inv (cfg : Config σ τ ε) (s : Nat) (iter : List Nat) (a : Nat)
    (h : Cand cfg s iter 0 a false) :
    firstOK (fun i => ctxOK cfg i iter) (cfg.dfa.st s).accepting = some a := by
  obtain ⟨_, c, hc, hsel⟩ := h
  simp only [List.take_zero, reach_nil, Option.some.injEq] at hc
  subst hc
  simpa [selAt, Auto.acc] using hsel

theorem cand_zero_eoi_inv (cfg : Config σ τ ε) (s : Nat) (iter : List Nat) (a : Nat)
    (h : Cand cfg s iter 0 a true) :
    iter = [] ∧ ∃ accs, (cfg.dfa.st s).eoi = some (.accept accs) ∧
      firstOK (fun i => ctxOK cfg i []) accs = some a := by
  obtain ⟨_, c, hc, hsel⟩ := h
  simp only [List.take_zero, reach_nil, Option.some.injEq] at hc
  subst hc
  simp only [if_true] at hsel
  obtain ⟨hlen, t, accs, ht, he, hf⟩ := hsel
  cases ht
  exact ⟨List.eq_nil_of_length_eq_zero hlen.symm, accs, he, hf⟩

theorem cand_eoi_intro (cfg : Config σ τ ε) (s : Nat) (a : Nat) (accs : List Acc)
    (he : (cfg.dfa.st s).eoi = some (.accept accs))
    (hf : firstOK (fun i => ctxOK cfg i []) accs = some a) : Cand cfg s [] 0 a true := by
  refine ⟨Nat.le_refl _, .st s, rfl, ?_⟩
  simp only [if_true]
  exact ⟨rfl, s, accs, rfl, he, hf⟩

theorem cand_nil_inv (cfg : Config σ τ ε) (s k a : Nat) (e : Bool) (h : Cand cfg s [] k a e) :
    k = 0 := by
  have := h.1
  simpa using this

theorem cand_succ_goto (cfg : Config σ τ ε) (s c t : Nat) (rest : List Nat) (k a : Nat) (e : Bool)
    (ht : lookupTrans (cfg.dfa.st s) c = some (.goto t)) :
    Cand cfg s (c :: rest) (k + 1) a e ↔ Cand cfg t rest k a e := by
  simp only [Cand, List.take_succ_cons, List.drop_succ_cons, List.length_cons, reach, ht, toCfg_goto,
    Nat.add_le_add_iff_right, Nat.add_right_cancel_iff]

theorem cand_succ_none (cfg : Config σ τ ε) (s c : Nat) (rest : List Nat) (k a : Nat) (e : Bool)
    (ht : lookupTrans (cfg.dfa.st s) c = none) : ¬ Cand cfg s (c :: rest) (k + 1) a e := by
  intro h
  obtain ⟨_, c', hc, _⟩ := h
  simp [reach, ht] at hc

theorem cand_succ_accept_inv (cfg : Config σ τ ε) (s c : Nat) (rest : List Nat) (k a : Nat) (e : Bool)
    (accs : List Acc) (ht : lookupTrans (cfg.dfa.st s) c = some (.accept accs))
    (h : Cand cfg s (c :: rest) (k + 1) a e) :
    k = 0 ∧ e = false ∧ firstOK (fun i => ctxOK cfg i rest) accs = some a := by
  obtain ⟨hle, c', hc, hsel⟩ := h
  simp only [List.take_succ_cons, reach, ht, toCfg_accept] at hc
  obtain ⟨hw, hc'⟩ := reach_term _ _ _ _ hc
  subst hc'
  have hk : k = 0 := by
    cases k with
    | zero => rfl
    | succ k =>
      cases rest with
      | nil => simp at hle
      | cons x r => simp at hw
  subst hk
  cases e with
  | true =>
    simp only [if_true] at hsel
    obtain ⟨_, t, accs', ht', _⟩ := hsel
    cases ht'
  | false =>
    refine ⟨rfl, rfl, ?_⟩
    simpa [selAt, Auto.acc] using hsel

theorem cand_succ_accept_intro (cfg : Config σ τ ε) (s c : Nat) (rest : List Nat) (a : Nat)
    (accs : List Acc) (ht : lookupTrans (cfg.dfa.st s) c = some (.accept accs))
    (hf : firstOK (fun i => ctxOK cfg i rest) accs = some a) :
    Cand cfg s (c :: rest) 1 a false := by
  refine ⟨by simp, .term accs, ?_, ?_⟩
  · simp [reach, ht, toCfg_accept]
  · simpa [selAt, Auto.acc] using hf

/-! ## Lexer-state bookkeeping -/

/-- the state handed to the action for a match of length `k` -/
def resSt (w : Nat → Nat) (st : LState σ) (k : Nat) (e : Bool) (n : Nat) : LState σ :=
  { advanceBy w st k with last := none, done := e, state := n }

/-- `backtrack()` with a saved match -/
def Fallback (st : LState σ) (a : Nat) (st' : LState σ) : Prop :=
  ∃ sv n, st.last = some sv ∧ a = sv.action ∧
    st' = { state := n, done := false, initial := st.initial, user := st.user, iter := sv.iter,
            curStart := sv.start, curEnd := sv.stop, last := none }

/-- `backtrack()` without a saved match -/
def FailErr (st : LState σ) (loc : Loc) (st' : LState σ) : Prop :=
  st.last = none ∧ loc = st.curStart ∧ st'.state = 0 ∧ st'.initial = 0 ∧ st'.curStart = st'.curEnd ∧
    st'.last = none ∧ st'.user = st.user

theorem failPlain_act (st : LState σ) (a : Nat) (st' : LState σ) (h : failPlain st = .act a st') :
    Fallback st a st' := by
  unfold failPlain at h
  cases hl : st.last with
  | none => simp [hl] at h
  | some sv =>
    simp only [hl, Outcome.act.injEq] at h
    exact ⟨sv, st.state, hl, h.1.symm, h.2.symm⟩

theorem failPlain_err (st : LState σ) (loc : Loc) (st' : LState σ) (h : failPlain st = .err loc st') :
    FailErr st loc st' := by
  unfold failPlain at h
  cases hl : st.last with
  | none =>
    simp only [hl, Outcome.err.injEq] at h
    obtain ⟨h1, h2⟩ := h
    subst h2
    exact ⟨hl, h1.symm, rfl, rfl, rfl, rfl, rfl⟩
  | some sv => simp [hl] at h

theorem with_iter_self (st : LState σ) (l : List Nat) (h : st.iter = l) : { st with iter := l } = st := by
  subst h; rfl

theorem setAccepting_last (cfg : Config σ τ ε) (d : DState Trans) (st : LState σ) :
    (setAccepting cfg d st).last =
      match firstOK (fun i => ctxOK cfg i st.iter) d.accepting with
      | some a => some { start := st.curStart, iter := st.iter, action := a, stop := st.curEnd }
      | none => st.last := by
  unfold setAccepting
  cases firstOK (fun i => ctxOK cfg i st.iter) d.accepting <;> rfl

theorem setAccepting_fields (cfg : Config σ τ ε) (d : DState Trans) (st : LState σ) :
    (setAccepting cfg d st).state = st.state ∧ (setAccepting cfg d st).done = st.done ∧
    (setAccepting cfg d st).initial = st.initial ∧ (setAccepting cfg d st).user = st.user ∧
    (setAccepting cfg d st).iter = st.iter ∧ (setAccepting cfg d st).curStart = st.curStart ∧
    (setAccepting cfg d st).curEnd = st.curEnd := by
  unfold setAccepting
  cases firstOK (fun i => ctxOK cfg i st.iter) d.accepting <;> simp

/-- A fallback to the saved match after `set_accepting_state` at `s`: either the match saved
there (length 0), or the one saved before. -/
theorem fallback_setAccepting (cfg : Config σ τ ε) (s : Nat) (st st1 : LState σ) (a : Nat) (st' : LState σ)
    (hl : st1.last = (setAccepting cfg (cfg.dfa.st s) st).last) (hu : st1.user = st.user)
    (hi : st1.initial = st.initial) (h : Fallback st1 a st') :
    (firstOK (fun i => ctxOK cfg i st.iter) (cfg.dfa.st s).accepting = some a ∧
      ∃ n, st' = resSt cfg.width st 0 false n) ∨
    (firstOK (fun i => ctxOK cfg i st.iter) (cfg.dfa.st s).accepting = none ∧ Fallback st a st') := by
  obtain ⟨sv, n, hsv, ha, hst'⟩ := h
  rw [hl, setAccepting_last] at hsv
  cases hf : firstOK (fun i => ctxOK cfg i st.iter) (cfg.dfa.st s).accepting with
  | some a0 =>
    simp only [hf, Option.some.injEq] at hsv
    subst hsv
    simp only at ha
    subst ha
    refine Or.inl ⟨rfl, n, ?_⟩
    rw [hst']
    simp [resSt, advanceBy, hu, hi]
  | none =>
    simp only [hf] at hsv
    refine Or.inr ⟨rfl, sv, n, hsv, ha, ?_⟩
    rw [hst', hu, hi]

theorem failErr_setAccepting (cfg : Config σ τ ε) (s : Nat) (st st1 : LState σ) (loc : Loc) (st' : LState σ)
    (hl : st1.last = (setAccepting cfg (cfg.dfa.st s) st).last) (hu : st1.user = st.user)
    (hc : st1.curStart = st.curStart) (h : FailErr st1 loc st') :
    firstOK (fun i => ctxOK cfg i st.iter) (cfg.dfa.st s).accepting = none ∧ FailErr st loc st' := by
  obtain ⟨h1, h2, h3, h4, h5, h6, h7⟩ := h
  rw [hl, setAccepting_last] at h1
  cases hf : firstOK (fun i => ctxOK cfg i st.iter) (cfg.dfa.st s).accepting with
  | some a0 => simp [hf] at h1
  | none =>
    simp only [hf] at h1
    exact ⟨rfl, h1, hc ▸ h2, h3, h4, h5, h6, hu ▸ h7⟩

theorem resSt_step (w : Nat → Nat) (st st2 : LState σ) (c : Nat) (rest : List Nat)
    (hit : st.iter = c :: rest) (h2 : st2.iter = rest) (hu : st2.user = st.user)
    (hi : st2.initial = st.initial) (hcs : st2.curStart = st.curStart)
    (hce : st2.curEnd = st.curEnd.advance w c) (k : Nat) (e : Bool) (n : Nat) :
    resSt w st2 k e n = resSt w st (k + 1) e n := by
  simp [resSt, advanceBy, hit, h2, hu, hi, hcs, hce]

theorem stepSt_fields (cfg : Config σ τ ε) (s c : Nat) (rest : List Nat) (st : LState σ)
    (hit : st.iter = c :: rest) :
    (stepSt cfg s c rest st).last = (setAccepting cfg (cfg.dfa.st s) st).last ∧
    (stepSt cfg s c rest st).done = st.done ∧
    (stepSt cfg s c rest st).initial = st.initial ∧ (stepSt cfg s c rest st).user = st.user ∧
    (stepSt cfg s c rest st).iter = rest ∧ (stepSt cfg s c rest st).curStart = st.curStart ∧
    (stepSt cfg s c rest st).curEnd = st.curEnd.advance cfg.width c := by
  unfold stepSt
  rw [with_iter_self st _ hit]
  obtain ⟨_, h2, h3, h4, _, h6, h7⟩ := setAccepting_fields cfg (cfg.dfa.st s) st
  exact ⟨rfl, h2, h3, h4, rfl, h6, by simp only [h7]⟩

theorem endSt_fields (cfg : Config σ τ ε) (s : Nat) (st : LState σ) (hit : st.iter = []) :
    (endSt cfg s st).last = (setAccepting cfg (cfg.dfa.st s) st).last ∧
    (endSt cfg s st).done = true ∧ (endSt cfg s st).state = st.state ∧
    (endSt cfg s st).initial = st.initial ∧ (endSt cfg s st).user = st.user ∧
    (endSt cfg s st).iter = [] ∧ (endSt cfg s st).curStart = st.curStart ∧
    (endSt cfg s st).curEnd = st.curEnd := by
  unfold endSt
  rw [with_iter_self st _ hit]
  obtain ⟨h1, _, h3, h4, h5, h6, h7⟩ := setAccepting_fields cfg (cfg.dfa.st s) st
  exact ⟨rfl, rfl, h1, h3, h4, h5.trans hit, h6, h7⟩

/-- Whether or not the target is inlined, a `goto` continues with the target's code; only the
stored state number differs. -/
theorem gotoK_eq (cfg : Config σ τ ε) (ns : Nat → Option Nat)
    (htargets : targetsOK cfg.dfa = true) (hns : DispatchOK cfg.dfa cfg.inl ns) (s c t : Nat)
    (ht : lookupTrans (cfg.dfa.st s) c = some (.goto t)) (rest : List Nat) (st : LState σ) :
    ∃ n, gotoK cfg ns rest st t = scanPlain cfg ns t rest { st with state := n } := by
  unfold gotoK
  cases hin : inlinedAt cfg.inl t with
  | true => exact ⟨st.state, by simp⟩
  | false =>
    have := hns t (goto_lt _ htargets _ _ _ ht) hin
    simp only [this]
    exact ⟨renumber cfg.inl t, by simp⟩

/-! ## The scan returns the greatest match, or falls back to the saved one -/

/-- What an `.act` outcome of the scan from `s` in lexer state `st` means. -/
def ActOK (cfg : Config σ τ ε) (s : Nat) (st : LState σ) (a : Nat) (st' : LState σ) : Prop :=
  (∃ k e, Cand cfg s st.iter k a e ∧
    (∀ k' a' e', Cand cfg s st.iter k' a' e' → candLe k' e' k e) ∧
    ∃ n, st' = resSt cfg.width st k e n) ∨
  ((∀ k a e, ¬ Cand cfg s st.iter k a e) ∧ Fallback st a st')

/-- What an `.err` outcome means. -/
def ErrOK (cfg : Config σ τ ε) (s : Nat) (st : LState σ) (loc : Loc) (st' : LState σ) : Prop :=
  (∀ k a e, ¬ Cand cfg s st.iter k a e) ∧ FailErr st loc st'

/-- Failure at a point where no match of positive length exists (non-empty iterator). -/
theorem cons_fail_act (cfg : Config σ τ ε) (s c : Nat) (rest : List Nat) (st st2 : LState σ)
    (hit : st.iter = c :: rest)
    (hl : st2.last = (setAccepting cfg (cfg.dfa.st s) st).last) (hu : st2.user = st.user)
    (hi : st2.initial = st.initial)
    (hno : ∀ k a e, ¬ Cand cfg s (c :: rest) (k + 1) a e)
    (a : Nat) (st' : LState σ) (h : Fallback st2 a st') : ActOK cfg s st a st' := by
  have hzero : ∀ a', ¬ Cand cfg s (c :: rest) 0 a' true := by
    intro a' hc
    have := (cand_zero_eoi_inv _ _ _ _ hc).1
    cases this
  unfold ActOK
  rw [hit]
  rcases fallback_setAccepting cfg s st st2 a st' hl hu hi h with ⟨hf, n, hst'⟩ | ⟨hf, hfb⟩
  · rw [hit] at hf
    refine Or.inl ⟨0, false, cand_zero_intro _ _ _ _ hf, ?_, n, hst'⟩
    intro k' a' e' hc
    cases k' with
    | zero =>
      cases e' with
      | true => exact absurd hc (hzero a')
      | false => exact Or.inr ⟨rfl, fun h => h⟩
    | succ k' => exact absurd hc (hno _ _ _)
  · rw [hit] at hf
    refine Or.inr ⟨?_, hfb⟩
    intro k' a' e' hc
    cases k' with
    | zero =>
      cases e' with
      | true => exact hzero a' hc
      | false =>
        have := cand_zero_inv _ _ _ _ hc
        rw [hf] at this
        cases this
    | succ k' => exact hno _ _ _ hc

theorem cons_fail_err (cfg : Config σ τ ε) (s c : Nat) (rest : List Nat) (st st2 : LState σ)
    (hit : st.iter = c :: rest)
    (hl : st2.last = (setAccepting cfg (cfg.dfa.st s) st).last) (hu : st2.user = st.user)
    (hc : st2.curStart = st.curStart)
    (hno : ∀ k a e, ¬ Cand cfg s (c :: rest) (k + 1) a e)
    (loc : Loc) (st' : LState σ) (h : FailErr st2 loc st') : ErrOK cfg s st loc st' := by
  obtain ⟨hf, hfe⟩ := failErr_setAccepting cfg s st st2 loc st' hl hu hc h
  refine ⟨?_, hfe⟩
  rw [hit] at hf ⊢
  intro k' a' e' hc
  cases k' with
  | zero =>
    cases e' with
    | true =>
      have := (cand_zero_eoi_inv _ _ _ _ hc).1
      cases this
    | false =>
      have := cand_zero_inv _ _ _ _ hc
      rw [hf] at this
      cases this
  | succ k' => exact hno _ _ _ hc

/-- Failure at the end of the input when the end-of-input transition selects nothing. -/
theorem nil_fail_act (cfg : Config σ τ ε) (s : Nat) (st st2 : LState σ) (hit : st.iter = [])
    (hl : st2.last = (setAccepting cfg (cfg.dfa.st s) st).last) (hu : st2.user = st.user)
    (hi : st2.initial = st.initial)
    (hno : ∀ a, ¬ Cand cfg s [] 0 a true)
    (a : Nat) (st' : LState σ) (h : Fallback st2 a st') : ActOK cfg s st a st' := by
  unfold ActOK
  rw [hit]
  rcases fallback_setAccepting cfg s st st2 a st' hl hu hi h with ⟨hf, n, hst'⟩ | ⟨hf, hfb⟩
  · rw [hit] at hf
    refine Or.inl ⟨0, false, cand_zero_intro _ _ _ _ hf, ?_, n, hst'⟩
    intro k' a' e' hc
    have hk := cand_nil_inv _ _ _ _ _ hc
    subst hk
    cases e' with
    | true => exact absurd hc (hno a')
    | false => exact Or.inr ⟨rfl, fun h => h⟩
  · rw [hit] at hf
    refine Or.inr ⟨?_, hfb⟩
    intro k' a' e' hc
    have hk := cand_nil_inv _ _ _ _ _ hc
    subst hk
    cases e' with
    | true => exact hno a' hc
    | false =>
      have := cand_zero_inv _ _ _ _ hc
      rw [hf] at this
      cases this

theorem nil_fail_err (cfg : Config σ τ ε) (s : Nat) (st st2 : LState σ) (hit : st.iter = [])
    (hl : st2.last = (setAccepting cfg (cfg.dfa.st s) st).last) (hu : st2.user = st.user)
    (hc : st2.curStart = st.curStart)
    (hno : ∀ a, ¬ Cand cfg s [] 0 a true)
    (loc : Loc) (st' : LState σ) (h : FailErr st2 loc st') : ErrOK cfg s st loc st' := by
  obtain ⟨hf, hfe⟩ := failErr_setAccepting cfg s st st2 loc st' hl hu hc h
  refine ⟨?_, hfe⟩
  rw [hit] at hf ⊢
  intro k' a' e' hc
  have hk := cand_nil_inv _ _ _ _ _ hc
  subst hk
  cases e' with
  | true => exact hno a' hc
  | false =>
    have := cand_zero_inv _ _ _ _ hc
    rw [hf] at this
    cases this

theorem dflt_act (s : Nat) (st2 : LState σ) (a : Nat) (st' : LState σ)
    (h : (if s = 0 then Outcome.fin st2 else failPlain st2) = .act a st') : Fallback st2 a st' := by
  by_cases hs : s = 0
  · simp [hs] at h
  · simp only [hs, if_false] at h
    exact failPlain_act _ _ _ h

theorem dflt_err (s : Nat) (st2 : LState σ) (loc : Loc) (st' : LState σ)
    (h : (if s = 0 then Outcome.fin st2 else failPlain st2) = .err loc st') : FailErr st2 loc st' := by
  by_cases hs : s = 0
  · simp [hs] at h
  · simp only [hs, if_false] at h
    exact failPlain_err _ _ _ h

theorem scan_nil_act (cfg : Config σ τ ε) (ns : Nat → Option Nat) (s : Nat) (st : LState σ)
    (hit : st.iter = []) (a : Nat) (st' : LState σ)
    (h : scanPlain cfg ns s [] st = .act a st') : ActOK cfg s st a st' := by
  rw [scanPlain_nil] at h
  obtain ⟨hl, hd, hs, hi, hu, hiter, hcs, hce⟩ := endSt_fields cfg s st hit
  cases heoi : (cfg.dfa.st s).eoi with
  | none =>
    simp only [heoi] at h
    refine nil_fail_act cfg s st _ hit hl hu hi ?_ a st' (dflt_act _ _ _ _ h)
    intro a' hc
    obtain ⟨_, accs, he, _⟩ := cand_zero_eoi_inv _ _ _ _ hc
    rw [heoi] at he
    cases he
  | some tr =>
    cases tr with
    | goto t => simp [heoi] at h
    | accept accs =>
      simp only [heoi, testRightCtxs, hiter] at h
      cases hf : firstOK (fun i => ctxOK cfg i []) accs with
      | none =>
        simp only [hf] at h
        refine nil_fail_act cfg s st _ hit hl hu hi ?_ a st' (dflt_act _ _ _ _ h)
        intro a' hc
        obtain ⟨_, accs', he, hf'⟩ := cand_zero_eoi_inv _ _ _ _ hc
        rw [heoi] at he
        cases he
        rw [hf] at hf'
        cases hf'
      | some a1 =>
        simp only [hf, rhsCode, Outcome.act.injEq] at h
        obtain ⟨ha, hst'⟩ := h
        subst ha
        unfold ActOK
        rw [hit]
        refine Or.inl ⟨0, true, cand_eoi_intro _ _ _ _ heoi hf, ?_, st.state, ?_⟩
        · intro k' a' e' hc
          have hk := cand_nil_inv _ _ _ _ _ hc
          subst hk
          exact Or.inr ⟨rfl, fun _ => rfl⟩
        · rw [← hst']
          simp [resSt, advanceBy, hd, hs, hi, hu, hiter, hcs, hce, hit]

theorem scan_nil_err (cfg : Config σ τ ε) (ns : Nat → Option Nat) (s : Nat) (st : LState σ)
    (hit : st.iter = []) (loc : Loc) (st' : LState σ)
    (h : scanPlain cfg ns s [] st = .err loc st') : ErrOK cfg s st loc st' := by
  rw [scanPlain_nil] at h
  obtain ⟨hl, hd, hs, hi, hu, hiter, hcs, hce⟩ := endSt_fields cfg s st hit
  cases heoi : (cfg.dfa.st s).eoi with
  | none =>
    simp only [heoi] at h
    refine nil_fail_err cfg s st _ hit hl hu hcs ?_ loc st' (dflt_err _ _ _ _ h)
    intro a' hc
    obtain ⟨_, accs, he, _⟩ := cand_zero_eoi_inv _ _ _ _ hc
    rw [heoi] at he
    cases he
  | some tr =>
    cases tr with
    | goto t => simp [heoi] at h
    | accept accs =>
      simp only [heoi, testRightCtxs, hiter] at h
      cases hf : firstOK (fun i => ctxOK cfg i []) accs with
      | none =>
        simp only [hf] at h
        refine nil_fail_err cfg s st _ hit hl hu hcs ?_ loc st' (dflt_err _ _ _ _ h)
        intro a' hc
        obtain ⟨_, accs', he, hf'⟩ := cand_zero_eoi_inv _ _ _ _ hc
        rw [heoi] at he
        cases he
        rw [hf] at hf'
        cases hf'
      | some a1 => simp [hf, rhsCode] at h

theorem candLe_succ {k' k : Nat} {e' e : Bool} (h : candLe k' e' k e) : candLe (k' + 1) e' (k + 1) e := by
  rcases h with h | ⟨h1, h2⟩
  · exact Or.inl (by omega)
  · exact Or.inr ⟨by omega, h2⟩

theorem scanPlain_act_gen (cfg : Config σ τ ε) (ns : Nat → Option Nat)
    (htargets : targetsOK cfg.dfa = true) (hns : DispatchOK cfg.dfa cfg.inl ns) (a : Nat) (st' : LState σ) :
    ∀ (iter : List Nat) (s : Nat) (st : LState σ), st.iter = iter → st.done = false →
      scanPlain cfg ns s iter st = .act a st' → ActOK cfg s st a st' := by
  intro iter
  induction iter with
  | nil => intro s st hit _ h; exact scan_nil_act cfg ns s st hit a st' h
  | cons c rest ih =>
    intro s st hit hdone h
    rw [scanPlain_cons] at h
    obtain ⟨hl, hd, hi, hu, hiter, hcs, hce⟩ := stepSt_fields cfg s c rest st hit
    cases hlt : lookupTrans (cfg.dfa.st s) c with
    | none =>
      simp only [hlt] at h
      exact cons_fail_act cfg s c rest st _ hit hl hu hi
        (fun k a e => cand_succ_none cfg s c rest k a e hlt) a st' (failPlain_act _ _ _ h)
    | some tr =>
      cases tr with
      | accept accs =>
        simp only [hlt, testRightCtxs, hiter] at h
        cases hf : firstOK (fun i => ctxOK cfg i rest) accs with
        | none =>
          simp only [hf] at h
          refine cons_fail_act cfg s c rest st _ hit hl hu hi ?_ a st' (failPlain_act _ _ _ h)
          intro k a' e' hc
          have := (cand_succ_accept_inv cfg s c rest k a' e' accs hlt hc).2.2
          rw [hf] at this
          cases this
        | some a1 =>
          simp only [hf, rhsCode, Outcome.act.injEq] at h
          obtain ⟨ha, hst'⟩ := h
          subst ha
          unfold ActOK
          rw [hit]
          refine Or.inl ⟨1, false, cand_succ_accept_intro cfg s c rest _ accs hlt hf, ?_,
            (stepSt cfg s c rest st).state, ?_⟩
          · intro k' a' e' hc
            cases k' with
            | zero => exact Or.inl (by omega)
            | succ k' =>
              obtain ⟨hk, he, _⟩ := cand_succ_accept_inv cfg s c rest k' a' e' accs hlt hc
              subst hk; subst he
              exact Or.inr ⟨rfl, fun h => h⟩
          · rw [← resSt_step cfg.width st (stepSt cfg s c rest st) c rest hit hiter hu hi hcs hce, ← hst']
            simp [resSt, advanceBy, hd, hdone]
      | goto t =>
        simp only [hlt] at h
        obtain ⟨n2, hg⟩ := gotoK_eq cfg ns htargets hns s c t hlt rest (stepSt cfg s c rest st)
        rw [hg] at h
        have hrec := ih t { stepSt cfg s c rest st with state := n2 } hiter (hd.trans hdone) h
        rcases hrec with ⟨k, e, hc, hmax, n, hst'⟩ | ⟨hno, hfb⟩
        · simp only [hiter] at hc hmax
          unfold ActOK
          rw [hit]
          refine Or.inl ⟨k + 1, e, (cand_succ_goto cfg s c t rest k a e hlt).mpr hc, ?_, n, ?_⟩
          · intro k' a' e' hc'
            cases k' with
            | zero => exact Or.inl (by omega)
            | succ k' =>
              exact candLe_succ (hmax k' a' e' ((cand_succ_goto cfg s c t rest k' a' e' hlt).mp hc'))
          · rw [hst']
            exact resSt_step cfg.width st _ c rest hit hiter hu hi hcs hce k e n
        · simp only [hiter] at hno
          refine cons_fail_act cfg s c rest st _ hit hl hu hi ?_ a st' hfb
          intro k a' e' hc'
          exact hno k a' e' ((cand_succ_goto cfg s c t rest k a' e' hlt).mp hc')

theorem scanPlain_err_gen (cfg : Config σ τ ε) (ns : Nat → Option Nat)
    (htargets : targetsOK cfg.dfa = true) (hns : DispatchOK cfg.dfa cfg.inl ns) (loc : Loc) (st' : LState σ) :
    ∀ (iter : List Nat) (s : Nat) (st : LState σ), st.iter = iter →
      scanPlain cfg ns s iter st = .err loc st' → ErrOK cfg s st loc st' := by
  intro iter
  induction iter with
  | nil => intro s st hit h; exact scan_nil_err cfg ns s st hit loc st' h
  | cons c rest ih =>
    intro s st hit h
    rw [scanPlain_cons] at h
    obtain ⟨hl, hd, hi, hu, hiter, hcs, hce⟩ := stepSt_fields cfg s c rest st hit
    cases hlt : lookupTrans (cfg.dfa.st s) c with
    | none =>
      simp only [hlt] at h
      exact cons_fail_err cfg s c rest st _ hit hl hu hcs
        (fun k a e => cand_succ_none cfg s c rest k a e hlt) loc st' (failPlain_err _ _ _ h)
    | some tr =>
      cases tr with
      | accept accs =>
        simp only [hlt, testRightCtxs, hiter] at h
        cases hf : firstOK (fun i => ctxOK cfg i rest) accs with
        | none =>
          simp only [hf] at h
          refine cons_fail_err cfg s c rest st _ hit hl hu hcs ?_ loc st' (failPlain_err _ _ _ h)
          intro k a' e' hc
          have := (cand_succ_accept_inv cfg s c rest k a' e' accs hlt hc).2.2
          rw [hf] at this
          cases this
        | some a1 => simp [hf, rhsCode] at h
      | goto t =>
        simp only [hlt] at h
        obtain ⟨n2, hg⟩ := gotoK_eq cfg ns htargets hns s c t hlt rest (stepSt cfg s c rest st)
        rw [hg] at h
        obtain ⟨hno, hfe⟩ := ih t { stepSt cfg s c rest st with state := n2 } hiter h
        simp only [hiter] at hno
        refine cons_fail_err cfg s c rest st _ hit hl hu hcs ?_ loc st' hfe
        intro k a' e' hc'
        exact hno k a' e' ((cand_succ_goto cfg s c t rest k a' e' hlt).mp hc')

/-! ## Maximal munch -/

/-- When the scan calls action `a`, `(k, a, e)` is a match of the remaining input, no match is
longer (and at full length an end-of-input match wins), and the lexer state is the start state
advanced by exactly `k` characters. -/
theorem scanPlain_act (cfg : Config σ τ ε) (ns : Nat → Option Nat)
    (htargets : targetsOK cfg.dfa = true) (hns : DispatchOK cfg.dfa cfg.inl ns)
    (s : Nat) (st : LState σ) (hlast : st.last = none) (hdone : st.done = false) (a : Nat) (st' : LState σ)
    (h : scanPlain cfg ns s st.iter st = .act a st') :
    ∃ k e, Cand cfg s st.iter k a e ∧
      (∀ k' a' e', Cand cfg s st.iter k' a' e' → candLe k' e' k e) ∧
      ∃ n, st' = { advanceBy cfg.width st k with last := none, done := e, state := n } := by
  rcases scanPlain_act_gen cfg ns htargets hns a st' st.iter s st rfl hdone h with hA | ⟨_, sv, _, hsv, _⟩
  · exact hA
  · rw [hlast] at hsv
    cases hsv

/-- When the scan reports an error, nothing matches; the error is located at the match start and
the lexer is reset to state 0 with an empty match. -/
theorem scanPlain_err (cfg : Config σ τ ε) (ns : Nat → Option Nat)
    (htargets : targetsOK cfg.dfa = true) (hns : DispatchOK cfg.dfa cfg.inl ns)
    (s : Nat) (st : LState σ) (hlast : st.last = none) (loc : Loc) (st' : LState σ)
    (h : scanPlain cfg ns s st.iter st = .err loc st') :
    (∀ k a e, ¬ Cand cfg s st.iter k a e) ∧ loc = st.curStart ∧
      st'.state = 0 ∧ st'.initial = 0 ∧ st'.curStart = st'.curEnd ∧ st'.last = none ∧ st'.user = st.user := by
  -- `hlast` is not needed: an `.err` outcome itself implies that nothing was saved
  have _ := hlast
  obtain ⟨hno, _, h2⟩ := scanPlain_err_gen cfg ns htargets hns loc st' st.iter s st rfl h
  exact ⟨hno, h2⟩

end Lexgen
