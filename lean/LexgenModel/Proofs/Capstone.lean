import LexgenModel.Proofs.NextEqSpec
import LexgenModel.Proofs.ViableRef
import LexgenModel.Proofs.BlockViable
/-!
# The model of the generated code computes the executable specification
-/
namespace Lexgen
variable {σ τ ε : Type}

/-- **Capstone.** For every well-formed definition (`DefOK`) without empty pieces (`DefNE`: no empty class, no empty string literal) that the model of
`lexer()` compiles, every call of the model of the generated `next()` — the simplified DFA with backtrack elision, inlined states and state numbering,
right-context functions, saved matches and rewinds, `lexgen_util::Lexer` — from a lexer state at a lexeme start returns EXACTLY what the executable
reference lexer `specNext` returns: same item, same state. `specNext` works on the definition itself (Brzozowski derivatives of its regexes, maximal munch
with first-rule priority `selectRef = Selects`, the semantic-action protocol, the error-resume rule "longest viable prefix plus the offending character")
and is sound w.r.t. the relational specification `RefNext` (`specNext_sound`). -/
theorem next_eq_specNext (items : LexerDef) (c : Compiled) (h : compileLexer items = .ok c) (hok : DefOK items) (hne : DefNE items)
    (actions : Nat → Action σ τ ε) (width : Nat → Nat) (input : Option (List Nat))
    (st : LState σ) (hr : Ready (c.config actions width input) st) :
    next (c.config actions width input) st = specNextFull items (c.config actions width input) st :=
  next_eq_specNext_of items c h hok hne
    (fun res hres iter => viableRef_spec res hres iter)
    (fun rules hp hnep nfa hn d hd w => block_viable rules hp hnep nfa hn d hd w)
    actions width input st hr

end Lexgen
