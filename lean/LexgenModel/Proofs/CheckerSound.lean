import LexgenModel.Spec.Machine
/-!
# The decidable checker establishes the hypotheses of the run-time theorems

`machineWF` is evaluated by `lexmodel stage` on the machine the macro actually produced (dump
hooks) and the set of inlined states the macro reported; when all its clauses hold, `MachineOK` holds
for any configuration built on that machine with that set of inlined states.
-/
namespace Lexgen
variable {σ τ ε : Type}

theorem isEmpty_eq_nil {α : Type} (l : List α) (h : l.isEmpty = true) : l = [] := by
  cases l with
  | nil => rfl
  | cons a t => simp at h

theorem machineOK_of_checker (cfg : Config σ τ ε) (nCtx : Nat)
    (h : (machineWF cfg.dfa cfg.entries nCtx cfg.inl).all = true) : MachineOK cfg := by
  simp only [WFReport.all, machineWF, Bool.and_eq_true] at h
  obtain ⟨⟨⟨⟨⟨⟨⟨⟨⟨hentries, htargets⟩, _hranges⟩, _hchars⟩, heoi⟩, hany⟩, hflags⟩, _hctx⟩, hstate0⟩, hinl⟩ := h
  refine
    { flags := hflags
      acceptAny := hany
      targets := htargets
      inl := inlOK_sound cfg.dfa cfg.inl hinl
      state0 := ?_
      entries := ?_
      eoiAccept := ?_ }
  · simp only [Bool.and_eq_true, decide_eq_true_eq] at hstate0
    exact ⟨hstate0.1.1.1, hstate0.1.1.2, isEmpty_eq_nil _ hstate0.1.2⟩
  · intro p hp
    have := (List.all_eq_true.mp hentries) p hp
    simp only [Bool.and_eq_true, decide_eq_true_eq] at this
    exact ⟨this.1.1.1, this.1.1.2, isEmpty_eq_nil _ this.2⟩
  · intro s t hst
    by_cases hs : s < cfg.dfa.length
    · have hmem : cfg.dfa.st s ∈ cfg.dfa := by
        simp only [DFA.st, List.getD]
        rw [List.getElem?_eq_getElem hs]
        exact List.getElem_mem hs
      have := (List.all_eq_true.mp heoi) _ hmem
      simp [hst] at this
    · have : cfg.dfa.st s = DState.empty := by
        simp only [DFA.st, List.getD]
        rw [List.getElem?_eq_none (Nat.le_of_not_lt hs)]
        rfl
      rw [this] at hst
      simp [DState.empty] at hst

end Lexgen
