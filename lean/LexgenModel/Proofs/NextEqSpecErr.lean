import LexgenModel.Spec.Viable
import LexgenModel.Proofs.NextMore
import LexgenModel.Proofs.NextEqSpecCompile
/-!
# The error-resume position of the generated code is the one of the executable specification

* `gotoLen_spec`: `gotoLen` is the longest prefix all of whose non-empty prefixes lead to a *state*;
* `errAdvance_eq`: with the entry-level reading of those prefixes (`EntryExt`) and the specification of
  `viableRef` (the `ha` of the main theorem), `errAdvance` is `(min (gotoLen + 1) |iter|, gotoLen = |iter|)`;
* `scanPlain_err_curEnd`, `err_state_eq`: the lexer state the model leaves behind after an `InvalidToken` is
  `errState`;
* `callAction_state`: `callAction` does not read `__state`.
-/
namespace Lexgen
namespace NextEqSpec
variable {σ τ ε : Type}

/-! ## `gotoLen` -/

theorem gotoLen_spec (d : DFA Trans) : ∀ (iter : List Nat) (s : Nat),
    gotoLen d s iter ≤ iter.length ∧
    (∀ j, 0 < j → j ≤ gotoLen d s iter → ∃ t, reach d (.st s) (iter.take j) = some (.st t)) ∧
    (gotoLen d s iter < iter.length →
      ¬ ∃ t, reach d (.st s) (iter.take (gotoLen d s iter + 1)) = some (.st t)) := by
  intro iter
  induction iter with
  | nil =>
    intro s
    rw [NextMore.gotoLen_nil]
    refine ⟨Nat.le_refl _, fun j h1 h2 => by omega, fun h => by simp at h⟩
  | cons c rest ih =>
    intro s
    cases hlt : lookupTrans (d.st s) c with
    | none =>
      rw [NextMore.gotoLen_cons_none _ _ _ _ hlt]
      refine ⟨Nat.zero_le _, fun j h1 h2 => by omega, fun _ => ?_⟩
      rintro ⟨t, ht⟩
      simp [reach, hlt] at ht
    | some tr =>
      cases tr with
      | accept accs =>
        rw [NextMore.gotoLen_cons_accept _ _ _ _ _ hlt]
        refine ⟨Nat.zero_le _, fun j h1 h2 => by omega, fun _ => ?_⟩
        rintro ⟨t, ht⟩
        simp [reach, hlt, toCfg_accept] at ht
      | goto t =>
        rw [NextMore.gotoLen_cons_goto _ _ _ _ _ hlt]
        obtain ⟨h1, h2, h3⟩ := ih t
        refine ⟨by simp only [List.length_cons]; omega, ?_, ?_⟩
        · intro j hj hle
          cases j with
          | zero => omega
          | succ j' =>
            simp only [List.take_succ_cons, reach, hlt, toCfg_goto]
            by_cases hj0 : j' = 0
            · subst hj0
              exact ⟨t, by simp [reach_nil]⟩
            · exact h2 j' (by omega) (by omega)
        · intro hlen
          simp only [List.length_cons] at hlen
          simp only [List.take_succ_cons, reach, hlt, toCfg_goto]
          exact h3 (by omega)

/-! ## Prefixes of extendable and viable words -/

theorem extendable_prefix {rules : List CoreRule} (u m : List Nat) (h : Extendable rules (u ++ m)) :
    Extendable rules u := by
  obtain ⟨r, hr, x, v, hd⟩ := h
  cases m with
  | nil =>
    rw [List.append_nil] at hd
    exact ⟨r, hr, x, v, hd⟩
  | cons c m' =>
    refine ⟨r, hr, .ch c, m'.map Sym.ch ++ x :: v, ?_⟩
    rw [List.map_append, List.map_cons, List.append_assoc] at hd
    exact hd

theorem extendable_take {rules : List CoreRule} (iter : List Nat) (i j : Nat) (hij : i ≤ j)
    (h : Extendable rules (iter.take j)) : Extendable rules (iter.take i) := by
  have : iter.take j = iter.take i ++ (iter.take j).drop i := by
    have := List.take_append_drop i (iter.take j)
    rw [List.take_take, Nat.min_eq_left hij] at this
    exact this.symm
  rw [this] at h
  exact extendable_prefix _ _ h

theorem extendable_of_viable_succ {rules : List CoreRule} (iter : List Nat) (j : Nat) (hj : j + 1 ≤ iter.length)
    (h : Viable rules (iter.take (j + 1))) : Extendable rules (iter.take j) := by
  obtain ⟨r, hr, v, hd⟩ := h
  have hlt : j < iter.length := by omega
  have ht : iter.take (j + 1) = iter.take j ++ [iter[j]] := by
    rw [List.take_add_one, List.getElem?_eq_getElem hlt]
    rfl
  rw [ht, List.map_append, List.append_assoc] at hd
  exact ⟨r, hr, .ch iter[j], v, hd⟩

/-! ## The arithmetic of `errAdvance` -/

theorem errAdvance_arith (n v g : Nat) (E V : Nat → Prop) (ro : Bool)
    (hv1 : v ≤ n) (hv2 : ∀ j, 0 < j → j ≤ v → V j) (hv3 : v < n → ¬ V (v + 1)) (hro : ro = true ↔ E v)
    (hg1 : g ≤ n) (hg2 : ∀ j, 0 < j → j ≤ g → E j) (hg3 : g < n → ¬ E (g + 1))
    (l1 : ∀ j, E j → V j) (l2 : ∀ j, j + 1 ≤ n → V (j + 1) → E j)
    (l3 : ∀ i j, i ≤ j → j ≤ n → E j → E i) :
    (v + (if ((v == 0) || ro) && decide (v < n) then 1 else 0), ((v == 0) || ro) && (v == n)) =
      (min (g + 1) n, decide (g = n)) := by
  have hgv : g ≤ v := by
    apply Classical.byContradiction
    intro hc
    have h1 : V (v + 1) := l1 _ (hg2 (v + 1) (by omega) (by omega))
    exact hv3 (by omega) h1
  by_cases hE : E v
  · have hvg : v ≤ g := by
      apply Classical.byContradiction
      intro hc
      exact hg3 (by omega) (l3 (g + 1) v (by omega) hv1 hE)
    have hgeq : g = v := by omega
    subst hgeq
    have hrt : ro = true := hro.mpr hE
    subst hrt
    by_cases hlt : g < n
    · have h1 : min (g + 1) n = g + 1 := by omega
      have h2 : (g == n) = false := by simp; omega
      have h3 : decide (g = n) = false := by simp; omega
      simp [hlt, h1, h2, h3]
    · have hgn : g = n := by omega
      subst hgn
      simp
  · have hrf : ro = false := by
      cases hr : ro with
      | false => rfl
      | true => exact absurd (hro.mp hr) hE
    subst hrf
    by_cases hv0 : v = 0
    · subst hv0
      have hg0 : g = 0 := by omega
      subst hg0
      by_cases hn : n = 0
      · subst hn; simp
      · have h1 : min 1 n = 1 := by omega
        have h2 : 0 < n := by omega
        have h3 : ¬ (0 = n) := by omega
        have h4 : (0 == n) = false := by simp; omega
        simp [h1, h2, h3, h4]
    · have hne : g ≠ v := by
        intro he
        subst he
        exact hE (hg2 g (by omega) (Nat.le_refl _))
      have hgl : g < v := by omega
      have hnE := hg3 (by omega)
      have hv' : v = g + 1 := by
        apply Classical.byContradiction
        intro hc
        have h1 : V (g + 1 + 1) := hv2 _ (by omega) (by omega)
        exact hnE (l2 (g + 1) (by omega) h1)
      subst hv'
      have h1 : min (g + 1) n = g + 1 := by omega
      have h2 : ((g + 1) == 0) = false := by simp
      have h3 : decide (g = n) = false := by simp; omega
      simp [h1, h2, h3]

/-- the `ha` of the main theorem -/
def ViableRefHyp : Prop :=
  ∀ (res : List Regex), (∀ r ∈ res, NoEmptyPieces r) → ∀ iter : List Nat,
    (viableRef res iter).1 ≤ iter.length ∧
    (∀ j, 0 < j → j ≤ (viableRef res iter).1 → ∃ r ∈ res, ∃ v : List Sym, den r ((iter.take j).map Sym.ch ++ v)) ∧
    ((viableRef res iter).1 < iter.length →
      ¬ ∃ r ∈ res, ∃ v : List Sym, den r ((iter.take ((viableRef res iter).1 + 1)).map Sym.ch ++ v)) ∧
    (((viableRef res iter).2.any fun r => aliveR r && hasWordR r) = true ↔
      ∃ r ∈ res, ∃ (x : Sym) (v : List Sym), den r ((iter.take (viableRef res iter).1).map Sym.ch ++ x :: v))

theorem viable_map_iff (rules : List CoreRule) (w : List Nat) :
    (∃ r ∈ rules.map (·.re), ∃ v : List Sym, den r (w.map Sym.ch ++ v)) ↔ Viable rules w := by
  constructor
  · rintro ⟨r, hr, v, hd⟩
    obtain ⟨r0, hr0, rfl⟩ := List.mem_map.mp hr
    exact ⟨r0, hr0, v, hd⟩
  · rintro ⟨r0, hr0, v, hd⟩
    exact ⟨r0.re, List.mem_map.mpr ⟨r0, hr0, rfl⟩, v, hd⟩

theorem extendable_map_iff (rules : List CoreRule) (w : List Nat) :
    (∃ r ∈ rules.map (·.re), ∃ (x : Sym) (v : List Sym), den r (w.map Sym.ch ++ x :: v)) ↔ Extendable rules w := by
  constructor
  · rintro ⟨r, hr, x, v, hd⟩
    obtain ⟨r0, hr0, rfl⟩ := List.mem_map.mp hr
    exact ⟨r0, hr0, x, v, hd⟩
  · rintro ⟨r0, hr0, x, v, hd⟩
    exact ⟨r0.re, List.mem_map.mpr ⟨r0, hr0, rfl⟩, x, v, hd⟩

/-- **the error-resume position**: the specification's `errAdvance` is what the scan of the compiled machine
does from the entry of the rule set -/
theorem errAdvance_eq (HA : ViableRefHyp) (rules : List CoreRule) (hne : ∀ r ∈ rules, NoEmptyPieces r.re)
    (d : DFA Trans) (e : Nat) (hE : EntryExt d e rules) (iter : List Nat) :
    errAdvance (rules.map (·.re)) iter =
      (min (gotoLen d e iter + 1) iter.length, decide (gotoLen d e iter = iter.length)) := by
  have hne' : ∀ r ∈ rules.map (·.re), NoEmptyPieces r := by
    intro r hr
    obtain ⟨r0, hr0, rfl⟩ := List.mem_map.mp hr
    exact hne r0 hr0
  obtain ⟨hv1, hv2, hv3, hv4⟩ := HA (rules.map (·.re)) hne' iter
  obtain ⟨hg1, hg2, hg3⟩ := gotoLen_spec d iter e
  have htake : ∀ j, 0 < j → j ≤ iter.length → iter.take j ≠ [] := by
    intro j hj hle hnil
    have := congrArg List.length hnil
    rw [List.length_take, List.length_nil] at this
    omega
  unfold errAdvance
  exact errAdvance_arith iter.length (viableRef (rules.map (·.re)) iter).1 (gotoLen d e iter)
    (fun j => Extendable rules (iter.take j)) (fun j => Viable rules (iter.take j))
    ((viableRef (rules.map (·.re)) iter).2.any fun r => aliveR r && hasWordR r)
    hv1
    (fun j h1 h2 => (viable_map_iff rules _).mp (hv2 j h1 h2))
    (fun h hV => hv3 h ((viable_map_iff rules _).mpr hV))
    (hv4.trans (extendable_map_iff rules _))
    hg1
    (fun j h1 h2 => (hE _ (htake j h1 (by omega))).mp (hg2 j h1 h2))
    (fun h hX => hg3 h ((hE _ (htake (gotoLen d e iter + 1) (by omega) (by omega))).mpr hX))
    (fun j h => extendable_viable h)
    (fun j h1 h2 => extendable_of_viable_succ iter j h1 h2)
    (fun i j hij _ h => extendable_take iter i j hij h)

/-! ## The lexer state after an `InvalidToken` -/

theorem failPlain_err_curEnd (st : LState σ) (loc : Loc) (st' : LState σ)
    (h : failPlain st = .err loc st') : st'.curEnd = st.curEnd := by
  unfold failPlain at h
  cases hl : st.last with
  | none =>
    simp only [hl, Outcome.err.injEq] at h
    obtain ⟨_, h2⟩ := h
    subst h2
    rfl
  | some sv => simp [hl] at h

theorem dflt_err_curEnd (s : Nat) (st2 : LState σ) (loc : Loc) (st' : LState σ)
    (h : (if s = 0 then Outcome.fin st2 else failPlain st2) = .err loc st') : st'.curEnd = st2.curEnd := by
  by_cases hs : s = 0
  · simp [hs] at h
  · simp only [hs, if_false] at h
    exact failPlain_err_curEnd _ _ _ h

theorem scanPlain_err_curEnd (cfg : Config σ τ ε) (ns : Nat → Option Nat)
    (htargets : targetsOK cfg.dfa = true) (hns : DispatchOK cfg.dfa cfg.inl ns) (loc : Loc) (st' : LState σ) :
    ∀ (iter : List Nat) (s : Nat) (st : LState σ), st.iter = iter →
      scanPlain cfg ns s iter st = .err loc st' →
      st'.curEnd = (iter.take (gotoLen cfg.dfa s iter + 1)).foldl (Loc.advance cfg.width) st.curEnd := by
  intro iter
  induction iter with
  | nil =>
    intro s st hit h
    rw [scanPlain_nil] at h
    obtain ⟨_, _, _, _, _, _, _, hce⟩ := endSt_fields cfg s st hit
    have hd : (if s = 0 then Outcome.fin (endSt cfg s st) else failPlain (endSt cfg s st)) = .err loc st' := by
      cases heoi : (cfg.dfa.st s).eoi with
      | none =>
        simp only [heoi] at h
        exact h
      | some tr =>
        cases tr with
        | goto t => simp [heoi] at h
        | accept accs =>
          simp only [heoi] at h
          exact NextMore.testRightCtxs_err cfg accs _ _ loc st' h
    rw [dflt_err_curEnd _ _ _ _ hd, hce]
    rfl
  | cons c rest ih =>
    intro s st hit h
    rw [scanPlain_cons] at h
    obtain ⟨_, _, _, _, hiter, _, hce⟩ := stepSt_fields cfg s c rest st hit
    have hfail : ∀ (hg : gotoLen cfg.dfa s (c :: rest) = 0)
        (hf : failPlain (stepSt cfg s c rest st) = .err loc st'),
        st'.curEnd = ((c :: rest).take (gotoLen cfg.dfa s (c :: rest) + 1)).foldl (Loc.advance cfg.width) st.curEnd := by
      intro hg hf
      rw [failPlain_err_curEnd _ _ _ hf, hg, hce]
      rfl
    cases hlt : lookupTrans (cfg.dfa.st s) c with
    | none =>
      simp only [hlt] at h
      exact hfail (NextMore.gotoLen_cons_none _ _ _ _ hlt) h
    | some tr =>
      cases tr with
      | accept accs =>
        simp only [hlt] at h
        exact hfail (NextMore.gotoLen_cons_accept _ _ _ _ _ hlt) (NextMore.testRightCtxs_err cfg accs _ _ loc st' h)
      | goto t =>
        simp only [hlt] at h
        obtain ⟨n2, hg⟩ := gotoK_eq cfg ns htargets hns s c t hlt rest (stepSt cfg s c rest st)
        rw [hg] at h
        have := ih t { stepSt cfg s c rest st with state := n2 } hiter h
        rw [this, NextMore.gotoLen_cons_goto _ _ _ _ _ hlt]
        show List.foldl _ (stepSt cfg s c rest st).curEnd _ = _
        rw [hce, List.take_succ_cons, List.foldl_cons]

theorem lstate_ext (a b : LState σ) (h1 : a.state = b.state) (h2 : a.done = b.done) (h3 : a.initial = b.initial)
    (h4 : a.user = b.user) (h5 : a.iter = b.iter) (h6 : a.curStart = b.curStart) (h7 : a.curEnd = b.curEnd)
    (h8 : a.last = b.last) : a = b := by
  cases a
  cases b
  simp only at h1 h2 h3 h4 h5 h6 h7 h8
  subst h1 h2 h3 h4 h5 h6 h7 h8
  rfl

theorem drop_min_length {α : Type} (l : List α) (k : Nat) : l.drop (min k l.length) = l.drop k := by
  by_cases h : k ≤ l.length
  · rw [Nat.min_eq_left h]
  · rw [Nat.min_eq_right (by omega), List.drop_length, List.drop_eq_nil_of_le (by omega)]

theorem take_min_length {α : Type} (l : List α) (k : Nat) : l.take (min k l.length) = l.take k := by
  by_cases h : k ≤ l.length
  · rw [Nat.min_eq_left h]
  · rw [Nat.min_eq_right (by omega), List.take_length, List.take_of_length_le (by omega)]

/-- the state after an error, field by field, is `errState` -/
theorem err_state_eq (width : Nat → Nat) (res : List Regex) (st st1 : LState σ) (g : Nat)
    (hadv : errAdvance res st.iter = (min (g + 1) st.iter.length, decide (g = st.iter.length)))
    (hs0 : st1.state = 0) (hi0 : st1.initial = 0) (hspan : st1.curStart = st1.curEnd) (hlast : st1.last = none)
    (huser : st1.user = st.user) (hiter : st1.iter = st.iter.drop (g + 1))
    (hdone : st1.done = decide (g = st.iter.length))
    (hce : st1.curEnd = (st.iter.take (g + 1)).foldl (Loc.advance width) st.curEnd) :
    st1 = errState width res st := by
  apply lstate_ext
  · rw [hs0]; rfl
  · rw [hdone]
    show _ = (errAdvance res st.iter).2
    rw [hadv]
  · rw [hi0]; rfl
  · rw [huser]; rfl
  · rw [hiter]
    show _ = st.iter.drop (errAdvance res st.iter).1
    rw [hadv, drop_min_length]
  · rw [hspan, hce]
    show _ = (st.iter.take (errAdvance res st.iter).1).foldl (Loc.advance width) st.curEnd
    rw [hadv, take_min_length]
  · rw [hce]
    show _ = (st.iter.take (errAdvance res st.iter).1).foldl (Loc.advance width) st.curEnd
    rw [hadv, take_min_length]
  · rw [hlast]; rfl

/-! ## `callAction` does not read `__state` -/

theorem callAction_state (cfg : Config σ τ ε) (a : Nat) (st : LState σ) (s : Nat) :
    callAction cfg a { st with state := s } = callAction cfg a st := by
  rw [NextMore.callAction_eq, NextMore.callAction_eq]
  have hv : mkView cfg a { st with state := s } = mkView cfg a st := rfl
  rw [hv]
  generalize (cfg.actions a).run (mkView cfg a st) = eff
  unfold NextMore.callWith
  cases eff.reset <;> cases eff.switchTo <;> cases eff.res <;> rfl

theorem matchState_state (width : Nat → Nat) (st : LState σ) (n : Nat) (v : Bool) (s s' : Nat) :
    matchState width st n v s = { matchState width st n v s' with state := s } := rfl

theorem callAction_matchState (cfg : Config σ τ ε) (a : Nat) (st : LState σ) (n : Nat) (v : Bool) (s s' : Nat) :
    callAction cfg a (matchState cfg.width st n v s) = callAction cfg a (matchState cfg.width st n v s') := by
  rw [matchState_state cfg.width st n v s s', callAction_state]

end NextEqSpec
end Lexgen
