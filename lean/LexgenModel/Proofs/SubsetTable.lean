import LexgenModel.Proofs.SubsetExpand
/-!
# Subset construction, part 5: the table `expandState` leaves in the expanded state
-/
set_option linter.unusedSimpArgs false
set_option linter.unusedVariables false
namespace Lexgen.Subset
open Lexgen

/-- the targets merged into a char transition: its own, those of the covering ranges, and `_` -/
theorem covFold_mem (c : Nat) (R : RangeMap (List Nat)) (t0 : List Nat) (t : Nat) :
    t ∈ R.foldl (fun t r => if r.1 ≤ c ∧ c ≤ r.2.1 then setUnion t r.2.2 else t) t0 ↔
      t ∈ t0 ∨ ∃ r ∈ R, r.1 ≤ c ∧ c ≤ r.2.1 ∧ t ∈ r.2.2 := by
  induction R generalizing t0 with
  | nil => simp
  | cons r R ih =>
    rw [List.foldl_cons, ih]
    by_cases hc : r.1 ≤ c ∧ c ≤ r.2.1
    · rw [if_pos hc, mem_setUnion]
      constructor
      · rintro ((h | h) | ⟨r', h1, h2⟩)
        · exact Or.inl h
        · exact Or.inr ⟨r, List.mem_cons_self, hc.1, hc.2, h⟩
        · exact Or.inr ⟨r', List.mem_cons_of_mem _ h1, h2⟩
      · rintro (h | ⟨r', h1, h2⟩)
        · exact Or.inl (Or.inl h)
        · rcases List.mem_cons.mp h1 with rfl | h1
          · exact Or.inl (Or.inr h2.2.2)
          · exact Or.inr ⟨r', h1, h2⟩
    · rw [if_neg hc]
      constructor
      · rintro (h | ⟨r', h1, h2⟩)
        · exact Or.inl h
        · exact Or.inr ⟨r', List.mem_cons_of_mem _ h1, h2⟩
      · rintro (h | ⟨r', h1, h2⟩)
        · exact Or.inl h
        · rcases List.mem_cons.mp h1 with rfl | h1
          · exact absurd ⟨h2.1, h2.2.1⟩ hc
          · exact Or.inr ⟨r', h1, h2⟩

theorem mem_ctg (col : Collected) (e : Nat × List Nat) (t : Nat) :
    t ∈ ctg col e ↔ t ∈ e.2 ∨ (∃ r ∈ col.ranges, r.1 ≤ e.1 ∧ e.1 ≤ r.2.1 ∧ t ∈ r.2.2) ∨ t ∈ col.any := by
  unfold ctg
  rw [mem_setUnion, covFold_mem, or_assoc]

theorem ctg_ne_nil (col : Collected) (e : Nat × List Nat) (h : e.2 ≠ []) : ctg col e ≠ [] := by
  obtain ⟨t, ht⟩ := exists_mem_of_ne_nil h
  intro hn
  have : t ∈ ctg col e := (mem_ctg col e t).mpr (Or.inl ht)
  rw [hn] at this; cases this

theorem keyOK_closure {nfa : NFA} (hwf : NFAWF nfa) {S : List Nat} (h : S ≠ []) : KeyOK (nfa.closure S) :=
  ⟨ascending_closure hwf S, closure_ne_nil hwf h⟩

/-- entry of the DFA char table for the collected entry `e` -/
def CR (nfa : NFA) (col : Collected) (sm : List (List Nat × Nat)) (e : Nat × List Nat) (q : Nat × Nat) : Prop :=
  q.1 = e.1 ∧ (nfa.closure (ctg col e), q.2) ∈ sm

/-- entry of the DFA range table for the collected range `r` -/
def RR (nfa : NFA) (col : Collected) (sm : List (List Nat × Nat)) (r : Nat × Nat × List Nat)
    (q : Nat × Nat × Nat) : Prop :=
  q.1 = r.1 ∧ q.2.1 = r.2.1 ∧ (nfa.closure (setUnion r.2.2 col.any), q.2.2) ∈ sm

/-- the `any` / end-of-input slot for the collected targets `tg` -/
def OptOK (nfa : NFA) (sm : List (List Nat × Nat)) (tg : List Nat) (o : Option Nat) : Prop :=
  (nfa.closure tg = [] ∧ o = none) ∨ (nfa.closure tg ≠ [] ∧ ∃ t, o = some t ∧ (nfa.closure tg, t) ∈ sm)

theorem OptOK.mono {nfa : NFA} {sm sm' : List (List Nat × Nat)} {tg : List Nat} {o : Option Nat}
    (h : OptOK nfa sm tg o) (hs : ∀ e ∈ sm, e ∈ sm') : OptOK nfa sm' tg o := by
  rcases h with h | ⟨h1, t, h2, h3⟩
  · exact Or.inl h
  · exact Or.inr ⟨h1, t, h2, hs _ h3⟩

/-- the table of the expanded state in terms of the collected data and the final state map -/
structure DTable (nfa : NFA) (col : Collected) (sm : List (List Nat × Nat)) (s : DState Nat) : Prop where
  chars : Rel₂ (CR nfa col sm) col.chars s.chars
  ranges : Rel₂ (RR nfa col sm) col.ranges s.ranges
  any : OptOK nfa sm col.any s.any
  eoi : OptOK nfa sm col.eoi s.eoi
  acc : s.accepting = col.accs

/-! ### char stage -/

theorem charsStage {nfa : NFA} (hwf : NFAWF nfa) (col : Collected) (hcne : ∀ e ∈ col.chars, e.2 ≠ [])
    {b0 : Builder} {d : Nat} (hd : d < b0.dfa.length) (b1 : Builder) (hm : Mid b0 d b1 [])
    (h1 : (b1.dfa.st d).chars = []) :
    Mid b0 d (col.chars.foldl (charStep nfa col d) (b1, [])).1 (col.chars.foldl (charStep nfa col d) (b1, [])).2 ∧
    Rel₂ (CR nfa col (col.chars.foldl (charStep nfa col d) (b1, [])).1.stateMap) col.chars
      ((col.chars.foldl (charStep nfa col d) (b1, [])).1.dfa.st d).chars ∧
    ((col.chars.foldl (charStep nfa col d) (b1, [])).1.dfa.st d).ranges = (b1.dfa.st d).ranges ∧
    ((col.chars.foldl (charStep nfa col d) (b1, [])).1.dfa.st d).any = (b1.dfa.st d).any ∧
    ((col.chars.foldl (charStep nfa col d) (b1, [])).1.dfa.st d).eoi = (b1.dfa.st d).eoi ∧
    ((col.chars.foldl (charStep nfa col d) (b1, [])).1.dfa.st d).accepting = (b1.dfa.st d).accepting := by
  refine foldl_inv (charStep nfa col d)
    (fun acc L => Mid b0 d acc.1 acc.2 ∧ Rel₂ (CR nfa col acc.1.stateMap) L (acc.1.dfa.st d).chars ∧
      (acc.1.dfa.st d).ranges = (b1.dfa.st d).ranges ∧ (acc.1.dfa.st d).any = (b1.dfa.st d).any ∧
      (acc.1.dfa.st d).eoi = (b1.dfa.st d).eoi ∧ (acc.1.dfa.st d).accepting = (b1.dfa.st d).accepting)
    col.chars (b1, []) ⟨hm, by rw [h1]; exact .nil, rfl, rfl, rfl, rfl⟩ ?_
  intro acc L e he ⟨im, ir, i3, i4, i5, i6⟩
  have hk : KeyOK (nfa.closure (ctg col e)) := keyOK_closure hwf (ctg_ne_nil col e (hcne e he))
  obtain ⟨m1, m2, m3, m4⟩ := mid_link im hd hk (fun t st => { st with chars := st.chars ++ [(e.1, t)] })
  refine ⟨m1, ?_, m4.ranges.trans i3, m4.any.trans i4, m4.eoi.trans i5, m4.acc.trans i6⟩
  show Rel₂ _ _ ((link acc.1 d _ _).dfa.st d).chars
  rw [m4.chars]
  exact (ir.imp (fun a q _ h => ⟨h.1, m3 _ h.2⟩)).snoc ⟨rfl, m2⟩

/-! ### range stage -/

theorem rangesStage {nfa : NFA} (hwf : NFAWF nfa) (col : Collected) (hrne : ∀ r ∈ col.ranges, r.2.2 ≠ [])
    {b0 : Builder} {d : Nat} (b2 : Builder) (p2 : List (List Nat)) (hm : Mid b0 d b2 p2) :
    Mid b0 d (col.ranges.foldl (rangeStep nfa col) (b2, p2, [])).1
      (col.ranges.foldl (rangeStep nfa col) (b2, p2, [])).2.1 ∧
    Rel₂ (RR nfa col (col.ranges.foldl (rangeStep nfa col) (b2, p2, [])).1.stateMap) col.ranges
      (col.ranges.foldl (rangeStep nfa col) (b2, p2, [])).2.2 ∧
    (∀ e ∈ b2.stateMap, e ∈ (col.ranges.foldl (rangeStep nfa col) (b2, p2, [])).1.stateMap) ∧
    (∀ i, (col.ranges.foldl (rangeStep nfa col) (b2, p2, [])).1.dfa.st i = b2.dfa.st i) := by
  refine foldl_inv (rangeStep nfa col)
    (fun acc L => Mid b0 d acc.1 acc.2.1 ∧ Rel₂ (RR nfa col acc.1.stateMap) L acc.2.2 ∧
      (∀ e ∈ b2.stateMap, e ∈ acc.1.stateMap) ∧ (∀ i, acc.1.dfa.st i = b2.dfa.st i))
    col.ranges (b2, p2, []) ⟨hm, .nil, fun _ h => h, fun _ => rfl⟩ ?_
  intro acc L r hr ⟨im, ir, i3, i4⟩
  have hk : KeyOK (nfa.closure (setUnion r.2.2 col.any)) :=
    keyOK_closure hwf (setUnion_ne_nil_left (hrne r hr))
  obtain ⟨m1, m2, m3, m4⟩ := mid_stateOf im hk
  refine ⟨m1, ?_, fun e he => m3 e (i3 e he), fun i => (m4 i).trans (i4 i)⟩
  exact (ir.imp (fun a q _ h => ⟨h.1, h.2.1, m3 _ h.2.2⟩)).snoc ⟨rfl, rfl, m2⟩

/-! ### `any` / end-of-input stage -/

theorem optStage {nfa : NFA} (hwf : NFAWF nfa) {b0 : Builder} {d : Nat} (hd : d < b0.dfa.length)
    (tg : List Nat) (upd : Nat → DState Nat → DState Nat) (acc : Builder × List (List Nat))
    (hm : Mid b0 d acc.1 acc.2) :
    Mid b0 d (optStep nfa d tg upd acc).1 (optStep nfa d tg upd acc).2 ∧
    (∀ e ∈ acc.1.stateMap, e ∈ (optStep nfa d tg upd acc).1.stateMap) ∧
    ((nfa.closure tg = [] ∧ (optStep nfa d tg upd acc).1.dfa.st d = acc.1.dfa.st d) ∨
     (nfa.closure tg ≠ [] ∧ ∃ t, (nfa.closure tg, t) ∈ (optStep nfa d tg upd acc).1.stateMap ∧
        TEq ((optStep nfa d tg upd acc).1.dfa.st d) (upd t (acc.1.dfa.st d)))) := by
  unfold optStep
  by_cases he : nfa.closure tg = []
  · have : (nfa.closure tg).isEmpty = true := by rw [he]; rfl
    rw [if_pos this]
    exact ⟨hm, fun _ h => h, Or.inl ⟨he, rfl⟩⟩
  · have : ¬ (nfa.closure tg).isEmpty = true := by
      intro h; exact he (List.isEmpty_iff.mp h)
    rw [if_neg this]
    have hk : KeyOK (nfa.closure tg) := ⟨ascending_closure hwf tg, he⟩
    obtain ⟨m1, m2, m3, m4⟩ := mid_link hm hd hk upd
    exact ⟨m1, m3, Or.inr ⟨he, _, m2, m4⟩⟩

/-! ### all stages -/

def mkT (ch : List (Nat × Nat)) (rg : RangeMap Nat) (an eo : Option Nat) (ac : List Acc) : DState Nat :=
  { chars := ch, ranges := rg, any := an, eoi := eo, accepting := ac }

def st1 (b : Builder) (d : Nat) (col : Collected) : Builder :=
  { b with dfa := b.dfa.modify d fun st => { st with accepting := col.accs } }

def st2 (nfa : NFA) (col : Collected) (d : Nat) (b1 : Builder) : Builder × List (List Nat) :=
  col.chars.foldl (charStep nfa col d) (b1, [])

def st3 (nfa : NFA) (col : Collected) (a2 : Builder × List (List Nat)) :
    Builder × List (List Nat) × RangeMap Nat :=
  col.ranges.foldl (rangeStep nfa col) (a2.1, a2.2, [])

def preds4 (d : Nat) (a3 : Builder × List (List Nat) × RangeMap Nat) : DFA Nat :=
  a3.2.2.foldl (fun dfa r => DFA.addPred dfa r.2.2 d) a3.1.dfa

def st4 (d : Nat) (a3 : Builder × List (List Nat) × RangeMap Nat) : Builder :=
  { a3.1 with dfa := (preds4 d a3).modify d (fun st => { st with ranges := a3.2.2 }) }

def expandC (nfa : NFA) (col : Collected) (b : Builder) (d : Nat) : Builder × List (List Nat) :=
  optStep nfa d col.eoi (fun t st => { st with eoi := some t })
    (optStep nfa d col.any (fun t st => { st with any := some t })
      (st4 d (st3 nfa col (st2 nfa col d (st1 b d col))), (st3 nfa col (st2 nfa col d (st1 b d col))).2.1))

theorem expandState_eqC (nfa : NFA) (b : Builder) (d : Nat) (cur : List Nat) :
    expandState nfa b d cur = expandC nfa (collect nfa cur) b d := rfl

theorem expand_spec {nfa : NFA} (hwf : NFAWF nfa) (hne : TargetsNonempty nfa) (b : Builder) (d : Nat)
    (cur : List Nat) (hb : WFB b) (hd : d < b.dfa.length) (hemp : TEq (b.dfa.st d) DState.empty) :
    Mid b d (expandState nfa b d cur).1 (expandState nfa b d cur).2 ∧
    DTable nfa (collect nfa cur) (expandState nfa b d cur).1.stateMap ((expandState nfa b d cur).1.dfa.st d) := by
  rw [expandState_eqC]
  have hcs := collect_spec hwf cur
  have hcne := col_chars_ne hne hcs
  have hrne := col_ranges_ne hne hcs
  generalize collect nfa cur = col at hcs hcne hrne ⊢
  unfold expandC
  -- stage 1
  have hm1 : Mid b d (st1 b d col) [] := by
    refine mid_setdfa (mid_refl b d hb) _ (List.length_modify _ _ _) (fun i hi => ?_)
    rw [dst_modify_ne _ _ (Ne.symm hi)]; exact TEq.rfl' _
  have hs1 : (st1 b d col).dfa.st d = { b.dfa.st d with accepting := col.accs } := dst_modify_eq _ _ hd
  generalize st1 b d col = b1 at hm1 hs1 ⊢
  -- stage 2
  obtain ⟨hm2, hc2, e2r, e2a, e2e, e2c⟩ := charsStage hwf col hcne hd b1 hm1 (by rw [hs1]; exact hemp.chars)
  change Mid b d (st2 nfa col d b1).1 (st2 nfa col d b1).2 at hm2
  change Rel₂ (CR nfa col (st2 nfa col d b1).1.stateMap) col.chars ((st2 nfa col d b1).1.dfa.st d).chars at hc2
  change ((st2 nfa col d b1).1.dfa.st d).ranges = _ at e2r
  change ((st2 nfa col d b1).1.dfa.st d).any = _ at e2a
  change ((st2 nfa col d b1).1.dfa.st d).eoi = _ at e2e
  change ((st2 nfa col d b1).1.dfa.st d).accepting = _ at e2c
  generalize st2 nfa col d b1 = a2 at hm2 hc2 e2r e2a e2e e2c ⊢
  -- stage 3
  obtain ⟨hm3, hr3, hsub3, hst3⟩ := rangesStage hwf col hrne a2.1 a2.2 hm2
  change Mid b d (st3 nfa col a2).1 (st3 nfa col a2).2.1 at hm3
  change Rel₂ (RR nfa col (st3 nfa col a2).1.stateMap) col.ranges (st3 nfa col a2).2.2 at hr3
  change ∀ e ∈ a2.1.stateMap, e ∈ (st3 nfa col a2).1.stateMap at hsub3
  change ∀ i, (st3 nfa col a2).1.dfa.st i = a2.1.dfa.st i at hst3
  generalize st3 nfa col a2 = a3 at hm3 hr3 hsub3 hst3 ⊢
  -- stage 4
  obtain ⟨hl4, ht4⟩ := predsFold_spec d a3.2.2 a3.1.dfa
  change (preds4 d a3).length = _ at hl4
  change ∀ i, TEq ((preds4 d a3).st i) _ at ht4
  have hd3 : d < a3.1.dfa.length := Nat.lt_of_lt_of_le hd hm3.len
  have hm4 : Mid b d (st4 d a3) a3.2.1 := by
    refine mid_setdfa hm3 _ ((List.length_modify _ _ _).trans hl4) (fun i hi => ?_)
    rw [dst_modify_ne _ _ (Ne.symm hi)]; exact ht4 i
  have hs4 : (st4 d a3).dfa.st d = { (preds4 d a3).st d with ranges := a3.2.2 } :=
    dst_modify_eq _ _ (by rw [hl4]; exact hd3)
  have ht4d := ht4 d
  rw [hst3 d] at ht4d
  generalize (preds4 d a3).st d = s4 at hs4 ht4d
  have hsm4 : (st4 d a3).stateMap = a3.1.stateMap := rfl
  generalize st4 d a3 = b4 at hm4 hs4 hsm4 ⊢
  -- stage 5
  obtain ⟨hm5, hsub5, ho5⟩ := optStage hwf hd col.any (fun t st => { st with any := some t }) (b4, a3.2.1) hm4
  generalize optStep nfa d col.any (fun t st => { st with any := some t }) (b4, a3.2.1) = a5 at hm5 hsub5 ho5 ⊢
  -- stage 6
  obtain ⟨hm6, hsub6, ho6⟩ := optStage hwf hd col.eoi (fun t st => { st with eoi := some t }) a5 hm5
  generalize optStep nfa d col.eoi (fun t st => { st with eoi := some t }) a5 = a6 at hm6 hsub6 ho6 ⊢
  refine ⟨hm6, ?_⟩
  -- the table of `d` after stage 4
  have t4 : TEq (b4.dfa.st d) (mkT (a2.1.dfa.st d).chars a3.2.2 none none col.accs) := by
    rw [hs4]
    refine ⟨ht4d.chars, rfl, ?_, ?_, ?_⟩
    · show s4.any = none; rw [ht4d.any, e2a, hs1]; exact hemp.any
    · show s4.eoi = none; rw [ht4d.eoi, e2e, hs1]; exact hemp.eoi
    · show s4.accepting = col.accs; rw [ht4d.acc, e2c, hs1]
  have hsub36 : ∀ e ∈ a3.1.stateMap, e ∈ a6.1.stateMap := fun e he =>
    hsub6 e (hsub5 e (by show e ∈ b4.stateMap; rw [hsm4]; exact he))
  -- the table after stage 5
  have t5 : TEq (a5.1.dfa.st d) (mkT (a2.1.dfa.st d).chars a3.2.2 (a5.1.dfa.st d).any none col.accs) ∧ OptOK nfa a5.1.stateMap col.any (a5.1.dfa.st d).any := by
    rcases ho5 with ⟨hc, hs⟩ | ⟨hc, t, hk, ht⟩
    · have hs' : a5.1.dfa.st d = b4.dfa.st d := hs
      rw [hs']
      exact ⟨⟨t4.chars, t4.ranges, rfl, t4.eoi, t4.acc⟩, Or.inl ⟨hc, t4.any⟩⟩
    · have ht' : TEq (a5.1.dfa.st d) { b4.dfa.st d with any := some t } := ht
      exact ⟨⟨ht'.chars.trans t4.chars, ht'.ranges.trans t4.ranges, rfl, ht'.eoi.trans t4.eoi,
        ht'.acc.trans t4.acc⟩, Or.inr ⟨hc, t, ht'.any, hk⟩⟩
  obtain ⟨t5, o5⟩ := t5
  have t6 : TEq (a6.1.dfa.st d) (mkT (a2.1.dfa.st d).chars a3.2.2 (a5.1.dfa.st d).any (a6.1.dfa.st d).eoi col.accs) ∧ OptOK nfa a6.1.stateMap col.eoi (a6.1.dfa.st d).eoi := by
    rcases ho6 with ⟨hc, hs⟩ | ⟨hc, t, hk, ht⟩
    · rw [hs]
      exact ⟨⟨t5.chars, t5.ranges, rfl, rfl, t5.acc⟩, Or.inl ⟨hc, t5.eoi⟩⟩
    · have ht' : TEq (a6.1.dfa.st d) { a5.1.dfa.st d with eoi := some t } := ht
      exact ⟨⟨ht'.chars.trans t5.chars, ht'.ranges.trans t5.ranges, ht'.any, rfl,
        ht'.acc.trans t5.acc⟩, Or.inr ⟨hc, t, ht'.eoi, hk⟩⟩
  obtain ⟨t6, o6⟩ := t6
  constructor
  · rw [t6.chars]
    exact hc2.imp (fun a q _ h => ⟨h.1, hsub36 _ (hsub3 _ h.2)⟩)
  · rw [t6.ranges]
    exact hr3.imp (fun a q _ h => ⟨h.1, h.2.1, hsub36 _ h.2.2⟩)
  · rw [t6.any]; exact o5.mono hsub6
  · exact o6
  · exact t6.acc

end Lexgen.Subset
