import LexgenModel.Model.TableGen
/-!
# Specification of the table generator model (`generateRanges`)

The output of `generateRanges f max` is the unique canonical range list over `0..=max` covering
exactly the scalar values satisfying `f`.
-/

namespace Lexgen

/-- `c` lies in one of the ranges -/
def covers (l : List (Nat × Nat)) (c : Nat) : Prop := ∃ p ∈ l, p.1 ≤ c ∧ c ≤ p.2

/-- Canonical range list over `0..=max`: scalar end points, non-inverted, within `max`, strictly
increasing, and consecutive ranges separated by at least one scalar value (maximality). -/
def Canon (max : Nat) : List (Nat × Nat) → Prop
  | [] => True
  | (s, e) :: rest =>
    isScalar s = true ∧ isScalar e = true ∧ s ≤ e ∧ e ≤ max ∧ (∀ p ∈ rest, nextScalar e < p.1) ∧ Canon max rest

/-! ## Arithmetic of `isScalar` / `nextScalar` -/

theorem isScalar_iff (c : Nat) : isScalar c = true ↔ c < 55296 ∨ 57343 < c := by
  unfold isScalar
  simp only [Bool.not_eq_true', Bool.and_eq_false_iff, decide_eq_false_iff_not]
  omega

theorem isScalar_false_iff (c : Nat) : isScalar c = false ↔ 55296 ≤ c ∧ c ≤ 57343 := by
  unfold isScalar
  simp only [Bool.not_eq_false', Bool.and_eq_true, decide_eq_true_eq]

theorem nextScalar_eq (x : Nat) :
    (x + 1 = 55296 ∧ nextScalar x = 57344) ∨ (x + 1 ≠ 55296 ∧ nextScalar x = x + 1) := by
  unfold nextScalar
  by_cases h : x + 1 = 0xD800
  · left; rw [if_pos h]; exact ⟨h, rfl⟩
  · right; rw [if_neg h]; exact ⟨h, rfl⟩

theorem lt_nextScalar (x : Nat) : x < nextScalar x := by
  have := nextScalar_eq x
  omega

theorem isScalar_nextScalar (x : Nat) (h : isScalar x = true) : isScalar (nextScalar x) = true := by
  rw [isScalar_iff] at h ⊢
  have := nextScalar_eq x
  omega

theorem nextScalar_le (x y : Nat) (hxy : x < y) (hy : isScalar y = true) : nextScalar x ≤ y := by
  rw [isScalar_iff] at hy
  have := nextScalar_eq x
  omega

/-! ## Basic facts about `covers` and `Canon` -/

theorem covers_nil (c : Nat) : ¬ covers [] c := by
  intro h
  obtain ⟨p, hp, _⟩ := h
  cases hp

theorem covers_cons (p : Nat × Nat) (l : List (Nat × Nat)) (c : Nat) :
    covers (p :: l) c ↔ (p.1 ≤ c ∧ c ≤ p.2) ∨ covers l c := by
  constructor
  · intro h
    obtain ⟨q, hq, hqc⟩ := h
    rcases List.mem_cons.mp hq with rfl | hq'
    · exact Or.inl hqc
    · exact Or.inr ⟨q, hq', hqc⟩
  · intro h
    rcases h with h | h
    · exact ⟨p, List.mem_cons_self, h⟩
    · obtain ⟨q, hq, hqc⟩ := h
      exact ⟨q, List.mem_cons_of_mem _ hq, hqc⟩

theorem covers_reverse (l : List (Nat × Nat)) (c : Nat) : covers l.reverse c ↔ covers l c := by
  unfold covers
  constructor
  · intro h
    obtain ⟨p, hp, hpc⟩ := h
    exact ⟨p, List.mem_reverse.mp hp, hpc⟩
  · intro h
    obtain ⟨p, hp, hpc⟩ := h
    exact ⟨p, List.mem_reverse.mpr hp, hpc⟩

theorem canon_cons (max s e : Nat) (rest : List (Nat × Nat)) :
    Canon max ((s, e) :: rest) ↔
      (isScalar s = true ∧ isScalar e = true ∧ s ≤ e ∧ e ≤ max ∧
        (∀ p ∈ rest, nextScalar e < p.1) ∧ Canon max rest) := Iff.rfl

/-- appending a range at the end of a canonical list -/
theorem canon_snoc (max s e : Nat) (hs : isScalar s = true) (he : isScalar e = true) (hse : s ≤ e)
    (hem : e ≤ max) :
    ∀ (l : List (Nat × Nat)), Canon max l → (∀ p ∈ l, nextScalar p.2 < s) →
      Canon max (l ++ [(s, e)]) := by
  intro l
  induction l with
  | nil =>
    intro _ _
    rw [List.nil_append, canon_cons]
    refine ⟨hs, he, hse, hem, ?_, trivial⟩
    intro p hp
    cases hp
  | cons q rest ih =>
    obtain ⟨a, b⟩ := q
    intro hc hsep
    rw [List.cons_append, canon_cons]
    rw [canon_cons] at hc
    obtain ⟨h1, h2, h3, h4, h5, h6⟩ := hc
    refine ⟨h1, h2, h3, h4, ?_, ?_⟩
    · intro p hp
      rcases List.mem_append.mp hp with hp | hp
      · exact h5 p hp
      · rcases List.mem_singleton.mp hp with rfl
        exact hsep (a, b) List.mem_cons_self
    · apply ih h6
      intro p hp
      exact hsep p (List.mem_cons_of_mem _ hp)

/-! ## Loop invariant -/

/-- The emitted ranges `acc` (most recent first) are final with respect to the bound `b`: they are
canonical, end (with a separating scalar) before `b`, and cover exactly the satisfying scalars
below `b`. -/
def Closed (f : Nat → Bool) (max b : Nat) (acc : List (Nat × Nat)) : Prop :=
  Canon max acc.reverse ∧ (∀ p ∈ acc, nextScalar p.2 < b) ∧
  (∀ c, isScalar c = true → c < b → (f c = true ↔ covers acc c))

/-- A range starting at `s` is open at position `i`; `last` is the greatest scalar below `i`. -/
def Opened (f : Nat → Bool) (max i : Nat) (acc : List (Nat × Nat)) (s last : Nat) : Prop :=
  Closed f max s acc ∧ isScalar s = true ∧ s ≤ last ∧ last < i ∧ isScalar last = true ∧
  (∀ c, s ≤ c → c < i → isScalar c = true → f c = true) ∧
  (∀ c, last < c → c < i → isScalar c = false)

/-- the loop invariant before processing code point `i` -/
def Inv (f : Nat → Bool) (max i : Nat) (acc : List (Nat × Nat)) (last : Nat) : Option Nat → Prop
  | none => Closed f max i acc
  | some s => Opened f max i acc s last

/-- the post-condition -/
def Post (f : Nat → Bool) (max : Nat) (l : List (Nat × Nat)) : Prop :=
  Canon max l ∧ ∀ c, c ≤ max → isScalar c = true → (f c = true ↔ covers l c)

theorem closed_covers_lt {f : Nat → Bool} {max b : Nat} {acc : List (Nat × Nat)}
    (h : Closed f max b acc) (c : Nat) (hc : covers acc c) : c < b := by
  obtain ⟨p, hp, _, hpc⟩ := hc
  have h1 := h.2.1 p hp
  have h2 := lt_nextScalar p.2
  omega

/-- flushing the open range -/
theorem opened_flush {f : Nat → Bool} {max i : Nat} {acc : List (Nat × Nat)} {s last : Nat}
    (h : Opened f max i acc s last) (hlm : last ≤ max) :
    Canon max ((s, last) :: acc).reverse ∧ (∀ p ∈ (s, last) :: acc, p.2 < i) ∧
    (∀ c, isScalar c = true → c < i → (f c = true ↔ covers ((s, last) :: acc) c)) := by
  obtain ⟨hcl, hs, hsl, hli, hl, hf, hgap⟩ := h
  refine ⟨?_, ?_, ?_⟩
  · rw [List.reverse_cons]
    apply canon_snoc max s last hs hl hsl hlm _ hcl.1
    intro p hp
    exact hcl.2.1 p (List.mem_reverse.mp hp)
  · intro p hp
    rcases List.mem_cons.mp hp with rfl | hp
    · exact hli
    · have h1 := hcl.2.1 p hp
      have h2 := lt_nextScalar p.2
      omega
  · intro c hc hci
    rw [covers_cons]
    by_cases hcs : c < s
    · rw [hcl.2.2 c hc hcs]
      constructor
      · intro h; exact Or.inr h
      · intro h
        rcases h with h | h
        · have := h.1
          simp only at this
          omega
        · exact h
    · have hsc : s ≤ c := Nat.le_of_not_lt hcs
      have hfc := hf c hsc hci hc
      constructor
      · intro _
        left
        refine ⟨hsc, ?_⟩
        by_cases hlc : last < c
        · have := hgap c hlc hci
          rw [hc] at this
          cases this
        · exact Nat.le_of_not_lt hlc
      · intro _; exact hfc

theorem inv_skip {f : Nat → Bool} {max i : Nat} {acc : List (Nat × Nat)} {last : Nat}
    (hi : isScalar i = false) :
    ∀ cur, Inv f max i acc last cur → Inv f max (i + 1) acc last cur := by
  intro cur h
  cases cur with
  | none =>
    obtain ⟨h1, h2, h3⟩ := h
    refine ⟨h1, ?_, ?_⟩
    · intro p hp
      have := h2 p hp
      omega
    · intro c hc hci
      have : c ≠ i := by
        intro e
        rw [e, hi] at hc
        cases hc
      exact h3 c hc (by omega)
  | some s =>
    obtain ⟨hcl, hs, hsl, hli, hl, hf, hgap⟩ := h
    refine ⟨hcl, hs, hsl, by omega, hl, ?_, ?_⟩
    · intro c hsc hci hc
      have : c ≠ i := by
        intro e
        rw [e, hi] at hc
        cases hc
      exact hf c hsc (by omega) hc
    · intro c hlc hci
      by_cases e : c = i
      · rw [e]; exact hi
      · exact hgap c hlc (by omega)

theorem inv_open {f : Nat → Bool} {max i : Nat} {acc : List (Nat × Nat)} {last : Nat}
    (hi : isScalar i = true) (hfi : f i = true) (h : Inv f max i acc last none) :
    Inv f max (i + 1) acc i (some i) := by
  refine ⟨h, hi, Nat.le_refl _, Nat.lt_succ_self _, hi, ?_, ?_⟩
  · intro c h1 h2 _
    have : c = i := by omega
    rw [this]; exact hfi
  · intro c h1 h2
    omega

theorem inv_extend {f : Nat → Bool} {max i : Nat} {acc : List (Nat × Nat)} {s last : Nat}
    (hi : isScalar i = true) (hfi : f i = true) (h : Inv f max i acc last (some s)) :
    Inv f max (i + 1) acc i (some s) := by
  obtain ⟨hcl, hs, hsl, hli, hl, hf, hgap⟩ := h
  refine ⟨hcl, hs, by omega, Nat.lt_succ_self _, hi, ?_, ?_⟩
  · intro c h1 h2 hc
    by_cases e : c = i
    · rw [e]; exact hfi
    · exact hf c h1 (by omega) hc
  · intro c h1 h2
    omega

theorem inv_none {f : Nat → Bool} {max i : Nat} {acc : List (Nat × Nat)} {last : Nat}
    (hfi : f i = false) (h : Inv f max i acc last none) :
    Inv f max (i + 1) acc i none := by
  have hlt := closed_covers_lt h
  obtain ⟨h1, h2, h3⟩ := h
  refine ⟨h1, ?_, ?_⟩
  · intro p hp
    have := h2 p hp
    omega
  · intro c hc hci
    by_cases e : c = i
    · rw [e, hfi]
      constructor
      · intro x; cases x
      · intro x
        have := hlt i x
        omega
    · exact h3 c hc (by omega)

theorem inv_close {f : Nat → Bool} {max i : Nat} {acc : List (Nat × Nat)} {s last : Nat}
    (him : i ≤ max) (hi : isScalar i = true) (hfi : f i = false)
    (h : Inv f max i acc last (some s)) :
    Inv f max (i + 1) ((s, last) :: acc) i none := by
  have hli : last < i := h.2.2.2.1
  obtain ⟨h1, h2, h3⟩ := opened_flush h (by omega)
  refine ⟨h1, ?_, ?_⟩
  · intro p hp
    have hp2 := h2 p hp
    have := nextScalar_le p.2 i hp2 hi
    omega
  · intro c hc hci
    by_cases e : c = i
    · rw [e, hfi]
      constructor
      · intro x; cases x
      · intro x
        obtain ⟨p, hp, _, hpc⟩ := x
        have := h2 p hp
        omega
    · exact h3 c hc (by omega)

theorem genLoop_post (f : Nat → Bool) (max : Nat) :
    ∀ (fuel i : Nat) (acc : List (Nat × Nat)) (cur : Option Nat) (last : Nat),
      i + fuel = max + 1 → Inv f max i acc last cur → Post f max (genLoop f fuel i acc cur last) := by
  intro fuel
  induction fuel with
  | zero =>
    intro i acc cur last hif h
    cases cur with
    | none =>
      simp only [genLoop]
      obtain ⟨h1, _, h3⟩ := h
      refine ⟨h1, ?_⟩
      intro c hcm hc
      rw [covers_reverse]
      exact h3 c hc (by omega)
    | some s =>
      simp only [genLoop]
      have hli : last < i := h.2.2.2.1
      obtain ⟨h1, _, h3⟩ := opened_flush h (by omega)
      refine ⟨h1, ?_⟩
      intro c hcm hc
      rw [covers_reverse]
      exact h3 c hc (by omega)
  | succ fuel ih =>
    intro i acc cur last hif h
    have hif' : i + 1 + fuel = max + 1 := by omega
    simp only [genLoop]
    cases hi : isScalar i with
    | false =>
      simp only [Bool.not_false, if_true]
      exact ih (i + 1) acc cur last hif' (inv_skip hi cur h)
    | true =>
      simp only [Bool.not_true, Bool.false_eq_true, if_false]
      cases hfi : f i with
      | true =>
        simp only [if_true]
        cases cur with
        | none => exact ih (i + 1) acc (some i) i hif' (inv_open hi hfi h)
        | some s => exact ih (i + 1) acc (some s) i hif' (inv_extend hi hfi h)
      | false =>
        simp only [Bool.false_eq_true, if_false]
        cases cur with
        | none => exact ih (i + 1) acc none i hif' (inv_none hfi h)
        | some s =>
          exact ih (i + 1) ((s, last) :: acc) none i hif' (inv_close (by omega) hi hfi h)

theorem generateRanges_post (f : Nat → Bool) (max : Nat) : Post f max (generateRanges f max) := by
  unfold generateRanges
  apply genLoop_post f max (max + 1) 0 [] none 0 (by omega)
  refine ⟨trivial, ?_, ?_⟩
  · intro p hp; cases hp
  · intro c _ hc
    omega

/-- The generator's output is canonical. -/
theorem generateRanges_canon (f : Nat → Bool) (max : Nat) : Canon max (generateRanges f max) :=
  (generateRanges_post f max).1

/-- It covers exactly the scalar values `≤ max` satisfying the predicate. -/
theorem generateRanges_covers (f : Nat → Bool) (max : Nat) (c : Nat) (hc : c ≤ max) (hs : isScalar c = true) :
    f c = true ↔ covers (generateRanges f max) c :=
  (generateRanges_post f max).2 c hc hs

/-! ## Uniqueness of canonical lists -/

theorem canon_head_lt {max s e : Nat} {r : List (Nat × Nat)} (h : Canon max ((s, e) :: r)) :
    ∀ p ∈ r, nextScalar e < p.1 := h.2.2.2.2.1

theorem canon_covers_ge {max s e : Nat} {r : List (Nat × Nat)} (h : Canon max ((s, e) :: r)) (c : Nat)
    (hc : covers ((s, e) :: r) c) : s ≤ c := by
  rw [covers_cons] at hc
  rcases hc with hc | hc
  · exact hc.1
  · obtain ⟨p, hp, hpc, _⟩ := hc
    have h1 := canon_head_lt h p hp
    have h2 := lt_nextScalar e
    have h3 : s ≤ e := h.2.2.1
    omega

theorem canon_covers_head {max s e : Nat} {r : List (Nat × Nat)} (h : Canon max ((s, e) :: r)) :
    covers ((s, e) :: r) s := by
  rw [covers_cons]
  exact Or.inl ⟨Nat.le_refl _, h.2.2.1⟩

theorem canon_start_le {max s1 e1 s2 e2 : Nat} {r1 r2 : List (Nat × Nat)}
    (h1 : Canon max ((s1, e1) :: r1)) (h2 : Canon max ((s2, e2) :: r2))
    (h : ∀ c, c ≤ max → isScalar c = true → covers ((s1, e1) :: r1) c → covers ((s2, e2) :: r2) c) :
    s2 ≤ s1 := by
  have hs1 : s1 ≤ max := Nat.le_trans h1.2.2.1 h1.2.2.2.1
  exact canon_covers_ge h2 s1 (h s1 hs1 h1.1 (canon_covers_head h1))

theorem canon_end_le {max s e1 e2 : Nat} {r1 r2 : List (Nat × Nat)}
    (h1 : Canon max ((s, e1) :: r1)) (h2 : Canon max ((s, e2) :: r2))
    (h : ∀ c, c ≤ max → isScalar c = true → covers ((s, e2) :: r2) c → covers ((s, e1) :: r1) c) :
    e2 ≤ e1 := by
  apply Nat.le_of_not_lt
  intro hlt
  have hle := nextScalar_le e1 e2 hlt h2.2.1
  have hgt := lt_nextScalar e1
  have hsc := isScalar_nextScalar e1 h1.2.1
  have hse : s ≤ e1 := h1.2.2.1
  have he2 : e2 ≤ max := h2.2.2.2.1
  have hcov : covers ((s, e2) :: r2) (nextScalar e1) := by
    rw [covers_cons]
    left
    constructor
    · show s ≤ nextScalar e1
      omega
    · exact hle
  have := h (nextScalar e1) (by omega) hsc hcov
  rw [covers_cons] at this
  rcases this with hc | hc
  · have := hc.2
    simp only at this
    omega
  · obtain ⟨p, hp, hpc, _⟩ := hc
    have := canon_head_lt h1 p hp
    omega

theorem canon_tail_covers {max s e : Nat} {r1 r2 : List (Nat × Nat)}
    (h1 : Canon max ((s, e) :: r1)) (c : Nat)
    (h : covers ((s, e) :: r1) c → covers ((s, e) :: r2) c) :
    covers r1 c → covers r2 c := by
  intro hc
  have hec : e < c := by
    obtain ⟨p, hp, hpc, _⟩ := hc
    have := canon_head_lt h1 p hp
    have := lt_nextScalar e
    omega
  have := h ((covers_cons _ _ _).mpr (Or.inr hc))
  rw [covers_cons] at this
  rcases this with hc' | hc'
  · have := hc'.2
    simp only at this
    omega
  · exact hc'

/-- Two canonical lists covering the same scalar values are equal. -/
theorem canon_ext (max : Nat) (l1 l2 : List (Nat × Nat)) (h1 : Canon max l1) (h2 : Canon max l2)
    (h : ∀ c, c ≤ max → isScalar c = true → (covers l1 c ↔ covers l2 c)) : l1 = l2 := by
  induction l1 generalizing l2 with
  | nil =>
    cases l2 with
    | nil => rfl
    | cons q r2 =>
      obtain ⟨s, e⟩ := q
      have hs : s ≤ max := Nat.le_trans h2.2.2.1 h2.2.2.2.1
      exact absurd ((h s hs h2.1).mpr (canon_covers_head h2)) (covers_nil s)
  | cons q1 r1 ih =>
    obtain ⟨s1, e1⟩ := q1
    cases l2 with
    | nil =>
      have hs : s1 ≤ max := Nat.le_trans h1.2.2.1 h1.2.2.2.1
      exact absurd ((h s1 hs h1.1).mp (canon_covers_head h1)) (covers_nil s1)
    | cons q2 r2 =>
      obtain ⟨s2, e2⟩ := q2
      have hs : s1 = s2 := by
        have a := canon_start_le h1 h2 (fun c hc hsc => (h c hc hsc).mp)
        have b := canon_start_le h2 h1 (fun c hc hsc => (h c hc hsc).mpr)
        omega
      subst hs
      have he : e1 = e2 := by
        have a := canon_end_le h1 h2 (fun c hc hsc => (h c hc hsc).mpr)
        have b := canon_end_le h2 h1 (fun c hc hsc => (h c hc hsc).mp)
        omega
      subst he
      have hr : r1 = r2 := by
        apply ih r2 h1.2.2.2.2.2 h2.2.2.2.2.2
        intro c hc hsc
        constructor
        · exact canon_tail_covers h1 c (h c hc hsc).mp
        · exact canon_tail_covers h2 c (h c hc hsc).mpr
      rw [hr]

/-- Uniqueness: the output is the only canonical list covering exactly the satisfying scalars. -/
theorem generateRanges_unique (f : Nat → Bool) (max : Nat) (l : List (Nat × Nat)) (hl : Canon max l)
    (h : ∀ c, c ≤ max → isScalar c = true → (f c = true ↔ covers l c)) : l = generateRanges f max := by
  apply canon_ext max l (generateRanges f max) hl (generateRanges_canon f max)
  intro c hc hsc
  rw [← h c hc hsc]
  exact generateRanges_covers f max c hc hsc

/-- non-vacuity: a concrete run of the generator -/
example : generateRanges (fun c => c % 2 == 0 || c ≥ 5) 8 = [(0, 0), (2, 2), (4, 8)] := by decide

end Lexgen
