import LexgenModel.Proofs.RuleSetLang
import LexgenModel.Proofs.Simplify
import LexgenModel.Proofs.Backtrack
import LexgenModel.Proofs.Static
/-!
# End to end through `lexer()`: the language of every rule set survives the glue

Composition of `ruleSet_lang` (Thompson + subset construction), `addDfa_*` (concatenation),
`Backtrack.updateBacktracks_some` (only `backtrack` flags change) and `simplify_spec` (removal and
renumbering) along the fold of `compileLexer`.

Two structural facts about `nfaToDfa` that hold for EVERY NFA (no well-formedness needed) are proved
here because the glue needs them for all rule sets of a definition at once, also those whose
regexes are not covered by the hypothesis of the language theorem: every transition target of the
result is a state, and state 0 is flagged `initial`.
-/

set_option linter.unusedSimpArgs false
set_option linter.unusedVariables false
namespace Lexgen
namespace CompileLang
open Lexgen.Subset Lexgen.Simplify Lexgen.Static

/-! ## `nfaToDfa`: targets in range and state 0 initial, unconditionally -/

/-- all transition targets (of all states, also the default state beyond the end) are below the
length, and state 0 is initial -/
structure DOK (D : DFA Nat) : Prop where
  succs : ∀ s, ∀ t ∈ DFA.succs (D.st s), t < D.length
  init : (D.st 0).initial = true

structure BOK (b : Builder) : Prop where
  map : ∀ e ∈ b.stateMap, e.2 < b.dfa.length
  dok : DOK b.dfa

/-- an update of one state that keeps `initial` and adds only targets below `n` -/
def Upd (f : DState Nat → DState Nat) (n : Nat) : Prop :=
  ∀ x, (f x).initial = x.initial ∧ ∀ t ∈ DFA.succs (f x), t ∈ DFA.succs x ∨ t < n

theorem dok_modify {D : DFA Nat} (h : DOK D) (d : Nat) (f : DState Nat → DState Nat)
    (hf : Upd f D.length) : DOK (D.modify d f) := by
  constructor
  · intro s t ht
    rw [List.length_modify]
    rw [dst_modify] at ht
    by_cases hc : d = s ∧ s < D.length
    · rw [if_pos hc] at ht
      rcases (hf (D.st s)).2 t ht with h1 | h1
      · exact h.succs s t h1
      · exact h1
    · rw [if_neg hc] at ht
      exact h.succs s t ht
  · rw [dst_modify]
    by_cases hc : d = 0 ∧ 0 < D.length
    · rw [if_pos hc, (hf (D.st 0)).1]
      exact h.init
    · rw [if_neg hc]
      exact h.init

theorem upd_preds (g : List Nat → List Nat) (n : Nat) :
    Upd (fun st => { st with preds := g st.preds }) n :=
  fun x => ⟨rfl, fun t ht => Or.inl ht⟩

theorem upd_acc (a : List Acc) (n : Nat) : Upd (fun st => { st with accepting := a }) n :=
  fun x => ⟨rfl, fun t ht => Or.inl ht⟩

theorem upd_chars (c t n : Nat) (ht : t < n) :
    Upd (fun st => { st with chars := st.chars ++ [(c, t)] }) n := by
  intro x
  refine ⟨rfl, fun u hu => ?_⟩
  simp only [DFA.succs, List.map_append, List.map_cons, List.map_nil, List.mem_append,
    List.mem_singleton] at hu ⊢
  rcases hu with ((((h | h) | h) | h) | h)
  · exact Or.inl (Or.inl (Or.inl (Or.inl h)))
  · subst h; exact Or.inr ht
  · exact Or.inl (Or.inl (Or.inl (Or.inr h)))
  · exact Or.inl (Or.inl (Or.inr h))
  · exact Or.inl (Or.inr h)

theorem upd_ranges (rng : RangeMap Nat) (n : Nat) (hr : ∀ r ∈ rng, r.2.2 < n) :
    Upd (fun st => { st with ranges := rng }) n := by
  intro x
  refine ⟨rfl, fun u hu => ?_⟩
  simp only [DFA.succs, List.mem_append] at hu ⊢
  rcases hu with (((h | h) | h) | h)
  · exact Or.inl (Or.inl (Or.inl (Or.inl h)))
  · obtain ⟨r, hr1, hr2⟩ := List.mem_map.mp h
    subst hr2
    exact Or.inr (hr r hr1)
  · exact Or.inl (Or.inl (Or.inr h))
  · exact Or.inl (Or.inr h)

theorem upd_any (t n : Nat) (ht : t < n) : Upd (fun st => { st with any := some t }) n := by
  intro x
  refine ⟨rfl, fun u hu => ?_⟩
  simp only [DFA.succs, List.mem_append, Option.toList_some, List.mem_singleton] at hu ⊢
  rcases hu with (((h | h) | h) | h)
  · exact Or.inl (Or.inl (Or.inl (Or.inl h)))
  · exact Or.inl (Or.inl (Or.inl (Or.inr h)))
  · subst h; exact Or.inr ht
  · exact Or.inl (Or.inr h)

theorem upd_eoi (t n : Nat) (ht : t < n) : Upd (fun st => { st with eoi := some t }) n := by
  intro x
  refine ⟨rfl, fun u hu => ?_⟩
  simp only [DFA.succs, List.mem_append, Option.toList_some, List.mem_singleton] at hu ⊢
  rcases hu with (((h | h) | h) | h)
  · exact Or.inl (Or.inl (Or.inl (Or.inl h)))
  · exact Or.inl (Or.inl (Or.inl (Or.inr h)))
  · exact Or.inl (Or.inl (Or.inr h))
  · subst h; exact Or.inr ht

theorem dok_addPred {D : DFA Nat} (h : DOK D) (t p : Nat) : DOK (DFA.addPred D t p) :=
  dok_modify h t _ (upd_preds (setInsert p) _)

theorem dok_predsFold (d : Nat) (rng : RangeMap Nat) :
    ∀ D : DFA Nat, DOK D → DOK (rng.foldl (fun dfa r => DFA.addPred dfa r.2.2 d) D) := by
  induction rng with
  | nil => exact fun D h => h
  | cons r rng ih =>
    intro D h
    rw [List.foldl_cons]
    exact ih _ (dok_addPred h _ _)

theorem bok_setdfa {b : Builder} (h : BOK b) (D : DFA Nat) (hl : D.length = b.dfa.length) (hD : DOK D) :
    BOK { b with dfa := D } :=
  ⟨fun e he => by show e.2 < D.length; rw [hl]; exact h.map e he, hD⟩

theorem bok_stateOf {b : Builder} (h : BOK b) (k : List Nat) :
    BOK (b.stateOf k).1 ∧ (b.stateOf k).2 < (b.stateOf k).1.dfa.length ∧
      b.dfa.length ≤ (b.stateOf k).1.dfa.length := by
  unfold Builder.stateOf
  cases hf : b.stateMap.find? (fun e => e.1 = k) with
  | some e =>
    obtain ⟨k', i⟩ := e
    exact ⟨h, h.map _ (List.mem_of_find?_eq_some hf), Nat.le_refl _⟩
  | none =>
    refine ⟨⟨?_, ?_, ?_⟩, ?_, ?_⟩
    · intro e he
      show e.2 < (b.dfa ++ [DState.empty]).length
      rw [List.length_append, List.length_singleton]
      rcases List.mem_append.mp he with h1 | h1
      · exact Nat.lt_succ_of_lt (h.map e h1)
      · rw [List.mem_singleton] at h1; subst h1; exact Nat.lt_succ_self _
    · intro s t ht
      show t < (b.dfa ++ [DState.empty]).length
      rw [List.length_append, List.length_singleton]
      have ht' : t ∈ DFA.succs (b.dfa.st s) := by
        have e : DFA.st (b.dfa ++ [DState.empty]) s = DFA.st b.dfa s := dst_append_empty _ _
        rw [← e]; exact ht
      exact Nat.lt_succ_of_lt (h.dok.succs s t ht')
    · show (DFA.st (b.dfa ++ [DState.empty]) 0).initial = true
      rw [dst_append_empty]
      exact h.dok.init
    · show b.dfa.length < (b.dfa ++ [DState.empty]).length
      rw [List.length_append, List.length_singleton]
      exact Nat.lt_succ_self _
    · show b.dfa.length ≤ (b.dfa ++ [DState.empty]).length
      rw [List.length_append, List.length_singleton]
      exact Nat.le_succ _

theorem bok_link {b : Builder} (h : BOK b) (d : Nat) (k : List Nat) (upd : Nat → DState Nat → DState Nat)
    (hupd : ∀ t n, t < n → Upd (upd t) n) :
    BOK (link b d k upd) ∧ b.dfa.length ≤ (link b d k upd).dfa.length := by
  obtain ⟨h1, h2, h3⟩ := bok_stateOf h k
  have hm : DOK ((b.stateOf k).1.dfa.modify d (upd (b.stateOf k).2)) :=
    dok_modify h1.dok d _ (hupd _ _ h2)
  have ha := dok_addPred hm (b.stateOf k).2 d
  constructor
  · exact bok_setdfa h1 _ (by rw [length_addPred, List.length_modify]) ha
  · show b.dfa.length ≤ (DFA.addPred _ _ _).length
    rw [length_addPred, List.length_modify]
    exact h3

theorem bok_charFold (nfa : NFA) (col : Collected) (d : Nat) (l : List (Nat × List Nat)) :
    ∀ acc : Builder × List (List Nat), BOK acc.1 → BOK (l.foldl (charStep nfa col d) acc).1 := by
  induction l with
  | nil => exact fun acc h => h
  | cons e l ih =>
    intro acc h
    rw [List.foldl_cons]
    apply ih
    exact (bok_link h d _ _ (fun t n ht => upd_chars e.1 t n ht)).1

theorem bok_rangeFold (nfa : NFA) (col : Collected) (l : RangeMap (List Nat)) :
    ∀ acc : Builder × List (List Nat) × RangeMap Nat, BOK acc.1 →
      (∀ r ∈ acc.2.2, r.2.2 < acc.1.dfa.length) →
      BOK (l.foldl (rangeStep nfa col) acc).1 ∧
        ∀ r ∈ (l.foldl (rangeStep nfa col) acc).2.2, r.2.2 < (l.foldl (rangeStep nfa col) acc).1.dfa.length := by
  induction l with
  | nil => exact fun acc h hr => ⟨h, hr⟩
  | cons r l ih =>
    intro acc h hr
    rw [List.foldl_cons]
    obtain ⟨h1, h2, h3⟩ := bok_stateOf h (nfa.closure (setUnion r.2.2 col.any))
    apply ih
    · exact h1
    · intro x hx
      show x.2.2 < (acc.1.stateOf (nfa.closure (setUnion r.2.2 col.any))).1.dfa.length
      have hx' : x ∈ acc.2.2 ++ [(r.1, r.2.1, (acc.1.stateOf (nfa.closure (setUnion r.2.2 col.any))).2)] := hx
      rcases List.mem_append.mp hx' with h4 | h4
      · exact Nat.lt_of_lt_of_le (hr x h4) h3
      · rw [List.mem_singleton] at h4; subst h4; exact h2

theorem bok_optStep (nfa : NFA) (d : Nat) (tg : List Nat) (upd : Nat → DState Nat → DState Nat)
    (hupd : ∀ t n, t < n → Upd (upd t) n) (acc : Builder × List (List Nat)) (h : BOK acc.1) :
    BOK (optStep nfa d tg upd acc).1 := by
  unfold optStep
  by_cases hc : (nfa.closure tg).isEmpty = true
  · rw [if_pos hc]; exact h
  · rw [if_neg hc]; exact (bok_link h d _ _ hupd).1

theorem bok_tail (nfa : NFA) (anyT eoiT : List Nat) (d : Nat)
    (a3 : Builder × List (List Nat) × RangeMap Nat) (h3 : BOK a3.1)
    (h3r : ∀ r ∈ a3.2.2, r.2.2 < a3.1.dfa.length) :
    BOK (optStep nfa d eoiT (fun t st => { st with eoi := some t })
      (optStep nfa d anyT (fun t st => { st with any := some t })
        ({ a3.1 with dfa := ((a3.2.2.foldl (fun dfa r => DFA.addPred dfa r.2.2 d) a3.1.dfa).modify d
            (fun st => { st with ranges := a3.2.2 })) }, a3.2.1))).1 := by
  have hp := dok_predsFold d a3.2.2 _ h3.dok
  have hpl := (predsFold_spec d a3.2.2 a3.1.dfa).1
  have h4 : BOK { a3.1 with dfa := ((a3.2.2.foldl (fun dfa r => DFA.addPred dfa r.2.2 d) a3.1.dfa).modify d
            (fun st => { st with ranges := a3.2.2 })) } :=
    bok_setdfa h3 _ ((List.length_modify _ _ _).trans hpl)
      (dok_modify hp d _ (upd_ranges _ _ (by rw [hpl]; exact h3r)))
  have h5 := bok_optStep nfa d anyT (fun t st => { st with any := some t })
    (fun t n ht => upd_any t n ht) (_, a3.2.1) h4
  exact bok_optStep nfa d eoiT (fun t st => { st with eoi := some t })
    (fun t n ht => upd_eoi t n ht) _ h5

theorem bok_expand (nfa : NFA) (b : Builder) (d : Nat) (cur : List Nat) (h : BOK b) :
    BOK (expandState nfa b d cur).1 := by
  rw [expandState_eq]
  unfold expand'
  have h1 : BOK { b with dfa := b.dfa.modify d fun st => { st with accepting := (collect nfa cur).accs } } :=
    bok_setdfa h _ (List.length_modify _ _ _) (dok_modify h.dok d _ (upd_acc _ _))
  have h2 := bok_charFold nfa (collect nfa cur) d (collect nfa cur).chars (_, []) h1
  have h3 := bok_rangeFold nfa (collect nfa cur) (collect nfa cur).ranges
    (((collect nfa cur).chars.foldl (charStep nfa (collect nfa cur) d)
        ({ b with dfa := b.dfa.modify d fun st => { st with accepting := (collect nfa cur).accs } }, [])).1,
     ((collect nfa cur).chars.foldl (charStep nfa (collect nfa cur) d)
        ({ b with dfa := b.dfa.modify d fun st => { st with accepting := (collect nfa cur).accs } }, [])).2,
     []) h2 (fun r hr => by cases hr)
  exact bok_tail nfa _ _ d _ h3.1 h3.2

theorem bok_loop (nfa : NFA) : ∀ (fuel : Nat) (wl : List (List Nat)) (finished : List Nat) (b bf : Builder),
    nfaToDfaLoop nfa fuel wl finished b = some bf → BOK b → BOK bf := by
  intro fuel
  induction fuel with
  | zero =>
    intro wl finished b bf h hb
    cases wl with
    | nil => simp only [nfaToDfaLoop] at h; cases h; exact hb
    | cons cur wl => simp [nfaToDfaLoop] at h
  | succ fuel ih =>
    intro wl finished b bf h hb
    cases wl with
    | nil => simp only [nfaToDfaLoop] at h; cases h; exact hb
    | cons cur wl =>
      rw [loop_cons] at h
      have h1 := (bok_stateOf hb cur).1
      by_cases hc : finished.contains (b.stateOf cur).2 = true
      · rw [if_pos hc] at h
        exact ih _ _ _ _ h h1
      · rw [if_neg hc] at h
        exact ih _ _ _ _ h (bok_expand nfa _ _ _ h1)

/-- every transition target of a subset-construction result is a state and its state 0 is
`initial`, for every NFA -/
theorem nfaToDfa_ok (nfa : NFA) (d : DFA Nat) (h : nfaToDfa nfa = some d) :
    TargetsInRange d ∧ (d.st 0).initial = true := by
  unfold nfaToDfa at h
  simp only [Option.map_eq_some_iff] at h
  obtain ⟨bf, hloop, rfl⟩ := h
  have h0 : BOK { dfa := [{ (DState.empty : DState Nat) with initial := true }],
                  stateMap := [(nfa.closure [0], 0)] } := by
    refine ⟨?_, ?_, rfl⟩
    · intro e he
      rw [List.mem_singleton] at he
      subst he
      exact Nat.zero_lt_one
    · intro s t ht
      cases s with
      | zero => cases ht
      | succ k => cases ht
  have hb := bok_loop nfa _ _ _ _ _ hloop h0
  exact ⟨fun s _ t ht => hb.dok.succs s t ht, hb.dok.init⟩

/-! ## Runs over the extended alphabet as character runs plus one end-of-input step -/

theorem reachSym_ch (d : DFA Nat) (w : List Nat) : ∀ s, reachSym d s (w.map Sym.ch) = reachN d s w := by
  induction w with
  | nil => intro s; rfl
  | cons x w ih =>
    intro s
    simp only [List.map_cons, reachSym, reachN, stepD]
    cases lookupTrans (d.st s) x with
    | none => rfl
    | some t => exact ih t

theorem reachSym_ch_eoi (d : DFA Nat) (w : List Nat) :
    ∀ s, reachSym d s (w.map Sym.ch ++ [Sym.eoi]) = (reachN d s w).bind (fun t => (d.st t).eoi) := by
  induction w with
  | nil =>
    intro s
    simp only [List.map_nil, List.nil_append, reachSym, stepD, reachN, Option.bind_some]
    cases (d.st s).eoi with
    | none => rfl
    | some t => rfl
  | cons x w ih =>
    intro s
    simp only [List.map_cons, List.cons_append, reachSym, reachN, stepD]
    cases lookupTrans (d.st s) x with
    | none => rfl
    | some t => exact ih t

/-- `RealisesRules` for the unsimplified automaton, from an arbitrary entry state -/
structure RealisesN (d : DFA Nat) (e : Nat) (rules : List CoreRule) : Prop where
  acc : ∀ w t, reachN d e w = some t → (d.st t).accepting = matchingAccs rules (w.map Sym.ch)
  dead : ∀ w, reachN d e w = none → matchingAccs rules (w.map Sym.ch) = []
  eoiSome : ∀ w t t', reachN d e w = some t → (d.st t).eoi = some t' →
    (d.st t').accepting = matchingAccs rules (w.map Sym.ch ++ [Sym.eoi])
  eoiNone : ∀ w t, reachN d e w = some t → (d.st t).eoi = none →
    matchingAccs rules (w.map Sym.ch ++ [Sym.eoi]) = []
  deadEoi : ∀ w, reachN d e w = none → matchingAccs rules (w.map Sym.ch ++ [Sym.eoi]) = []

theorem realisesN_of_ruleSet (rules : List CoreRule) (hre : ∀ r ∈ rules, regexPiecesOK r.re) (nfa : NFA)
    (h : buildNfa rules = .ok nfa) (d : DFA Nat) (hd : nfaToDfa nfa = some d) : RealisesN d 0 rules := by
  constructor
  · intro w t hr
    have := ruleSet_lang rules hre nfa h d hd (w.map Sym.ch)
    rw [reachSym_ch, hr] at this
    exact this
  · intro w hr
    have := ruleSet_lang rules hre nfa h d hd (w.map Sym.ch)
    rw [reachSym_ch, hr] at this
    exact this
  · intro w t t' hr he
    have := ruleSet_lang rules hre nfa h d hd (w.map Sym.ch ++ [Sym.eoi])
    rw [reachSym_ch_eoi, hr, Option.bind_some, he] at this
    exact this
  · intro w t hr he
    have := ruleSet_lang rules hre nfa h d hd (w.map Sym.ch ++ [Sym.eoi])
    rw [reachSym_ch_eoi, hr, Option.bind_some, he] at this
    exact this
  · intro w hr
    have := ruleSet_lang rules hre nfa h d hd (w.map Sym.ch ++ [Sym.eoi])
    rw [reachSym_ch_eoi, hr, Option.bind_none] at this
    exact this

/-! ## Transport along automata that agree on a block of states -/

theorem lookupTrans_teq {s s' : DState Nat} (h : TEq s s') (c : Nat) : lookupTrans s c = lookupTrans s' c := by
  unfold lookupTrans
  rw [h.chars, h.ranges, h.any]

theorem succs_teq {s s' : DState Nat} (h : TEq s s') : DFA.succs s = DFA.succs s' := by
  unfold DFA.succs
  rw [h.chars, h.ranges, h.any, h.eoi]

theorem eoi_mem_succs {s : DState Nat} {t : Nat} (h : s.eoi = some t) : t ∈ DFA.succs s := by
  unfold DFA.succs
  rw [h]
  exact List.mem_append_right _ (List.mem_singleton.mpr rfl)

theorem st_initial_lt {d : DFA Nat} {s : Nat} (h : (d.st s).initial = true) : s < d.length := by
  by_cases hs : s < d.length
  · exact hs
  · have : d.st s = DState.empty := by
      unfold DFA.st
      rw [List.getD_eq_getElem?_getD, List.getElem?_eq_none (Nat.le_of_not_lt hs)]
      rfl
    rw [this] at h
    cases h

/-- `d'` agrees with `d` on the states of `d` (table, accept list, `initial`) -/
def Agree (d d' : DFA Nat) : Prop :=
  ∀ s, s < d.length → TEq (d'.st s) (d.st s) ∧ (d'.st s).initial = (d.st s).initial

theorem reachN_agree {d d' : DFA Nat} (hT : TargetsInRange d) (hA : Agree d d') (w : List Nat) :
    ∀ s, s < d.length → reachN d' s w = reachN d s w := by
  induction w with
  | nil => intro s _; rfl
  | cons x w ih =>
    intro s hs
    simp only [reachN]
    rw [lookupTrans_teq (hA s hs).1]
    cases hl : lookupTrans (d.st s) x with
    | none => rfl
    | some u => exact ih u (hT s hs u (lookupTrans_mem_succs _ _ _ hl))

theorem realisesN_agree {d d' : DFA Nat} (hT : TargetsInRange d) (hA : Agree d d') {e : Nat}
    (he : e < d.length) {rules : List CoreRule} (hR : RealisesN d e rules) : RealisesN d' e rules := by
  constructor
  · intro w t hr
    rw [reachN_agree hT hA w e he] at hr
    have ht := reachN_lt d hT w e he t hr
    rw [(hA t ht).1.acc]
    exact hR.acc w t hr
  · intro w hr
    rw [reachN_agree hT hA w e he] at hr
    exact hR.dead w hr
  · intro w t t' hr hx
    rw [reachN_agree hT hA w e he] at hr
    have ht := reachN_lt d hT w e he t hr
    rw [(hA t ht).1.eoi] at hx
    have ht' := hT t ht t' (eoi_mem_succs hx)
    rw [(hA t' ht').1.acc]
    exact hR.eoiSome w t t' hr hx
  · intro w t hr hx
    rw [reachN_agree hT hA w e he] at hr
    have ht := reachN_lt d hT w e he t hr
    rw [(hA t ht).1.eoi] at hx
    exact hR.eoiNone w t hr hx
  · intro w hr
    rw [reachN_agree hT hA w e he] at hr
    exact hR.deadEoi w hr

theorem targets_agree {d d' : DFA Nat} (hT : TargetsInRange d) (hA : Agree d d') (hl : d'.length = d.length) :
    TargetsInRange d' := by
  intro s hs t ht
  rw [hl] at hs ⊢
  rw [succs_teq (hA s hs).1] at ht
  exact hT s hs t ht

/-! ## `add_dfa` -/

theorem succs_shift (k : Nat) (s : DState Nat) : DFA.succs (shiftState k s) = (DFA.succs s).map (· + k) := by
  unfold DFA.succs shiftState RangeMap.mapVals
  simp only [List.map_append, List.map_map]
  cases s.any with
  | none =>
    cases s.eoi with
    | none => rfl
    | some b => rfl
  | some a =>
    cases s.eoi with
    | none => rfl
    | some b => rfl

theorem addDfa_targets (d other : DFA Nat) (hd : TargetsInRange d) (ho : TargetsInRange other) :
    TargetsInRange (addDfa d other).1 := by
  obtain ⟨_, hlen, hL, hR⟩ := addDfa_spec d other
  intro s hs t ht
  rw [hlen] at hs ⊢
  by_cases h : s < d.length
  · rw [hL s h] at ht
    exact Nat.lt_of_lt_of_le (hd s h t ht) (Nat.le_add_right _ _)
  · have hs' : s - d.length < other.length := by omega
    have e : s = d.length + (s - d.length) := by omega
    rw [e, hR _ hs', succs_shift] at ht
    obtain ⟨u, hu, rfl⟩ := List.mem_map.mp ht
    have := ho _ hs' u hu
    show u + d.length < d.length + other.length
    omega

theorem addDfa_agree (d other : DFA Nat) : Agree d (addDfa d other).1 := by
  intro s hs
  rw [(addDfa_spec d other).2.2.1 s hs]
  exact ⟨TEq.rfl' _, rfl⟩

theorem addDfa_realises_right (d other : DFA Nat) (hT : TargetsInRange other) (h0 : 0 < other.length)
    {rules : List CoreRule} (hR : RealisesN other 0 rules) :
    RealisesN (addDfa d other).1 d.length rules := by
  have hS := (addDfa_spec d other).2.2.2
  have key : ∀ w, reachN (addDfa d other).1 d.length w = (reachN other 0 w).map (· + d.length) :=
    fun w => (addDfa_reach_right d other hT 0 h0 w).1
  have keyst : ∀ w u, reachN other 0 w = some u →
      ((addDfa d other).1.st (u + d.length)).accepting = (other.st u).accepting ∧
      ((addDfa d other).1.st (u + d.length)).eoi = (other.st u).eoi.map (· + d.length) := by
    intro w u hu
    rw [Nat.add_comm u d.length]
    exact (addDfa_reach_right d other hT 0 h0 w).2 u hu
  constructor
  · intro w t hr
    rw [key w] at hr
    cases hu : reachN other 0 w with
    | none => rw [hu] at hr; cases hr
    | some u =>
      rw [hu] at hr
      cases hr
      rw [(keyst w u hu).1]
      exact hR.acc w u hu
  · intro w hr
    rw [key w] at hr
    cases hu : reachN other 0 w with
    | none => exact hR.dead w hu
    | some u => rw [hu] at hr; cases hr
  · intro w t t' hr hx
    rw [key w] at hr
    cases hu : reachN other 0 w with
    | none => rw [hu] at hr; cases hr
    | some u =>
      rw [hu] at hr
      cases hr
      rw [(keyst w u hu).2] at hx
      cases hx' : (other.st u).eoi with
      | none => rw [hx'] at hx; cases hx
      | some u' =>
        rw [hx'] at hx
        cases hx
        have hu_lt := reachN_lt other hT w 0 h0 u hu
        have hu' := hT u hu_lt u' (eoi_mem_succs hx')
        have : (addDfa d other).1.st (u' + d.length) = shiftState d.length (other.st u') := by
          rw [Nat.add_comm]; exact hS u' hu'
        rw [this]
        exact hR.eoiSome w u u' hu hx'
  · intro w t hr hx
    rw [key w] at hr
    cases hu : reachN other 0 w with
    | none => rw [hu] at hr; cases hr
    | some u =>
      rw [hu] at hr
      cases hr
      rw [(keyst w u hu).2] at hx
      cases hx' : (other.st u).eoi with
      | none => exact hR.eoiNone w u hu hx'
      | some u' => rw [hx'] at hx; cases hx
  · intro w hr
    rw [key w] at hr
    cases hu : reachN other 0 w with
    | none => exact hR.deadEoi w hu
    | some u => rw [hu] at hr; cases hr

/-! ## `compile_rule_set`: how many right contexts it allocates -/

theorem ctxCount_nil : ctxCount [] = 0 := rfl

theorem ctxCount_binding (n : String) (re : Regex) (rest : List RuleOrBinding) :
    ctxCount (.binding n re :: rest) = ctxCount rest := rfl

theorem ctxCount_rule (r : SingleRule) (rest : List RuleOrBinding) :
    ctxCount (.rule r :: rest) = (if r.ctx.isSome = true then 1 else 0) + ctxCount rest := by
  unfold ctxCount
  by_cases h : r.ctx.isSome = true
  · rw [List.filter_cons_of_pos (by simpa using h), List.length_cons, if_pos h]
    omega
  · rw [List.filter_cons_of_neg (by simpa using h), if_neg h]
    omega

theorem singleRule_ctxs {n0 n1 : NFA} {r : SingleRule} {b : Bindings} {ctxs c1 : List (DFA Nat)}
    (h : compileSingleRule n0 r b ctxs = .ok (n1, c1)) :
    c1.length = ctxs.length + (if r.ctx.isSome = true then 1 else 0) := by
  obtain ⟨re, _, hcase⟩ := RuleSetLang.compileSingleRule_spec h
  rcases hcase with ⟨hctx, hc1, _⟩ | ⟨⟨c, hctx⟩, hc1, _⟩
  · rw [hctx, hc1]; rfl
  · rw [hctx, hc1]; rfl

theorem fold_ctxs (items : List RuleOrBinding) : ∀ (n0 : NFA) (b : Bindings) (ctxs : List (DFA Nat))
    (n : NFA) (b' : Bindings) (ctxs' : List (DFA Nat)),
    items.foldlM RuleSetLang.step (n0, b, ctxs) = .ok (n, b', ctxs') →
    ctxs'.length = ctxs.length + ctxCount items := by
  induction items with
  | nil =>
    intro n0 b ctxs n b' ctxs' h
    rw [List.foldlM_nil] at h
    cases h
    rfl
  | cons item rest ih =>
    intro n0 b ctxs n b' ctxs' h
    rw [List.foldlM_cons] at h
    obtain ⟨⟨n1, b1, c1⟩, h1, h2⟩ := Thompson.bind_ok h
    cases item with
    | binding name re =>
      simp only [RuleSetLang.step] at h1
      split at h1
      · cases h1
      · cases h1
        rw [ctxCount_binding]
        exact ih _ _ _ _ _ _ h2
    | rule r =>
      simp only [RuleSetLang.step] at h1
      obtain ⟨⟨n1', c1'⟩, hc, h1⟩ := Thompson.bind_ok h1
      cases h1
      rw [ctxCount_rule, ih _ _ _ _ _ _ h2, singleRule_ctxs hc]
      omega

theorem compileRuleSet_ctxs (items : List RuleOrBinding) (b : Bindings) (ctxs : List (DFA Nat)) (d : DFA Nat)
    (ctxs' : List (DFA Nat)) (h : compileRuleSet items b ctxs = .ok (d, ctxs')) :
    ctxs'.length = ctxs.length + ctxCount items := by
  unfold compileRuleSet at h
  obtain ⟨⟨n, b', c'⟩, hf, h⟩ := Thompson.bind_ok h
  have hf' : items.foldlM RuleSetLang.step (NFA.new, b, ctxs) = .ok (n, b', c') := hf
  have := fold_ctxs items _ _ _ _ _ _ hf'
  dsimp only at h
  cases hd : nfaToDfa n with
  | none => rw [hd] at h; cases h
  | some d' =>
    rw [hd] at h
    cases h
    exact this

/-! ## The invariant of the fold of `lexer()` -/

abbrev Scoped := String × List RuleOrBinding × Bindings × Nat

/-- the rule set `x` is realised in `full` from the entry the entry map gives for its name -/
def RSOK (full : DFA Nat) (entries : List (String × Nat)) (x : Scoped) : Prop :=
  ∃ e0 rules, (x.1, e0) ∈ entries ∧ (full.st e0).initial = true ∧
    coreRules x.2.1 x.2.2.1 x.2.2.2 = some rules ∧
    ((∀ r ∈ rules, regexPiecesOK r.re) → RealisesN full e0 rules)

theorem rsok_mono {d d' : DFA Nat} {entries entries' : List (String × Nat)} {x : Scoped}
    (h : RSOK d entries x) (hT : TargetsInRange d) (hA : Agree d d')
    (he : ∀ p ∈ entries, p ∈ entries') : RSOK d' entries' x := by
  obtain ⟨e0, rules, h1, h2, h3, h4⟩ := h
  have hlt := st_initial_lt h2
  refine ⟨e0, rules, he _ h1, ?_, h3, fun hre => realisesN_agree hT hA hlt (h4 hre)⟩
  rw [(hA e0 hlt).2]
  exact h2

structure GInv (L : List Scoped) (g : GlueState) : Prop where
  init : ∀ full, g.initDfa = some full → (g.entries.find? (fun (p : String × Nat) => p.1 = "Init")).isSome = true
  tir : ∀ full, g.initDfa = some full → TargetsInRange full
  ok : ∀ x ∈ L, ∃ full, g.initDfa = some full ∧ RSOK full g.entries x

theorem ginv_congr {L : List Scoped} {g g' : GlueState} (h : GInv L g) (he : g'.entries = g.entries)
    (hd : g'.initDfa = g.initDfa) : GInv L g' := by
  constructor
  · intro full hf; rw [he]; rw [hd] at hf; exact h.init full hf
  · intro full hf; rw [hd] at hf; exact h.tir full hf
  · intro x hx; rw [he, hd]; exact h.ok x hx

/-- what `compile_rule_set` gives for the glue: the realised rule list, targets in range, state 0
initial -/
theorem compileRuleSet_glue (rs : List RuleOrBinding) (b : Bindings) (ctxs : List (DFA Nat)) (dR : DFA Nat)
    (ctxs' : List (DFA Nat)) (h : compileRuleSet rs b ctxs = .ok (dR, ctxs')) :
    TargetsInRange dR ∧ (dR.st 0).initial = true ∧ ctxs'.length = ctxs.length + ctxCount rs ∧
    ∃ rules, coreRules rs b ctxs.length = some rules ∧
      ((∀ r ∈ rules, regexPiecesOK r.re) → RealisesN dR 0 rules) := by
  obtain ⟨rules, nfa, h1, h2, h3⟩ := compileRuleSet_core rs b ctxs dR ctxs' h
  obtain ⟨h4, h5⟩ := nfaToDfa_ok nfa dR h3
  exact ⟨h4, h5, compileRuleSet_ctxs rs b ctxs dR ctxs' h, rules, h1,
    fun hre => realisesN_of_ruleSet rules hre nfa h2 dR h3⟩

theorem step_ruleSet (L : List Scoped) (g g1 : GlueState) (name : String) (rs : List RuleOrBinding)
    (h : lexStep g (.ruleSet name rs) = .ok g1) (hinv : GInv L g) :
    GInv (L ++ [(name, rs, g.bindings, g.ctxs.length)]) g1 ∧ g1.bindings = g.bindings ∧
      g1.ctxs.length = g.ctxs.length + ctxCount rs := by
  obtain ⟨p, hp, hfind, rfl⟩ := lexStep_ruleSet_ok g g1 name rs h
  unfold lexRS at hp
  by_cases hn : name = "Init"
  · rw [if_pos hn] at hp
    cases hc : compileRuleSet rs g.bindings g.ctxs with
    | error e => rw [hc] at hp; cases hp
    | ok q =>
      obtain ⟨dR, ctxs'⟩ := q
      rw [hc] at hp
      cases hp
      obtain ⟨hT, hI, hlen, rules, hcore, hreal⟩ := compileRuleSet_glue rs _ _ dR ctxs' hc
      have hL : L = [] := by
        cases L with
        | nil => rfl
        | cons x L =>
          obtain ⟨full, hf, _⟩ := hinv.ok x List.mem_cons_self
          have := hinv.init full hf
          rw [← hn] at this
          have hfind' : (g.entries.find? (·.1 = name)).isSome = false := hfind
          rw [this] at hfind'
          cases hfind'
      subst hL
      refine ⟨⟨?_, ?_, ?_⟩, rfl, hlen⟩
      · intro full _
        show ((g.entries ++ [(name, 0)]).find? (fun (p : String × Nat) => p.1 = "Init")).isSome = true
        rw [← hn]
        exact entries_append_self _ _ _
      · intro full hf
        have hf' : some dR = some full := hf
        cases hf'
        exact hT
      · intro x hx
        rw [List.nil_append, List.mem_singleton] at hx
        subst hx
        refine ⟨dR, rfl, 0, rules, ?_, hI, hcore, hreal⟩
        show (name, 0) ∈ g.entries ++ [(name, 0)]
        exact List.mem_append_right _ (List.mem_singleton.mpr rfl)
  · rw [if_neg hn] at hp
    cases hd : g.initDfa with
    | none => rw [hd] at hp; cases hp
    | some d0 =>
      rw [hd] at hp
      cases hc : compileRuleSet rs g.bindings g.ctxs with
      | error e => rw [hc] at hp; cases hp
      | ok q =>
        obtain ⟨dR, ctxs'⟩ := q
        rw [hc] at hp
        cases hp
        obtain ⟨hT, hI, hlen, rules, hcore, hreal⟩ := compileRuleSet_glue rs _ _ dR ctxs' hc
        have hT0 := hinv.tir d0 hd
        have h0 : 0 < dR.length := st_initial_lt hI
        have hsub : ∀ p ∈ g.entries, p ∈ g.entries ++ [(name, (addDfa d0 dR).2)] :=
          fun p hp => List.mem_append_left _ hp
        refine ⟨⟨?_, ?_, ?_⟩, rfl, hlen⟩
        · intro full _
          show ((g.entries ++ [(name, (addDfa d0 dR).2)]).find? (fun (p : String × Nat) => p.1 = "Init")).isSome = true
          exact entries_append_isSome _ _ _ (hinv.init d0 hd)
        · intro full hf
          have hf' : some (addDfa d0 dR).1 = some full := hf
          cases hf'
          exact addDfa_targets d0 dR hT0 hT
        · intro x hx
          refine ⟨(addDfa d0 dR).1, rfl, ?_⟩
          rcases List.mem_append.mp hx with hx | hx
          · obtain ⟨full, hf, hr⟩ := hinv.ok x hx
            rw [hd] at hf
            cases hf
            exact rsok_mono hr hT0 (addDfa_agree d0 dR) hsub
          · rw [List.mem_singleton] at hx
            subst hx
            refine ⟨d0.length, rules, ?_, ?_, hcore, fun hre => addDfa_realises_right d0 dR hT h0 (hreal hre)⟩
            · show (name, d0.length) ∈ g.entries ++ [(name, (addDfa d0 dR).2)]
              exact List.mem_append_right _ (List.mem_singleton.mpr rfl)
            · have := (addDfa_spec d0 dR).2.2.2 0 h0
              rw [Nat.add_zero] at this
              rw [this]
              exact hI

theorem fold_lang (items : LexerDef) : ∀ (L : List Scoped) (g g' : GlueState),
    items.foldlM lexStep g = .ok g' → GInv L g →
    GInv (L ++ scopedRuleSets items g.bindings g.ctxs.length) g' := by
  induction items with
  | nil =>
    intro L g g' h hinv
    rw [List.foldlM_nil] at h
    cases h
    rw [scopedRuleSets, List.append_nil]
    exact hinv
  | cons item rest ih =>
    intro L g g' h hinv
    rw [List.foldlM_cons] at h
    obtain ⟨g1, h1, h2⟩ := Thompson.bind_ok h
    cases item with
    | errorType =>
      rw [lexStep_errorType] at h1
      by_cases he : g.errorType = true
      · rw [if_pos he] at h1; cases h1
      · rw [if_neg he] at h1
        cases h1
        rw [scopedRuleSets]
        exact ih L { g with errorType := true } g' h2 (ginv_congr hinv rfl rfl)
    | rb x =>
      cases x with
      | binding n re =>
        rw [lexStep_binding] at h1
        by_cases hb : (g.bindings.find? n).isSome = true
        · rw [if_pos hb] at h1; cases h1
        · rw [if_neg hb] at h1
          cases h1
          rw [scopedRuleSets]
          exact ih L { g with bindings := g.bindings ++ [(n, re)] } g' h2 (ginv_congr hinv rfl rfl)
      | rule r =>
        rw [lexStep_rule] at h1
        cases hc : compileSingleRule g.unnamed r g.bindings g.ctxs with
        | error e => rw [hc] at h1; cases h1
        | ok p =>
          obtain ⟨n1, c1⟩ := p
          rw [hc] at h1
          cases h1
          rw [scopedRuleSets]
          have := ih L { g with unnamed := n1, ctxs := c1 } g' h2 (ginv_congr hinv rfl rfl)
          rw [show ({ g with unnamed := n1, ctxs := c1 } : GlueState).ctxs.length =
            g.ctxs.length + (if r.ctx.isSome = true then 1 else 0) from singleRule_ctxs hc] at this
          exact this
    | ruleSet name rs =>
      obtain ⟨hg1, hb1, hc1⟩ := step_ruleSet L g g1 name rs h1 hinv
      have := ih _ g1 g' h2 hg1
      rw [hb1, hc1, List.append_assoc] at this
      rw [scopedRuleSets]
      exact this

/-! ## `update_backtracks` -/

theorem updateBacktracks_agree (d d' : DFA Nat) (hT : TargetsInRange d) (h : updateBacktracks d = some d') :
    Agree d d' ∧ d'.length = d.length := by
  obtain ⟨vis, hinv, _, rfl⟩ := Backtrack.updateBacktracks_some d d' hT h
  constructor
  · intro s hs
    rw [Backtrack.st_zipWith d vis hinv.len s]
    exact ⟨⟨rfl, rfl, rfl, rfl, rfl⟩, rfl⟩
  · rw [List.length_zipWith, hinv.len, Nat.min_self]

/-! ## `simplify` -/

theorem not_removed_of_initial {d : DFA Nat} {s : Nat} (h : (d.st s).initial = true) :
    (emptyStates d).contains s = false := by
  rw [contains_emptyStates]
  simp only [Simplify.isEmpty, h, Bool.not_true, Bool.and_false]

theorem removed_facts {d : DFA Nat} {s : Nat} (h : (emptyStates d).contains s = true) :
    (∀ c, lookupTrans (d.st s) c = none) ∧ (d.st s).eoi = none := by
  rw [contains_emptyStates] at h
  simp only [Bool.and_eq_true, Simplify.isEmpty] at h
  refine ⟨lookupTrans_none_of_hasNoTransitions _ h.2.1, ?_⟩
  have := h.2.1
  unfold DFA.hasNoTransitions at this
  simp only [Bool.and_eq_true, Option.isNone_iff_eq_none] at this
  exact this.2

section
variable (d : DFA Nat) (entries : List (String × Nat)) (d' : DFA Trans) (entries' : List (String × Nat))
  (h : simplify d entries = .ok (d', entries')) (hT : TargetsInRange d)
include h hT

/-- the configuration reached in the simplified automaton is the image of the state reached in the
original one -/
theorem reach_cfg (w : List Nat) :
    ∀ s, s < d.length → reach d' (cfgOf d s) w = (reachN d s w).map (cfgOf d) := by
  obtain ⟨_, _, hS⟩ := simplify_spec d entries d' entries' h hT
  induction w with
  | nil => intro s _; rfl
  | cons x w ih =>
    intro s hs
    by_cases hk : (emptyStates d).contains s = true
    · simp only [cfgOf, hk, if_true, reach, reachN]
      rw [(removed_facts hk).1 x]
      rfl
    · have hk' : (emptyStates d).contains s = false := by simpa using hk
      have hstep := (hS s hs hk').2.2.2.2.1 x
      simp only [cfgOf, hk', Bool.false_eq_true, if_false, reach, reachN]
      cases hl : lookupTrans (d.st s) x with
      | none =>
        rw [hl] at hstep
        cases hl' : lookupTrans (d'.st (newIdx d s)) x with
        | none => rfl
        | some t' => rw [hl'] at hstep; cases hstep
      | some t =>
        rw [hl] at hstep
        cases hl' : lookupTrans (d'.st (newIdx d s)) x with
        | none => rw [hl'] at hstep; cases hstep
        | some t' =>
          rw [hl'] at hstep
          simp only [Option.map_some, Option.some.injEq] at hstep
          simp only []
          rw [hstep]
          exact ih t (hT s hs t (lookupTrans_mem_succs _ _ _ hl))

theorem acc_cfg (t : Nat) (ht : t < d.length) : Auto.acc d' (cfgOf d t) = (d.st t).accepting := by
  obtain ⟨_, _, hS⟩ := simplify_spec d entries d' entries' h hT
  by_cases hk : (emptyStates d).contains t = true
  · simp only [cfgOf, hk, if_true]
    rfl
  · have hk' : (emptyStates d).contains t = false := by simpa using hk
    simp only [cfgOf, hk', Bool.false_eq_true, if_false, Auto.acc]
    exact (hS t ht hk').2.1

theorem eoi_cfg (t : Nat) (ht : t < d.length) :
    Auto.eoi d' (cfgOf d t) = (d.st t).eoi.map (cfgOf d) := by
  obtain ⟨_, _, hS⟩ := simplify_spec d entries d' entries' h hT
  by_cases hk : (emptyStates d).contains t = true
  · simp only [cfgOf, hk, if_true, Auto.eoi]
    rw [(removed_facts hk).2]
    rfl
  · have hk' : (emptyStates d).contains t = false := by simpa using hk
    simp only [cfgOf, hk', Bool.false_eq_true, if_false, Auto.eoi]
    exact (hS t ht hk').2.2.2.2.2

theorem newIdx_entry_lt (e0 : Nat) (hi : (d.st e0).initial = true) : newIdx d e0 < d'.length :=
  ((simplify_spec d entries d' entries' h hT).2.2 e0 (st_initial_lt hi) (not_removed_of_initial hi)).1

theorem realises_simplify (e0 : Nat) (hi : (d.st e0).initial = true) (rules : List CoreRule)
    (hR : RealisesN d e0 rules) : RealisesRules d' (newIdx d e0) rules := by
  have he := st_initial_lt hi
  have hk := not_removed_of_initial hi
  have hcfg : cfgOf d e0 = .st (newIdx d e0) := by
    simp only [cfgOf, hk, Bool.false_eq_true, if_false]
  intro w
  rw [← hcfg, reach_cfg d entries d' entries' h hT w e0 he]
  cases hr : reachN d e0 w with
  | none => exact ⟨hR.dead w hr, hR.deadEoi w hr⟩
  | some t =>
    have ht := reachN_lt d hT w e0 he t hr
    show Auto.acc d' (cfgOf d t) = _ ∧ _
    refine ⟨(acc_cfg d entries d' entries' h hT t ht).trans (hR.acc w t hr), ?_⟩
    rw [eoi_cfg d entries d' entries' h hT t ht]
    cases hx : (d.st t).eoi with
    | none => exact hR.eoiNone w t hr hx
    | some t' =>
      have ht' := hT t ht t' (eoi_mem_succs hx)
      exact (acc_cfg d entries d' entries' h hT t' ht').trans (hR.eoiSome w t t' hr hx)

end

theorem lexPost_ok (g : GlueState) (c : Compiled) (h : lexPost g = .ok c) (full0 : DFA Nat)
    (hd : g.initDfa = some full0) :
    ∃ full simp entries, updateBacktracks full0 = some full ∧ simplify full g.entries = .ok (simp, entries) ∧
      c = { full := full, entries0 := g.entries, dfa := simp, entries := entries, ctxs := g.ctxs } := by
  unfold lexPost at h
  simp only [hd, pure_bind] at h
  cases hu : updateBacktracks full0 with
  | none =>
    simp only [hu] at h
    cases h
  | some full =>
    simp only [hu, pure_bind] at h
    obtain ⟨⟨simp, entries⟩, h3, h⟩ := Thompson.bind_ok h
    cases h
    exact ⟨full, simp, entries, rfl, h3, rfl⟩

end CompileLang

open CompileLang Static in
/-- End to end through `lexer()`: for every rule set of an accepted definition, the compiled
machine, started at the entry state the entry map gives for that rule set's NAME, accepts after
every word exactly the rules of THAT rule set whose regex denotes the word, in rule order (with the
variables in scope substituted and the right contexts numbered as the macro numbers them) — also
through the end-of-input symbol — whatever was concatenated, removed or renumbered on the way. -/
theorem compileLexer_lang (items : LexerDef) (c : Compiled) (h : compileLexer items = .ok c)
    (name : String) (rs : List RuleOrBinding) (b : Bindings) (k : Nat)
    (hmem : (name, rs, b, k) ∈ scopedRuleSets items [] 0) :
    ∃ e rules, (name, e) ∈ c.entries ∧ e < c.dfa.length ∧ coreRules rs b k = some rules ∧
      ((∀ r ∈ rules, regexPiecesOK r.re) → RealisesRules c.dfa e rules) := by
  rw [compileLexer_eq] at h
  by_cases hm : mixedRules items = true
  · rw [if_pos hm] at h; cases h
  · rw [if_neg hm] at h
    obtain ⟨g, hfold, hpost⟩ := Thompson.bind_ok h
    have hinv0 : GInv [] ({} : GlueState) :=
      ⟨fun full hf => (by cases hf), fun full hf => (by cases hf), fun x hx => (by cases hx)⟩
    have hinv := fold_lang items [] {} g hfold hinv0
    rw [List.nil_append] at hinv
    obtain ⟨full0, hd, hr⟩ := hinv.ok _ hmem
    have hT0 := hinv.tir full0 hd
    obtain ⟨full, simp, entries, hu, h3, rfl⟩ := lexPost_ok g c hpost full0 hd
    obtain ⟨hA, hlen⟩ := updateBacktracks_agree full0 full hT0 hu
    have hT := targets_agree hT0 hA hlen
    obtain ⟨e0, rules, m1, m2, m3, m4⟩ := rsok_mono hr hT0 hA (fun p hp => hp)
    obtain ⟨hent, _, _⟩ := simplify_spec full g.entries simp entries h3 hT
    refine ⟨newIdx full e0, rules, ?_, ?_, m3, fun hre => ?_⟩
    · show (name, newIdx full e0) ∈ entries
      rw [hent]
      exact List.mem_map.mpr ⟨(name, e0), m1, rfl⟩
    · exact newIdx_entry_lt full g.entries simp entries h3 hT e0 m2
    · exact realises_simplify full g.entries simp entries h3 hT e0 m2 rules (m4 hre)

end Lexgen
