import LexgenModel.Spec.Machine
import LexgenModel.Proofs.ScanPlain
/-!
# Protocol of `Iterator::next`: fused end, boundary invariant, termination, progress

For a well-formed machine (`MachineOK`) and a lexer state at a lexeme boundary (`Ready`), one call
of `next()` terminates within the fuel `|iter| + 2`, returns in a boundary state again, and every
returned item accounts for at least one character or for the end-of-input event.
-/
namespace Lexgen

variable {σ τ ε : Type}

/-- the `match self.0.__state` dispatch resolves every stored number to its state -/
theorem dispatchOK_of_machineOK (cfg : Config σ τ ε) (h : MachineOK cfg) :
    DispatchOK cfg.dfa cfg.inl (dispatch (stateArms cfg.dfa cfg.inl)) := by
  intro t ht hi
  exact dispatch_correct cfg.dfa cfg.inl h.inl t ht (hasArm_of_not_inlinedAt cfg.inl t hi)

/-- fused: once end-of-input has been handled, `next()` returns `None` and changes nothing -/
theorem next_done (cfg : Config σ τ ε) (st : LState σ) (h : st.done = true) : next cfg st = some (none, st) := by
  unfold next
  show nextLoop cfg (st.iter.length + 1 + 1) st = _
  rw [nextLoop]
  simp only [h, if_true]

namespace NextProtocol

open ScanPlain

/-! ## Entries and their numbers -/

theorem renumber_zero (inl : List Nat) : renumber inl 0 = 0 := by
  unfold renumber
  exact Nat.zero_sub _

theorem isEntry_props (cfg : Config σ τ ε) (hm : MachineOK cfg) (e : Nat) (he : IsEntry cfg e) :
    e < cfg.dfa.length ∧ (cfg.dfa.st e).initial = true ∧ (cfg.dfa.st e).accepting = [] := by
  rcases he with rfl | ⟨name, hmem⟩
  · exact hm.state0
  · exact hm.entries (name, e) hmem

/-- the number stored for an entry state selects that state's arm -/
theorem dispatch_entry (cfg : Config σ τ ε) (hm : MachineOK cfg) (e : Nat) (he : IsEntry cfg e) :
    dispatch (stateArms cfg.dfa cfg.inl) (renumber cfg.inl e) = some e := by
  obtain ⟨hlt, hini, _⟩ := isEntry_props cfg hm e he
  exact dispatch_correct cfg.dfa cfg.inl hm.inl e hlt (hasArm_of_initial cfg.dfa cfg.inl hm.inl e hini)

/-- `switch` stores the number of an entry state (0 for an unknown name) -/
theorem switchNum_entry (cfg : Config σ τ ε) (r : String) :
    ∃ e, IsEntry cfg e ∧ switchNum cfg r = renumber cfg.inl e := by
  unfold switchNum
  cases hf : (switchTable cfg.inl cfg.entries).find? (·.1 = r) with
  | none => exact ⟨0, Or.inl rfl, (renumber_zero _).symm⟩
  | some p =>
    have hmem := List.mem_of_find?_eq_some hf
    unfold switchTable at hmem
    obtain ⟨x, hx, rfl⟩ := List.mem_map.1 hmem
    exact ⟨x.2, Or.inr ⟨x.1, hx⟩, rfl⟩

/-! ## Invariant of one scan -/

/-- a saved match sits at a proper, in-range position of the iterator the scan started with -/
def SavedOK (it0 : List Nat) (l : Option Saved) : Prop :=
  ∀ sv, l = some sv → ∃ k, sv.iter = it0.drop k ∧ 0 < k ∧ k ≤ it0.length

/-- lexer state at a point of the scan where it may stop -/
structure PosOK (it0 : List Nat) (i0 : Nat) (st : LState σ) : Prop where
  initial : st.initial = i0
  saved : SavedOK it0 st.last
  iter : ∃ k, st.iter = it0.drop k ∧ k ≤ it0.length ∧ (0 < k ∨ st.done = true)

/-- lexer state handed to a semantic action -/
structure ActOK (it0 : List Nat) (i0 : Nat) (st : LState σ) : Prop where
  last : st.last = none
  initial : st.initial = i0
  iter : ∃ k, st.iter = it0.drop k ∧ k ≤ it0.length ∧ (0 < k ∨ st.done = true)

/-- lexer state returned with an `InvalidToken` -/
structure ErrOK (it0 : List Nat) (st : LState σ) : Prop where
  state : st.state = 0
  initial : st.initial = 0
  span : st.curStart = st.curEnd
  last : st.last = none
  iter : ∃ k, st.iter = it0.drop k ∧ k ≤ it0.length ∧ (0 < k ∨ st.done = true)

/-- lexer state returned with `None` -/
structure FinOK (q0 i0 : Nat) (st : LState σ) : Prop where
  last : st.last = none
  state : st.state = q0
  initial : st.initial = i0

def OutOK (it0 : List Nat) (q0 i0 : Nat) : Outcome σ → Prop
  | .act _ st => ActOK it0 i0 st
  | .err _ st => ErrOK it0 st
  | .fin st => FinOK q0 i0 st
  | .goto _ => False

theorem failPlain_ok (it0 : List Nat) (q0 i0 : Nat) (st : LState σ) (h : PosOK it0 i0 st) :
    OutOK it0 q0 i0 (failPlain st) := by
  unfold failPlain
  cases hl : st.last with
  | none =>
    show ErrOK it0 _
    exact ⟨rfl, rfl, rfl, rfl, h.iter⟩
  | some sv =>
    obtain ⟨k, hk, hpos, hle⟩ := h.saved sv hl
    show ActOK it0 i0 _
    exact ⟨rfl, h.initial, ⟨k, hk, hle, Or.inl hpos⟩⟩

theorem rhsCode_ok (it0 : List Nat) (q0 i0 : Nat) (a : Nat) (st : LState σ) (h : PosOK it0 i0 st) :
    OutOK it0 q0 i0 (rhsCode a st) := by
  show ActOK it0 i0 _
  exact ⟨rfl, h.initial, h.iter⟩

theorem testRightCtxs_ok (cfg : Config σ τ ε) (it0 : List Nat) (q0 i0 : Nat) (accs : List Acc)
    (st : LState σ) (dflt : Unit → Outcome σ) (h : PosOK it0 i0 st)
    (hd : OutOK it0 q0 i0 (dflt ())) : OutOK it0 q0 i0 (testRightCtxs cfg accs st dflt) := by
  unfold testRightCtxs
  cases firstOK (fun i => ctxOK cfg i st.iter) accs with
  | none => exact hd
  | some a => exact rhsCode_ok it0 q0 i0 a st h

/-! ## The lexer state after one `self.0.next()` -/

theorem setAccepting_cases (cfg : Config σ τ ε) (d : DState Trans) (st : LState σ) :
    setAccepting cfg d st = st ∨
    (d.accepting ≠ [] ∧ ∃ a, setAccepting cfg d st =
      { st with last := some { start := st.curStart, iter := st.iter, action := a, stop := st.curEnd } }) := by
  unfold setAccepting
  cases hf : firstOK (fun i => ctxOK cfg i st.iter) d.accepting with
  | none => exact Or.inl rfl
  | some a =>
    refine Or.inr ⟨?_, a, rfl⟩
    intro hnil
    rw [hnil] at hf
    simp [firstOK] at hf

theorem stepSt_props (cfg : Config σ τ ε) (d : DState Trans) (c : Nat) (rest : List Nat) (st : LState σ) :
    (stepSt cfg d c rest st).iter = rest ∧ (stepSt cfg d c rest st).initial = st.initial ∧
    (stepSt cfg d c rest st).state = st.state ∧
    ((stepSt cfg d c rest st).last = st.last ∨
      (d.accepting ≠ [] ∧ ∃ sv, (stepSt cfg d c rest st).last = some sv ∧ sv.iter = c :: rest)) := by
  unfold stepSt
  rcases setAccepting_cases cfg d { st with iter := c :: rest } with h | ⟨hne, a, h⟩
  · rw [h]
    exact ⟨rfl, rfl, rfl, Or.inl rfl⟩
  · rw [h]
    exact ⟨rfl, rfl, rfl, Or.inr ⟨hne, _, rfl, rfl⟩⟩

theorem eoiSt_props (cfg : Config σ τ ε) (d : DState Trans) (st : LState σ) :
    (eoiSt cfg d st).iter = [] ∧ (eoiSt cfg d st).done = true ∧ (eoiSt cfg d st).initial = st.initial ∧
    (eoiSt cfg d st).state = st.state ∧
    ((eoiSt cfg d st).last = st.last ∨
      (d.accepting ≠ [] ∧ ∃ sv, (eoiSt cfg d st).last = some sv ∧ sv.iter = [])) := by
  unfold eoiSt
  rcases setAccepting_cases cfg d { st with iter := [] } with h | ⟨hne, a, h⟩
  · rw [h]
    exact ⟨rfl, rfl, rfl, rfl, Or.inl rfl⟩
  · rw [h]
    exact ⟨rfl, rfl, rfl, rfl, Or.inr ⟨hne, _, rfl, rfl⟩⟩

theorem drop_succ_of_cons {it0 : List Nat} {n c : Nat} {rest : List Nat} (h : c :: rest = it0.drop n) :
    rest = it0.drop (n + 1) ∧ n + 1 ≤ it0.length := by
  constructor
  · have h1 : rest = (c :: rest).drop 1 := rfl
    rw [h1, h, List.drop_drop]
  · have h2 := congrArg List.length h
    rw [List.length_drop, List.length_cons] at h2
    omega

/-- the saved match after the `set_accepting_state` chain at position `n` -/
theorem savedOK_after (it0 : List Nat) (n : Nat) (iter : List Nat) (acc : List Acc)
    (l l' : Option Saved) (hit : iter = it0.drop n) (hn : n ≤ it0.length)
    (hs : SavedOK it0 l) (h0 : n = 0 → acc = [])
    (hl : l' = l ∨ (acc ≠ [] ∧ ∃ sv, l' = some sv ∧ sv.iter = iter)) : SavedOK it0 l' := by
  rcases hl with hl | ⟨hne, sv, hsv, hiter⟩
  · rw [hl]; exact hs
  · intro sv' hsv'
    rw [hsv] at hsv'
    cases hsv'
    refine ⟨n, by rw [hiter, hit], ?_, hn⟩
    cases n with
    | zero => exact absurd (h0 rfl) hne
    | succ m => exact Nat.succ_pos m

/-! ## Targets of `Goto` transitions -/

theorem lookupTrans_mem_succs {α : Type} (d : DState α) (c : Nat) (x : α) (h : lookupTrans d c = some x) :
    x ∈ DFA.succs d := by
  unfold lookupTrans at h
  cases h1 : lookupChar d.chars c with
  | some t1 =>
    simp only [h1, Option.some.injEq] at h
    subst h
    exact char_mem_succs _ _ (lookupChar_mem _ _ _ h1)
  | none =>
    simp only [h1] at h
    cases h2 : RangeMap.lookup d.ranges c with
    | some t2 =>
      simp only [h2, Option.some.injEq] at h
      subst h
      exact range_mem_succs _ _ (rangeLookup_mem _ _ _ h2)
    | none =>
      simp only [h2] at h
      exact any_mem_succs _ _ h

theorem targets_not_initial (d : DFA Trans) (h : targetsOK d = true) (s t : Nat)
    (ht : t ∈ gotoSuccs (d.st s)) : (d.st t).initial = false := by
  rcases st_mem_or_empty d s with hm | he
  · simp only [targetsOK, List.all_eq_true, Bool.and_eq_true, decide_eq_true_eq] at h
    have := (h _ hm t ht).2
    simpa using this
  · rw [he, gotoSuccs_empty] at ht
    cases ht

/-- a `Goto` target is a state other than state 0 -/
theorem goto_target (cfg : Config σ τ ε) (hm : MachineOK cfg) (s c t : Nat)
    (h : lookupTrans (cfg.dfa.st s) c = some (.goto t)) : t < cfg.dfa.length ∧ t ≠ 0 := by
  have hmem := goto_mem_gotoSuccs _ t (lookupTrans_mem_succs _ _ _ h)
  refine ⟨targets_lt cfg.dfa hm.targets s t hmem, ?_⟩
  intro h0
  have hi := targets_not_initial cfg.dfa hm.targets s t hmem
  rw [h0, hm.state0.2.1] at hi
  cases hi

/-! ## One scan -/

/-- The plain scan, started or resumed `n` characters into the iterator `it0`: the action is called,
or the error returned, at a position of `it0` that is past its beginning or with the end of input
handled; `return None` happens only at the start, in state 0; the `match` is never left. -/
theorem scanPlain_ok (cfg : Config σ τ ε) (hm : MachineOK cfg) (ns : Nat → Option Nat)
    (hns : DispatchOK cfg.dfa cfg.inl ns) (it0 : List Nat) (q0 i0 : Nat) (iter : List Nat) :
    ∀ (n s : Nat) (st : LState σ), iter = it0.drop n → n ≤ it0.length → st.initial = i0 →
      SavedOK it0 st.last →
      (n = 0 → st.last = none ∧ (cfg.dfa.st s).accepting = [] ∧ st.state = q0) →
      (0 < n → s ≠ 0) →
      OutOK it0 q0 i0 (scanPlain cfg ns s iter st) := by
  induction iter with
  | nil =>
    intro n s st hit hn hini hsaved hstart hmid
    rw [scanPlain_nil]
    obtain ⟨e1, e2, e3, e4, e5⟩ := eoiSt_props cfg (cfg.dfa.st s) st
    have hpos : PosOK it0 i0 (eoiSt cfg (cfg.dfa.st s) st) :=
      ⟨e3.trans hini,
       savedOK_after it0 n [] _ _ _ hit hn hsaved (fun h0 => (hstart h0).2.1) e5,
       ⟨n, e1.trans hit, hn, Or.inr e2⟩⟩
    have hdflt : OutOK it0 q0 i0 (if s = 0 then Outcome.fin (eoiSt cfg (cfg.dfa.st s) st)
        else failPlain (eoiSt cfg (cfg.dfa.st s) st)) := by
      by_cases hs : s = 0
      · rw [if_pos hs]
        have hn0 : n = 0 := by
          cases n with
          | zero => rfl
          | succ m => exact absurd hs (hmid (Nat.succ_pos m))
        obtain ⟨h1, h2, h3⟩ := hstart hn0
        have hlast : (eoiSt cfg (cfg.dfa.st s) st).last = none := by
          rcases e5 with h | ⟨hne, _⟩
          · rw [h, h1]
          · exact absurd h2 hne
        exact (⟨hlast, e4.trans h3, e3.trans hini⟩ : FinOK q0 i0 _)
      · rw [if_neg hs]
        exact failPlain_ok it0 q0 i0 _ hpos
    cases he : (cfg.dfa.st s).eoi with
    | none => exact hdflt
    | some x =>
      cases x with
      | goto t => exact absurd he (hm.eoiAccept s t)
      | accept accs => exact testRightCtxs_ok cfg it0 q0 i0 accs _ _ hpos hdflt
  | cons c rest ih =>
    intro n s st hit hn hini hsaved hstart hmid
    rw [scanPlain_cons]
    obtain ⟨hrest, hn1⟩ := drop_succ_of_cons hit
    obtain ⟨e1, e3, e4, e5⟩ := stepSt_props cfg (cfg.dfa.st s) c rest st
    have hsv1 : SavedOK it0 (stepSt cfg (cfg.dfa.st s) c rest st).last :=
      savedOK_after it0 n (c :: rest) _ _ _ hit hn hsaved (fun h0 => (hstart h0).2.1) e5
    have hpos : PosOK it0 i0 (stepSt cfg (cfg.dfa.st s) c rest st) :=
      ⟨e3.trans hini, hsv1, ⟨n + 1, e1.trans hrest, hn1, Or.inl (Nat.succ_pos n)⟩⟩
    have hfail := failPlain_ok it0 q0 i0 _ hpos
    cases hl : lookupTrans (cfg.dfa.st s) c with
    | none => exact hfail
    | some x =>
      cases x with
      | accept accs => exact testRightCtxs_ok cfg it0 q0 i0 accs _ _ hpos hfail
      | goto t =>
        obtain ⟨htlt, ht0⟩ := goto_target cfg hm s c t hl
        show OutOK it0 q0 i0 (gotoK (scanPlain cfg ns) cfg ns rest (stepSt cfg (cfg.dfa.st s) c rest st) t)
        unfold gotoK
        by_cases hi : inlinedAt cfg.inl t = true
        · rw [if_pos hi]
          exact ih (n + 1) t _ hrest hn1 (e3.trans hini) hsv1
            (fun h0 => absurd h0 (Nat.succ_ne_zero n)) (fun _ => ht0)
        · have hi' : inlinedAt cfg.inl t = false := by simpa using hi
          rw [if_neg hi]
          simp only [hns t htlt hi']
          exact ih (n + 1) t _ hrest hn1 (e3.trans hini) hsv1
            (fun h0 => absurd h0 (Nat.succ_ne_zero n)) (fun _ => ht0)

/-- The generated state code of an entry state, run at a lexeme boundary. -/
theorem scan_entry_ok (cfg : Config σ τ ε) (hm : MachineOK cfg) (st : LState σ) (hl : st.last = none)
    (e : Nat) (he : IsEntry cfg e) :
    OutOK st.iter st.state st.initial (scan cfg (dispatch (stateArms cfg.dfa cfg.inl)) e st.iter st) := by
  have hns := dispatchOK_of_machineOK cfg hm
  rw [scan_eq_scanPlain cfg _ hm.flags hm.acceptAny hm.targets hns e st.iter st
    (by intro h; rw [hl] at h; cases h)]
  apply scanPlain_ok cfg hm _ hns st.iter st.state st.initial st.iter 0 e st rfl (Nat.zero_le _) rfl
  · intro sv hsv
    rw [hl] at hsv
    cases hsv
  · intro _
    exact ⟨hl, (isEntry_props cfg hm e he).2.2, rfl⟩
  · intro h
    exact absurd h (Nat.lt_irrefl 0)

/-! ## The semantic action call -/

/-- `callAction` leaves a boundary state and does not touch the iterator or `done` -/
theorem callAction_ok (cfg : Config σ τ ε) (a : Nat) (st1 : LState σ) (hl : st1.last = none)
    (hi : ∃ e, IsEntry cfg e ∧ st1.initial = renumber cfg.inl e) :
    (∃ st2, callAction cfg a st1 = .cont st2 ∧ Ready cfg st2 ∧ st2.iter = st1.iter ∧ st2.done = st1.done) ∨
    (∃ x st2, callAction cfg a st1 = .ret (some x) st2 ∧ (∀ l, x ≠ .invalid l) ∧ Ready cfg st2 ∧
      st2.iter = st1.iter ∧ st2.done = st1.done) := by
  unfold callAction
  generalize (cfg.actions a).run (mkView cfg a st1) = eff
  obtain ⟨u, rs, sw, res⟩ := eff
  obtain ⟨e0, he0, hst0⟩ := hi
  cases sw with
  | none =>
    cases res with
    | none =>
      left
      cases rs
      · exact ⟨_, rfl, ⟨hl, rfl, e0, he0, hst0⟩, rfl, rfl⟩
      · exact ⟨_, rfl, ⟨hl, rfl, e0, he0, hst0⟩, rfl, rfl⟩
    | some r =>
      right
      cases r with
      | ok t =>
        cases rs
        · exact ⟨_, _, rfl, (fun l h => by cases h), ⟨hl, rfl, e0, he0, hst0⟩, rfl, rfl⟩
        · exact ⟨_, _, rfl, (fun l h => by cases h), ⟨hl, rfl, e0, he0, hst0⟩, rfl, rfl⟩
      | error x =>
        cases rs
        · exact ⟨_, _, rfl, (fun l h => by cases h), ⟨hl, rfl, e0, he0, hst0⟩, rfl, rfl⟩
        · exact ⟨_, _, rfl, (fun l h => by cases h), ⟨hl, rfl, e0, he0, hst0⟩, rfl, rfl⟩
  | some r =>
    obtain ⟨e1, he1, hst1⟩ := switchNum_entry cfg r
    cases res with
    | none =>
      left
      cases rs
      · exact ⟨_, rfl, ⟨hl, rfl, e1, he1, hst1⟩, rfl, rfl⟩
      · exact ⟨_, rfl, ⟨hl, rfl, e1, he1, hst1⟩, rfl, rfl⟩
    | some r =>
      right
      cases r with
      | ok t =>
        cases rs
        · exact ⟨_, _, rfl, (fun l h => by cases h), ⟨hl, rfl, e1, he1, hst1⟩, rfl, rfl⟩
        · exact ⟨_, _, rfl, (fun l h => by cases h), ⟨hl, rfl, e1, he1, hst1⟩, rfl, rfl⟩
      | error x =>
        cases rs
        · exact ⟨_, _, rfl, (fun l h => by cases h), ⟨hl, rfl, e1, he1, hst1⟩, rfl, rfl⟩
        · exact ⟨_, _, rfl, (fun l h => by cases h), ⟨hl, rfl, e1, he1, hst1⟩, rfl, rfl⟩

/-! ## One round of the `loop` -/

/-- what `next()` returns with, relative to the state `st` at the top of a round -/
structure RetOK (cfg : Config σ τ ε) (st : LState σ) (item : Option (Item τ ε)) (st' : LState σ) : Prop where
  ready : Ready cfg st'
  iter : ∀ x, item = some x → ∃ k, st'.iter = st.iter.drop k ∧ (0 < k ∨ st'.done = true)
  invalid : ∀ l, item = some (.invalid l) →
    st'.state = 0 ∧ st'.initial = 0 ∧ st'.curStart = st'.curEnd ∧ st'.last = none

/-- the state with which the `loop` goes round again -/
structure ContOK (cfg : Config σ τ ε) (st st' : LState σ) : Prop where
  ready : Ready cfg st'
  iter : ∃ k, st'.iter = st.iter.drop k ∧ k ≤ st.iter.length ∧ (0 < k ∨ st'.done = true)

def RoundOK (cfg : Config σ τ ε) (st : LState σ) : StepOut σ τ ε → Prop
  | .ret item st' => RetOK cfg st item st'
  | .cont st' => ContOK cfg st st'

theorem round_ok (cfg : Config σ τ ε) (hm : MachineOK cfg) (st : LState σ) (hr : Ready cfg st)
    (e : Nat) (he : IsEntry cfg e) :
    RoundOK cfg st (execState cfg (dispatch (stateArms cfg.dfa cfg.inl)) e st.iter st) := by
  obtain ⟨hl, hsi, e0, he0, hst0⟩ := hr
  have hok := scan_entry_ok cfg hm st hl e he
  unfold execState
  cases ho : scan cfg (dispatch (stateArms cfg.dfa cfg.inl)) e st.iter st with
  | act a st1 =>
    rw [ho] at hok
    have hact : ActOK st.iter st.initial st1 := hok
    obtain ⟨k, hk, hkle, hkp⟩ := hact.iter
    have hent : ∃ e, IsEntry cfg e ∧ st1.initial = renumber cfg.inl e :=
      ⟨e0, he0, by rw [hact.initial, ← hsi, hst0]⟩
    show RoundOK cfg st (callAction cfg a st1)
    rcases callAction_ok cfg a st1 hact.last hent with ⟨st2, hc, hr2, hi2, hd2⟩ | ⟨x, st2, hc, hx, hr2, hi2, hd2⟩
    · rw [hc]
      exact (⟨hr2, ⟨k, hi2.trans hk, hkle, by rw [hd2]; exact hkp⟩⟩ : ContOK cfg st st2)
    · rw [hc]
      refine (⟨hr2, fun _ _ => ⟨k, hi2.trans hk, by rw [hd2]; exact hkp⟩, ?_⟩ : RetOK cfg st _ st2)
      intro l hitem
      cases hitem
      exact absurd rfl (hx l)
  | err loc st1 =>
    rw [ho] at hok
    have herr : ErrOK st.iter st1 := hok
    obtain ⟨k, hk, _, hkp⟩ := herr.iter
    refine (⟨⟨herr.last, herr.state.trans herr.initial.symm, 0, Or.inl rfl, ?_⟩,
      fun _ _ => ⟨k, hk, hkp⟩, fun _ _ => ⟨herr.state, herr.initial, herr.span, herr.last⟩⟩ :
      RetOK cfg st (some (.invalid loc)) st1)
    rw [herr.state, renumber_zero]
  | fin st1 =>
    rw [ho] at hok
    have hfin : FinOK st.state st.initial st1 := hok
    exact (⟨⟨hfin.last, hfin.state.trans (hsi.trans hfin.initial.symm), e0, he0, hfin.state.trans hst0⟩,
      fun x h => (by cases h), fun l h => (by cases h)⟩ : RetOK cfg st none st1)
  | goto st1 =>
    rw [ho] at hok
    exact absurd hok (fun h => h)

/-! ## The `loop` -/

theorem retOK_trans (cfg : Config σ τ ε) (st st1 st2 : LState σ) (item : Option (Item τ ε))
    (h1 : ContOK cfg st st1) (h2 : RetOK cfg st1 item st2) : RetOK cfg st item st2 := by
  refine ⟨h2.ready, ?_, h2.invalid⟩
  intro x hx
  obtain ⟨k1, hk1, _, _⟩ := h1.iter
  obtain ⟨k2, hk2, hp⟩ := h2.iter x hx
  refine ⟨k1 + k2, ?_, ?_⟩
  · rw [hk2, hk1, List.drop_drop]
  · rcases hp with hp | hp
    · exact Or.inl (by omega)
    · exact Or.inr hp

/-- With fuel above `|iter| + (if done then 0 else 1)` the loop returns: every round that does not
return has shortened the iterator or handled the end of input. -/
theorem nextLoop_ok (cfg : Config σ τ ε) (hm : MachineOK cfg) :
    ∀ (fuel : Nat) (st : LState σ), Ready cfg st → st.iter.length < fuel →
      (st.done = false → st.iter.length + 1 < fuel) →
      ∃ item st', nextLoop cfg fuel st = some (item, st') ∧ RetOK cfg st item st' := by
  intro fuel
  induction fuel with
  | zero =>
    intro st _ h _
    exact absurd h (Nat.not_lt_zero _)
  | succ f ih =>
    intro st hr hlen hnd
    rw [nextLoop]
    by_cases hd : st.done = true
    · rw [if_pos hd]
      exact ⟨none, st, rfl, hr, fun x h => (by cases h), fun l h => (by cases h)⟩
    · rw [if_neg hd]
      have hd' : st.done = false := by simpa using hd
      have hlen' := hnd hd'
      obtain ⟨e0, he0, hst0⟩ := hr.2.2
      have hdisp : dispatch (stateArms cfg.dfa cfg.inl) st.state = some e0 := by
        rw [hst0]
        exact dispatch_entry cfg hm e0 he0
      have hround := round_ok cfg hm st hr e0 he0
      simp only [hdisp]
      cases hx : execState cfg (dispatch (stateArms cfg.dfa cfg.inl)) e0 st.iter st with
      | ret item st' =>
        rw [hx] at hround
        exact ⟨item, st', rfl, hround⟩
      | cont st1 =>
        rw [hx] at hround
        have hc : ContOK cfg st st1 := hround
        obtain ⟨k, hk, hkle, hkp⟩ := hc.iter
        have hl1 : st1.iter.length = st.iter.length - k := by
          rw [hk, List.length_drop]
        obtain ⟨item, st2, hn, hret⟩ := ih st1 hc.ready (by omega) (by
          intro hd1
          rcases hkp with hkp | hkp
          · omega
          · rw [hd1] at hkp
            cases hkp)
        exact ⟨item, st2, hn, retOK_trans cfg st st1 st2 item hc hret⟩

theorem next_ok (cfg : Config σ τ ε) (hm : MachineOK cfg) (st : LState σ) (hr : Ready cfg st) :
    ∃ item st', next cfg st = some (item, st') ∧ RetOK cfg st item st' := by
  unfold next
  exact nextLoop_ok cfg hm _ st hr (by omega) (fun _ => by omega)

end NextProtocol

open NextProtocol

/-- the boundary invariant is preserved by every call -/
theorem next_ready (cfg : Config σ τ ε) (hm : MachineOK cfg) (st : LState σ) (hr : Ready cfg st)
    (item : Option (Item τ ε)) (st' : LState σ) (h : next cfg st = some (item, st')) : Ready cfg st' := by
  obtain ⟨item1, st1, h1, hok⟩ := next_ok cfg hm st hr
  rw [h1] at h
  cases h
  exact hok.ready

/-- termination: the fuel `|iter| + 2` always suffices and the `match` is exhaustive -/
theorem next_total (cfg : Config σ τ ε) (hm : MachineOK cfg) (st : LState σ) (hr : Ready cfg st) :
    ∃ r, next cfg st = some r := by
  obtain ⟨item1, st1, h1, _⟩ := next_ok cfg hm st hr
  exact ⟨_, h1⟩

/-- progress: every returned item accounts for at least one character or for the end-of-input event -/
theorem next_progress (cfg : Config σ τ ε) (hm : MachineOK cfg) (st : LState σ) (hr : Ready cfg st)
    (item : Item τ ε) (st' : LState σ) (h : next cfg st = some (some item, st')) :
    (∃ k, st'.iter = st.iter.drop k ∧ (0 < k ∨ st'.done = true)) := by
  obtain ⟨item1, st1, h1, hok⟩ := next_ok cfg hm st hr
  rw [h1] at h
  cases h
  exact hok.iter item rfl

/-- after an InvalidToken the lexer is in state 0 = `Init`, with an empty match and no saved match -/
theorem next_invalid (cfg : Config σ τ ε) (hm : MachineOK cfg) (st : LState σ) (hr : Ready cfg st)
    (l : Loc) (st' : LState σ) (h : next cfg st = some (some (.invalid l), st')) :
    st'.state = 0 ∧ st'.initial = 0 ∧ st'.curStart = st'.curEnd ∧ st'.last = none := by
  obtain ⟨item1, st1, h1, hok⟩ := next_ok cfg hm st hr
  rw [h1] at h
  cases h
  exact hok.invalid l rfl

end Lexgen
