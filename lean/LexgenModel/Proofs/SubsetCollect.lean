import LexgenModel.Proofs.SubsetSets
/-!
# Subset construction, part 3: what `collect` gathers over the members of a DFA state
-/
set_option linter.unusedSimpArgs false
set_option linter.unusedVariables false
namespace Lexgen.Subset
open Lexgen

/-- Missing from `NFAWF` (see the counterexample in `Subset.lean`): no transition entry has an
empty target list. -/
def TargetsNonempty (n : NFA) : Prop :=
  ∀ s, s < n.length → (∀ e ∈ (n.st s).chars, e.2 ≠ []) ∧ (∀ r ∈ (n.st s).ranges, r.2.2 ≠ [])

def optMem (o : Option (List Nat)) (t : Nat) : Prop := ∃ v, o = some v ∧ t ∈ v

/-- the shape both `charMapInsert` and `RangeMap.insert setUnion` give to a looked-up value -/
def mergeIn (o : Option (List Nat)) (b : Bool) (v : List Nat) : Option (List Nat) :=
  if b then some (match o with | some x => setUnion x v | none => v) else o

theorem mergeIn_isSome (o : Option (List Nat)) (b : Bool) (v : List Nat) :
    (mergeIn o b v).isSome = true ↔ o.isSome = true ∨ b = true := by
  cases o <;> cases b <;> simp [mergeIn]

theorem mergeIn_mem (o : Option (List Nat)) (b : Bool) (v : List Nat) (t : Nat) :
    optMem (mergeIn o b v) t ↔ optMem o t ∨ (b = true ∧ t ∈ v) := by
  cases o <;> cases b <;> simp [mergeIn, optMem, mem_setUnion]

theorem mergeOpt_eq (o : Option (List Nat)) (b : Bool) (v : List Nat) :
    RangeMap.mergeOpt setUnion o b v = mergeIn o b v := by
  cases o <;> cases b <;> rfl

/-! ## char maps -/

def CMFrom (lo : Nat) : List (Nat × List Nat) → Prop
  | [] => True
  | (k, _) :: rest => lo ≤ k ∧ CMFrom (k + 1) rest

theorem CMFrom.mono {lo lo' : Nat} {m : List (Nat × List Nat)} (h : CMFrom lo m) (hle : lo' ≤ lo) :
    CMFrom lo' m := by
  cases m with
  | nil => trivial
  | cons e rest => obtain ⟨k, v⟩ := e; exact ⟨Nat.le_trans hle h.1, h.2⟩

theorem lookupChar_none_of_lt {lo : Nat} {m : List (Nat × List Nat)} (h : CMFrom lo m) {c : Nat}
    (hc : c < lo) : lookupChar m c = none := by
  induction m generalizing lo with
  | nil => rfl
  | cons e rest ih =>
    obtain ⟨k, v⟩ := e
    simp only [lookupChar]
    have h1 := h.1
    rw [if_neg (by omega)]
    exact ih h.2 (by omega)

theorem charMapInsert_spec (c : Nat) (tg : List Nat) (m : List (Nat × List Nat)) (lo : Nat)
    (h : CMFrom lo m) (hlo : lo ≤ c) :
    CMFrom lo (charMapInsert c tg m) ∧
    ∀ c', lookupChar (charMapInsert c tg m) c' = mergeIn (lookupChar m c') (decide (c' = c)) tg := by
  induction m generalizing lo with
  | nil =>
    refine ⟨⟨hlo, trivial⟩, fun c' => ?_⟩
    simp only [charMapInsert, lookupChar, mergeIn]
    by_cases hc : c = c'
    · subst hc; simp
    · have : ¬ c' = c := fun h => hc h.symm
      simp [hc, this]
  | cons e rest ih =>
    obtain ⟨k, v⟩ := e
    obtain ⟨h1, h2⟩ := h
    simp only [charMapInsert]
    by_cases hA : c < k
    · simp only [hA, if_true]
      refine ⟨⟨hlo, by omega, h2⟩, fun c' => ?_⟩
      simp only [lookupChar, mergeIn]
      by_cases hc : c = c'
      · subst hc
        have : ¬ k = c := by omega
        simp [this, lookupChar_none_of_lt h2 (show c < k + 1 by omega)]
      · have : ¬ c' = c := fun h => hc h.symm
        simp [hc, this]
    · simp only [hA, if_false]
      by_cases hB : c = k
      · subst hB
        simp only [if_true]
        refine ⟨⟨h1, h2⟩, fun c' => ?_⟩
        simp only [lookupChar, mergeIn]
        by_cases hc : c = c'
        · subst hc; simp
        · have : ¬ c' = c := fun h => hc h.symm
          simp [hc, this]
      · simp only [hB, if_false]
        have ⟨ihw, ihl⟩ := ih (k + 1) h2 (by omega)
        refine ⟨⟨h1, ihw⟩, fun c' => ?_⟩
        simp only [lookupChar]
        by_cases hc : k = c'
        · subst hc
          have : ¬ k = c := fun h => hB h.symm
          simp [mergeIn, this]
        · simp only [hc, if_false]; exact ihl c'

theorem lookupChar_of_mem {lo : Nat} {m : List (Nat × List Nat)} (h : CMFrom lo m) {e : Nat × List Nat}
    (he : e ∈ m) : lookupChar m e.1 = some e.2 := by
  induction m generalizing lo with
  | nil => cases he
  | cons x rest ih =>
    obtain ⟨k, v⟩ := x
    simp only [lookupChar]
    rcases List.mem_cons.mp he with rfl | he
    · simp
    · have hlt : k + 1 ≤ e.1 := by
        by_cases hc : k + 1 ≤ e.1
        · exact hc
        · have := lookupChar_none_of_lt h.2 (show e.1 < k + 1 by omega)
          rw [ih h.2 he] at this; cases this
      rw [if_neg (by omega)]
      exact ih h.2 he

theorem mem_of_lookupChar {τ : Type} {m : List (Nat × τ)} {c : Nat} {v : τ}
    (h : lookupChar m c = some v) : (c, v) ∈ m := by
  induction m with
  | nil => cases h
  | cons x rest ih =>
    obtain ⟨k, w⟩ := x
    simp only [lookupChar] at h
    by_cases hk : k = c
    · subst hk; simp only [if_true] at h; cases h; exact List.mem_cons_self
    · rw [if_neg hk] at h; exact List.mem_cons_of_mem _ (ih h)

theorem charsFold_spec (E : List (Nat × List Nat)) (m : List (Nat × List Nat)) (h : CMFrom 0 m) :
    CMFrom 0 (E.foldl (fun m e => charMapInsert e.1 e.2 m) m) ∧
    (∀ c, (lookupChar (E.foldl (fun m e => charMapInsert e.1 e.2 m) m) c).isSome = true ↔
      (lookupChar m c).isSome = true ∨ ∃ e ∈ E, e.1 = c) ∧
    (∀ c t, optMem (lookupChar (E.foldl (fun m e => charMapInsert e.1 e.2 m) m) c) t ↔
      optMem (lookupChar m c) t ∨ ∃ tg, (c, tg) ∈ E ∧ t ∈ tg) := by
  induction E generalizing m with
  | nil => simp; exact h
  | cons e E ih =>
    rw [List.foldl_cons]
    obtain ⟨w, lk⟩ := charMapInsert_spec e.1 e.2 m 0 h (Nat.zero_le _)
    obtain ⟨i1, i2, i3⟩ := ih _ w
    refine ⟨i1, fun c => ?_, fun c t => ?_⟩
    · rw [i2, lk, mergeIn_isSome]
      simp only [decide_eq_true_eq, List.mem_cons]
      constructor
      · rintro ((h | h) | ⟨e', h1, h2⟩)
        · exact Or.inl h
        · exact Or.inr ⟨e, Or.inl rfl, h.symm⟩
        · exact Or.inr ⟨e', Or.inr h1, h2⟩
      · rintro (h | ⟨e', h1 | h1, h2⟩)
        · exact Or.inl (Or.inl h)
        · subst h1; exact Or.inl (Or.inr h2.symm)
        · exact Or.inr ⟨e', h1, h2⟩
    · rw [i3, lk, mergeIn_mem]
      simp only [decide_eq_true_eq, List.mem_cons]
      constructor
      · rintro ((h | ⟨h1, h2⟩) | ⟨tg, h1, h2⟩)
        · exact Or.inl h
        · exact Or.inr ⟨e.2, Or.inl (by rw [h1]), h2⟩
        · exact Or.inr ⟨tg, Or.inr h1, h2⟩
      · rintro (h | ⟨tg, h1 | h1, h2⟩)
        · exact Or.inl (Or.inl h)
        · rw [← h1] at *; exact Or.inl (Or.inr ⟨rfl, h2⟩)
        · exact Or.inr ⟨tg, h1, h2⟩

/-! ## range maps -/

theorem wf_le {α : Type} {lo : Nat} {l : RangeMap α} (h : RangeMap.WFFrom lo l) :
    ∀ r ∈ l, lo ≤ r.1 ∧ r.1 ≤ r.2.1 := by
  induction l generalizing lo with
  | nil => intro r hr; cases hr
  | cons x rest ih =>
    obtain ⟨s, e, v⟩ := x
    intro r hr
    rcases List.mem_cons.mp hr with rfl | hr
    · exact ⟨h.1, h.2.1⟩
    · have := ih h.2.2 r hr
      have h1 := h.1; have h2 := h.2.1
      exact ⟨by omega, this.2⟩

theorem lookup_of_mem {α : Type} {lo : Nat} {l : RangeMap α} (h : RangeMap.WFFrom lo l)
    {r : Nat × Nat × α} (hr : r ∈ l) {c : Nat} (h1 : r.1 ≤ c) (h2 : c ≤ r.2.1) :
    RangeMap.lookup l c = some r.2.2 := by
  induction l generalizing lo with
  | nil => cases hr
  | cons x rest ih =>
    obtain ⟨s, e, v⟩ := x
    simp only [RangeMap.lookup]
    rcases List.mem_cons.mp hr with rfl | hr
    · simp [h1, h2]
    · have := (wf_le h.2.2 r hr).1
      rw [if_neg (by omega)]
      exact ih h.2.2 hr

theorem mem_of_lookup {α : Type} {l : RangeMap α} {c : Nat} {v : α} (h : RangeMap.lookup l c = some v) :
    ∃ r ∈ l, r.1 ≤ c ∧ c ≤ r.2.1 ∧ r.2.2 = v := by
  induction l with
  | nil => cases h
  | cons x rest ih =>
    obtain ⟨s, e, w⟩ := x
    simp only [RangeMap.lookup] at h
    by_cases hc : s ≤ c ∧ c ≤ e
    · rw [if_pos hc] at h; cases h
      exact ⟨_, List.mem_cons_self, hc.1, hc.2, rfl⟩
    · rw [if_neg hc] at h
      obtain ⟨r, hr, h'⟩ := ih h
      exact ⟨r, List.mem_cons_of_mem _ hr, h'⟩

theorem rangesFold_spec (R : RangeMap (List Nat)) (hR : ∀ r ∈ R, r.1 ≤ r.2.1) (m : RangeMap (List Nat))
    (h : RangeMap.WF m) :
    RangeMap.WF (R.foldl (fun m r => RangeMap.insert setUnion m r.1 r.2.1 r.2.2) m) ∧
    (∀ c, (RangeMap.lookup (R.foldl (fun m r => RangeMap.insert setUnion m r.1 r.2.1 r.2.2) m) c).isSome = true ↔
      (RangeMap.lookup m c).isSome = true ∨ ∃ r ∈ R, r.1 ≤ c ∧ c ≤ r.2.1) ∧
    (∀ c t, optMem (RangeMap.lookup (R.foldl (fun m r => RangeMap.insert setUnion m r.1 r.2.1 r.2.2) m) c) t ↔
      optMem (RangeMap.lookup m c) t ∨ ∃ r ∈ R, r.1 ≤ c ∧ c ≤ r.2.1 ∧ t ∈ r.2.2) := by
  induction R generalizing m with
  | nil => simp; exact h
  | cons r R ih =>
    rw [List.foldl_cons]
    obtain ⟨w, lk⟩ := RangeMap.insert_spec setUnion m r.1 r.2.1 r.2.2 h (hR r List.mem_cons_self)
    obtain ⟨i1, i2, i3⟩ := ih (fun x hx => hR x (List.mem_cons_of_mem _ hx)) _ w
    refine ⟨i1, fun c => ?_, fun c t => ?_⟩
    · rw [i2, lk, mergeOpt_eq, mergeIn_isSome]
      simp only [decide_eq_true_eq, List.mem_cons]
      constructor
      · rintro ((h | h) | ⟨r', h1, h2⟩)
        · exact Or.inl h
        · exact Or.inr ⟨r, Or.inl rfl, h⟩
        · exact Or.inr ⟨r', Or.inr h1, h2⟩
      · rintro (h | ⟨r', h1 | h1, h2⟩)
        · exact Or.inl (Or.inl h)
        · subst h1; exact Or.inl (Or.inr h2)
        · exact Or.inr ⟨r', h1, h2⟩
    · rw [i3, lk, mergeOpt_eq, mergeIn_mem]
      simp only [decide_eq_true_eq, List.mem_cons]
      constructor
      · rintro ((h | ⟨h1, h2⟩) | ⟨r', h1, h2⟩)
        · exact Or.inl h
        · exact Or.inr ⟨r, Or.inl rfl, h1.1, h1.2, h2⟩
        · exact Or.inr ⟨r', Or.inr h1, h2⟩
      · rintro (h | ⟨r', h1 | h1, h2⟩)
        · exact Or.inl (Or.inl h)
        · subst h1; exact Or.inl (Or.inr ⟨⟨h2.1, h2.2.1⟩, h2.2.2⟩)
        · exact Or.inr ⟨r', h1, h2⟩

/-! ## `collect` -/

def collectStep (nfa : NFA) (c : Collected) (s : Nat) : Collected :=
  let st := nfa.st s
  { accs := match st.acc with | some a => c.accs ++ [a] | none => c.accs
    chars := st.chars.foldl (fun m e => charMapInsert e.1 e.2 m) c.chars
    ranges := st.ranges.foldl (fun m r => RangeMap.insert setUnion m r.1 r.2.1 r.2.2) c.ranges
    any := setUnion c.any st.any
    eoi := setUnion c.eoi st.eoi }

theorem collect_eq (nfa : NFA) (S : List Nat) : collect nfa S = S.foldl (collectStep nfa) {} := rfl

structure ColSpec (nfa : NFA) (S : List Nat) (col : Collected) : Prop where
  accs : col.accs = S.filterMap (fun u => (nfa.st u).acc)
  cwf : CMFrom 0 col.chars
  csome : ∀ c, (lookupChar col.chars c).isSome = true ↔ ∃ s ∈ S, ∃ e ∈ (nfa.st s).chars, e.1 = c
  cmem : ∀ c t, optMem (lookupChar col.chars c) t ↔ ∃ s ∈ S, ∃ tg, (c, tg) ∈ (nfa.st s).chars ∧ t ∈ tg
  rwf : RangeMap.WF col.ranges
  rsome : ∀ c, (RangeMap.lookup col.ranges c).isSome = true ↔
    ∃ s ∈ S, ∃ r ∈ (nfa.st s).ranges, r.1 ≤ c ∧ c ≤ r.2.1
  rmem : ∀ c t, optMem (RangeMap.lookup col.ranges c) t ↔
    ∃ s ∈ S, ∃ r ∈ (nfa.st s).ranges, r.1 ≤ c ∧ c ≤ r.2.1 ∧ t ∈ r.2.2
  any : ∀ t, t ∈ col.any ↔ ∃ s ∈ S, t ∈ (nfa.st s).any
  eoi : ∀ t, t ∈ col.eoi ↔ ∃ s ∈ S, t ∈ (nfa.st s).eoi

theorem ranges_wf_all {n : NFA} (hwf : NFAWF n) (s : Nat) : RangeMap.WF (n.st s).ranges := by
  by_cases hs : s < n.length
  · exact hwf.rangesWF s hs
  · rw [st_eq_empty_of_le (Nat.le_of_not_lt hs)]; trivial

theorem exists_snoc {S : List Nat} {s : Nat} {Q : Nat → Prop} :
    (∃ x ∈ S ++ [s], Q x) ↔ (∃ x ∈ S, Q x) ∨ Q s := by
  constructor
  · rintro ⟨x, hx, hq⟩
    rcases List.mem_append.mp hx with h | h
    · exact Or.inl ⟨x, h, hq⟩
    · rw [List.mem_singleton] at h; subst h; exact Or.inr hq
  · rintro (⟨x, hx, hq⟩ | hq)
    · exact ⟨x, List.mem_append_left _ hx, hq⟩
    · exact ⟨s, List.mem_append_right _ (List.mem_singleton.mpr rfl), hq⟩

theorem colSpec_nil (nfa : NFA) : ColSpec nfa [] {} := by
  constructor <;> simp [optMem, lookupChar, RangeMap.lookup, CMFrom, RangeMap.WF, RangeMap.WFFrom]

theorem colSpec_step {nfa : NFA} (hwf : NFAWF nfa) {S : List Nat} {col : Collected} (h : ColSpec nfa S col)
    (s : Nat) : ColSpec nfa (S ++ [s]) (collectStep nfa col s) := by
  obtain ⟨c1, c2, c3⟩ := charsFold_spec (nfa.st s).chars col.chars h.cwf
  obtain ⟨r1, r2, r3⟩ := rangesFold_spec (nfa.st s).ranges
    (fun r hr => (wf_le (ranges_wf_all hwf s) r hr).2) col.ranges h.rwf
  constructor
  · show (match (nfa.st s).acc with | some a => col.accs ++ [a] | none => col.accs) = _
    rw [List.filterMap_append, h.accs]
    cases hacc : (nfa.st s).acc <;> simp [hacc]
  · exact c1
  · intro c
    show (lookupChar ((nfa.st s).chars.foldl _ col.chars) c).isSome = true ↔ _
    rw [c2, h.csome, exists_snoc]
  · intro c t
    show optMem (lookupChar ((nfa.st s).chars.foldl _ col.chars) c) t ↔ _
    rw [c3, h.cmem, exists_snoc]
  · exact r1
  · intro c
    show (RangeMap.lookup ((nfa.st s).ranges.foldl _ col.ranges) c).isSome = true ↔ _
    rw [r2, h.rsome, exists_snoc]
  · intro c t
    show optMem (RangeMap.lookup ((nfa.st s).ranges.foldl _ col.ranges) c) t ↔ _
    rw [r3, h.rmem, exists_snoc]
  · intro t
    show t ∈ setUnion col.any (nfa.st s).any ↔ _
    rw [mem_setUnion, h.any, exists_snoc]
  · intro t
    show t ∈ setUnion col.eoi (nfa.st s).eoi ↔ _
    rw [mem_setUnion, h.eoi, exists_snoc]

theorem collect_spec {nfa : NFA} (hwf : NFAWF nfa) (S : List Nat) : ColSpec nfa S (collect nfa S) := by
  rw [collect_eq]
  exact foldl_inv (collectStep nfa) (fun c l => ColSpec nfa l c) S {} (colSpec_nil nfa)
    (fun b l a _ hb => colSpec_step hwf hb a)

/-! ## non-empty target lists -/

theorem chars_ne_all {n : NFA} (hne : TargetsNonempty n) (s : Nat) : ∀ e ∈ (n.st s).chars, e.2 ≠ [] := by
  by_cases hs : s < n.length
  · exact (hne s hs).1
  · rw [st_eq_empty_of_le (Nat.le_of_not_lt hs)]; intro e he; cases he

theorem ranges_ne_all {n : NFA} (hne : TargetsNonempty n) (s : Nat) : ∀ r ∈ (n.st s).ranges, r.2.2 ≠ [] := by
  by_cases hs : s < n.length
  · exact (hne s hs).2
  · rw [st_eq_empty_of_le (Nat.le_of_not_lt hs)]; intro e he; cases he

theorem exists_mem_of_ne_nil {l : List Nat} (h : l ≠ []) : ∃ t, t ∈ l := by
  cases l with
  | nil => exact absurd rfl h
  | cons a l => exact ⟨a, List.mem_cons_self⟩

theorem col_chars_ne {nfa : NFA} (hne : TargetsNonempty nfa) {S : List Nat} {col : Collected}
    (h : ColSpec nfa S col) : ∀ e ∈ col.chars, e.2 ≠ [] := by
  intro e he
  have hl := lookupChar_of_mem h.cwf he
  have hs : (lookupChar col.chars e.1).isSome = true := by rw [hl]; rfl
  obtain ⟨s, hs, e', he', hk⟩ := (h.csome e.1).mp hs
  obtain ⟨t, ht⟩ := exists_mem_of_ne_nil (chars_ne_all hne s e' he')
  have : optMem (lookupChar col.chars e.1) t :=
    (h.cmem e.1 t).mpr ⟨s, hs, e'.2, by rw [← hk]; exact he', ht⟩
  obtain ⟨v, hv, htv⟩ := this
  rw [hl] at hv; cases hv
  intro hnil; rw [hnil] at htv; cases htv

theorem col_ranges_ne {nfa : NFA} (hne : TargetsNonempty nfa) {S : List Nat} {col : Collected}
    (h : ColSpec nfa S col) : ∀ r ∈ col.ranges, r.2.2 ≠ [] := by
  intro r hr
  have hle := (wf_le h.rwf r hr).2
  have hl := lookup_of_mem h.rwf hr (Nat.le_refl _) hle
  have hs : (RangeMap.lookup col.ranges r.1).isSome = true := by rw [hl]; rfl
  obtain ⟨s, hs, r', hr', hk⟩ := (h.rsome r.1).mp hs
  obtain ⟨t, ht⟩ := exists_mem_of_ne_nil (ranges_ne_all hne s r' hr')
  have : optMem (RangeMap.lookup col.ranges r.1) t :=
    (h.rmem r.1 t).mpr ⟨s, hs, r', hr', hk.1, hk.2, ht⟩
  obtain ⟨v, hv, htv⟩ := this
  rw [hl] at hv; cases hv
  intro hnil; rw [hnil] at htv; cases htv

end Lexgen.Subset
