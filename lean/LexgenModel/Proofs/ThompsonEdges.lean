import LexgenModel.Spec.Lang
import LexgenModel.Proofs.ClassEval

/-!
# Thompson construction, part 1: edges of the model NFA and the effect of one `add…Transition`

`Edge n a x b` is the labelled edge relation of an NFA (`x = none` for ε). Every `add…Transition`
function adds one family of edges `s —x→ t` (`Step`), and changes nothing else.
-/

set_option linter.unusedSimpArgs false
set_option linter.unusedVariables false
namespace Lexgen
namespace Thompson
open RangeMap

theorem mem_setInsert (x a : Nat) (l : List Nat) : x ∈ setInsert a l ↔ x = a ∨ x ∈ l := by
  induction l with
  | nil => simp [setInsert]
  | cons y ys ih =>
    simp only [setInsert]
    by_cases h1 : a < y
    · simp [h1]
    · by_cases h2 : a = y
      · subst h2; simp
      · simp only [h1, h2, if_false, List.mem_cons, ih]
        constructor
        · rintro (h | h | h)
          · exact Or.inr (Or.inl h)
          · exact Or.inl h
          · exact Or.inr (Or.inr h)
        · rintro (h | h | h)
          · exact Or.inr (Or.inl h)
          · exact Or.inl h
          · exact Or.inr (Or.inr h)

theorem mem_setUnion (x : Nat) (a b : List Nat) : x ∈ setUnion a b ↔ x ∈ a ∨ x ∈ b := by
  unfold setUnion
  induction b generalizing a with
  | nil => simp
  | cons y ys ih =>
    simp only [List.foldl_cons, ih, mem_setInsert, List.mem_cons]
    constructor
    · rintro ((h | h) | h)
      · exact Or.inr (Or.inl h)
      · exact Or.inl h
      · exact Or.inr (Or.inr h)
    · rintro (h | h | h)
      · exact Or.inl (Or.inr h)
      · exact Or.inl (Or.inl h)
      · exact Or.inr h

theorem st_ge (n : NFA) (a : Nat) (h : n.length ≤ a) : n.st a = NState.empty := by
  simp only [NFA.st, List.getD_eq_getElem?_getD, List.getElem?_eq_none h, Option.getD_none]

theorem st_newState (n : NFA) (a : Nat) : (n.newState.1).st a = n.st a := by
  simp only [NFA.newState, NFA.st, List.getD_eq_getElem?_getD, List.getElem?_append]
  by_cases h : a < n.length
  · simp only [h, if_true]
  · simp only [h, if_false]
    rw [List.getElem?_eq_none (Nat.le_of_not_lt h)]
    cases h2 : a - n.length with
    | zero => rfl
    | succ k => rfl

theorem length_newState (n : NFA) : (n.newState.1).length = n.length + 1 := by
  simp [NFA.newState]

theorem newState_snd (n : NFA) : n.newState.2 = n.length := rfl

theorem st_modify_self (n : NFA) (s : Nat) (f : NState → NState) (h : s < n.length) :
    NFA.st (List.modify n s f) s = f (n.st s) := by
  simp only [NFA.st, List.getD_eq_getElem?_getD, List.getElem?_modify, List.getElem?_eq_getElem h,
    Option.map_eq_map, Option.map_some, if_true, Option.getD_some]

theorem st_modify_ne (n : NFA) (s a : Nat) (f : NState → NState) (h : a ≠ s) :
    NFA.st (List.modify n s f) a = n.st a := by
  simp only [NFA.st, List.getD_eq_getElem?_getD, List.getElem?_modify]
  have : ¬ s = a := fun e => h e.symm
  cases n[a]? <;> simp [this]


/-! ## Edges -/

/-- outgoing edges of one state; the label is `none` for an ε-edge -/
def SEdge (st : NState) (x : Option Sym) (b : Nat) : Prop :=
  match x with
  | none => b ∈ st.eps
  | some (.ch c) => (∃ tg, (c, tg) ∈ st.chars ∧ b ∈ tg) ∨
      (∃ r ∈ st.ranges, r.1 ≤ c ∧ c ≤ r.2.1 ∧ b ∈ r.2.2) ∨ b ∈ st.any
  | some .eoi => b ∈ st.eoi

def Edge (n : NFA) (a : Nat) (x : Option Sym) (b : Nat) : Prop := SEdge (n.st a) x b

theorem edge_eps {n : NFA} {a b : Nat} : Edge n a none b ↔ b ∈ (n.st a).eps := Iff.rfl

theorem edge_sym {n : NFA} {a b : Nat} {y : Sym} : Edge n a (some y) b ↔ NFA.stepSym n a y b := by
  cases y <;> exact Iff.rfl

theorem sedge_empty (x : Option Sym) (b : Nat) : ¬ SEdge NState.empty x b := by
  intro h
  cases x with
  | none => cases h
  | some y =>
    cases y with
    | ch c =>
      rcases h with ⟨tg, h, _⟩ | ⟨r, h, _⟩ | h <;> cases h
    | eoi => cases h

theorem sedge_virgin {st : NState} (hv : st.chars = [] ∧ st.ranges = [] ∧ st.eps = [] ∧ st.any = [] ∧ st.eoi = [])
    (x : Option Sym) (b : Nat) : ¬ SEdge st x b := by
  obtain ⟨h1, h2, h3, h4, h5⟩ := hv
  intro h
  cases x with
  | none => simp only [SEdge, h3] at h; cases h
  | some y =>
    cases y with
    | ch c =>
      simp only [SEdge, h1, h2, h4] at h
      rcases h with ⟨tg, h, _⟩ | ⟨r, h, _⟩ | h <;> cases h
    | eoi => simp only [SEdge, h5] at h; cases h

theorem edge_virgin {n : NFA} {s : Nat} (hv : NFA.virgin n s) (x : Option Sym) (b : Nat) : ¬ Edge n s x b :=
  sedge_virgin hv x b

theorem edge_ge {n : NFA} {a : Nat} (h : n.length ≤ a) (x : Option Sym) (b : Nat) : ¬ Edge n a x b := by
  unfold Edge; rw [st_ge n a h]; exact sedge_empty x b

theorem edge_lt {n : NFA} {a b : Nat} {x : Option Sym} (h : Edge n a x b) : a < n.length := by
  apply Nat.lt_of_not_le; intro hle; exact edge_ge hle x b h

/-! ## Range maps seen as edge families -/

theorem ranges_lookupP {lo : Nat} {m : RangeMap (List Nat)} (h : WFFrom lo m) (c : Nat) (P : List Nat → Prop) :
    (∃ r ∈ m, r.1 ≤ c ∧ c ≤ r.2.1 ∧ P r.2.2) ↔ ∃ v, lookup m c = some v ∧ P v := by
  induction m generalizing lo with
  | nil =>
    constructor
    · rintro ⟨r, hr, _⟩; cases hr
    · rintro ⟨v, hv, _⟩; cases hv
  | cons r rest ih =>
    obtain ⟨s, e, v⟩ := r
    obtain ⟨h1, h2, h3⟩ := h
    simp only [lookup]
    by_cases hc : s ≤ c ∧ c ≤ e
    · rw [if_pos hc]
      constructor
      · rintro ⟨r, hr, hr1, hr2, hr3⟩
        rcases List.mem_cons.mp hr with rfl | hr'
        · exact ⟨_, rfl, hr3⟩
        · have := (ih h3).mp ⟨r, hr', hr1, hr2, hr3⟩
          rw [lookup_none_of_lt h3 (by omega)] at this
          obtain ⟨v', hv', _⟩ := this; cases hv'
      · rintro ⟨v', hv', hb⟩; cases hv'; exact ⟨(s, e, v), List.mem_cons_self, hc.1, hc.2, hb⟩
    · rw [if_neg hc, ← ih h3]
      constructor
      · rintro ⟨r, hr, hr1, hr2, hr3⟩
        rcases List.mem_cons.mp hr with rfl | hr'
        · exact absurd ⟨hr1, hr2⟩ hc
        · exact ⟨r, hr', hr1, hr2, hr3⟩
      · rintro ⟨r, hr, hrest⟩; exact ⟨r, List.mem_cons_of_mem _ hr, hrest⟩

theorem ranges_lookup {lo : Nat} {m : RangeMap (List Nat)} (h : WFFrom lo m) (c b : Nat) :
    (∃ r ∈ m, r.1 ≤ c ∧ c ≤ r.2.1 ∧ b ∈ r.2.2) ↔ ∃ v, lookup m c = some v ∧ b ∈ v :=
  ranges_lookupP h c (fun v => b ∈ v)

theorem wfFrom_le {α : Type} {lo : Nat} {m : RangeMap α} (h : WFFrom lo m) : ∀ r ∈ m, r.1 ≤ r.2.1 := by
  induction m generalizing lo with
  | nil => intro r hr; cases hr
  | cons r0 rest ih =>
    obtain ⟨s, e, v⟩ := r0
    intro r hr
    rcases List.mem_cons.mp hr with rfl | hr'
    · exact h.2.1
    · exact ih h.2.2 r hr'

/-- all values of a well-formed map satisfy `P` iff all looked-up values do -/
theorem allVals_iff_lookup {m : RangeMap (List Nat)} (h : WF m) (P : List Nat → Prop) :
    (∀ r ∈ m, P r.2.2) ↔ ∀ c v, lookup m c = some v → P v := by
  constructor
  · intro hall c v hv
    obtain ⟨r, hr, _, _, hr3⟩ := (ranges_lookupP h c (fun v' => v' = v)).mpr ⟨v, hv, rfl⟩
    rw [← hr3]; exact hall r hr
  · intro hl r hr
    obtain ⟨v, hv, hv2⟩ := (ranges_lookupP h r.1 (fun v' => v' = r.2.2)).mp
      ⟨r, hr, Nat.le_refl _, wfFrom_le h r hr, rfl⟩
    rw [← hv2]; exact hl _ _ hv

theorem insertRanges_nil_left {α : Type} (merge : α → α → α) (l : RangeMap α) :
    insertRanges merge [] l = l := by
  cases l with
  | nil => simp [insertRanges]
  | cons r rest => simp [insertRanges]

theorem wfFrom_mapVals {α β : Type} (f : α → β) (m : RangeMap α) (lo : Nat) (h : WFFrom lo m) :
    WFFrom lo (mapVals f m) := by
  induction m generalizing lo with
  | nil => trivial
  | cons r rest ih =>
    obtain ⟨s, e, v⟩ := r
    exact ⟨h.1, h.2.1, ih _ h.2.2⟩

theorem mapVals_edge (m : RangeMap Unit) (t c b : Nat) :
    (∃ r ∈ mapVals (fun _ => [t]) m, r.1 ≤ c ∧ c ≤ r.2.1 ∧ b ∈ r.2.2) ↔
      ((lookup m c).isSome = true ∧ b = t) := by
  induction m with
  | nil =>
    constructor
    · rintro ⟨r, hr, _⟩; cases hr
    · rintro ⟨h, _⟩; cases h
  | cons r rest ih =>
    obtain ⟨s, e, v⟩ := r
    have hun : mapVals (fun _ => [t]) ((s, e, v) :: rest) = (s, e, [t]) :: mapVals (fun _ => [t]) rest := rfl
    rw [hun]
    simp only [lookup]
    by_cases hc : s ≤ c ∧ c ≤ e
    · rw [if_pos hc]
      constructor
      · rintro ⟨r, hr, hr1, hr2, hr3⟩
        rcases List.mem_cons.mp hr with rfl | hr'
        · exact ⟨rfl, by simpa using hr3⟩
        · exact ⟨rfl, (ih.mp ⟨r, hr', hr1, hr2, hr3⟩).2⟩
      · rintro ⟨_, hb⟩
        exact ⟨(s, e, [t]), List.mem_cons_self, hc.1, hc.2, by simp [hb]⟩
    · rw [if_neg hc, ← ih]
      constructor
      · rintro ⟨r, hr, hr1, hr2, hr3⟩
        rcases List.mem_cons.mp hr with rfl | hr'
        · exact absurd ⟨hr1, hr2⟩ hc
        · exact ⟨r, hr', hr1, hr2, hr3⟩
      · rintro ⟨r, hr, hrest⟩; exact ⟨r, List.mem_cons_of_mem _ hr, hrest⟩


/-! ## One `add…Transition` call -/

/-- transition targets listed in a state are non-empty sets -/
def SNonempty (st : NState) : Prop :=
  (∀ e ∈ st.chars, e.2 ≠ []) ∧ (∀ r ∈ st.ranges, r.2.2 ≠ [])

/-- `n'` is `n` with the family of edges `s —x→ t`, `X x`, added; nothing else changes -/
structure Step (n n' : NFA) (s : Nat) (X : Option Sym → Prop) (t : Nat) : Prop where
  len : n'.length = n.length
  other : ∀ a, a ≠ s → n'.st a = n.st a
  acc : (n'.st s).acc = (n.st s).acc
  edge : ∀ x b, SEdge (n'.st s) x b ↔ SEdge (n.st s) x b ∨ (X x ∧ b = t)
  rwf : RangeMap.WF (n.st s).ranges → RangeMap.WF (n'.st s).ranges
  cnd : ((n.st s).chars.map (·.1)).Nodup → ((n'.st s).chars.map (·.1)).Nodup
  tne : SNonempty (n.st s) → SNonempty (n'.st s)

theorem step_modify (n : NFA) (s : Nat) (f : NState → NState) (X : Option Sym → Prop) (t : Nat)
    (hs : s < n.length)
    (hacc : (f (n.st s)).acc = (n.st s).acc)
    (hedge : ∀ x b, SEdge (f (n.st s)) x b ↔ SEdge (n.st s) x b ∨ (X x ∧ b = t))
    (hr : RangeMap.WF (n.st s).ranges → RangeMap.WF (f (n.st s)).ranges)
    (hc : ((n.st s).chars.map (·.1)).Nodup → ((f (n.st s)).chars.map (·.1)).Nodup)
    (ht : SNonempty (n.st s) → SNonempty (f (n.st s))) :
    Step n (List.modify n s f) s X t := by
  refine ⟨List.length_modify _ _ _, fun a ha => st_modify_ne n s a f ha, ?_, ?_, ?_, ?_, ?_⟩
  all_goals rw [st_modify_self n s f hs]
  · exact hacc
  · exact hedge
  · exact hr
  · exact hc
  · exact ht

theorem step_addEps {n n' : NFA} {s t : Nat} (h : n.addEmptyTransition s t = .ok n') (hs : s < n.length) :
    Step n n' s (fun x => x = none) t := by
  unfold NFA.addEmptyTransition at h
  split at h
  · cases h
  · cases h
    apply step_modify _ _ _ _ _ hs rfl _ id id id
    intro x b
    cases x with
    | none =>
      simp only [SEdge, mem_setInsert, true_and]
      constructor
      · rintro (h | h); exact Or.inr h; exact Or.inl h
      · rintro (h | h); exact Or.inr h; exact Or.inl h
    | some y =>
      cases y <;> simp [SEdge]

theorem step_addAny {n n' : NFA} {s t : Nat} (h : n.addAnyTransition s t = .ok n') (hs : s < n.length) :
    Step n n' s (fun x => ∃ c, x = some (.ch c)) t := by
  unfold NFA.addAnyTransition at h
  split at h
  · cases h
  · cases h
    apply step_modify _ _ _ _ _ hs rfl _ id id id
    intro x b
    cases x with
    | none => simp [SEdge]
    | some y =>
      cases y with
      | eoi => simp [SEdge]
      | ch c =>
        simp only [SEdge, mem_setInsert]
        constructor
        · rintro (h | h | h | h)
          · exact Or.inl (Or.inl h)
          · exact Or.inl (Or.inr (Or.inl h))
          · exact Or.inr ⟨⟨c, rfl⟩, h⟩
          · exact Or.inl (Or.inr (Or.inr h))
        · rintro ((h | h | h) | ⟨_, h⟩)
          · exact Or.inl h
          · exact Or.inr (Or.inl h)
          · exact Or.inr (Or.inr (Or.inr h))
          · exact Or.inr (Or.inr (Or.inl h))

theorem step_addEoi {n n' : NFA} {s t : Nat} (h : n.addEoiTransition s t = .ok n') (hs : s < n.length) :
    Step n n' s (fun x => x = some .eoi) t := by
  unfold NFA.addEoiTransition at h
  split at h
  · cases h
  · cases h
    apply step_modify _ _ _ _ _ hs rfl _ id id id
    intro x b
    cases x with
    | none => simp [SEdge]
    | some y =>
      cases y with
      | ch c => simp [SEdge]
      | eoi =>
        simp only [SEdge, mem_setInsert, true_and]
        constructor
        · rintro (h | h); exact Or.inr h; exact Or.inl h
        · rintro (h | h); exact Or.inr h; exact Or.inl h


/-- the character-map part of `SEdge` is the only one `addCharTransition` touches -/
theorem sedge_chars_congr (st : NState) (chars' : List (Nat × List Nat)) (c t : Nat)
    (hch : ∀ c' b, (∃ tg, (c', tg) ∈ chars' ∧ b ∈ tg) ↔ (∃ tg, (c', tg) ∈ st.chars ∧ b ∈ tg) ∨ (c' = c ∧ b = t))
    (x : Option Sym) (b : Nat) :
    SEdge { st with chars := chars' } x b ↔ SEdge st x b ∨ (x = some (.ch c) ∧ b = t) := by
  cases x with
  | none => simp [SEdge]
  | some y =>
    cases y with
    | eoi => simp [SEdge]
    | ch c' =>
      simp only [SEdge, hch c' b, Option.some.injEq, Sym.ch.injEq]
      constructor
      · rintro ((h | h) | h | h)
        · exact Or.inl (Or.inl h)
        · exact Or.inr h
        · exact Or.inl (Or.inr (Or.inl h))
        · exact Or.inl (Or.inr (Or.inr h))
      · rintro ((h | h | h) | h)
        · exact Or.inl (Or.inl h)
        · exact Or.inr (Or.inl h)
        · exact Or.inr (Or.inr h)
        · exact Or.inl (Or.inr h)

theorem step_addChar {n n' : NFA} {s c t : Nat} (h : n.addCharTransition s c t = .ok n') (hs : s < n.length) :
    Step n n' s (fun x => x = some (.ch c)) t := by
  unfold NFA.addCharTransition at h
  simp only at h
  split at h
  · rename_i k tgts hfind
    split at h
    · cases h
    · cases h
      have hmem : (k, tgts) ∈ (n.st s).chars := List.mem_of_find?_eq_some hfind
      have hk : k = c := by
        have := List.find?_some hfind
        simpa using this
      subst hk
      apply step_modify _ _ _ _ _ hs rfl _ id
      · intro hnd
        have : (List.map (fun e : Nat × List Nat => if e.1 = k then (e.1, setInsert t e.2) else e) (n.st s).chars).map (·.1)
            = (n.st s).chars.map (·.1) := by
          rw [List.map_map]
          apply List.map_congr_left
          intro e _
          simp only [Function.comp]
          split <;> rfl
        show (List.map (fun e : Nat × List Nat => e.1)
          (List.map (fun e : Nat × List Nat => if e.1 = k then (e.1, setInsert t e.2) else e) (n.st s).chars)).Nodup
        rw [this]; exact hnd
      · rintro ⟨h1, h2⟩
        refine ⟨?_, h2⟩
        intro e he
        obtain ⟨e0, he0, rfl⟩ := List.mem_map.mp he
        split
        · intro hnil
          have : t ∈ setInsert t e0.2 := (mem_setInsert _ _ _).mpr (Or.inl rfl)
          have hnil' : setInsert t e0.2 = [] := hnil
          rw [hnil'] at this; cases this
        · exact h1 e0 he0
      · apply sedge_chars_congr
        intro c' b
        constructor
        · rintro ⟨tg, hm, hb⟩
          obtain ⟨e0, he0, heq⟩ := List.mem_map.mp hm
          by_cases hc : e0.1 = k
          · rw [if_pos hc] at heq
            cases heq
            rcases (mem_setInsert _ _ _).mp hb with hb | hb
            · exact Or.inr ⟨hc, hb⟩
            · exact Or.inl ⟨e0.2, he0, hb⟩
          · rw [if_neg hc] at heq
            subst heq
            exact Or.inl ⟨_, he0, hb⟩
        · rintro (⟨tg, hm, hb⟩ | ⟨rfl, rfl⟩)
          · by_cases hc : c' = k
            · refine ⟨setInsert t tg, List.mem_map.mpr ⟨(c', tg), hm, ?_⟩, (mem_setInsert _ _ _).mpr (Or.inr hb)⟩
              simp [hc]
            · refine ⟨tg, List.mem_map.mpr ⟨(c', tg), hm, ?_⟩, hb⟩
              simp [hc]
          · refine ⟨setInsert b tgts, List.mem_map.mpr ⟨(c', tgts), hmem, ?_⟩, (mem_setInsert _ _ _).mpr (Or.inl rfl)⟩
            simp
  · rename_i hfind
    cases h
    have hnone := List.find?_eq_none.mp hfind
    apply step_modify _ _ _ _ _ hs rfl _ id
    · intro hnd
      show (List.map (fun e : Nat × List Nat => e.1) ((n.st s).chars ++ [(c, [t])])).Nodup
      rw [List.map_append, List.nodup_append]
      refine ⟨hnd, by simp, ?_⟩
      intro a ha b hb
      simp only [List.map_cons, List.map_nil, List.mem_singleton] at hb
      subst hb
      obtain ⟨e, he, rfl⟩ := List.mem_map.mp ha
      intro heq
      exact hnone e he (by simp [heq])
    · rintro ⟨h1, h2⟩
      refine ⟨?_, h2⟩
      intro e he
      rcases List.mem_append.mp he with he | he
      · exact h1 e he
      · simp only [List.mem_singleton] at he
        subst he
        simp
    · apply sedge_chars_congr
      intro c' b
      constructor
      · rintro ⟨tg, hm, hb⟩
        rcases List.mem_append.mp hm with hm | hm
        · exact Or.inl ⟨tg, hm, hb⟩
        · simp only [List.mem_singleton, Prod.mk.injEq] at hm
          obtain ⟨rfl, rfl⟩ := hm
          simp only [List.mem_singleton] at hb
          exact Or.inr ⟨rfl, hb⟩
      · rintro (⟨tg, hm, hb⟩ | ⟨rfl, rfl⟩)
        · exact ⟨tg, List.mem_append.mpr (Or.inl hm), hb⟩
        · exact ⟨[b], List.mem_append.mpr (Or.inr (by simp)), by simp⟩


theorem sedge_ranges_congr (st : NState) (ranges' : RangeMap (List Nat)) (R : Nat → Prop) (t : Nat)
    (hr : ∀ c b, (∃ r ∈ ranges', r.1 ≤ c ∧ c ≤ r.2.1 ∧ b ∈ r.2.2) ↔
      (∃ r ∈ st.ranges, r.1 ≤ c ∧ c ≤ r.2.1 ∧ b ∈ r.2.2) ∨ (R c ∧ b = t))
    (x : Option Sym) (b : Nat) :
    SEdge { st with ranges := ranges' } x b ↔ SEdge st x b ∨ ((∃ c, x = some (.ch c) ∧ R c) ∧ b = t) := by
  cases x with
  | none => simp [SEdge]
  | some y =>
    cases y with
    | eoi => simp [SEdge]
    | ch c' =>
      simp only [SEdge, hr c' b, Option.some.injEq, Sym.ch.injEq]
      constructor
      · rintro (h | (h | h) | h)
        · exact Or.inl (Or.inl h)
        · exact Or.inl (Or.inr (Or.inl h))
        · exact Or.inr ⟨⟨c', rfl, h.1⟩, h.2⟩
        · exact Or.inl (Or.inr (Or.inr h))
      · rintro ((h | h | h) | ⟨⟨c, rfl, h1⟩, h2⟩)
        · exact Or.inl h
        · exact Or.inr (Or.inl (Or.inl h))
        · exact Or.inr (Or.inr h)
        · exact Or.inr (Or.inl (Or.inr ⟨h1, h2⟩))

theorem step_addRange (n : NFA) (s rs re t : Nat) (hs : s < n.length) (hse : rs ≤ re)
    (hwf : RangeMap.WF (n.st s).ranges) :
    Step n (n.addRangeTransition s rs re t) s (fun x => ∃ c, x = some (.ch c) ∧ (rs ≤ c ∧ c ≤ re)) t := by
  unfold NFA.addRangeTransition
  have ⟨w, lk⟩ := insert_spec setUnion (n.st s).ranges rs re [t] hwf hse
  apply step_modify _ _ _ _ _ hs rfl _ (fun _ => w) id
  · rintro ⟨h1, h2⟩
    refine ⟨h1, ?_⟩
    show ∀ r ∈ RangeMap.insert setUnion (n.st s).ranges rs re [t], r.2.2 ≠ []
    rw [allVals_iff_lookup w (fun v => v ≠ [])]
    have hold := (allVals_iff_lookup hwf (fun v => v ≠ [])).mp h2
    intro c v hv
    rw [lk c] at hv
    cases hl : lookup (n.st s).ranges c with
    | none =>
      rw [hl] at hv
      by_cases hc : rs ≤ c ∧ c ≤ re
      · simp only [hc, and_self, decide_true, mergeOpt, Option.some.injEq] at hv
        subst hv; simp
      · simp only [hc, decide_false, mergeOpt] at hv
        cases hv
    | some x =>
      rw [hl] at hv
      by_cases hc : rs ≤ c ∧ c ≤ re
      · simp only [hc, and_self, decide_true, mergeOpt, Option.some.injEq] at hv
        subst hv
        intro hnil
        have : t ∈ setUnion x [t] := (mem_setUnion _ _ _).mpr (Or.inr (by simp))
        rw [hnil] at this; cases this
      · simp only [hc, decide_false, mergeOpt, Option.some.injEq] at hv
        subst hv
        exact hold c _ hl
  · apply sedge_ranges_congr
    intro c b
    rw [ranges_lookup w c b, ranges_lookup hwf c b, lk c]
    cases hl : lookup (n.st s).ranges c with
    | none =>
      by_cases hc : rs ≤ c ∧ c ≤ re
      · simp only [hc, and_self, decide_true, mergeOpt, Option.some.injEq]
        constructor
        · rintro ⟨v, rfl, hb⟩
          exact Or.inr ⟨trivial, by simpa using hb⟩
        · rintro (⟨v, hv, _⟩ | ⟨_, hb⟩)
          · cases hv
          · exact ⟨_, rfl, by simp [hb]⟩
      · simp only [hc, decide_false, mergeOpt, false_and, or_false]
    | some x =>
      by_cases hc : rs ≤ c ∧ c ≤ re
      · simp only [hc, and_self, decide_true, mergeOpt, Option.some.injEq, true_and]
        constructor
        · rintro ⟨v, rfl, hb⟩
          rcases (mem_setUnion _ _ _).mp hb with hb | hb
          · exact Or.inl ⟨x, rfl, hb⟩
          · exact Or.inr (by simpa using hb)
        · rintro (⟨v, rfl, hb⟩ | hb)
          · exact ⟨_, rfl, (mem_setUnion _ _ _).mpr (Or.inl hb)⟩
          · exact ⟨_, rfl, (mem_setUnion _ _ _).mpr (Or.inr (by simp [hb]))⟩
      · simp only [hc, decide_false, mergeOpt, false_and, or_false]

theorem step_addRanges (n : NFA) (s : Nat) (m : RangeMap Unit) (t : Nat) (hs : s < n.length)
    (hm : RangeMap.WF m) (hv : (n.st s).ranges = []) :
    Step n (n.addRangeTransitions s m t) s
      (fun x => ∃ c, x = some (.ch c) ∧ (lookup m c).isSome = true) t := by
  unfold NFA.addRangeTransitions
  have hins : RangeMap.insertRanges setUnion (n.st s).ranges (RangeMap.mapVals (fun _ => [t]) m)
      = RangeMap.mapVals (fun _ => [t]) m := by
    rw [hv, insertRanges_nil_left]
  apply step_modify _ _ _ _ _ hs rfl _ _ id
  · rintro ⟨h1, _⟩
    refine ⟨h1, ?_⟩
    show ∀ r ∈ RangeMap.insertRanges setUnion (n.st s).ranges (RangeMap.mapVals (fun _ => [t]) m), r.2.2 ≠ []
    rw [hins]
    intro r hr
    unfold RangeMap.mapVals at hr
    obtain ⟨r0, _, rfl⟩ := List.mem_map.mp hr
    simp
  · apply sedge_ranges_congr
    intro c b
    rw [hins, mapVals_edge, hv]
    constructor
    · intro h; exact Or.inr h
    · rintro (⟨r, hr, _⟩ | h)
      · cases hr
      · exact h
  · intro _
    show RangeMap.WF (RangeMap.insertRanges setUnion (n.st s).ranges (RangeMap.mapVals (fun _ => [t]) m))
    rw [hins]
    exact wfFrom_mapVals _ _ _ hm


/-! ## Consequences of a `Step` -/

/-- every listed set of transition targets is non-empty (needed by the subset construction) -/
def TargetsNonempty (nfa : NFA) : Prop :=
  ∀ s, s < nfa.length → (∀ e ∈ (nfa.st s).chars, e.2 ≠ []) ∧ (∀ r ∈ (nfa.st s).ranges, r.2.2 ≠ [])

theorem Step.edges {n n' : NFA} {s t : Nat} {X : Option Sym → Prop} (h : Step n n' s X t)
    (a : Nat) (x : Option Sym) (b : Nat) :
    Edge n' a x b ↔ Edge n a x b ∨ (a = s ∧ X x ∧ b = t) := by
  unfold Edge
  by_cases ha : a = s
  · subst ha
    rw [h.edge]
    constructor
    · rintro (h1 | h1); exact Or.inl h1; exact Or.inr ⟨rfl, h1⟩
    · rintro (h1 | ⟨_, h1⟩); exact Or.inl h1; exact Or.inr h1
  · rw [h.other a ha]
    constructor
    · exact Or.inl
    · rintro (h1 | ⟨h1, _⟩); exact h1; exact absurd h1 ha

theorem edge_target_lt {n : NFA} (hwf : NFAWF n) {a b : Nat} {x : Option Sym} (h : Edge n a x b) :
    b < n.length := by
  have ha := edge_lt h
  apply hwf.targets a ha b
  cases x with
  | none => exact Or.inl h
  | some y =>
    cases y with
    | eoi => exact Or.inr (Or.inr (Or.inl h))
    | ch c =>
      rcases h with ⟨tg, h1, h2⟩ | ⟨r, h1, _, _, h2⟩ | h
      · exact Or.inr (Or.inr (Or.inr (Or.inl ⟨(c, tg), h1, h2⟩)))
      · exact Or.inr (Or.inr (Or.inr (Or.inr ⟨r, h1, h2⟩)))
      · exact Or.inr (Or.inl h)

theorem wf_of_edges {n : NFA} (h0 : 0 < n.length)
    (hr : ∀ s, s < n.length → RangeMap.WF (n.st s).ranges)
    (hc : ∀ s, s < n.length → ((n.st s).chars.map (·.1)).Nodup)
    (he : ∀ a x b, Edge n a x b → b < n.length) : NFAWF n := by
  refine ⟨h0, hr, hc, ?_⟩
  intro s hs t ht
  rcases ht with ht | ht | ht | ⟨e, he1, he2⟩ | ⟨r, hr1, hr2⟩
  · exact he s none t ht
  · exact he s (some (.ch 0)) t (Or.inr (Or.inr ht))
  · exact he s (some .eoi) t ht
  · exact he s (some (.ch e.1)) t (Or.inl ⟨e.2, he1, he2⟩)
  · exact he s (some (.ch r.1)) t (Or.inr (Or.inl ⟨r, hr1, Nat.le_refl _, wfFrom_le (hr s hs) r hr1, hr2⟩))

theorem Step.wf {n n' : NFA} {s t : Nat} {X : Option Sym → Prop} (h : Step n n' s X t)
    (hwf : NFAWF n) (ht : t < n.length) : NFAWF n' := by
  apply wf_of_edges
  · rw [h.len]; exact hwf.nonempty
  · intro a ha
    rw [h.len] at ha
    by_cases hs : a = s
    · subst hs; exact h.rwf (hwf.rangesWF a ha)
    · rw [h.other a hs]; exact hwf.rangesWF a ha
  · intro a ha
    rw [h.len] at ha
    by_cases hs : a = s
    · subst hs; exact h.cnd (hwf.charsNodup a ha)
    · rw [h.other a hs]; exact hwf.charsNodup a ha
  · intro a x b hab
    rw [h.len]
    rcases (h.edges a x b).mp hab with h1 | ⟨_, _, h1⟩
    · exact edge_target_lt hwf h1
    · omega

theorem Step.accAll {n n' : NFA} {s t : Nat} {X : Option Sym → Prop} (h : Step n n' s X t) (a : Nat) :
    (n'.st a).acc = (n.st a).acc := by
  by_cases hs : a = s
  · subst hs; exact h.acc
  · rw [h.other a hs]

theorem Step.tneAll {n n' : NFA} {s t : Nat} {X : Option Sym → Prop} (h : Step n n' s X t)
    (hne : TargetsNonempty n) : TargetsNonempty n' := by
  intro a ha
  rw [h.len] at ha
  by_cases hs : a = s
  · subst hs; exact h.tne (hne a ha)
  · rw [h.other a hs]; exact hne a ha

/-- nothing to add when the edges are already there -/
theorem Step.skip (n : NFA) (s t : Nat) (X : Option Sym → Prop) (h : ∀ x, X x → Edge n s x t) :
    Step n n s X t := by
  refine ⟨rfl, fun _ _ => rfl, rfl, ?_, id, id, id⟩
  intro x b
  constructor
  · exact Or.inl
  · rintro (h1 | ⟨h1, rfl⟩); exact h1; exact h x h1

theorem Step.trans {n n1 n2 : NFA} {s t : Nat} {X Y : Option Sym → Prop}
    (h1 : Step n n1 s X t) (h2 : Step n1 n2 s Y t) : Step n n2 s (fun x => X x ∨ Y x) t := by
  refine ⟨by rw [h2.len, h1.len], fun a ha => by rw [h2.other a ha, h1.other a ha],
    by rw [h2.acc, h1.acc], ?_, fun h => h2.rwf (h1.rwf h), fun h => h2.cnd (h1.cnd h),
    fun h => h2.tne (h1.tne h)⟩
  intro x b
  rw [h2.edge, h1.edge]
  constructor
  · rintro ((h | h) | h)
    · exact Or.inl h
    · exact Or.inr ⟨Or.inl h.1, h.2⟩
    · exact Or.inr ⟨Or.inr h.1, h.2⟩
  · rintro (h | ⟨h | h, hb⟩)
    · exact Or.inl (Or.inl h)
    · exact Or.inl (Or.inr ⟨h, hb⟩)
    · exact Or.inr ⟨h, hb⟩

theorem Step.congr {n n' : NFA} {s t : Nat} {X Y : Option Sym → Prop} (h : Step n n' s X t)
    (hxy : ∀ x, X x ↔ Y x) : Step n n' s Y t := by
  refine ⟨h.len, h.other, h.acc, ?_, h.rwf, h.cnd, h.tne⟩
  intro x b
  rw [h.edge, hxy]

end Thompson
end Lexgen
