import LexgenModel.Proofs.CapstoneRun
/-!
# The entry map of a compiled definition: distinct rule sets have distinct entry states

The fold of `lexer()` gives `Init` the entry 0 and every later rule set the first state of the block `add_dfa` appends:
the entries (before `simplify`) are pairwise distinct and below the length of the concatenated automaton.  Entry states
are initial, hence kept by `simplify`, and `newIdx` is injective on kept states.
-/
namespace Lexgen
namespace RunCongr
open Lexgen.Static Lexgen.CompileLang Lexgen.MachineOKCompile Lexgen.Simplify

/-- the entries recorded so far are pairwise distinct states of the automaton built so far -/
def EntInv (g : GlueState) : Prop :=
  (g.entries.map (·.2)).Nodup ∧
  match g.initDfa with
  | none => g.entries = []
  | some full => (g.entries.find? (·.1 = "Init")).isSome = true ∧ ∀ p ∈ g.entries, p.2 < full.length

theorem entInv_congr {g g' : GlueState} (h : EntInv g) (he : g'.entries = g.entries) (hd : g'.initDfa = g.initDfa) :
    EntInv g' := by
  unfold EntInv at h ⊢
  rw [he, hd]
  exact h

theorem compileRuleSet_pos (rs : List RuleOrBinding) (b : Bindings) (ctxs : List (DFA Nat))
    (q : DFA Nat × List (DFA Nat)) (h : compileRuleSet rs b ctxs = .ok q) : 0 < q.1.length := by
  obtain ⟨_, hi, _⟩ := compileRuleSet_glue rs b ctxs q.1 q.2 h
  exact st_initial_lt hi

theorem lexStep_entInv (g : GlueState) (item : TopItem) (g' : GlueState) (h : lexStep g item = .ok g')
    (hn : EntInv g) : EntInv g' := by
  cases item with
  | errorType =>
    rw [lexStep_errorType] at h
    by_cases he : g.errorType = true
    · rw [if_pos he] at h; cases h
    · rw [if_neg he] at h; cases h; exact entInv_congr hn rfl rfl
  | rb x =>
    cases x with
    | binding n re =>
      rw [lexStep_binding] at h
      by_cases hb : (g.bindings.find? n).isSome = true
      · rw [if_pos hb] at h; cases h
      · rw [if_neg hb] at h; cases h; exact entInv_congr hn rfl rfl
    | rule r =>
      rw [lexStep_rule] at h
      cases hc : compileSingleRule g.unnamed r g.bindings g.ctxs with
      | error e => rw [hc] at h; cases h
      | ok p => rw [hc] at h; cases h; exact entInv_congr hn rfl rfl
  | ruleSet name rules =>
    obtain ⟨p, hp, hfind, rfl⟩ := lexStep_ruleSet_ok g g' name rules h
    unfold lexRS at hp
    by_cases hname : name = "Init"
    · rw [if_pos hname] at hp
      obtain ⟨q, hq, hp⟩ := Thompson.bind_ok hp
      cases hp
      simp only at hfind ⊢
      -- nothing was recorded before `Init`
      have hnil : g.entries = [] := by
        unfold EntInv at hn
        cases hd : g.initDfa with
        | none => rw [hd] at hn; exact hn.2
        | some full =>
          rw [hd] at hn
          rw [hname, hn.2.1] at hfind
          cases hfind
      unfold EntInv
      simp only [hnil, List.nil_append, List.map_cons, List.map_nil]
      refine ⟨by simp, ?_, ?_⟩
      · simp [hname]
      · intro p hp
        rw [List.mem_singleton] at hp
        subst hp
        exact compileRuleSet_pos _ _ _ q hq
    · rw [if_neg hname] at hp
      cases hd : g.initDfa with
      | none => rw [hd] at hp; cases hp
      | some d0 =>
        rw [hd] at hp
        obtain ⟨q, hq, hp⟩ := Thompson.bind_ok hp
        cases hp
        unfold EntInv at hn
        rw [hd] at hn
        obtain ⟨hnd, hinit, hlt⟩ := hn
        have hq0 := compileRuleSet_pos _ _ _ q hq
        obtain ⟨h2, hlen, _, _⟩ := addDfa_spec d0 q.1
        unfold EntInv
        simp only
        refine ⟨?_, entries_append_isSome _ _ _ hinit, ?_⟩
        · rw [List.map_append, List.nodup_append]
          refine ⟨hnd, by simp, ?_⟩
          intro a ha b hb
          simp only [List.map_cons, List.map_nil, List.mem_singleton] at hb
          subst hb
          obtain ⟨p, hp, rfl⟩ := List.mem_map.mp ha
          have := hlt p hp
          rw [h2]
          omega
        · intro p hp
          rw [hlen]
          rcases List.mem_append.mp hp with hp | hp
          · have := hlt p hp
            omega
          · rw [List.mem_singleton] at hp
            subst hp
            show (addDfa d0 q.1).2 < _
            rw [h2]
            omega

theorem fold_entInv (items : LexerDef) (g g' : GlueState) (h : items.foldlM lexStep g = .ok g')
    (hn : EntInv g) : EntInv g' :=
  foldlM_inv lexStep EntInv items (fun g a g' _ hg hs => lexStep_entInv g a g' hs hg) g hn g' h

/-- `newIdx` is injective on kept states -/
theorem newIdx_inj (d : DFA Nat) (s s' : Nat) (hs : (d.st s).initial = true) (hs' : (d.st s').initial = true)
    (h : newIdx d s = newIdx d s') : s = s' := by
  have hk : ∀ t, (d.st t).initial = true → (emptyStates d).contains t = false := by
    intro t ht
    rw [contains_emptyStates]
    simp [isEmpty, ht]
  have h1 := kept_getElem? d s (st_initial_lt hs) (hk s hs)
  have h2 := kept_getElem? d s' (st_initial_lt hs') (hk s' hs')
  rw [h, h2] at h1
  exact (Option.some.inj h1).symm

/-- definitions with rule sets: distinct names have distinct entry states in the final machine -/
theorem entries_states_inj (items : LexerDef) (c : Compiled) (h : compileLexer items = .ok c)
    (hrs : hasRuleSets items = true) :
    ∀ n n' e, (n, e) ∈ c.entries → (n', e) ∈ c.entries → n = n' := by
  have HB : BlockHyp := fun rules nfa d hn hd ht hp => blockOK_of_rules rules nfa hn d hd ht hp
  have hall : allRuleSets items = scopedRuleSets items [] 0 := allRuleSets_named hrs
  rw [compileLexer_eq] at h
  by_cases hm : mixedRules items = true
  · rw [if_pos hm] at h; cases h
  · rw [if_neg hm] at h
    obtain ⟨g, hfold, hpost⟩ := Thompson.bind_ok h
    have hinv0 : MInv [] ({} : GlueState) :=
      ⟨⟨fun full hf => (by cases hf), fun full hf => (by cases hf), fun x hx => (by cases hx)⟩,
        fun p hp => (by cases hp), fun full hf => (by cases hf), fun _ full hf => (by cases hf)⟩
    have hinv := fold_minv HB items [] {} g hfold hinv0
    have hent0 : EntInv ({} : GlueState) := ⟨List.nodup_nil, rfl⟩
    have hent := fold_entInv items {} g hfold hent0
    rw [List.nil_append] at hinv
    have hbind : ({} : GlueState).bindings = [] := rfl
    have hctx : ({} : GlueState).ctxs.length = 0 := rfl
    rw [hbind, hctx, ← hall] at hinv
    obtain ⟨x0, hx0⟩ := scoped_nonempty items [] 0 hrs
    rw [← hall] at hx0
    obtain ⟨full0, hd, _⟩ := hinv.ginv.ok x0 hx0
    have hT0 := hinv.ginv.tir full0 hd
    obtain ⟨full, simp, entries, hu, h3, rfl⟩ := lexPost_ok g c hpost full0 hd
    obtain ⟨hA, hlen⟩ := updateBacktracks_agree full0 full hT0 hu
    have hT := targets_agree hT0 hA hlen
    obtain ⟨hentE, _, _⟩ := simplify_spec full g.entries simp entries h3 hT
    intro n n' e h1 h2
    have h1' : (n, e) ∈ entries := h1
    have h2' : (n', e) ∈ entries := h2
    rw [hentE] at h1' h2'
    obtain ⟨p1, hp1, hpe1⟩ := List.mem_map.mp h1'
    obtain ⟨p2, hp2, hpe2⟩ := List.mem_map.mp h2'
    simp only [Prod.mk.injEq] at hpe1 hpe2
    have hini : ∀ p ∈ g.entries, (full.st p.2).initial = true := by
      intro p hp
      obtain ⟨full0', hd', x, hx, hex⟩ := hinv.src p hp
      rw [hd] at hd'
      cases hd'
      exact (eok_mono hex hT0 hA).2.1
    have hs : p1.2 = p2.2 :=
      newIdx_inj full p1.2 p2.2 (hini p1 hp1) (hini p2 hp2) (hpe1.2.trans hpe2.2.symm)
    have hp : p1 = p2 := Subset.inj_of_nodup_map (fun p : String × Nat => p.2) hent.1 hp1 hp2 hs
    rw [← hpe1.1, ← hpe2.1, hp]

end RunCongr
end Lexgen
