import LexgenModel.Spec.Compile
import LexgenModel.Generated.TablesCheck
/-!
# Class-expression evaluation (`regex_to_range_map`) meets its specification

`regexToRangeMap e = .ok m` implies that `m` is a well-formed range map whose domain is exactly
`classDen e`; the built-in tables are well-formed because they are canonical (kernel-checked in
`Generated/TablesCheck.lean`).
-/

namespace Lexgen
namespace ClassEval
open RangeMap

/-! ## Domain of the merge functions -/

theorem isSome_mergeOpt {α : Type} (merge : α → α → α) (o : Option α) (b : Bool) (v : α) :
    (mergeOpt merge o b v).isSome = (o.isSome || b) := by
  cases o <;> cases b <;> rfl

theorem isSome_mergeOpt2 {α : Type} (merge : α → α → α) (a b : Option α) :
    (mergeOpt2 merge a b).isSome = (a.isSome || b.isSome) := by
  cases a <;> cases b <;> rfl

/-- `insert`, seen through the domain only -/
theorem insert_isSome (m : RangeMap Unit) (s e : Nat) (hwf : WF m) (hse : s ≤ e) :
    WF (RangeMap.insert unitMerge m s e ()) ∧
    ∀ x, (lookup (RangeMap.insert unitMerge m s e ()) x).isSome = true ↔
      ((lookup m x).isSome = true ∨ (s ≤ x ∧ x ≤ e)) := by
  have ⟨w, lk⟩ := insert_spec unitMerge m s e () hwf hse
  refine ⟨w, fun x => ?_⟩
  rw [lk x, isSome_mergeOpt]
  simp only [Bool.or_eq_true, decide_eq_true_eq]

theorem wf_nil : WF ([] : RangeMap Unit) := trivial

theorem lookup_nil_isSome (x : Nat) : ((lookup ([] : RangeMap Unit) x).isSome = true) ↔ False := by
  simp only [lookup, Option.isSome_none, Bool.false_eq_true]

/-! ## Sets -/

/-- denotation of one set item -/
def itemDen (it : CharOrRange) (x : Nat) : Prop :=
  match it with | .chr c => x = c | .rng s e => s ≤ x ∧ x ≤ e

/-- a set item is non-inverted -/
def itemOK (it : CharOrRange) : Prop :=
  match it with | .chr _ => True | .rng s e => s ≤ e

/-- the body of the loop over set items -/
def step (m : RangeMap Unit) (item : CharOrRange) : RangeMap Unit :=
  match item with
  | .chr c => RangeMap.insert unitMerge m c c ()
  | .rng s e => RangeMap.insert unitMerge m s e ()

theorem step_spec (m : RangeMap Unit) (it : CharOrRange) (hwf : WF m) (hok : itemOK it) :
    WF (step m it) ∧
    ∀ x, (lookup (step m it) x).isSome = true ↔ ((lookup m x).isSome = true ∨ itemDen it x) := by
  cases it with
  | chr c =>
    have ⟨w, lk⟩ := insert_isSome m c c hwf (Nat.le_refl _)
    refine ⟨w, fun x => ?_⟩
    simp only [step, itemDen]
    rw [lk x]
    constructor
    · rintro (h | h)
      · exact Or.inl h
      · exact Or.inr (by omega)
    · rintro (h | h)
      · exact Or.inl h
      · exact Or.inr (by omega)
  | rng s e =>
    have ⟨w, lk⟩ := insert_isSome m s e hwf hok
    exact ⟨w, fun x => lk x⟩

theorem foldl_spec (items : List CharOrRange) (acc : RangeMap Unit) (P : Nat → Prop)
    (hok : ∀ it ∈ items, itemOK it) (hwf : WF acc)
    (hacc : ∀ x, (lookup acc x).isSome = true ↔ P x) :
    WF (items.foldl step acc) ∧
    ∀ x, (lookup (items.foldl step acc) x).isSome = true ↔ (P x ∨ ∃ it ∈ items, itemDen it x) := by
  induction items generalizing acc P with
  | nil =>
    refine ⟨hwf, fun x => ?_⟩
    simp only [List.foldl]
    rw [hacc x]
    constructor
    · exact Or.inl
    · rintro (h | ⟨it, hm, _⟩)
      · exact h
      · cases hm
  | cons it rest ih =>
    have ⟨w, lk⟩ := step_spec acc it hwf (hok it List.mem_cons_self)
    have ⟨w', lk'⟩ := ih (step acc it) (fun x => P x ∨ itemDen it x)
      (fun i hi => hok i (List.mem_cons_of_mem _ hi)) w
      (fun x => by rw [lk x, hacc x])
    refine ⟨w', fun x => ?_⟩
    simp only [List.foldl]
    rw [lk' x]
    constructor
    · rintro ((h | h) | ⟨i, hi, hd⟩)
      · exact Or.inl h
      · exact Or.inr ⟨it, List.mem_cons_self, h⟩
      · exact Or.inr ⟨i, List.mem_cons_of_mem _ hi, hd⟩
    · rintro (h | ⟨i, hi, hd⟩)
      · exact Or.inl (Or.inl h)
      · rcases List.mem_cons.mp hi with rfl | hi'
        · exact Or.inl (Or.inr hd)
        · exact Or.inr ⟨i, hi', hd⟩

/-! ## Built-in tables -/

/-- `lookup` finds a range containing `x` iff there is one (no sortedness needed) -/
theorem lookup_builtinRangeMap (rs : List (Nat × Nat)) (x : Nat) :
    (lookup (builtinRangeMap rs) x).isSome = true ↔ ∃ p ∈ rs, p.1 ≤ x ∧ x ≤ p.2 := by
  induction rs with
  | nil =>
    simp only [builtinRangeMap, List.map, lookup, Option.isSome_none, Bool.false_eq_true, false_iff]
    rintro ⟨p, hp, _⟩
    cases hp
  | cons r rest ih =>
    obtain ⟨s, e⟩ := r
    have hun : builtinRangeMap ((s, e) :: rest) = (s, e, ()) :: builtinRangeMap rest := rfl
    rw [hun]
    simp only [lookup]
    by_cases hc : s ≤ x ∧ x ≤ e
    · rw [if_pos hc]
      simp only [Option.isSome_some, true_iff]
      exact ⟨(s, e), List.mem_cons_self, hc⟩
    · rw [if_neg hc, ih]
      constructor
      · rintro ⟨p, hp, hd⟩
        exact ⟨p, List.mem_cons_of_mem _ hp, hd⟩
      · rintro ⟨p, hp, hd⟩
        rcases List.mem_cons.mp hp with rfl | hp'
        · exact absurd hd hc
        · exact ⟨p, hp', hd⟩

theorem lt_nextScalar (e : Nat) : e < nextScalar e := by
  unfold nextScalar
  split <;> omega

theorem wfFrom_of_canonical (rs : List (Nat × Nat)) (lo : Nat) (h : canonicalRanges rs = true)
    (hlo : ∀ s e, rs.head? = some (s, e) → lo ≤ s) : WFFrom lo (builtinRangeMap rs) := by
  induction rs generalizing lo with
  | nil => trivial
  | cons r rest ih =>
    obtain ⟨s, e⟩ := r
    have hun : builtinRangeMap ((s, e) :: rest) = (s, e, ()) :: builtinRangeMap rest := rfl
    rw [hun]
    have hs : lo ≤ s := hlo s e rfl
    cases rest with
    | nil =>
      simp only [canonicalRanges, Bool.and_eq_true, decide_eq_true_eq] at h
      exact ⟨hs, h.1.2, trivial⟩
    | cons r2 rest2 =>
      obtain ⟨s2, e2⟩ := r2
      simp only [canonicalRanges, Bool.and_eq_true, decide_eq_true_eq] at h
      obtain ⟨⟨⟨_, hse⟩, hnext⟩, hrest⟩ := h
      refine ⟨hs, hse, ih (e + 1) hrest ?_⟩
      intro s' e' hh
      simp only [List.head?, Option.some.injEq, Prod.mk.injEq] at hh
      have := lt_nextScalar e
      omega

end ClassEval

open RangeMap ClassEval

/-- a canonical table is a well-formed range map -/
theorem wf_of_canonical (rs : List (Nat × Nat)) (h : canonicalRanges rs = true) :
    RangeMap.WF (builtinRangeMap rs) :=
  wfFrom_of_canonical rs 0 h (fun _ _ _ => Nat.zero_le _)

/-- the current built-in tables are well-formed (from the regenerated, kernel-checked obligation) -/
theorem builtinsWF : BuiltinsWF := by
  intro n rs h
  unfold builtinRanges at h
  cases hf : Generated.builtins.find? (fun e => e.1 = n) with
  | none => rw [hf] at h; cases h
  | some ent =>
    rw [hf] at h
    simp only [Option.map, Option.some.injEq] at h
    have hmem : ent ∈ Generated.builtins := List.mem_of_find?_eq_some hf
    have hall := List.all_eq_true.mp Generated.builtins_all_canonical ent hmem
    rw [← h]
    exact wf_of_canonical _ hall

/-- Evaluating a class expression yields a well-formed class denoting exactly `classDen`. -/
theorem regexToRangeMap_spec (hB : BuiltinsWF) (e : Regex) (m : RangeMap Unit)
    (h : regexToRangeMap e = .ok m) (hp : classPiecesOK e) :
    RangeMap.WF m ∧ ∀ x, (RangeMap.lookup m x).isSome = true ↔ classDen e x := by
  induction e generalizing m with
  | builtin n =>
    simp only [regexToRangeMap] at h
    cases hb : builtinRanges n with
    | none => rw [hb] at h; cases h
    | some rs =>
      rw [hb] at h
      simp only [Except.ok.injEq] at h
      subst h
      refine ⟨hB n rs hb, fun x => ?_⟩
      rw [lookup_builtinRangeMap]
      simp only [classDen]
      constructor
      · intro hx; exact ⟨rs, hb, hx⟩
      · rintro ⟨rs', hb', hx⟩
        rw [hb] at hb'
        cases hb'
        exact hx
  | var n => simp only [regexToRangeMap] at h; cases h
  | chr c =>
    simp only [regexToRangeMap, Except.ok.injEq] at h
    subst h
    have ⟨w, lk⟩ := insert_isSome [] c c wf_nil (Nat.le_refl _)
    refine ⟨w, fun x => ?_⟩
    rw [lk x, lookup_nil_isSome]
    simp only [classDen]
    constructor
    · rintro (h | h)
      · exact h.elim
      · omega
    · intro h; exact Or.inr (by omega)
  | str cs => simp only [regexToRangeMap] at h; cases h
  | set items =>
    simp only [regexToRangeMap, Except.ok.injEq] at h
    subst h
    have ⟨w, lk⟩ := foldl_spec items [] (fun _ => False) hp wf_nil lookup_nil_isSome
    refine ⟨w, fun x => ?_⟩
    have := lk x
    simp only [false_or] at this
    exact this
  | star r _ => simp only [regexToRangeMap] at h; cases h
  | plus r _ => simp only [regexToRangeMap] at h; cases h
  | opt r _ => simp only [regexToRangeMap] at h; cases h
  | cat a b _ _ => simp only [regexToRangeMap] at h; cases h
  | alt a b iha ihb =>
    simp only [regexToRangeMap] at h
    cases h1 : regexToRangeMap a with
    | error err => rw [h1] at h; cases h
    | ok m1 =>
      cases h2 : regexToRangeMap b with
      | error err => rw [h1, h2] at h; cases h
      | ok m2 =>
        rw [h1, h2] at h
        simp only [bind, Except.bind, pure, Except.pure, Except.ok.injEq] at h
        subst h
        have ⟨w1, l1⟩ := iha m1 h1 hp.1
        have ⟨w2, l2⟩ := ihb m2 h2 hp.2
        have ⟨w, lk⟩ := insertRanges_spec unitMerge m1 m2 0 w1 w2
        refine ⟨w, fun x => ?_⟩
        rw [lk x, isSome_mergeOpt2]
        simp only [Bool.or_eq_true, classDen]
        rw [l1 x, l2 x]
  | any =>
    simp only [regexToRangeMap, Except.ok.injEq] at h
    subst h
    have ⟨w, lk⟩ := insert_isSome [] 0 charMax wf_nil (Nat.zero_le _)
    refine ⟨w, fun x => ?_⟩
    rw [lk x, lookup_nil_isSome]
    simp only [classDen]
    constructor
    · rintro (h | h)
      · exact h.elim
      · exact h.2
    · intro h; exact Or.inr ⟨Nat.zero_le _, h⟩
  | eoi => simp only [regexToRangeMap] at h; cases h
  | diff a b iha ihb =>
    simp only [regexToRangeMap] at h
    cases h1 : regexToRangeMap a with
    | error err => rw [h1] at h; cases h
    | ok m1 =>
      cases h2 : regexToRangeMap b with
      | error err => rw [h1, h2] at h; cases h
      | ok m2 =>
        rw [h1, h2] at h
        simp only [bind, Except.bind, pure, Except.pure, Except.ok.injEq] at h
        subst h
        have ⟨w1, l1⟩ := iha m1 h1 hp.1
        have ⟨w2, l2⟩ := ihb m2 h2 hp.2
        have ⟨w, lk⟩ := removeRanges_spec m1 m2 0 0 w1 w2
        refine ⟨w, fun x => ?_⟩
        rw [lk x]
        simp only [classDen]
        rw [← l1 x, ← l2 x]
        by_cases hc : (lookup m2 x).isSome = true
        · rw [if_pos hc]
          simp only [Option.isSome_none, Bool.false_eq_true, false_iff]
          exact fun hh => hh.2 hc
        · rw [if_neg hc]
          exact ⟨fun hh => ⟨hh, hc⟩, fun hh => hh.1⟩

end Lexgen
