import LexgenModel.Proofs.SubsetSets
/-!
# Subset construction, part 2: NFA paths as alternating ε-closure / symbol steps
-/
set_option linter.unusedSimpArgs false
set_option linter.unusedVariables false
namespace Lexgen.Subset
open Lexgen

theorem npath_eps_prefix {n : NFA} {s t u : Nat} {w : List Sym} (h : EpsReach n s t)
    (hp : NPath n t w u) : NPath n s w u := by
  induction h with
  | refl => exact hp
  | step he _ ih => exact .eps he (ih hp)

theorem npath_nil_aux {n : NFA} {s u : Nat} {w : List Sym} (h : NPath n s w u) (hw : w = []) :
    EpsReach n s u := by
  induction h with
  | refl => exact .refl _
  | eps he _ ih => exact .step he (ih hw)
  | sym _ _ _ => cases hw

theorem npath_nil {n : NFA} {s u : Nat} : NPath n s [] u ↔ EpsReach n s u :=
  ⟨fun h => npath_nil_aux h rfl, fun h => npath_eps_prefix h (.refl u)⟩

theorem npath_cons_aux {n : NFA} {s u : Nat} {w' : List Sym} (h : NPath n s w' u) {x : Sym} {w : List Sym}
    (hw : w' = x :: w) : ∃ s' m, EpsReach n s s' ∧ NFA.stepSym n s' x m ∧ NPath n m w u := by
  induction h with
  | refl => cases hw
  | eps he _ ih =>
    obtain ⟨s', m, h1, h2, h3⟩ := ih hw
    exact ⟨s', m, .step he h1, h2, h3⟩
  | sym hs hp _ =>
    cases hw
    exact ⟨_, _, .refl _, hs, hp⟩

theorem npath_cons {n : NFA} {s u : Nat} {x : Sym} {w : List Sym} :
    NPath n s (x :: w) u ↔ ∃ s' m, EpsReach n s s' ∧ NFA.stepSym n s' x m ∧ NPath n m w u :=
  ⟨fun h => npath_cons_aux h rfl, fun ⟨_, _, h1, h2, h3⟩ => npath_eps_prefix h1 (.sym h2 h3)⟩

/-- one symbol step on a set of NFA states (given by its membership predicate), followed by
ε-closure -/
def StepP (n : NFA) (P : Nat → Prop) (x : Sym) (t : Nat) : Prop :=
  ∃ s, P s ∧ ∃ m, NFA.stepSym n s x m ∧ EpsReach n m t

/-- the set reached from `P` by reading `w` -/
def After (n : NFA) : (Nat → Prop) → List Sym → Nat → Prop
  | P, [] => P
  | P, x :: w => After n (StepP n P x) w

theorem stepP_closed (n : NFA) (P : Nat → Prop) (x : Sym) {s t : Nat} (hs : StepP n P x s)
    (hr : EpsReach n s t) : StepP n P x t := by
  obtain ⟨s0, h0, m, hm, hr'⟩ := hs
  exact ⟨s0, h0, m, hm, hr'.trans hr⟩

theorem after_iff_npath (n : NFA) (w : List Sym) :
    ∀ (P : Nat → Prop), (∀ s t, P s → EpsReach n s t → P t) →
      ∀ u, After n P w u ↔ ∃ s, P s ∧ NPath n s w u := by
  induction w with
  | nil =>
    intro P hP u
    simp only [After]
    constructor
    · intro h; exact ⟨u, h, .refl u⟩
    · rintro ⟨s, hs, hp⟩; exact hP s u hs (npath_nil.mp hp)
  | cons x w ih =>
    intro P hP u
    simp only [After]
    rw [ih (StepP n P x) (fun s t => stepP_closed n P x)]
    constructor
    · rintro ⟨t, ⟨s, hs, m, hm, hr⟩, hp⟩
      exact ⟨s, hs, .sym hm (npath_eps_prefix hr hp)⟩
    · rintro ⟨s, hs, hp⟩
      obtain ⟨s', m, h1, h2, h3⟩ := npath_cons.mp hp
      exact ⟨m, ⟨s', hP s s' hs h1, m, h2, .refl m⟩, h3⟩

theorem after_congr (n : NFA) (w : List Sym) :
    ∀ (P Q : Nat → Prop), (∀ u, P u ↔ Q u) → ∀ u, After n P w u ↔ After n Q w u := by
  induction w with
  | nil => intro P Q h u; exact h u
  | cons x w ih =>
    intro P Q h u
    simp only [After]
    apply ih
    intro t
    unfold StepP
    constructor
    · rintro ⟨s, hs, r⟩; exact ⟨s, (h s).mp hs, r⟩
    · rintro ⟨s, hs, r⟩; exact ⟨s, (h s).mpr hs, r⟩

/-- the NFA states reachable from state 0 by `w` -/
theorem after_start (n : NFA) (w : List Sym) (u : Nat) :
    After n (EpsReach n 0) w u ↔ NPath n 0 w u := by
  rw [after_iff_npath n w _ (fun s t h1 h2 => h1.trans h2)]
  constructor
  · rintro ⟨s, hs, hp⟩; exact npath_eps_prefix hs hp
  · intro h; exact ⟨0, .refl 0, h⟩

end Lexgen.Subset
