import LexgenModel.Exec.SpecRun
import LexgenModel.Proofs.RefMatch
/-!
# The executable reference lexer `specNext` takes `RefNext` steps

* `specNext_done`: a fused stream returns `None`.
* `specLoop_inv`: what one round of `specNext` does, with the `RefNext` premises about selection:
  `Selects` when an action is called (from `selectRef_some`), no `LangCand` at all when it reports
  end of stream or `InvalidToken` (from `selectRef_none`).
* `specCtxAt_numbering`: the right contexts `specNext` uses are numbered the way `CtxNumbering` asks.
* `errState_resume`: the state after an `InvalidToken` satisfies `ErrResume`.
* `specNext_sound`: every result of `specNext` is a `RefNext` step.
-/
namespace Lexgen
variable {σ τ ε : Type}

/-! ## (a) the fused stream -/

theorem specLoop_done (items : LexerDef) (cfg : Config σ τ ε) (ctxAt : Nat → Regex) (fuel : Nat) (st : LState σ)
    (h : st.done = true) : specLoop items cfg ctxAt fuel st = some (none, st) := by
  unfold specLoop
  simp [h]

theorem specNext_done (items : LexerDef) (cfg : Config σ τ ε) (fuel : Nat) (st : LState σ)
    (h : st.done = true) : specNext items cfg fuel st = some (none, st) := by
  unfold specNext
  exact specLoop_done items cfg _ fuel st h

theorem specNext_eq (items : LexerDef) (cfg : Config σ τ ε) (fuel : Nat) (st : LState σ) :
    specNext items cfg fuel st = specLoop items cfg (specCtxAt items) fuel st := rfl

/-! ## (b) one round: the selection step -/

/-- the round of `specLoop` when a match is selected: the action of the `Selects`-maximal match is called -/
theorem specLoop_selected (items : LexerDef) (cfg : Config σ τ ε) (ctxAt : Nat → Regex) (fuel : Nat) (st : LState σ)
    (e : String × List RuleOrBinding × Bindings × Nat) (rules : List CoreRule) (n a : Nat) (viaEoi : Bool)
    (hd : st.done = false) (ha : activeSet items cfg st.initial = some e)
    (hr : coreRules e.2.1 e.2.2.1 e.2.2.2 = some rules)
    (hsel : selectRef rules ctxAt st.iter = some (n, a, viaEoi)) :
    Selects rules ctxAt st.iter n a viaEoi ∧
    specLoop items cfg ctxAt (fuel + 1) st =
      match callAction cfg a (matchState cfg.width st n viaEoi 0) with
      | .ret item st' => some (item, st')
      | .cont st2 => specLoop items cfg ctxAt fuel st2 := by
  refine ⟨(selectRef_some rules ctxAt st.iter n a viaEoi).1 hsel, ?_⟩
  rw [specLoop]
  simp only [hd, Bool.false_eq_true, if_false, ha, hr, hsel]
  rfl

/-- the round of `specLoop` when nothing is selected: no rule matches at the language level, and the call
ends with end of stream or `InvalidToken` -/
theorem specLoop_unselected (items : LexerDef) (cfg : Config σ τ ε) (ctxAt : Nat → Regex) (fuel : Nat) (st : LState σ)
    (e : String × List RuleOrBinding × Bindings × Nat) (rules : List CoreRule)
    (hd : st.done = false) (ha : activeSet items cfg st.initial = some e)
    (hr : coreRules e.2.1 e.2.2.1 e.2.2.2 = some rules)
    (hsel : selectRef rules ctxAt st.iter = none) :
    (∀ n a v, ¬ LangCand rules ctxAt st.iter n a v) ∧
    specLoop items cfg ctxAt (fuel + 1) st =
      if st.iter = [] ∧ st.state = 0 then some (none, { st with done := true })
      else some (some (.invalid st.curStart), errState cfg.width (rules.map (·.re)) st) := by
  refine ⟨(selectRef_none rules ctxAt st.iter).1 hsel, ?_⟩
  rw [specLoop]
  simp only [hd, Bool.false_eq_true, if_false, ha, hr, hsel]

/-- Inversion of one round of `specLoop` on a stream that is not fused: the active rule set is a rule set of
the definition, and either the `Selects`-maximal match's action ran (`RefNext.ret`/`RefNext.cont`), or no
`LangCand` exists and the call ended with end of stream (`RefNext.eof`) or `InvalidToken`
(`RefNext.invalid`). -/
theorem specLoop_inv (items : LexerDef) (cfg : Config σ τ ε) (ctxAt : Nat → Regex) (fuel : Nat) (st : LState σ)
    (r : Option (Item τ ε) × LState σ) (hd : st.done = false)
    (h : specLoop items cfg ctxAt fuel st = some r) :
    ∃ fuel' e rules, fuel = fuel' + 1 ∧ activeSet items cfg st.initial = some e ∧
      coreRules e.2.1 e.2.2.1 e.2.2.2 = some rules ∧
      ((∃ n a viaEoi, Selects rules ctxAt st.iter n a viaEoi ∧
          (callAction cfg a (matchState cfg.width st n viaEoi 0) = .ret r.1 r.2 ∨
           ∃ st2, callAction cfg a (matchState cfg.width st n viaEoi 0) = .cont st2 ∧
             specLoop items cfg ctxAt fuel' st2 = some r)) ∨
       ((∀ n a v, ¬ LangCand rules ctxAt st.iter n a v) ∧
          ((st.iter = [] ∧ st.state = 0 ∧ r = (none, { st with done := true })) ∨
           (¬ (st.iter = [] ∧ st.state = 0) ∧
             r = (some (.invalid st.curStart), errState cfg.width (rules.map (·.re)) st))))) := by
  cases fuel with
  | zero =>
    rw [specLoop] at h
    simp [hd] at h
  | succ fuel' =>
    cases ha : activeSet items cfg st.initial with
    | none =>
      rw [specLoop] at h
      simp [hd, ha] at h
    | some e =>
      cases hr : coreRules e.2.1 e.2.2.1 e.2.2.2 with
      | none =>
        rw [specLoop] at h
        simp [hd, ha, hr] at h
      | some rules =>
        refine ⟨fuel', e, rules, rfl, rfl, hr, ?_⟩
        cases hsel : selectRef rules ctxAt st.iter with
        | some p =>
          obtain ⟨n, a, viaEoi⟩ := p
          obtain ⟨hS, heq⟩ := specLoop_selected items cfg ctxAt fuel' st e rules n a viaEoi hd ha hr hsel
          left
          refine ⟨n, a, viaEoi, hS, ?_⟩
          rw [heq] at h
          cases hc : callAction cfg a (matchState cfg.width st n viaEoi 0) with
          | ret item st' =>
            rw [hc] at h
            simp only [Option.some.injEq] at h
            subst h
            exact Or.inl rfl
          | cont st2 =>
            rw [hc] at h
            exact Or.inr ⟨st2, rfl, h⟩
        | none =>
          obtain ⟨hno, heq⟩ := specLoop_unselected items cfg ctxAt fuel' st e rules hd ha hr hsel
          right
          refine ⟨hno, ?_⟩
          rw [heq] at h
          by_cases hc : st.iter = [] ∧ st.state = 0
          · rw [if_pos hc] at h
            simp only [Option.some.injEq] at h
            exact Or.inl ⟨hc.1, hc.2, h.symm⟩
          · rw [if_neg hc] at h
            simp only [Option.some.injEq] at h
            exact Or.inr ⟨hc, h.symm⟩

/-! ## The active rule set -/

theorem activeSet_mem (items : LexerDef) (cfg : Config σ τ ε) (n : Nat)
    (e : String × List RuleOrBinding × Bindings × Nat) (h : activeSet items cfg n = some e) :
    e ∈ allRuleSets items := by
  unfold activeSet at h
  split at h
  · split at h
    · exact absurd h (by simp)
    · exact List.mem_of_find?_eq_some h
  · split at h
    · exact List.mem_of_mem_head? (by rw [h]; rfl)
    · exact absurd h (by simp)

/-- the number `n` is the one the generated `switch` stores for the entry of the rule set found -/
theorem activeSet_entry (items : LexerDef) (c : Compiled) (cfg : Config σ τ ε) (hent : cfg.entries = c.entries)
    (n : Nat) (e : String × List RuleOrBinding × Bindings × Nat) (h : activeSet items cfg n = some e) :
    ∃ en, IsEntryOf items c e.1 en ∧ n = renumber cfg.inl en := by
  unfold activeSet at h
  by_cases hrs : hasRuleSets items = true
  · rw [if_pos hrs] at h
    cases hf : (switchTable cfg.inl cfg.entries).find? (·.2 = n) with
    | none => rw [hf] at h; exact absurd h (by simp)
    | some e' =>
      rw [hf] at h
      have hp := List.find?_some hf
      have hm := List.mem_of_find?_eq_some hf
      have hname := List.find?_some h
      simp only [decide_eq_true_eq] at hp hname
      unfold switchTable at hm
      obtain ⟨en, hen, rfl⟩ := List.mem_map.1 hm
      refine ⟨en.2, ?_, hp.symm⟩
      unfold IsEntryOf
      rw [if_pos hrs, ← hent, hname]
      exact hen
  · rw [if_neg hrs] at h
    by_cases hn : n = 0
    · refine ⟨0, ?_, ?_⟩
      · unfold IsEntryOf
        rw [if_neg hrs]
      · subst hn
        simp [renumber]
    · rw [if_neg hn] at h
      exact absurd h (by simp)

/-! ## The right contexts are numbered as `CtxNumbering` asks -/

theorem coreCtxs_length (rs : List RuleOrBinding) (b : Bindings) (cres : List Regex)
    (h : coreCtxs rs b = some cres) : cres.length = ctxCount rs := by
  induction rs generalizing b cres with
  | nil =>
    simp only [coreCtxs, Option.some.injEq] at h
    subst h
    rfl
  | cons x rest ih =>
    cases x with
    | binding name re =>
      simp only [coreCtxs] at h
      have := ih _ _ h
      simpa [ctxCount] using this
    | rule r =>
      simp only [coreCtxs] at h
      cases hc : r.ctx with
      | none =>
        rw [hc] at h
        have := ih _ _ h
        simpa [ctxCount, hc] using this
      | some c =>
        rw [hc] at h
        simp only at h
        cases hi : inlineVars b (b.length + 1) c with
        | error _ => rw [hi] at h; exact absurd h (by simp)
        | ok c' =>
          rw [hi] at h
          simp only [Option.map_eq_some_iff] at h
          obtain ⟨l, hl, rfl⟩ := h
          have := ih _ _ hl
          simp only [ctxCount] at this ⊢
          simp [hc, this]

theorem scopedRuleSets_ge (items : LexerDef) (b : Bindings) (k : Nat)
    (e : String × List RuleOrBinding × Bindings × Nat) (h : e ∈ scopedRuleSets items b k) : k ≤ e.2.2.2 := by
  induction items generalizing b k with
  | nil => simp [scopedRuleSets] at h
  | cons x rest ih =>
    cases x with
    | errorType => exact ih _ _ (by simpa [scopedRuleSets] using h)
    | rb y =>
      cases y with
      | binding n re => exact ih _ _ (by simpa [scopedRuleSets] using h)
      | rule r =>
        have := ih _ _ (by simpa [scopedRuleSets] using h)
        omega
    | ruleSet name rs =>
      simp only [scopedRuleSets, List.mem_cons] at h
      rcases h with rfl | h
      · exact Nat.le_refl _
      · have := ih _ _ h
        omega

/-- the table entry of a rule set -/
def ctxEntry (e : String × List RuleOrBinding × Bindings × Nat) : Option (Nat × List Regex) :=
  (coreCtxs e.2.1 e.2.2.1).map fun cres => (e.2.2.2, cres)

theorem ctxAtTable_hit (k : Nat) (cres : List Regex) (rest : List (Nat × List Regex)) (j : Nat)
    (hj : j < cres.length) : ctxAtTable ((k, cres) :: rest) (k + j) = cres[j] := by
  unfold ctxAtTable
  rw [if_pos ⟨Nat.le_add_right _ _, by omega⟩, Nat.add_sub_cancel_left]
  simp [List.getD_eq_getElem?_getD, hj]

theorem ctxAtTable_skip (k : Nat) (cres : List Regex) (rest : List (Nat × List Regex)) (i : Nat)
    (hi : k + cres.length ≤ i) : ctxAtTable ((k, cres) :: rest) i = ctxAtTable rest i := by
  rw [ctxAtTable, if_neg (by omega)]

theorem scoped_numbering (items : LexerDef) (b : Bindings) (k0 : Nat)
    (e : String × List RuleOrBinding × Bindings × Nat) (he : e ∈ scopedRuleSets items b k0)
    (cres : List Regex) (hc : coreCtxs e.2.1 e.2.2.1 = some cres) (j : Nat) (hj : j < cres.length) :
    ctxAtTable ((scopedRuleSets items b k0).filterMap ctxEntry) (e.2.2.2 + j) = cres[j] := by
  induction items generalizing b k0 with
  | nil => simp [scopedRuleSets] at he
  | cons x rest ih =>
    cases x with
    | errorType =>
      simp only [scopedRuleSets] at he ⊢
      exact ih _ _ he
    | rb y =>
      cases y with
      | binding n re =>
        simp only [scopedRuleSets] at he ⊢
        exact ih _ _ he
      | rule r =>
        simp only [scopedRuleSets] at he ⊢
        exact ih _ _ he
    | ruleSet name rs =>
      simp only [scopedRuleSets, List.mem_cons] at he
      simp only [scopedRuleSets]
      rcases he with rfl | he
      · rw [List.filterMap_cons]
        simp only at hc
        simp only [ctxEntry, hc, Option.map_some]
        exact ctxAtTable_hit _ _ _ _ hj
      · have hge := scopedRuleSets_ge _ _ _ _ he
        rw [List.filterMap_cons]
        cases hh : ctxEntry (name, rs, b, k0) with
        | none => exact ih _ _ he
        | some p =>
          simp only
          unfold ctxEntry at hh
          simp only [Option.map_eq_some_iff] at hh
          obtain ⟨cres0, h0, rfl⟩ := hh
          have hl := coreCtxs_length _ _ _ h0
          rw [ctxAtTable_skip _ _ _ _ (by omega)]
          exact ih _ _ he

theorem specCtxAt_numbering (items : LexerDef) : CtxNumbering items (specCtxAt items) := by
  intro name rs b k hmem cres hc j hj
  unfold specCtxAt specCtxTable
  have hfm : (allRuleSets items).filterMap
      (fun e => (coreCtxs e.2.1 e.2.2.1).map fun cres => (e.2.2.2, cres)) =
      (allRuleSets items).filterMap ctxEntry := rfl
  rw [hfm]
  unfold allRuleSets at hmem ⊢
  by_cases hrs : hasRuleSets items = true
  · rw [if_pos hrs] at hmem ⊢
    exact scoped_numbering items [] 0 (name, rs, b, k) hmem cres hc j hj
  · rw [if_neg hrs] at hmem ⊢
    simp only [List.mem_singleton, Prod.mk.injEq] at hmem
    obtain ⟨rfl, rfl, rfl, rfl⟩ := hmem
    simp only [List.filterMap_cons, ctxEntry, hc, Option.map_some, List.filterMap_nil]
    exact ctxAtTable_hit _ _ _ _ hj

/-! ## The state after an `InvalidToken` -/

theorem errAdvance_progress (res : List Regex) (iter : List Nat) :
    0 < (errAdvance res iter).1 ∨ (errAdvance res iter).2 = true := by
  unfold errAdvance
  simp only
  by_cases hv : (viableRef res iter).1 = 0
  · by_cases hl : (viableRef res iter).1 < iter.length
    · left
      rw [hv] at hl
      simp [hv, hl]
    · right
      have : iter.length = 0 := by omega
      simp [hv, this]
  · left
    omega

theorem errAdvance_done (res : List Regex) (iter : List Nat) (h : (errAdvance res iter).2 = true) :
    iter.length ≤ (errAdvance res iter).1 := by
  unfold errAdvance at h ⊢
  simp only [Bool.and_eq_true, beq_iff_eq] at h
  simp only
  omega

theorem errState_resume (width : Nat → Nat) (res : List Regex) (st : LState σ) :
    ErrResume st (errState width res st) where
  state0 := ⟨rfl, rfl⟩
  emptyMatch := rfl
  noSaved := rfl
  user := rfl
  consumed := ⟨(errAdvance res st.iter).1, rfl, errAdvance_progress res st.iter⟩
  doneOnlyAtEnd := fun h => List.drop_eq_nil_of_le (errAdvance_done res st.iter h)

/-! ## Every result of `specNext` is a `RefNext` step -/

/-- the lexer state at the start of a lexeme as far as `RefNext` cares: nothing saved, `__state` is the
number of the active rule set -/
def AtStart (st : LState σ) : Prop := st.last = none ∧ st.state = st.initial

theorem callAction_cont_atStart (cfg : Config σ τ ε) (a : Nat) (st st2 : LState σ) (hl : st.last = none)
    (h : callAction cfg a st = .cont st2) : AtStart st2 := by
  unfold callAction at h
  simp only at h
  split at h
  · simp only [StepOut.cont.injEq] at h
    subst h
    refine ⟨?_, rfl⟩
    simp only
    split <;> split <;> simp_all
  · split at h <;> exact absurd h (by simp)

theorem callAction_ret_atStart (cfg : Config σ τ ε) (a : Nat) (st st' : LState σ) (item : Option (Item τ ε))
    (hl : st.last = none) (h : callAction cfg a st = .ret item st') : AtStart st' := by
  unfold callAction at h
  simp only at h
  split at h
  · exact absurd h (by simp)
  · split at h
    all_goals
      simp only [StepOut.ret.injEq] at h
      obtain ⟨_, rfl⟩ := h
      refine ⟨?_, rfl⟩
      simp only
      split <;> split <;> simp_all

theorem initState_atStart (user : σ) (chars : List Nat) : AtStart (initState user chars) := ⟨rfl, rfl⟩

theorem specLoop_sound (items : LexerDef) (c : Compiled) (cfg : Config σ τ ε) (hent : cfg.entries = c.entries)
    (ctxAt : Nat → Regex) (fuel : Nat) (st : LState σ) (hst : AtStart st)
    (r : Option (Item τ ε) × LState σ) (h : specLoop items cfg ctxAt fuel st = some r) :
    RefNext items c ctxAt cfg st r := by
  induction fuel generalizing st with
  | zero =>
    cases hd : st.done with
    | true =>
      rw [specLoop_done _ _ _ _ _ hd] at h
      simp only [Option.some.injEq] at h
      subst h
      exact RefNext.done st hd
    | false =>
      obtain ⟨fuel', _, _, hf, _⟩ := specLoop_inv items cfg ctxAt 0 st r hd h
      omega
  | succ fuel ih =>
    cases hd : st.done with
    | true =>
      rw [specLoop_done _ _ _ _ _ hd] at h
      simp only [Option.some.injEq] at h
      subst h
      exact RefNext.done st hd
    | false =>
      obtain ⟨fuel', e, rules, hf, ha, hr, hcase⟩ := specLoop_inv items cfg ctxAt (fuel + 1) st r hd h
      have hf' : fuel' = fuel := by omega
      subst hf'
      obtain ⟨name, rs, b, k⟩ := e
      have hmem := activeSet_mem items cfg _ _ ha
      obtain ⟨en, hen, hnum⟩ := activeSet_entry items c cfg hent _ _ ha
      have hact : ActiveIn items c cfg.inl st name := ⟨hst.1, hst.2, en, hen, by rw [hst.2]; exact hnum⟩
      simp only at hr
      rcases hcase with ⟨n, a, viaEoi, hS, hret | ⟨st2, hcont, hrec⟩⟩ | ⟨hno, ⟨hi, hs0, rfl⟩ | ⟨hne, rfl⟩⟩
      · obtain ⟨item, st'⟩ := r
        exact RefNext.ret st name rs b k rules n a viaEoi 0 item st' hd hmem hr hact hS hret
      · have hst2 : AtStart st2 := callAction_cont_atStart cfg a _ st2 rfl hcont
        exact RefNext.cont st name rs b k rules n a viaEoi 0 st2 r hd hmem hr hact hS hcont
          (ih st2 hst2 hrec)
      · exact RefNext.eof st name rs b k rules _ hd hmem hr hact hno hi hs0 rfl rfl
      · exact RefNext.invalid st name rs b k rules _ hd hmem hr hact hno hne (errState_resume _ _ _)

/-- Soundness of the executable reference lexer: run with the entries of the compiled machine `c` (only used
to number the rule sets) from a state at the start of a lexeme, every result of `specNext` is a step of the
reference lexer `RefNext` of the definition, for the right contexts `specCtxAt items`, which are numbered as
`CtxNumbering` asks (`specCtxAt_numbering`). -/
theorem specNext_sound (items : LexerDef) (c : Compiled) (cfg : Config σ τ ε) (hent : cfg.entries = c.entries)
    (fuel : Nat) (st : LState σ) (hst : AtStart st)
    (r : Option (Item τ ε) × LState σ) (h : specNext items cfg fuel st = some r) :
    RefNext items c (specCtxAt items) cfg st r :=
  specLoop_sound items c cfg hent (specCtxAt items) fuel st hst r h

/-- the states `specNext` returns are again at the start of a lexeme, so the soundness theorem applies to
every call of a run -/
theorem specLoop_atStart (items : LexerDef) (cfg : Config σ τ ε) (ctxAt : Nat → Regex) (fuel : Nat) (st : LState σ)
    (hst : AtStart st) (r : Option (Item τ ε) × LState σ) (h : specLoop items cfg ctxAt fuel st = some r) :
    AtStart r.2 := by
  induction fuel generalizing st with
  | zero =>
    cases hd : st.done with
    | true =>
      rw [specLoop_done _ _ _ _ _ hd] at h
      simp only [Option.some.injEq] at h
      subst h
      exact hst
    | false =>
      obtain ⟨fuel', _, _, hf, _⟩ := specLoop_inv items cfg ctxAt 0 st r hd h
      omega
  | succ fuel ih =>
    cases hd : st.done with
    | true =>
      rw [specLoop_done _ _ _ _ _ hd] at h
      simp only [Option.some.injEq] at h
      subst h
      exact hst
    | false =>
      obtain ⟨fuel', e, rules, hf, ha, hr, hcase⟩ := specLoop_inv items cfg ctxAt (fuel + 1) st r hd h
      have hf' : fuel' = fuel := by omega
      subst hf'
      rcases hcase with ⟨n, a, viaEoi, hS, hret | ⟨st2, hcont, hrec⟩⟩ | ⟨hno, ⟨hi, hs0, rfl⟩ | ⟨hne, rfl⟩⟩
      · exact callAction_ret_atStart cfg a _ _ _ rfl hret
      · exact ih st2 (callAction_cont_atStart cfg a _ st2 rfl hcont) hrec
      · exact hst
      · exact ⟨rfl, rfl⟩

end Lexgen
