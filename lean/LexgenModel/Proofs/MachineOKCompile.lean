import LexgenModel.Spec.WellFormed
import LexgenModel.Proofs.CompileLang
import LexgenModel.Proofs.Backtrack
import LexgenModel.Proofs.CheckerSound
/-!
# The machine `lexer()` produces is well-formed (`MachineOK`) for every well-formed definition

* `FullOK`: the structure of the concatenated (unsimplified) DFA that survives `add_dfa` and
  `update_backtracks`, obtained block by block from `BlockOK`.
* `machineOK_of_full`: `simplify` turns a `FullOK` automaton with closed flags and non-accepting
  initial entry states into a `MachineOK` machine.
* `MInv`: the strengthened invariant of the fold of `lexer()` (on top of `CompileLang.GInv`).
-/

set_option linter.unusedSimpArgs false
set_option linter.unusedVariables false
namespace Lexgen
namespace MachineOKCompile
open Lexgen.Subset Lexgen.Simplify Lexgen.Static Lexgen.CompileLang

/-! ## The structure of the concatenated automaton -/

/-- what the run-time well-formedness needs from the unsimplified automaton: every clause is local
to a block and invariant under the index shift of `add_dfa` -/
structure FullOK (d : DFA Nat) : Prop where
  targets : TargetsInRange d
  /-- no transition leads to an initial state -/
  noIntoInit : ∀ s, s < d.length → ∀ t ∈ DFA.succs (d.st s), (d.st t).initial = false
  eoiInert : ∀ s t, s < d.length → (d.st s).eoi = some t → DFA.hasNoTransitions (d.st t) = true
  anyClause : ∀ s a, s < d.length → (d.st s).any = some a →
    ∀ t, (t ∈ (d.st s).chars.map (·.2) ∨ t ∈ (d.st s).ranges.map (·.2.2)) →
      DFA.hasNoTransitions (d.st t) = true →
      DFA.hasNoTransitions (d.st a) = true ∧ isSublist (d.st a).accepting (d.st t).accepting = true

theorem chars_mem_succs {τ : Type} {s : DState τ} {t : τ} (h : t ∈ s.chars.map (·.2)) : t ∈ DFA.succs s := by
  unfold DFA.succs
  simp only [List.mem_append]
  exact Or.inl (Or.inl (Or.inl h))

theorem ranges_mem_succs {τ : Type} {s : DState τ} {t : τ} (h : t ∈ s.ranges.map (·.2.2)) : t ∈ DFA.succs s := by
  unfold DFA.succs
  simp only [List.mem_append]
  exact Or.inl (Or.inl (Or.inr h))

theorem any_mem_succs {τ : Type} {s : DState τ} {t : τ} (h : s.any = some t) : t ∈ DFA.succs s := by
  simp [DFA.succs, h]

theorem eoi_mem_succs' {τ : Type} {s : DState τ} {t : τ} (h : s.eoi = some t) : t ∈ DFA.succs s := by
  unfold DFA.succs
  rw [h]
  exact List.mem_append_right _ (List.mem_singleton.mpr rfl)

theorem fullOK_of_block {d : DFA Nat} (h : BlockOK d) : FullOK d := by
  refine ⟨h.targets, ?_, h.eoiInert, h.anyClause⟩
  intro s hs t ht
  cases hi : (d.st t).initial with
  | false => rfl
  | true =>
    have := h.initOnly0 t hi
    subst this
    exact absurd ht (h.noInto0 s hs)

theorem hasNoTrans_teq {s s' : DState Nat} (h : TEq s s') :
    DFA.hasNoTransitions s = DFA.hasNoTransitions s' := by
  unfold DFA.hasNoTransitions
  rw [h.chars, h.ranges, h.any, h.eoi]

theorem fullOK_agree {d d' : DFA Nat} (hF : FullOK d) (hA : Agree d d') (hl : d'.length = d.length) :
    FullOK d' := by
  refine ⟨targets_agree hF.targets hA hl, ?_, ?_, ?_⟩
  · intro s hs t ht
    rw [hl] at hs
    rw [succs_teq (hA s hs).1] at ht
    have htl := hF.targets s hs t ht
    rw [(hA t htl).2]
    exact hF.noIntoInit s hs t ht
  · intro s t hs he
    rw [hl] at hs
    rw [(hA s hs).1.eoi] at he
    have htl := hF.targets s hs t (eoi_mem_succs' he)
    rw [hasNoTrans_teq (hA t htl).1]
    exact hF.eoiInert s t hs he
  · intro s a hs ha t ht hn
    rw [hl] at hs
    rw [(hA s hs).1.any] at ha
    rw [(hA s hs).1.chars, (hA s hs).1.ranges] at ht
    have hal := hF.targets s hs a (any_mem_succs ha)
    have htl : t < d.length := by
      rcases ht with ht | ht
      · exact hF.targets s hs t (chars_mem_succs ht)
      · exact hF.targets s hs t (ranges_mem_succs ht)
    rw [hasNoTrans_teq (hA t htl).1] at hn
    rw [hasNoTrans_teq (hA a hal).1, (hA a hal).1.acc, (hA t htl).1.acc]
    exact hF.anyClause s a hs ha t ht hn

/-! ## `add_dfa` -/

theorem hasNoTrans_shift (k : Nat) (s : DState Nat) :
    DFA.hasNoTransitions (shiftState k s) = DFA.hasNoTransitions s := by
  obtain ⟨ini, chars, ranges, any, eoi, acc, preds, bt⟩ := s
  unfold DFA.hasNoTransitions shiftState RangeMap.mapVals
  cases chars <;> cases ranges <;> cases any <;> cases eoi <;> rfl

theorem shift_chars_tgts (k : Nat) (s : DState Nat) :
    (shiftState k s).chars.map (·.2) = (s.chars.map (·.2)).map (· + k) := by
  unfold shiftState
  simp only [List.map_map]
  rfl

theorem shift_ranges_tgts (k : Nat) (s : DState Nat) :
    (shiftState k s).ranges.map (·.2.2) = (s.ranges.map (·.2.2)).map (· + k) := by
  unfold shiftState RangeMap.mapVals
  simp only [List.map_map]
  rfl

theorem fullOK_addDfa (d0 dR : DFA Nat) (h0 : FullOK d0) (hR : FullOK dR) : FullOK (addDfa d0 dR).1 := by
  obtain ⟨_, hlen, hL, hS⟩ := addDfa_spec d0 dR
  refine ⟨addDfa_targets d0 dR h0.targets hR.targets, ?_, ?_, ?_⟩
  · intro s hs t ht
    rw [hlen] at hs
    by_cases h : s < d0.length
    · rw [hL s h] at ht
      have htl := h0.targets s h t ht
      rw [hL t htl]
      exact h0.noIntoInit s h t ht
    · have hs' : s - d0.length < dR.length := by omega
      have e : s = d0.length + (s - d0.length) := by omega
      rw [e, hS _ hs', succs_shift] at ht
      obtain ⟨u, hu, rfl⟩ := List.mem_map.mp ht
      have hul := hR.targets _ hs' u hu
      show ((addDfa d0 dR).1.st (u + d0.length)).initial = false
      rw [Nat.add_comm u d0.length, hS u hul]
      exact hR.noIntoInit _ hs' u hu
  · intro s t hs he
    rw [hlen] at hs
    by_cases h : s < d0.length
    · rw [hL s h] at he
      have htl := h0.targets s h t (eoi_mem_succs' he)
      rw [hL t htl]
      exact h0.eoiInert s t h he
    · have hs' : s - d0.length < dR.length := by omega
      have e : s = d0.length + (s - d0.length) := by omega
      rw [e, hS _ hs'] at he
      have he' : (dR.st (s - d0.length)).eoi.map (· + d0.length) = some t := he
      cases hx : (dR.st (s - d0.length)).eoi with
      | none => rw [hx] at he'; cases he'
      | some u =>
        rw [hx] at he'
        cases he'
        have hul := hR.targets _ hs' u (eoi_mem_succs' hx)
        show DFA.hasNoTransitions ((addDfa d0 dR).1.st (u + d0.length)) = true
        rw [Nat.add_comm u d0.length, hS u hul, hasNoTrans_shift]
        exact hR.eoiInert _ u hs' hx
  · intro s a hs ha t ht hn
    rw [hlen] at hs
    by_cases h : s < d0.length
    · rw [hL s h] at ha ht
      have hal := h0.targets s h a (any_mem_succs ha)
      have htl : t < d0.length := by
        rcases ht with ht | ht
        · exact h0.targets s h t (chars_mem_succs ht)
        · exact h0.targets s h t (ranges_mem_succs ht)
      rw [hL t htl] at hn
      rw [hL a hal, hL t htl]
      exact h0.anyClause s a h ha t ht hn
    · have hs' : s - d0.length < dR.length := by omega
      have e : s = d0.length + (s - d0.length) := by omega
      rw [e, hS _ hs'] at ha ht
      have ha' : (dR.st (s - d0.length)).any.map (· + d0.length) = some a := ha
      rw [shift_chars_tgts, shift_ranges_tgts] at ht
      cases hx : (dR.st (s - d0.length)).any with
      | none => rw [hx] at ha'; cases ha'
      | some a0 =>
        rw [hx] at ha'
        cases ha'
        have hal := hR.targets _ hs' a0 (any_mem_succs hx)
        have : ∃ u, (u ∈ (dR.st (s - d0.length)).chars.map (·.2) ∨ u ∈ (dR.st (s - d0.length)).ranges.map (·.2.2)) ∧
            t = u + d0.length := by
          rcases ht with ht | ht
          · obtain ⟨u, hu, rfl⟩ := List.mem_map.mp ht
            exact ⟨u, Or.inl hu, rfl⟩
          · obtain ⟨u, hu, rfl⟩ := List.mem_map.mp ht
            exact ⟨u, Or.inr hu, rfl⟩
        obtain ⟨u, hu, rfl⟩ := this
        have hul : u < dR.length := by
          rcases hu with hu | hu
          · exact hR.targets _ hs' u (chars_mem_succs hu)
          · exact hR.targets _ hs' u (ranges_mem_succs hu)
        rw [Nat.add_comm u d0.length, hS u hul, hasNoTrans_shift] at hn
        show DFA.hasNoTransitions ((addDfa d0 dR).1.st (a0 + d0.length)) = true ∧
          isSublist ((addDfa d0 dR).1.st (a0 + d0.length)).accepting ((addDfa d0 dR).1.st (u + d0.length)).accepting = true
        rw [Nat.add_comm u d0.length, Nat.add_comm a0 d0.length, hS u hul, hS a0 hal, hasNoTrans_shift]
        exact hR.anyClause _ a0 hs' hx u hu hn

/-! ## `simplify` -/

theorem mapTransition_goto {d : DFA Nat} {E : List Nat} {u t : Nat} (h : mapTransition d E u = .goto t) :
    E.contains u = false ∧ t = u - removedBelow E u := by
  unfold mapTransition at h
  by_cases hc : E.contains u = true
  · rw [if_pos hc] at h; cases h
  · rw [if_neg hc] at h
    cases h
    exact ⟨by simpa using hc, rfl⟩

theorem mapTransition_accept {d : DFA Nat} {E : List Nat} {u : Nat} {accs : List Acc}
    (h : mapTransition d E u = .accept accs) : E.contains u = true ∧ accs = (d.st u).accepting := by
  unfold mapTransition at h
  by_cases hc : E.contains u = true
  · rw [if_pos hc] at h
    cases h
    exact ⟨hc, rfl⟩
  · rw [if_neg hc] at h; cases h

theorem mapTransition_removed {d : DFA Nat} {E : List Nat} {u : Nat} (h : E.contains u = true) :
    mapTransition d E u = .accept (d.st u).accepting := by
  unfold mapTransition
  rw [if_pos h]

theorem mem_empties {d : DFA Nat} {u : Nat} (hu : u < d.length) (hn : DFA.hasNoTransitions (d.st u) = true)
    (hi : (d.st u).initial = false) : (emptyStates d).contains u = true := by
  rw [contains_emptyStates]
  simp [Simplify.isEmpty, hu, hn, hi]

/-- every state of the simplified automaton is the image of a kept state -/
theorem elem_of_simplified (d : DFA Nat) (entries : List (String × Nat)) (d' : DFA Trans)
    (entries' : List (String × Nat)) (h : simplify d entries = .ok (d', entries')) (y : DState Trans) (hy : y ∈ d') :
    ∃ x, x < d.length ∧ (emptyStates d).contains x = false ∧
      simplifyState d (emptyStates d) (d.st x) = .ok y := by
  obtain ⟨hm, _⟩ := simplify_ok d entries d' entries' h
  obtain ⟨hlen, hget⟩ := mapM_ok _ _ _ hm
  obtain ⟨i, hi, rfl⟩ := List.getElem_of_mem hy
  have hi' : i < (kept d).length := by rw [← hlen]; exact hi
  obtain ⟨y', hy1, hy2⟩ := hget i ((kept d)[i]) (List.getElem?_eq_getElem hi')
  rw [List.getElem?_eq_getElem hi] at hy1
  cases hy1
  have hmem : (kept d)[i] ∈ kept d := List.getElem_mem hi'
  unfold kept at hmem
  rw [List.mem_filter, List.mem_range] at hmem
  exact ⟨_, hmem.1, by simpa using hmem.2, hy2⟩

theorem st_mem_or_empty {τ : Type} (d : DFA τ) (s : Nat) : (s < d.length ∧ d.st s ∈ d) ∨ d.st s = DState.empty := by
  by_cases hs : s < d.length
  · left
    refine ⟨hs, ?_⟩
    simp only [DFA.st, List.getD]
    rw [List.getElem?_eq_getElem hs]
    exact List.getElem_mem hs
  · right
    simp only [DFA.st, List.getD]
    rw [List.getElem?_eq_none (Nat.le_of_not_lt hs)]
    rfl

theorem succs_simplified {d : DFA Nat} {E : List Nat} {x : DState Nat} {y : DState Trans}
    (h : simplifyState d E x = .ok y) : DFA.succs y = (DFA.succs x).map (mapTransition d E) := by
  obtain ⟨_, h2, h3, h4, h5, _, _⟩ := simplifyState_ok _ _ _ _ h
  unfold DFA.succs
  rw [h2, h3, h4, h5]
  unfold RangeMap.mapVals
  simp only [List.map_append, List.map_map]
  cases x.any <;> cases x.eoi <;> rfl

theorem chars_simplified {d : DFA Nat} {E : List Nat} {x : DState Nat} {y : DState Trans}
    (h : simplifyState d E x = .ok y) :
    y.chars.map (·.2) ++ y.ranges.map (·.2.2) =
      (x.chars.map (·.2) ++ x.ranges.map (·.2.2)).map (mapTransition d E) := by
  obtain ⟨_, h2, h3, _, _, _, _⟩ := simplifyState_ok _ _ _ _ h
  rw [h2, h3]
  unfold RangeMap.mapVals
  simp only [List.map_append, List.map_map]
  rfl

theorem gotoSuccs_simplified {d : DFA Nat} {E : List Nat} {x : DState Nat} {y : DState Trans}
    (h : simplifyState d E x = .ok y) {t : Nat} (ht : t ∈ gotoSuccs y) :
    ∃ u, u ∈ DFA.succs x ∧ E.contains u = false ∧ t = u - removedBelow E u := by
  unfold gotoSuccs at ht
  rw [succs_simplified h, List.mem_filterMap] at ht
  obtain ⟨tr, htr, hg⟩ := ht
  obtain ⟨u, hu, rfl⟩ := List.mem_map.mp htr
  cases hm : mapTransition d E u with
  | accept accs => rw [hm] at hg; cases hg
  | goto t' =>
    rw [hm] at hg
    cases hg
    obtain ⟨h1, h2⟩ := mapTransition_goto hm
    exact ⟨u, hu, h1, h2⟩

theorem newIdx_zero (d : DFA Nat) : newIdx d 0 = 0 := by
  unfold newIdx
  omega

variable {σ τ ε : Type}

/-- `simplify` turns a `FullOK` automaton whose flags are closed and whose state 0 and entries are
initial and non-accepting into a well-formed machine -/
theorem machineOK_of_full (d : DFA Nat) (entries0 : List (String × Nat)) (d' : DFA Trans)
    (entries' : List (String × Nat)) (hs : simplify d entries0 = .ok (d', entries')) (hF : FullOK d)
    (hcl : ∀ s, s < d.length → ∀ t ∈ DFA.succs (d.st s),
      ((d.st s).backtrack || !(d.st s).accepting.isEmpty) = true → (d.st t).backtrack = true)
    (h0 : (d.st 0).initial = true ∧ (d.st 0).accepting = [])
    (hent : ∀ p ∈ entries0, (d.st p.2).initial = true ∧ (d.st p.2).accepting = [])
    (ctxs : List (DFA Nat)) (actions : Nat → Action σ τ ε) (width : Nat → Nat) (input : Option (List Nat)) :
    MachineOK { dfa := d', ctxs := ctxs, entries := entries', inl := inlinedStates d', actions := actions, width := width, input := input } := by
  have hT := hF.targets
  obtain ⟨hent', _, hS⟩ := simplify_spec d entries0 d' entries' hs hT
  have hinit : ∀ e, (d.st e).initial = true → (d.st e).accepting = [] →
      newIdx d e < d'.length ∧ (d'.st (newIdx d e)).initial = true ∧ (d'.st (newIdx d e)).accepting = [] := by
    intro e hi ha
    obtain ⟨h1, h2, h3, _⟩ := hS e (st_initial_lt hi) (not_removed_of_initial hi)
    exact ⟨h1, h3.trans hi, h2.trans ha⟩
  refine
    { flags := ?_
      acceptAny := ?_
      targets := ?_
      inl := inlOK_inlinedStates d'
      state0 := ?_
      entries := ?_
      eoiAccept := ?_ }
  · -- flags
    show flagsClosed d' = true
    unfold flagsClosed
    rw [List.all_eq_true]
    intro y hy
    rw [decide_eq_true_eq]
    intro hb
    rw [List.all_eq_true]
    intro t ht
    obtain ⟨x, hx, hk, hst⟩ := elem_of_simplified d entries0 d' entries' hs y hy
    obtain ⟨_, _, _, _, _, h6, h7⟩ := simplifyState_ok _ _ _ _ hst
    obtain ⟨u, hu, hkU, rfl⟩ := gotoSuccs_simplified hst ht
    have hul := hT x hx u hu
    obtain ⟨_, _, _, hbt, _⟩ := hS u hul hkU
    show (d'.st (newIdx d u)).backtrack = true
    rw [hbt]
    apply hcl x hx u hu
    rw [← h6, ← h7]
    exact hb
  · -- acceptAny
    show acceptAnyClause d' = true
    unfold acceptAnyClause
    rw [List.all_eq_true]
    intro y hy
    obtain ⟨x, hx, hk, hst⟩ := elem_of_simplified d entries0 d' entries' hs y hy
    obtain ⟨_, _, _, h4, _, _, _⟩ := simplifyState_ok _ _ _ _ hst
    cases hya : y.any with
    | none => rfl
    | some anyT =>
      show (List.all (y.chars.map (·.2) ++ y.ranges.map (·.2.2)) _) = true
      rw [List.all_eq_true]
      intro tr htr
      rw [chars_simplified hst] at htr
      obtain ⟨u, hu, rfl⟩ := List.mem_map.mp htr
      rw [hya] at h4
      cases hxa : (d.st x).any with
      | none => rw [hxa] at h4; cases h4
      | some a =>
        rw [hxa] at h4
        have h4' : anyT = mapTransition d (emptyStates d) a := Option.some.inj h4
        subst h4'
        cases hm : mapTransition d (emptyStates d) u with
        | goto t => rfl
        | accept accs =>
          obtain ⟨hcu, rfl⟩ := mapTransition_accept hm
          have hu' : u ∈ (d.st x).chars.map (·.2) ∨ u ∈ (d.st x).ranges.map (·.2.2) := List.mem_append.mp hu
          have hnu : DFA.hasNoTransitions (d.st u) = true := by
            rw [contains_emptyStates] at hcu
            simp only [Bool.and_eq_true, Simplify.isEmpty] at hcu
            exact hcu.2.1
          obtain ⟨hna, hsub⟩ := hF.anyClause x a hx hxa u hu' hnu
          have hal := hT x hx a (any_mem_succs hxa)
          have hca := mem_empties hal hna (hF.noIntoInit x hx a (any_mem_succs hxa))
          rw [mapTransition_removed hca]
          exact hsub
  · -- targets
    show targetsOK d' = true
    unfold targetsOK
    rw [List.all_eq_true]
    intro y hy
    rw [List.all_eq_true]
    intro t ht
    obtain ⟨x, hx, hk, hst⟩ := elem_of_simplified d entries0 d' entries' hs y hy
    obtain ⟨u, hu, hkU, rfl⟩ := gotoSuccs_simplified hst ht
    have hul := hT x hx u hu
    obtain ⟨h1, _, h3, _⟩ := hS u hul hkU
    have h1' : u - removedBelow (emptyStates d) u < d'.length := h1
    have h3' : (d'.st (u - removedBelow (emptyStates d) u)).initial = (d.st u).initial := h3
    rw [h3', hF.noIntoInit x hx u hu]
    simp [h1']
  · -- state 0
    have := hinit 0 h0.1 h0.2
    rw [newIdx_zero] at this
    exact this
  · -- entries
    intro p hp
    show p.2 < d'.length ∧ (d'.st p.2).initial = true ∧ (d'.st p.2).accepting = []
    have hp' : p ∈ entries' := hp
    rw [hent'] at hp'
    obtain ⟨q, hq, rfl⟩ := List.mem_map.mp hp'
    exact hinit q.2 (hent q hq).1 (hent q hq).2
  · -- eoiAccept
    intro s t hst
    have hst' : (d'.st s).eoi = some (.goto t) := hst
    rcases st_mem_or_empty d' s with ⟨_, hy⟩ | he
    · obtain ⟨x, hx, hk, hstx⟩ := elem_of_simplified d entries0 d' entries' hs _ hy
      obtain ⟨_, _, _, _, h5, _, _⟩ := simplifyState_ok _ _ _ _ hstx
      rw [h5] at hst'
      cases hxe : (d.st x).eoi with
      | none => rw [hxe] at hst'; cases hst'
      | some u =>
        rw [hxe] at hst'
        have hul := hT x hx u (eoi_mem_succs' hxe)
        have hcu := mem_empties hul (hF.eoiInert x u hx hxe) (hF.noIntoInit x hx u (eoi_mem_succs' hxe))
        have : mapTransition d (emptyStates d) u = .goto t := Option.some.inj hst'
        rw [mapTransition_removed hcu] at this
        cases this
    · rw [he] at hst'
      cases hst'

/-! ## The strengthened invariant of the fold of `lexer()` -/

/-- the hypothesis on the blocks `nfaToDfa` builds (proved elsewhere) -/
def BlockHyp : Prop :=
  ∀ (rules : List CoreRule) (nfa : NFA) (d : DFA Nat), buildNfa rules = .ok nfa → nfaToDfa nfa = some d →
    (∀ r ∈ rules, tailEoi r.re) → (∀ r ∈ rules, regexPiecesOK r.re) → BlockOK d

/-- every rule of the scoped rule set is well-formed -/
def SetOK (x : Scoped) : Prop :=
  ∀ rules, coreRules x.2.1 x.2.2.1 x.2.2.2 = some rules → ∀ r ∈ rules, RuleOK r

/-- the entry `p` comes from the rule set `x`: same name, its state is initial and realises the rules -/
def EOK (full : DFA Nat) (p : String × Nat) (x : Scoped) : Prop :=
  x.1 = p.1 ∧ (full.st p.2).initial = true ∧
    ∃ rules, coreRules x.2.1 x.2.2.1 x.2.2.2 = some rules ∧
      ((∀ r ∈ rules, regexPiecesOK r.re) → RealisesN full p.2 rules)

theorem eok_mono {d d' : DFA Nat} {p : String × Nat} {x : Scoped} (h : EOK d p x) (hT : TargetsInRange d)
    (hA : Agree d d') : EOK d' p x := by
  obtain ⟨h1, h2, rules, h3, h4⟩ := h
  have hlt := st_initial_lt h2
  refine ⟨h1, ?_, rules, h3, fun hre => realisesN_agree hT hA hlt (h4 hre)⟩
  rw [(hA p.2 hlt).2]
  exact h2

structure MInv (L : List Scoped) (g : GlueState) : Prop where
  ginv : GInv L g
  /-- every entry comes from a rule set -/
  src : ∀ p ∈ g.entries, ∃ full, g.initDfa = some full ∧ ∃ x ∈ L, EOK full p x
  /-- `Init` is entry 0 -/
  init0 : ∀ full, g.initDfa = some full → ("Init", 0) ∈ g.entries
  fullok : (∀ x ∈ L, SetOK x) → ∀ full, g.initDfa = some full → FullOK full

theorem minv_congr {L : List Scoped} {g g' : GlueState} (h : MInv L g) (he : g'.entries = g.entries)
    (hd : g'.initDfa = g.initDfa) : MInv L g' := by
  refine ⟨ginv_congr h.ginv he hd, ?_, ?_, ?_⟩
  · intro p hp; rw [he] at hp; rw [hd]; exact h.src p hp
  · intro full hf; rw [he]; rw [hd] at hf; exact h.init0 full hf
  · intro hL full hf; rw [hd] at hf; exact h.fullok hL full hf

theorem compileRuleSet_glue' (HB : BlockHyp) (rs : List RuleOrBinding) (b : Bindings) (ctxs : List (DFA Nat))
    (dR : DFA Nat) (ctxs' : List (DFA Nat)) (h : compileRuleSet rs b ctxs = .ok (dR, ctxs')) :
    TargetsInRange dR ∧ (dR.st 0).initial = true ∧
    ∃ rules, coreRules rs b ctxs.length = some rules ∧
      ((∀ r ∈ rules, regexPiecesOK r.re) → RealisesN dR 0 rules) ∧
      ((∀ r ∈ rules, RuleOK r) → BlockOK dR) := by
  obtain ⟨rules, nfa, h1, h2, h3⟩ := compileRuleSet_core rs b ctxs dR ctxs' h
  obtain ⟨h4, h5⟩ := nfaToDfa_ok nfa dR h3
  exact ⟨h4, h5, rules, h1, fun hre => realisesN_of_ruleSet rules hre nfa h2 dR h3,
    fun hok => HB rules nfa dR h2 h3 (fun r hr => (hok r hr).tail) (fun r hr => (hok r hr).pieces)⟩

theorem step_ruleSet' (HB : BlockHyp) (L : List Scoped) (g g1 : GlueState) (name : String)
    (rs : List RuleOrBinding) (h : lexStep g (.ruleSet name rs) = .ok g1) (hinv : MInv L g) :
    MInv (L ++ [(name, rs, g.bindings, g.ctxs.length)]) g1 ∧ g1.bindings = g.bindings ∧
      g1.ctxs.length = g.ctxs.length + ctxCount rs := by
  obtain ⟨hg, hb, hc⟩ := step_ruleSet L g g1 name rs h hinv.ginv
  refine ⟨⟨hg, ?_, ?_, ?_⟩, hb, hc⟩ <;> clear hg hb hc
  all_goals
    obtain ⟨p, hp, hfind, rfl⟩ := lexStep_ruleSet_ok g g1 name rs h
    unfold lexRS at hp
  · -- src
    by_cases hn : name = "Init"
    · rw [if_pos hn] at hp
      cases hc : compileRuleSet rs g.bindings g.ctxs with
      | error e => rw [hc] at hp; cases hp
      | ok q =>
        obtain ⟨dR, ctxs'⟩ := q
        rw [hc] at hp
        cases hp
        obtain ⟨hT, hI, rules, hcore, hreal, _⟩ := compileRuleSet_glue' HB rs _ _ dR ctxs' hc
        intro q hq
        have hq' : q ∈ g.entries ++ [(name, 0)] := hq
        refine ⟨dR, rfl, ?_⟩
        rcases List.mem_append.mp hq' with hq1 | hq1
        · exfalso
          obtain ⟨full, hf, _⟩ := hinv.src q hq1
          have := hinv.ginv.init full hf
          rw [← hn] at this
          have hfind' : (g.entries.find? (·.1 = name)).isSome = false := hfind
          rw [this] at hfind'
          cases hfind'
        · rw [List.mem_singleton] at hq1
          subst hq1
          exact ⟨_, List.mem_append_right _ (List.mem_singleton.mpr rfl), rfl, hI, rules, hcore, hreal⟩
    · rw [if_neg hn] at hp
      cases hd : g.initDfa with
      | none => rw [hd] at hp; cases hp
      | some d0 =>
        rw [hd] at hp
        cases hc : compileRuleSet rs g.bindings g.ctxs with
        | error e => rw [hc] at hp; cases hp
        | ok q =>
          obtain ⟨dR, ctxs'⟩ := q
          rw [hc] at hp
          cases hp
          obtain ⟨hT, hI, rules, hcore, hreal, _⟩ := compileRuleSet_glue' HB rs _ _ dR ctxs' hc
          have hT0 := hinv.ginv.tir d0 hd
          have h0 : 0 < dR.length := st_initial_lt hI
          intro q hq
          have hq' : q ∈ g.entries ++ [(name, (addDfa d0 dR).2)] := hq
          refine ⟨(addDfa d0 dR).1, rfl, ?_⟩
          rcases List.mem_append.mp hq' with hq1 | hq1
          · obtain ⟨full, hf, x, hx, hex⟩ := hinv.src q hq1
            rw [hd] at hf
            cases hf
            exact ⟨x, List.mem_append_left _ hx, eok_mono hex hT0 (addDfa_agree d0 dR)⟩
          · rw [List.mem_singleton] at hq1
            subst hq1
            refine ⟨_, List.mem_append_right _ (List.mem_singleton.mpr rfl), rfl, ?_, rules, hcore,
              fun hre => addDfa_realises_right d0 dR hT h0 (hreal hre)⟩
            show ((addDfa d0 dR).1.st d0.length).initial = true
            have := (addDfa_spec d0 dR).2.2.2 0 h0
            rw [Nat.add_zero] at this
            rw [this]
            exact hI
  · -- init0
    by_cases hn : name = "Init"
    · rw [if_pos hn] at hp
      cases hc : compileRuleSet rs g.bindings g.ctxs with
      | error e => rw [hc] at hp; cases hp
      | ok q =>
        rw [hc] at hp
        cases hp
        intro full _
        show ("Init", 0) ∈ g.entries ++ [(name, 0)]
        rw [hn]
        exact List.mem_append_right _ (List.mem_singleton.mpr rfl)
    · rw [if_neg hn] at hp
      cases hd : g.initDfa with
      | none => rw [hd] at hp; cases hp
      | some d0 =>
        rw [hd] at hp
        cases hc : compileRuleSet rs g.bindings g.ctxs with
        | error e => rw [hc] at hp; cases hp
        | ok q =>
          rw [hc] at hp
          cases hp
          intro full _
          show ("Init", 0) ∈ g.entries ++ [(name, (addDfa d0 q.1).2)]
          exact List.mem_append_left _ (hinv.init0 d0 hd)
  · -- fullok
    intro hL
    have hnew : SetOK (name, rs, g.bindings, g.ctxs.length) :=
      hL _ (List.mem_append_right _ (List.mem_singleton.mpr rfl))
    have hold : ∀ x ∈ L, SetOK x := fun x hx => hL x (List.mem_append_left _ hx)
    by_cases hn : name = "Init"
    · rw [if_pos hn] at hp
      cases hc : compileRuleSet rs g.bindings g.ctxs with
      | error e => rw [hc] at hp; cases hp
      | ok q =>
        obtain ⟨dR, ctxs'⟩ := q
        rw [hc] at hp
        cases hp
        obtain ⟨hT, hI, rules, hcore, _, hblk⟩ := compileRuleSet_glue' HB rs _ _ dR ctxs' hc
        intro full hf
        have hf' : some dR = some full := hf
        cases hf'
        exact fullOK_of_block (hblk (hnew rules hcore))
    · rw [if_neg hn] at hp
      cases hd : g.initDfa with
      | none => rw [hd] at hp; cases hp
      | some d0 =>
        rw [hd] at hp
        cases hc : compileRuleSet rs g.bindings g.ctxs with
        | error e => rw [hc] at hp; cases hp
        | ok q =>
          obtain ⟨dR, ctxs'⟩ := q
          rw [hc] at hp
          cases hp
          obtain ⟨hT, hI, rules, hcore, _, hblk⟩ := compileRuleSet_glue' HB rs _ _ dR ctxs' hc
          intro full hf
          have hf' : some (addDfa d0 dR).1 = some full := hf
          cases hf'
          exact fullOK_addDfa d0 dR (hinv.fullok hold d0 hd) (fullOK_of_block (hblk (hnew rules hcore)))

theorem fold_minv (HB : BlockHyp) (items : LexerDef) : ∀ (L : List Scoped) (g g' : GlueState),
    items.foldlM lexStep g = .ok g' → MInv L g →
    MInv (L ++ scopedRuleSets items g.bindings g.ctxs.length) g' := by
  induction items with
  | nil =>
    intro L g g' h hinv
    rw [List.foldlM_nil] at h
    cases h
    rw [scopedRuleSets, List.append_nil]
    exact hinv
  | cons item rest ih =>
    intro L g g' h hinv
    rw [List.foldlM_cons] at h
    obtain ⟨g1, h1, h2⟩ := Thompson.bind_ok h
    cases item with
    | errorType =>
      rw [lexStep_errorType] at h1
      by_cases he : g.errorType = true
      · rw [if_pos he] at h1; cases h1
      · rw [if_neg he] at h1
        cases h1
        rw [scopedRuleSets]
        exact ih L { g with errorType := true } g' h2 (minv_congr hinv rfl rfl)
    | rb x =>
      cases x with
      | binding n re =>
        rw [lexStep_binding] at h1
        by_cases hb : (g.bindings.find? n).isSome = true
        · rw [if_pos hb] at h1; cases h1
        · rw [if_neg hb] at h1
          cases h1
          rw [scopedRuleSets]
          exact ih L { g with bindings := g.bindings ++ [(n, re)] } g' h2 (minv_congr hinv rfl rfl)
      | rule r =>
        rw [lexStep_rule] at h1
        cases hc : compileSingleRule g.unnamed r g.bindings g.ctxs with
        | error e => rw [hc] at h1; cases h1
        | ok p =>
          obtain ⟨n1, c1⟩ := p
          rw [hc] at h1
          cases h1
          rw [scopedRuleSets]
          have := ih L { g with unnamed := n1, ctxs := c1 } g' h2 (minv_congr hinv rfl rfl)
          rw [show ({ g with unnamed := n1, ctxs := c1 } : GlueState).ctxs.length =
            g.ctxs.length + (if r.ctx.isSome = true then 1 else 0) from singleRule_ctxs hc] at this
          exact this
    | ruleSet name rs =>
      obtain ⟨hg1, hb1, hc1⟩ := step_ruleSet' HB L g g1 name rs h1 hinv
      have := ih _ g1 g' h2 hg1
      rw [hb1, hc1, List.append_assoc] at this
      rw [scopedRuleSets]
      exact this

/-! ## Assembly -/

theorem matchingAccs_empty {rules : List CoreRule} {w : List Sym} (h : ∀ r ∈ rules, ¬ den r.re w) :
    matchingAccs rules w = [] := by
  unfold matchingAccs
  rw [List.map_eq_nil_iff, List.filter_eq_nil_iff]
  intro r hr
  simp [h r hr]

theorem scoped_nonempty : ∀ (items : LexerDef) (b : Bindings) (k : Nat), hasRuleSets items = true →
    ∃ x, x ∈ scopedRuleSets items b k := by
  intro items
  induction items with
  | nil => intro b k h; cases h
  | cons item rest ih =>
    intro b k h
    cases item with
    | errorType =>
      rw [scopedRuleSets]
      exact ih b k (by simpa [hasRuleSets] using h)
    | rb x =>
      cases x with
      | binding n re =>
        rw [scopedRuleSets]
        exact ih _ k (by simpa [hasRuleSets] using h)
      | rule r =>
        rw [scopedRuleSets]
        exact ih b _ (by simpa [hasRuleSets] using h)
    | ruleSet name rs =>
      rw [scopedRuleSets]
      exact ⟨_, List.mem_cons_self⟩

/-- closure of the flags `update_backtracks` computes, stated on its result -/
theorem closed_of_updateBacktracks (d d' : DFA Nat) (hT : TargetsInRange d) (h : updateBacktracks d = some d') :
    ∀ s, s < d'.length → ∀ t ∈ DFA.succs (d'.st s),
      ((d'.st s).backtrack || !(d'.st s).accepting.isEmpty) = true → (d'.st t).backtrack = true := by
  obtain ⟨hlen, hsame, hcl⟩ := Backtrack.backtrack_closed d d' hT h
  intro s hs t ht hb
  rw [hlen] at hs
  rw [(hsame s).1] at ht
  rw [(hsame s).2.1] at hb
  exact hcl s hs t ht hb

end MachineOKCompile

open MachineOKCompile CompileLang Static in
/-- The final machine of the model of `lexer()` satisfies the well-formedness the run-time theorems assume, for every well-formed definition.
(`hblock` and `hunnamed` are proved separately — in Proofs/BlockShape.lean, NfaShape.lean and CompileUnnamed.lean by other people — and will be plugged in afterwards.) -/
theorem compileLexer_machineOK_of {σ τ ε : Type} (items : LexerDef) (c : Compiled) (h : compileLexer items = .ok c) (hok : DefOK items)
    (hblock : ∀ (rules : List CoreRule) (nfa : NFA) (d : DFA Nat), buildNfa rules = .ok nfa → nfaToDfa nfa = some d →
      (∀ r ∈ rules, tailEoi r.re) → (∀ r ∈ rules, regexPiecesOK r.re) → BlockOK d)
    (hunnamed : hasRuleSets items = false →
      c.entries0 = [] ∧ c.entries = [] ∧
      ∃ rules nfa d0, coreRules (topRules items) [] 0 = some rules ∧ buildNfa rules = .ok nfa ∧
        nfaToDfa nfa = some d0 ∧ updateBacktracks d0 = some c.full ∧ simplify c.full [] = .ok (c.dfa, c.entries))
    (hlangUnnamed : hasRuleSets items = false →
      0 < c.dfa.length ∧ ∃ rules, coreRules (topRules items) [] 0 = some rules ∧
        ((∀ r ∈ rules, regexPiecesOK r.re) → RealisesRules c.dfa 0 rules))
    (actions : Nat → Action σ τ ε) (width : Nat → Nat) (input : Option (List Nat)) :
    MachineOK (c.config actions width input) := by
  have HB : BlockHyp := hblock
  by_cases hrs : hasRuleSets items = true
  · -- named rule sets
    have hall : allRuleSets items = scopedRuleSets items [] 0 := by
      unfold allRuleSets
      rw [if_pos hrs]
    rw [compileLexer_eq] at h
    by_cases hm : mixedRules items = true
    · rw [if_pos hm] at h; cases h
    · rw [if_neg hm] at h
      obtain ⟨g, hfold, hpost⟩ := Thompson.bind_ok h
      have hinv0 : MInv [] ({} : GlueState) :=
        ⟨⟨fun full hf => (by cases hf), fun full hf => (by cases hf), fun x hx => (by cases hx)⟩,
          fun p hp => (by cases hp), fun full hf => (by cases hf), fun _ full hf => (by cases hf)⟩
      have hinv := fold_minv HB items [] {} g hfold hinv0
      rw [List.nil_append] at hinv
      have hbind : ({} : GlueState).bindings = [] := rfl
      have hctx : ({} : GlueState).ctxs.length = 0 := rfl
      rw [hbind, hctx, ← hall] at hinv
      have hsets : ∀ x ∈ allRuleSets items, SetOK x := by
        intro x hx rules hcore r hr
        exact hok.rules x.1 x.2.1 x.2.2.1 x.2.2.2 hx rules hcore r hr
      obtain ⟨x0, hx0⟩ := scoped_nonempty items [] 0 hrs
      rw [← hall] at hx0
      obtain ⟨full0, hd, _⟩ := hinv.ginv.ok x0 hx0
      have hT0 := hinv.ginv.tir full0 hd
      obtain ⟨full, simp, entries, hu, h3, rfl⟩ := lexPost_ok g c hpost full0 hd
      obtain ⟨hA, hlen⟩ := updateBacktracks_agree full0 full hT0 hu
      have hF := fullOK_agree (hinv.fullok hsets full0 hd) hA hlen
      have hent : ∀ p ∈ g.entries, (full.st p.2).initial = true ∧ (full.st p.2).accepting = [] := by
        intro p hp
        obtain ⟨full0', hd', x, hx, hex⟩ := hinv.src p hp
        rw [hd] at hd'
        cases hd'
        obtain ⟨_, hi, rules, hcore, hreal⟩ := eok_mono hex hT0 hA
        refine ⟨hi, ?_⟩
        have hro := hsets x hx rules hcore
        have hR := hreal (fun r hr => (hro r hr).pieces)
        have := hR.acc [] p.2 rfl
        rw [this]
        exact matchingAccs_empty (fun r hr => (hro r hr).nonNull)
      exact machineOK_of_full full g.entries simp entries h3 hF (closed_of_updateBacktracks full0 full hT0 hu)
        (hent _ (hinv.init0 full0 hd)) hent g.ctxs actions width input
  · -- a single unnamed rule set
    have hrs' : hasRuleSets items = false := by simpa using hrs
    have _ := hlangUnnamed
    obtain ⟨_, _, rules, nfa, d0, hcore, hbuild, hnd, hub, hsimp⟩ := hunnamed hrs'
    have hall : allRuleSets items = [("", topRules items, [], 0)] := by
      unfold allRuleSets
      rw [if_neg hrs]
    have hro : ∀ r ∈ rules, RuleOK r :=
      hok.rules "" (topRules items) [] 0 (by rw [hall]; exact List.mem_singleton.mpr rfl) rules hcore
    have hB : BlockOK d0 := hblock rules nfa d0 hbuild hnd (fun r hr => (hro r hr).tail) (fun r hr => (hro r hr).pieces)
    have hT0 := hB.targets
    obtain ⟨hA, hlen⟩ := updateBacktracks_agree d0 c.full hT0 hub
    have hF := fullOK_agree (fullOK_of_block hB) hA hlen
    have hR := realisesN_of_ruleSet rules (fun r hr => (hro r hr).pieces) nfa hbuild d0 hnd
    have h0 : (c.full.st 0).initial = true ∧ (c.full.st 0).accepting = [] := by
      obtain ⟨hte, hie⟩ := hA 0 hB.init0.1
      refine ⟨hie.trans hB.init0.2, ?_⟩
      rw [hte.acc, hR.acc [] 0 rfl]
      exact matchingAccs_empty (fun r hr => (hro r hr).nonNull)
    exact machineOK_of_full c.full [] c.dfa c.entries hsimp hF (closed_of_updateBacktracks d0 c.full hT0 hub)
      h0 (fun p hp => (by cases hp)) c.ctxs actions width input

end Lexgen
