import LexgenModel.Proofs.ThompsonEdges
/-!
# Thompson construction, part 2: paths over an abstract labelled edge relation

`Path E s w t` generalises `NPath n s w t` (`E = Edge n`), so that the ε-edges a gadget adds can be
analysed in any convenient order. The key result is `path_addEps`: the paths after adding one
ε-edge `s → t` are the old paths, possibly going round the new edge any number of times.
-/

set_option linter.unusedSimpArgs false
set_option linter.unusedVariables false
namespace Lexgen
namespace Thompson

/-- the word read along an edge -/
def lbl : Option Sym → List Sym
  | none => []
  | some y => [y]

abbrev Rel := Nat → Option Sym → Nat → Prop

inductive Path (E : Rel) : Nat → List Sym → Nat → Prop
  | refl (s : Nat) : Path E s [] s
  | step {s t u : Nat} {x : Option Sym} {w : List Sym} : E s x t → Path E t w u → Path E s (lbl x ++ w) u

theorem Path.eps {E : Rel} {s t u : Nat} {w : List Sym} (h : E s none t) (p : Path E t w u) : Path E s w u :=
  Path.step h p

theorem Path.sym {E : Rel} {s t u : Nat} {y : Sym} {w : List Sym} (h : E s (some y) t) (p : Path E t w u) :
    Path E s (y :: w) u :=
  Path.step h p

theorem npath_iff_path (n : NFA) (s : Nat) (w : List Sym) (t : Nat) : NPath n s w t ↔ Path (Edge n) s w t := by
  constructor
  · intro h
    induction h with
    | refl s => exact Path.refl s
    | eps h _ ih => exact Path.eps (edge_eps.mpr h) ih
    | sym h _ ih => exact Path.sym (edge_sym.mpr h) ih
  · intro h
    induction h with
    | refl s => exact NPath.refl s
    | @step s t u x w h _ ih =>
      cases x with
      | none => exact NPath.eps (edge_eps.mp h) ih
      | some y => exact NPath.sym (edge_sym.mp h) ih

theorem Path.trans {E : Rel} {a b c : Nat} {u v : List Sym} (h1 : Path E a u b) (h2 : Path E b v c) :
    Path E a (u ++ v) c := by
  induction h1 with
  | refl s => exact h2
  | step h _ ih =>
    rw [List.append_assoc]
    exact Path.step h (ih h2)

theorem Path.mono {E E' : Rel} (hE : ∀ a x b, E a x b → E' a x b) {a b : Nat} {w : List Sym}
    (h : Path E a w b) : Path E' a w b := by
  induction h with
  | refl s => exact Path.refl s
  | step h _ ih => exact Path.step (hE _ _ _ h) ih

theorem Path.congr {E E' : Rel} (hE : ∀ a x b, E a x b ↔ E' a x b) (a : Nat) (w : List Sym) (b : Nat) :
    Path E a w b ↔ Path E' a w b :=
  ⟨Path.mono fun a x b => (hE a x b).mp, Path.mono fun a x b => (hE a x b).mpr⟩

/-- a state without outgoing edges -/
def Dead (E : Rel) (s : Nat) : Prop := ∀ x b, ¬ E s x b

theorem path_dead {E : Rel} {s q : Nat} {w : List Sym} (hd : Dead E s) (h : Path E s w q) : w = [] ∧ q = s := by
  cases h with
  | refl => exact ⟨rfl, rfl⟩
  | step h _ => exact absurd h (hd _ _)

theorem path_dead_iff {E : Rel} {s : Nat} (hd : Dead E s) (w : List Sym) (q : Nat) :
    Path E s w q ↔ (w = [] ∧ q = s) := by
  constructor
  · exact path_dead hd
  · rintro ⟨rfl, rfl⟩; exact Path.refl _

/-! ## Adding one ε-edge -/

def addEps (E : Rel) (s t : Nat) : Rel := fun a x b => E a x b ∨ (a = s ∧ x = none ∧ b = t)

theorem addEps_mono (E : Rel) (s t : Nat) : ∀ a x b, E a x b → addEps E s t a x b :=
  fun _ _ _ h => Or.inl h

theorem star_loop {E : Rel} {s t : Nat} {v : List Sym} (h : Star (fun u => Path E t u s) v) :
    Path (addEps E s t) s v s := by
  induction h with
  | nil => exact Path.refl s
  | cons h _ ih =>
    exact Path.eps (Or.inr ⟨rfl, rfl, rfl⟩) (Path.trans (Path.mono (addEps_mono E s t) h) ih)

theorem path_addEps (E : Rel) (s t p : Nat) (w : List Sym) (q : Nat) :
    Path (addEps E s t) p w q ↔
      Path E p w q ∨ ∃ w0 v w1, w = w0 ++ v ++ w1 ∧ Path E p w0 s ∧
        Star (fun u => Path E t u s) v ∧ Path E t w1 q := by
  constructor
  · intro h
    induction h with
    | refl a => exact Or.inl (Path.refl a)
    | @step a b c x w h _ ih =>
      rcases h with h | ⟨rfl, rfl, rfl⟩
      · rcases ih with ih | ⟨w0, v, w1, rfl, h0, hs, h1⟩
        · exact Or.inl (Path.step h ih)
        · exact Or.inr ⟨lbl x ++ w0, v, w1, by simp only [List.append_assoc], Path.step h h0, hs, h1⟩
      · rcases ih with ih | ⟨w0, v, w1, rfl, h0, hs, h1⟩
        · exact Or.inr ⟨[], [], w, rfl, Path.refl _, Star.nil, ih⟩
        · exact Or.inr ⟨[], w0 ++ v, w1, rfl, Path.refl _, Star.cons h0 hs, h1⟩
  · rintro (h | ⟨w0, v, w1, rfl, h0, hs, h1⟩)
    · exact Path.mono (addEps_mono E s t) h
    · exact Path.trans (Path.trans (Path.mono (addEps_mono E s t) h0) (star_loop hs))
        (Path.eps (Or.inr ⟨rfl, rfl, rfl⟩) (Path.mono (addEps_mono E s t) h1))

/-- no way back from `t` to `s`: the new edge is used at most once -/
theorem path_addEps_noloop (E : Rel) (s t p : Nat) (w : List Sym) (q : Nat) (hno : ∀ u, ¬ Path E t u s) :
    Path (addEps E s t) p w q ↔
      Path E p w q ∨ ∃ w0 w1, w = w0 ++ w1 ∧ Path E p w0 s ∧ Path E t w1 q := by
  rw [path_addEps]
  constructor
  · rintro (h | ⟨w0, v, w1, rfl, h0, hs, h1⟩)
    · exact Or.inl h
    · cases hs with
      | nil => exact Or.inr ⟨w0, w1, by simp, h0, h1⟩
      | cons h _ => exact absurd h (hno _)
  · rintro (h | ⟨w0, w1, rfl, h0, h1⟩)
    · exact Or.inl h
    · exact Or.inr ⟨w0, [], w1, by simp, h0, Star.nil, h1⟩

/-- the target is a dead end -/
theorem path_addEps_tgtDead (E : Rel) (s t p : Nat) (w : List Sym) (q : Nat) (hd : Dead E t) (hne : s ≠ t) :
    Path (addEps E s t) p w q ↔ Path E p w q ∨ (q = t ∧ Path E p w s) := by
  rw [path_addEps_noloop E s t p w q (fun u h => hne (path_dead hd h).2)]
  constructor
  · rintro (h | ⟨w0, w1, rfl, h0, h1⟩)
    · exact Or.inl h
    · obtain ⟨rfl, rfl⟩ := path_dead hd h1
      exact Or.inr ⟨rfl, by simpa using h0⟩
  · rintro (h | ⟨rfl, h⟩)
    · exact Or.inl h
    · exact Or.inr ⟨w, [], by simp, h, Path.refl _⟩

/-- the source had no edges and cannot be reached back -/
theorem path_addEps_srcDead (E : Rel) (s t : Nat) (w : List Sym) (q : Nat) (hd : Dead E s)
    (hno : ∀ u, ¬ Path E t u s) :
    Path (addEps E s t) s w q ↔ (w = [] ∧ q = s) ∨ Path E t w q := by
  rw [path_addEps_noloop E s t s w q hno, path_dead_iff hd]
  constructor
  · rintro (h | ⟨w0, w1, rfl, h0, h1⟩)
    · exact Or.inl h
    · obtain ⟨rfl, _⟩ := path_dead hd h0
      exact Or.inr h1
  · rintro (h | h)
    · exact Or.inl h
    · exact Or.inr ⟨[], w, rfl, Path.refl _, h⟩

/-- paths starting at the target of the new edge -/
theorem path_addEps_fromTgt (E : Rel) (s t : Nat) (w : List Sym) (q : Nat) :
    Path (addEps E s t) t w q ↔
      ∃ v w1, w = v ++ w1 ∧ Star (fun u => Path E t u s) v ∧ Path E t w1 q := by
  rw [path_addEps]
  constructor
  · rintro (h | ⟨w0, v, w1, rfl, h0, hs, h1⟩)
    · exact ⟨[], w, rfl, Star.nil, h⟩
    · exact ⟨w0 ++ v, w1, rfl, Star.cons h0 hs, h1⟩
  · rintro ⟨v, w1, rfl, hs, h1⟩
    cases hs with
    | nil => exact Or.inl h1
    | cons h0 hs' => exact Or.inr ⟨_, _, w1, rfl, h0, hs', h1⟩

/-! ## Kleene star -/

theorem star_congr {L L' : List Sym → Prop} (h : ∀ w, L w ↔ L' w) (w : List Sym) : Star L w ↔ Star L' w := by
  constructor
  · intro hs
    induction hs with
    | nil => exact Star.nil
    | cons h1 _ ih => exact Star.cons ((h _).mp h1) ih
  · intro hs
    induction hs with
    | nil => exact Star.nil
    | cons h1 _ ih => exact Star.cons ((h _).mpr h1) ih

theorem star_append {L : List Sym → Prop} {u v : List Sym} (h1 : Star L u) (h2 : Star L v) : Star L (u ++ v) := by
  induction h1 with
  | nil => exact h2
  | cons h _ ih => rw [List.append_assoc]; exact Star.cons h ih

theorem star_single {L : List Sym → Prop} {u : List Sym} (h : L u) : Star L u := by
  have := Star.cons h (Star.nil (L := L))
  simpa using this

/-- `L* L ⊆ L L*` -/
theorem star_snoc {L : List Sym → Prop} {v w : List Sym} (h1 : Star L v) (h2 : L w) :
    ∃ u v', v ++ w = u ++ v' ∧ L u ∧ Star L v' := by
  cases h1 with
  | nil => exact ⟨w, [], by simp, h2, Star.nil⟩
  | cons h hs => exact ⟨_, _, List.append_assoc _ _ _, h, star_append hs (star_single h2)⟩

/-- `L L* ⊆ L* L` -/
theorem star_unsnoc {L : List Sym → Prop} {u v : List Sym} (h1 : L u) (h2 : Star L v) :
    ∃ v' w, u ++ v = v' ++ w ∧ Star L v' ∧ L w := by
  induction h2 generalizing u with
  | nil => exact ⟨[], u, by simp, Star.nil, h1⟩
  | cons h _ ih =>
    obtain ⟨v', w, heq, hs, hw⟩ := ih h
    exact ⟨u ++ v', w, by rw [heq, List.append_assoc], Star.cons h1 hs, hw⟩

end Thompson
end Lexgen
