import LexgenModel.Proofs.Capstone
/-!
# Whole runs: any number of calls of the model's `next()` equal the same number of calls of the executable specification
-/
namespace Lexgen
variable {σ τ ε : Type}

/-- `n` calls of the executable reference lexer (mirrors `runN`) -/
def specRunN (items : LexerDef) (cfg : Config σ τ ε) : Nat → LState σ → List (Option (Option (Item τ ε))) × LState σ
  | 0, st => ([], st)
  | n + 1, st =>
    match specNextFull items cfg st with
    | none => ([none], st)
    | some (item, st') =>
      let (its, st'') := specRunN items cfg n st'
      (some item :: its, st'')

/-- From any lexer state at a lexeme start — in particular from a freshly constructed lexer — any number of calls of the model of the generated `next()`
produce exactly the items and the final state of the executable reference lexer of the definition. -/
theorem runN_eq_specRunN (items : LexerDef) (c : Compiled) (h : compileLexer items = .ok c) (hok : DefOK items) (hne : DefNE items)
    (actions : Nat → Action σ τ ε) (width : Nat → Nat) (input : Option (List Nat)) :
    ∀ (n : Nat) (st : LState σ), Ready (c.config actions width input) st →
      runN (c.config actions width input) n st = specRunN items (c.config actions width input) n st := by
  have hm := compileLexer_machineOK items c h hok actions width input
  intro n
  induction n with
  | zero => intro st _; rfl
  | succ n ih =>
    intro st hr
    have heq := next_eq_specNext items c h hok hne actions width input st hr
    unfold runN specRunN
    rw [← heq]
    cases hn : next (c.config actions width input) st with
    | none => rfl
    | some r =>
      obtain ⟨item, st'⟩ := r
      have hr' := next_ready _ hm st hr item st' hn
      simp only
      rw [ih st' hr']

/-- a freshly constructed lexer (any of the four constructors) -/
theorem run_fresh_eq_spec (items : LexerDef) (c : Compiled) (h : compileLexer items = .ok c) (hok : DefOK items) (hne : DefNE items)
    (actions : Nat → Action σ τ ε) (width : Nat → Nat) (input : Option (List Nat)) (user : σ) (chars : List Nat) (n : Nat) :
    runN (c.config actions width input) n (initState user chars) = specRunN items (c.config actions width input) n (initState user chars) := by
  apply runN_eq_specRunN items c h hok hne actions width input n
  refine ⟨rfl, rfl, 0, Or.inl rfl, ?_⟩
  show (0 : Nat) = renumber _ 0
  unfold renumber
  simp

end Lexgen
