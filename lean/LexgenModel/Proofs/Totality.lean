import LexgenModel.Proofs.CompileTotal
import LexgenModel.Proofs.ThompsonTotal
import LexgenModel.Proofs.SubsetTotal
import LexgenModel.Proofs.SubsetReach
/-!
# Totality of the model of `lexer()` (composition of the four parts)
-/
namespace Lexgen

/-- Whatever the definition (with non-inverted bracket ranges), the model of the macro never hits one of
the macro's internal assertions and every work-list loop (subset construction, backtrack analysis) ends
within its fuel: `compileLexer` either succeeds or reports an error of the user. -/
theorem compileLexer_no_internal (items : LexerDef) (hp : ItemsPiecesOK items) :
    ∀ e, compileLexer items = .error e → e.isInternal = false :=
  compileLexer_no_internal_of items hp
    (fun nfa hwf re ctx value e h => addRegex_no_internal nfa hwf re ctx value e h)
    (fun nfa hwf => nfaToDfa_total nfa hwf)
    (fun nfa hwf hne d hd => nfaToDfa_reach_preds nfa hwf hne d hd)

end Lexgen
