import LexgenModel.Spec.Viable
import LexgenModel.Proofs.EndToEnd
/-!
# Compile side of `next = specNext`: from the entry of every rule set, the compiled machine is in a
*state* (not dead, not a terminal configuration) after a non-empty word exactly when the word can be
extended by one more symbol towards a word of some rule of that rule set.

The block DFA of a rule set is followed through `add_dfa`, `update_backtracks` and `simplify`
(the invariant `XInv` of the fold of `lexer()`, next to `CompileLang.GInv`). The hypothesis about the
block DFA (`ViableHyp`, the `hb` of `next_eq_specNext_of`) is proved elsewhere.
-/

set_option linter.unusedSimpArgs false
set_option linter.unusedVariables false
namespace Lexgen
namespace NextEqSpec
open Lexgen.Subset Lexgen.Simplify Lexgen.Static Lexgen.CompileLang Lexgen.MachineOKCompile

/-- what is assumed of the subset-construction result of a rule set (the `hb` of the main theorem) -/
def ViableHyp : Prop :=
  ∀ (rules : List CoreRule), (∀ r ∈ rules, regexPiecesOK r.re) → (∀ r ∈ rules, NoEmptyPieces r.re) →
    ∀ (nfa : NFA), buildNfa rules = .ok nfa → ∀ (d : DFA Nat), nfaToDfa nfa = some d → ∀ w : List Nat,
    (reachN d 0 w = none ↔ (w ≠ [] ∧ ¬ Viable rules w)) ∧
    (∀ t, reachN d 0 w = some t → (DFA.hasNoTransitions (d.st t) = false ↔ Extendable rules w))

/-- the rules are well-formed and have no empty piece -/
def RulesHyp (rules : List CoreRule) : Prop :=
  (∀ r ∈ rules, RuleOK r) ∧ (∀ r ∈ rules, NoEmptyPieces r.re)

/-- from `e` the word `w` leads to a state `simplify` keeps -/
def LiveN (d : DFA Nat) (e : Nat) (w : List Nat) : Prop :=
  ∃ t, reachN d e w = some t ∧ Simplify.isEmpty d t = false

/-- kept states after non-empty words = extendable words -/
def ExtN (d : DFA Nat) (e : Nat) (rules : List CoreRule) : Prop :=
  ∀ w, w ≠ [] → (LiveN d e w ↔ Extendable rules w)

/-- the same for the simplified automaton -/
def EntryExt (d : DFA Trans) (e : Nat) (rules : List CoreRule) : Prop :=
  ∀ w, w ≠ [] → ((∃ t, reach d (.st e) w = some (.st t)) ↔ Extendable rules w)

theorem extendable_viable {rules : List CoreRule} {w : List Nat} (h : Extendable rules w) : Viable rules w := by
  obtain ⟨r, hr, x, v, hd⟩ := h
  exact ⟨r, hr, x :: v, hd⟩

/-! ## The block of one rule set -/

theorem reachN_last_succ (d : DFA Nat) (hT : TargetsInRange d) (w : List Nat) :
    ∀ s, s < d.length → w ≠ [] → ∀ t, reachN d s w = some t → ∃ s', s' < d.length ∧ t ∈ DFA.succs (d.st s') := by
  induction w with
  | nil => intro s _ h; exact absurd rfl h
  | cons x w ih =>
    intro s hs _ t h
    simp only [reachN] at h
    cases hl : lookupTrans (d.st s) x with
    | none => rw [hl] at h; cases h
    | some u =>
      rw [hl] at h
      have hu := lookupTrans_mem_succs _ _ _ hl
      by_cases hw : w = []
      · subst hw
        simp only [reachN, Option.some.injEq] at h
        subst h
        exact ⟨s, hs, hu⟩
      · exact ih u (hT s hs u hu) hw t h

theorem extN_block (HV : ViableHyp) (rules : List CoreRule) (nfa : NFA) (d : DFA Nat)
    (h : buildNfa rules = .ok nfa) (hd : nfaToDfa nfa = some d) (hR : RulesHyp rules) : ExtN d 0 rules := by
  have hB : BlockOK d := blockOK_of_rules rules nfa h d hd (fun r hr => (hR.1 r hr).tail) (fun r hr => (hR.1 r hr).pieces)
  intro w hw
  obtain ⟨hv1, hv2⟩ := HV rules (fun r hr => (hR.1 r hr).pieces) hR.2 nfa h d hd w
  have hni : ∀ t, reachN d 0 w = some t → (d.st t).initial = false := by
    intro t ht
    obtain ⟨s', hs', hmem⟩ := reachN_last_succ d hB.targets w 0 hB.init0.1 hw t ht
    cases hi : (d.st t).initial with
    | false => rfl
    | true =>
      have := hB.initOnly0 t hi
      subst this
      exact absurd hmem (hB.noInto0 s' hs')
  constructor
  · rintro ⟨t, ht, hk⟩
    apply (hv2 t ht).mp
    unfold Simplify.isEmpty at hk
    rw [hni t ht] at hk
    simpa using hk
  · intro hx
    cases ht : reachN d 0 w with
    | none => exact absurd (extendable_viable hx) (hv1.mp ht).2
    | some t =>
      refine ⟨t, ht, ?_⟩
      unfold Simplify.isEmpty
      rw [(hv2 t ht).mpr hx]
      rfl

/-! ## Transport -/

theorem isEmpty_agree {d d' : DFA Nat} (hA : Agree d d') {t : Nat} (ht : t < d.length) :
    Simplify.isEmpty d' t = Simplify.isEmpty d t := by
  unfold Simplify.isEmpty
  rw [hasNoTrans_teq (hA t ht).1, (hA t ht).2]

theorem liveN_agree {d d' : DFA Nat} (hT : TargetsInRange d) (hA : Agree d d') {e : Nat} (he : e < d.length)
    (w : List Nat) : LiveN d' e w ↔ LiveN d e w := by
  unfold LiveN
  rw [reachN_agree hT hA w e he]
  constructor
  · rintro ⟨t, ht, hk⟩
    exact ⟨t, ht, by rw [← isEmpty_agree hA (reachN_lt d hT w e he t ht)]; exact hk⟩
  · rintro ⟨t, ht, hk⟩
    exact ⟨t, ht, by rw [isEmpty_agree hA (reachN_lt d hT w e he t ht)]; exact hk⟩

theorem extN_agree {d d' : DFA Nat} (hT : TargetsInRange d) (hA : Agree d d') {e : Nat} (he : e < d.length)
    {rules : List CoreRule} (h : ExtN d e rules) : ExtN d' e rules := by
  intro w hw
  rw [liveN_agree hT hA he w]
  exact h w hw

theorem extN_addDfa_right (d0 dR : DFA Nat) (hT : TargetsInRange dR) (h0 : 0 < dR.length)
    {rules : List CoreRule} (h : ExtN dR 0 rules) : ExtN (addDfa d0 dR).1 d0.length rules := by
  have hS := (addDfa_spec d0 dR).2.2.2
  intro w hw
  rw [← h w hw]
  have key : reachN (addDfa d0 dR).1 d0.length w = (reachN dR 0 w).map (· + d0.length) :=
    (addDfa_reach_right d0 dR hT 0 h0 w).1
  have hem : ∀ u, u < dR.length → Simplify.isEmpty (addDfa d0 dR).1 (u + d0.length) = Simplify.isEmpty dR u := by
    intro u hu
    unfold Simplify.isEmpty
    rw [Nat.add_comm u d0.length, hS u hu, hasNoTrans_shift]
    rfl
  unfold LiveN
  rw [key]
  constructor
  · rintro ⟨t, ht, hk⟩
    cases hu : reachN dR 0 w with
    | none => rw [hu] at ht; cases ht
    | some u =>
      rw [hu] at ht
      simp only [Option.map_some, Option.some.injEq] at ht
      subst ht
      exact ⟨u, rfl, by rw [← hem u (reachN_lt dR hT w 0 h0 u hu)]; exact hk⟩
  · rintro ⟨u, hu, hk⟩
    refine ⟨u + d0.length, by rw [hu]; rfl, ?_⟩
    rw [hem u (reachN_lt dR hT w 0 h0 u hu)]
    exact hk

theorem ext_simplify (d : DFA Nat) (entries : List (String × Nat)) (d' : DFA Trans) (entries' : List (String × Nat))
    (h : simplify d entries = .ok (d', entries')) (hT : TargetsInRange d) (e0 : Nat)
    (hi : (d.st e0).initial = true) (w : List Nat) :
    (∃ t, reach d' (.st (newIdx d e0)) w = some (.st t)) ↔ LiveN d e0 w := by
  have he := st_initial_lt hi
  have hk := not_removed_of_initial hi
  have hcfg : cfgOf d e0 = .st (newIdx d e0) := by
    simp only [cfgOf, hk, Bool.false_eq_true, if_false]
  rw [← hcfg, reach_cfg d entries d' entries' h hT w e0 he]
  unfold LiveN
  have hc : ∀ u, u < d.length → ((∃ t, cfgOf d u = .st t) ↔ Simplify.isEmpty d u = false) := by
    intro u hu
    unfold cfgOf
    rw [contains_emptyStates]
    simp only [hu, decide_true, Bool.true_and]
    cases Simplify.isEmpty d u with
    | true => simp
    | false => simp
  constructor
  · rintro ⟨t, ht⟩
    cases hu : reachN d e0 w with
    | none => rw [hu] at ht; cases ht
    | some u =>
      rw [hu] at ht
      simp only [Option.map_some, Option.some.injEq] at ht
      exact ⟨u, rfl, (hc u (reachN_lt d hT w e0 he u hu)).mp ⟨t, ht⟩⟩
  · rintro ⟨u, hu, hk'⟩
    obtain ⟨t, ht⟩ := (hc u (reachN_lt d hT w e0 he u hu)).mpr hk'
    exact ⟨t, by rw [hu]; simp only [Option.map_some, ht]⟩

/-! ## The invariant of the fold of `lexer()` -/

/-- the rule set `x` has an entry from which the concatenated automaton is alive exactly on the
extendable words -/
def RSX (full : DFA Nat) (entries : List (String × Nat)) (x : Scoped) : Prop :=
  ∃ e0 rules, (x.1, e0) ∈ entries ∧ (full.st e0).initial = true ∧
    coreRules x.2.1 x.2.2.1 x.2.2.2 = some rules ∧ (RulesHyp rules → ExtN full e0 rules)

def XInv (L : List Scoped) (g : GlueState) : Prop :=
  ∀ x ∈ L, ∃ full, g.initDfa = some full ∧ RSX full g.entries x

theorem rsx_mono {d d' : DFA Nat} {entries entries' : List (String × Nat)} {x : Scoped}
    (h : RSX d entries x) (hT : TargetsInRange d) (hA : Agree d d')
    (he : ∀ p ∈ entries, p ∈ entries') : RSX d' entries' x := by
  obtain ⟨e0, rules, h1, h2, h3, h4⟩ := h
  have hlt := st_initial_lt h2
  refine ⟨e0, rules, he _ h1, ?_, h3, fun hre => extN_agree hT hA hlt (h4 hre)⟩
  rw [(hA e0 hlt).2]
  exact h2

theorem xinv_congr {L : List Scoped} {g g' : GlueState} (h : XInv L g) (he : g'.entries = g.entries)
    (hd : g'.initDfa = g.initDfa) : XInv L g' := by
  intro x hx
  rw [he, hd]
  exact h x hx

theorem step_ruleSet_x (HV : ViableHyp) (L : List Scoped) (g g1 : GlueState) (name : String)
    (rs : List RuleOrBinding) (h : lexStep g (.ruleSet name rs) = .ok g1) (hinv : GInv L g) (hx : XInv L g) :
    XInv (L ++ [(name, rs, g.bindings, g.ctxs.length)]) g1 := by
  obtain ⟨p, hp, hfind, rfl⟩ := lexStep_ruleSet_ok g g1 name rs h
  unfold lexRS at hp
  by_cases hn : name = "Init"
  · rw [if_pos hn] at hp
    cases hc : compileRuleSet rs g.bindings g.ctxs with
    | error e => rw [hc] at hp; cases hp
    | ok q =>
      obtain ⟨dR, ctxs'⟩ := q
      rw [hc] at hp
      cases hp
      obtain ⟨rules, nfa, hcore, hbuild, hnd⟩ := compileRuleSet_core rs _ _ dR ctxs' hc
      obtain ⟨hT, hI⟩ := nfaToDfa_ok nfa dR hnd
      have hL : L = [] := by
        cases L with
        | nil => rfl
        | cons x L =>
          obtain ⟨full, hf, _⟩ := hinv.ok x List.mem_cons_self
          have := hinv.init full hf
          rw [← hn] at this
          have hfind' : (g.entries.find? (·.1 = name)).isSome = false := hfind
          rw [this] at hfind'
          cases hfind'
      subst hL
      intro x hx'
      rw [List.nil_append, List.mem_singleton] at hx'
      subst hx'
      refine ⟨dR, rfl, 0, rules, ?_, hI, hcore, fun hR => extN_block HV rules nfa dR hbuild hnd hR⟩
      show (name, 0) ∈ g.entries ++ [(name, 0)]
      exact List.mem_append_right _ (List.mem_singleton.mpr rfl)
  · rw [if_neg hn] at hp
    cases hd : g.initDfa with
    | none => rw [hd] at hp; cases hp
    | some d0 =>
      rw [hd] at hp
      cases hc : compileRuleSet rs g.bindings g.ctxs with
      | error e => rw [hc] at hp; cases hp
      | ok q =>
        obtain ⟨dR, ctxs'⟩ := q
        rw [hc] at hp
        cases hp
        obtain ⟨rules, nfa, hcore, hbuild, hnd⟩ := compileRuleSet_core rs _ _ dR ctxs' hc
        obtain ⟨hT, hI⟩ := nfaToDfa_ok nfa dR hnd
        have hT0 := hinv.tir d0 hd
        have h0 : 0 < dR.length := st_initial_lt hI
        have hsub : ∀ p ∈ g.entries, p ∈ g.entries ++ [(name, (addDfa d0 dR).2)] :=
          fun p hp => List.mem_append_left _ hp
        intro x hx'
        refine ⟨(addDfa d0 dR).1, rfl, ?_⟩
        rcases List.mem_append.mp hx' with hx' | hx'
        · obtain ⟨full, hf, hr⟩ := hx x hx'
          rw [hd] at hf
          cases hf
          exact rsx_mono hr hT0 (addDfa_agree d0 dR) hsub
        · rw [List.mem_singleton] at hx'
          subst hx'
          refine ⟨d0.length, rules, ?_, ?_, hcore,
            fun hR => extN_addDfa_right d0 dR hT h0 (extN_block HV rules nfa dR hbuild hnd hR)⟩
          · show (name, d0.length) ∈ g.entries ++ [(name, (addDfa d0 dR).2)]
            exact List.mem_append_right _ (List.mem_singleton.mpr rfl)
          · have := (addDfa_spec d0 dR).2.2.2 0 h0
            rw [Nat.add_zero] at this
            rw [this]
            exact hI

theorem fold_x (HV : ViableHyp) (items : LexerDef) : ∀ (L : List Scoped) (g g' : GlueState),
    items.foldlM lexStep g = .ok g' → GInv L g → XInv L g →
    XInv (L ++ scopedRuleSets items g.bindings g.ctxs.length) g' := by
  induction items with
  | nil =>
    intro L g g' h hinv hx
    rw [List.foldlM_nil] at h
    cases h
    rw [scopedRuleSets, List.append_nil]
    exact hx
  | cons item rest ih =>
    intro L g g' h hinv hx
    rw [List.foldlM_cons] at h
    obtain ⟨g1, h1, h2⟩ := Thompson.bind_ok h
    cases item with
    | errorType =>
      rw [lexStep_errorType] at h1
      by_cases he : g.errorType = true
      · rw [if_pos he] at h1; cases h1
      · rw [if_neg he] at h1
        cases h1
        rw [scopedRuleSets]
        exact ih L { g with errorType := true } g' h2 (ginv_congr hinv rfl rfl) (xinv_congr hx rfl rfl)
    | rb x =>
      cases x with
      | binding n re =>
        rw [lexStep_binding] at h1
        by_cases hb : (g.bindings.find? n).isSome = true
        · rw [if_pos hb] at h1; cases h1
        · rw [if_neg hb] at h1
          cases h1
          rw [scopedRuleSets]
          exact ih L { g with bindings := g.bindings ++ [(n, re)] } g' h2 (ginv_congr hinv rfl rfl)
            (xinv_congr hx rfl rfl)
      | rule r =>
        rw [lexStep_rule] at h1
        cases hc : compileSingleRule g.unnamed r g.bindings g.ctxs with
        | error e => rw [hc] at h1; cases h1
        | ok p =>
          obtain ⟨n1, c1⟩ := p
          rw [hc] at h1
          cases h1
          rw [scopedRuleSets]
          have := ih L { g with unnamed := n1, ctxs := c1 } g' h2 (ginv_congr hinv rfl rfl) (xinv_congr hx rfl rfl)
          rw [show ({ g with unnamed := n1, ctxs := c1 } : GlueState).ctxs.length =
            g.ctxs.length + (if r.ctx.isSome = true then 1 else 0) from singleRule_ctxs hc] at this
          exact this
    | ruleSet name rs =>
      obtain ⟨hg1, hb1, hc1⟩ := step_ruleSet L g g1 name rs h1 hinv
      have hx1 := step_ruleSet_x HV L g g1 name rs h1 hinv hx
      have := ih _ g1 g' h2 hg1 hx1
      rw [hb1, hc1, List.append_assoc] at this
      rw [scopedRuleSets]
      exact this

/-! ## Rule-set names are distinct -/

theorem lexStep_names (g : GlueState) (item : TopItem) (g' : GlueState) (h : lexStep g item = .ok g')
    (hn : (g.entries.map (·.1)).Nodup) : (g'.entries.map (·.1)).Nodup := by
  cases item with
  | errorType =>
    rw [lexStep_errorType] at h
    by_cases he : g.errorType = true
    · rw [if_pos he] at h; cases h
    · rw [if_neg he] at h; cases h; exact hn
  | rb x =>
    cases x with
    | binding n re =>
      rw [lexStep_binding] at h
      by_cases hb : (g.bindings.find? n).isSome = true
      · rw [if_pos hb] at h; cases h
      · rw [if_neg hb] at h; cases h; exact hn
    | rule r =>
      rw [lexStep_rule] at h
      cases hc : compileSingleRule g.unnamed r g.bindings g.ctxs with
      | error e => rw [hc] at h; cases h
      | ok p => rw [hc] at h; cases h; exact hn
  | ruleSet name rules =>
    obtain ⟨p, hp, hfind, rfl⟩ := lexStep_ruleSet_ok g g' name rules h
    obtain ⟨h1, _⟩ := lexRS_ok g name rules p hp
    show ((p.1.entries ++ [(name, p.2)]).map (·.1)).Nodup
    rw [h1] at hfind ⊢
    rw [List.map_append, List.nodup_append]
    refine ⟨hn, by simp, ?_⟩
    intro a ha b hb
    simp only [List.map_cons, List.map_nil, List.mem_singleton] at hb
    subst hb
    intro hab
    subst hab
    obtain ⟨q, hq, hqa⟩ := List.mem_map.mp ha
    have hnone : g.entries.find? (·.1 = q.1) = none := by
      cases hf : g.entries.find? (·.1 = q.1) with
      | none => rfl
      | some v => rw [← hqa, hf] at hfind; cases hfind
    have := List.find?_eq_none.mp hnone q hq
    simp at this

theorem fold_names (items : LexerDef) (g g' : GlueState) (h : items.foldlM lexStep g = .ok g')
    (hn : (g.entries.map (·.1)).Nodup) : (g'.entries.map (·.1)).Nodup :=
  foldlM_inv lexStep (fun g => (g.entries.map (·.1)).Nodup) items
    (fun g a g' _ hg hs => lexStep_names g a g' hs hg) g hn g' h

theorem names_unique {l : List (String × Nat)} (hn : (l.map (·.1)).Nodup) {n : String} {e e' : Nat}
    (h1 : (n, e) ∈ l) (h2 : (n, e') ∈ l) : e = e' := by
  have := inj_of_nodup_map (fun p : String × Nat => p.1) hn h1 h2 rfl
  exact congrArg Prod.snd this

/-! ## Assembly -/

theorem entryExt_of_extN (d : DFA Nat) (entries : List (String × Nat)) (d' : DFA Trans) (entries' : List (String × Nat))
    (h : simplify d entries = .ok (d', entries')) (hT : TargetsInRange d) (e0 : Nat)
    (hi : (d.st e0).initial = true) {rules : List CoreRule} (hE : ExtN d e0 rules) :
    EntryExt d' (newIdx d e0) rules := by
  intro w hw
  rw [ext_simplify d entries d' entries' h hT e0 hi w]
  exact hE w hw

/-- definitions with rule sets: the names of the entries are distinct, and every rule set has an entry from
which the machine is in a state after a non-empty word exactly when the word is extendable -/
theorem compile_ext_named (HV : ViableHyp) (items : LexerDef) (c : Compiled) (h : compileLexer items = .ok c)
    (hrs : hasRuleSets items = true) :
    (∀ n e e', (n, e) ∈ c.entries → (n, e') ∈ c.entries → e = e') ∧
    ∀ name rs b k, (name, rs, b, k) ∈ allRuleSets items →
      ∃ e rules, (name, e) ∈ c.entries ∧ coreRules rs b k = some rules ∧
        (RulesHyp rules → EntryExt c.dfa e rules) := by
  have hall : allRuleSets items = scopedRuleSets items [] 0 := allRuleSets_named hrs
  rw [compileLexer_eq] at h
  by_cases hm : mixedRules items = true
  · rw [if_pos hm] at h; cases h
  · rw [if_neg hm] at h
    obtain ⟨g, hfold, hpost⟩ := Thompson.bind_ok h
    have hinv0 : GInv [] ({} : GlueState) :=
      ⟨fun full hf => (by cases hf), fun full hf => (by cases hf), fun x hx => (by cases hx)⟩
    have hx0 : XInv [] ({} : GlueState) := fun x hx => (by cases hx)
    have hinv := fold_lang items [] {} g hfold hinv0
    have hx := fold_x HV items [] {} g hfold hinv0 hx0
    have hnames := fold_names items {} g hfold List.nodup_nil
    rw [List.nil_append] at hinv hx
    have hbind : ({} : GlueState).bindings = [] := rfl
    have hctx : ({} : GlueState).ctxs.length = 0 := rfl
    rw [hbind, hctx, ← hall] at hinv hx
    obtain ⟨x0, hx0'⟩ := scoped_nonempty items [] 0 hrs
    rw [← hall] at hx0'
    obtain ⟨full0, hd, _⟩ := hinv.ok x0 hx0'
    have hT0 := hinv.tir full0 hd
    obtain ⟨full, simp, entries, hu, h3, rfl⟩ := lexPost_ok g c hpost full0 hd
    obtain ⟨hA, hlen⟩ := updateBacktracks_agree full0 full hT0 hu
    have hT := targets_agree hT0 hA hlen
    obtain ⟨hent, _, _⟩ := simplify_spec full g.entries simp entries h3 hT
    constructor
    · intro n e e' h1 h2
      have hn' : (entries.map (·.1)).Nodup := by
        rw [hent, List.map_map]
        exact hnames
      exact names_unique hn' h1 h2
    · intro name rs b k hmem
      obtain ⟨full0', hd', hr⟩ := hx _ hmem
      rw [hd] at hd'
      cases hd'
      obtain ⟨e0, rules, m1, m2, m3, m4⟩ := rsx_mono hr hT0 hA (fun p hp => hp)
      refine ⟨newIdx full e0, rules, ?_, m3, fun hR => ?_⟩
      · show (name, newIdx full e0) ∈ entries
        rw [hent]
        exact List.mem_map.mpr ⟨(name, e0), m1, rfl⟩
      · exact entryExt_of_extN full g.entries simp entries h3 hT e0 m2 (m4 hR)

/-- definitions without rule sets: the same from state 0 for the top-level rules -/
theorem compile_ext_unnamed (HV : ViableHyp) (items : LexerDef) (c : Compiled) (h : compileLexer items = .ok c)
    (hno : hasRuleSets items = false) :
    ∃ rules, coreRules (topRules items) [] 0 = some rules ∧ (RulesHyp rules → EntryExt c.dfa 0 rules) := by
  obtain ⟨_, _, rules, nfa, d0, hr, hb, hn, hu, hs⟩ := compileLexer_unnamed_core items c h hno
  obtain ⟨hT0, hI0⟩ := nfaToDfa_ok nfa d0 hn
  obtain ⟨hA, hlen⟩ := updateBacktracks_agree d0 c.full hT0 hu
  have hT := targets_agree hT0 hA hlen
  have h0 : 0 < d0.length := st_initial_lt hI0
  have hI : (c.full.st 0).initial = true := by
    rw [(hA 0 h0).2]
    exact hI0
  refine ⟨rules, hr, fun hR => ?_⟩
  have hE := extN_agree hT0 hA h0 (extN_block HV rules nfa d0 hb hn hR)
  have := entryExt_of_extN c.full [] c.dfa c.entries hs hT 0 hI hE
  rw [MachineOKCompile.newIdx_zero] at this
  exact this

end NextEqSpec
end Lexgen
