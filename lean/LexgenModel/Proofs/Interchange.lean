import LexgenModel.Proofs.Capstone
/-!
# Interchangeability of rule sets with the same denotations

The reference lexer (`selectRef`, `errAdvance`) looks at the regexes of a rule set only through their
denotations `den`: two rule lists that agree rule by rule on the action, the right-context number and the
denotation of the regex give the same maximal-munch selection and the same `InvalidToken` skip.
-/
namespace Lexgen

/-- two rule lists with the same actions and right-context numbers, rule by rule, and pairwise equal denotations -/
def RulesEquiv (rs1 rs2 : List CoreRule) : Prop :=
  rs1.map (fun r => (r.value, r.ctx)) = rs2.map (fun r => (r.value, r.ctx)) ∧
  ∀ i (h1 : i < rs1.length) (h2 : i < rs2.length) (w : List Sym), den rs1[i].re w ↔ den rs2[i].re w

/-! ## Structure of `RulesEquiv` -/

/-- two rules that are interchangeable: same action, same right-context number, same denotation -/
def RuleEquiv (a b : CoreRule) : Prop :=
  a.value = b.value ∧ a.ctx = b.ctx ∧ ∀ w, den a.re w ↔ den b.re w

theorem RuleEquiv.refl (a : CoreRule) : RuleEquiv a a := ⟨rfl, rfl, fun _ => Iff.rfl⟩

theorem RuleEquiv.symm {a b : CoreRule} (h : RuleEquiv a b) : RuleEquiv b a :=
  ⟨h.1.symm, h.2.1.symm, fun w => (h.2.2 w).symm⟩

theorem RuleEquiv.trans {a b c : CoreRule} (h : RuleEquiv a b) (h' : RuleEquiv b c) : RuleEquiv a c :=
  ⟨h.1.trans h'.1, h.2.1.trans h'.2.1, fun w => (h.2.2 w).trans (h'.2.2 w)⟩

theorem rulesEquiv_length {rs1 rs2 : List CoreRule} (h : RulesEquiv rs1 rs2) : rs1.length = rs2.length := by
  have := congrArg List.length h.1
  simpa using this

theorem rulesEquiv_nil : RulesEquiv [] [] :=
  ⟨rfl, fun i h1 => absurd h1 (Nat.not_lt_zero i)⟩

theorem rulesEquiv_nil_left {rs : List CoreRule} (h : RulesEquiv [] rs) : rs = [] := by
  have := rulesEquiv_length h
  cases rs with
  | nil => rfl
  | cons a l => simp at this

theorem rulesEquiv_nil_right {rs : List CoreRule} (h : RulesEquiv rs []) : rs = [] := by
  have := rulesEquiv_length h
  cases rs with
  | nil => rfl
  | cons a l => simp at this

theorem rulesEquiv_cons_iff (a b : CoreRule) (l1 l2 : List CoreRule) :
    RulesEquiv (a :: l1) (b :: l2) ↔ RuleEquiv a b ∧ RulesEquiv l1 l2 := by
  constructor
  · rintro ⟨hm, hd⟩
    simp only [List.map_cons, List.cons.injEq, Prod.mk.injEq] at hm
    obtain ⟨⟨hv, hc⟩, hm⟩ := hm
    refine ⟨⟨hv, hc, fun w => ?_⟩, hm, fun i h1 h2 w => ?_⟩
    · exact hd 0 (Nat.zero_lt_succ _) (Nat.zero_lt_succ _) w
    · exact hd (i + 1) (Nat.succ_lt_succ h1) (Nat.succ_lt_succ h2) w
  · rintro ⟨⟨hv, hc, hw⟩, hm, hd⟩
    refine ⟨?_, fun i h1 h2 w => ?_⟩
    · simp only [List.map_cons, hv, hc, hm]
    · cases i with
      | zero => exact hw w
      | succ i => exact hd i (Nat.lt_of_succ_lt_succ h1) (Nat.lt_of_succ_lt_succ h2) w

theorem RulesEquiv.refl (rs : List CoreRule) : RulesEquiv rs rs :=
  ⟨rfl, fun _ _ _ _ => Iff.rfl⟩

theorem RulesEquiv.symm {rs1 rs2 : List CoreRule} (h : RulesEquiv rs1 rs2) : RulesEquiv rs2 rs1 :=
  ⟨h.1.symm, fun i h1 h2 w => (h.2 i h2 h1 w).symm⟩

theorem RulesEquiv.trans {rs1 rs2 rs3 : List CoreRule} (h : RulesEquiv rs1 rs2) (h' : RulesEquiv rs2 rs3) :
    RulesEquiv rs1 rs3 :=
  ⟨h.1.trans h'.1, fun i h1 h3 w =>
    have h2 : i < rs2.length := by rw [← rulesEquiv_length h]; exact h1
    (h.2 i h1 h2 w).trans (h'.2 i h2 h3 w)⟩

theorem rulesEquiv_append {l1 l2 m1 m2 : List CoreRule} (h : RulesEquiv l1 l2) (h' : RulesEquiv m1 m2) :
    RulesEquiv (l1 ++ m1) (l2 ++ m2) := by
  induction l1 generalizing l2 with
  | nil =>
    rw [rulesEquiv_nil_left h]
    exact h'
  | cons a l1 ih =>
    cases l2 with
    | nil => exact absurd (rulesEquiv_nil_right h) (List.cons_ne_nil _ _)
    | cons b l2 =>
      rw [rulesEquiv_cons_iff] at h
      simp only [List.cons_append]
      rw [rulesEquiv_cons_iff]
      exact ⟨h.1, ih h.2⟩

/-! ## The selection -/

theorem matchingAccs_congr {rs1 rs2 : List CoreRule} (h : RulesEquiv rs1 rs2) (w : List Sym) :
    matchingAccs rs1 w = matchingAccs rs2 w := by
  induction rs1 generalizing rs2 with
  | nil =>
    rw [rulesEquiv_nil_left h]
  | cons a l1 ih =>
    cases rs2 with
    | nil => exact absurd (rulesEquiv_nil_right h) (List.cons_ne_nil _ _)
    | cons b l2 =>
      rw [rulesEquiv_cons_iff] at h
      obtain ⟨⟨hv, hc, hw⟩, hl⟩ := h
      have ih' := ih hl
      unfold matchingAccs at ih' ⊢
      by_cases hd : den a.re w
      · have hd' : den b.re w := (hw w).mp hd
        simp only [List.filter_cons, hd, hd', decide_true, if_true, List.map_cons, ih', hv, hc]
      · have hd' : ¬ den b.re w := fun h => hd ((hw w).mpr h)
        simp only [List.filter_cons, hd, hd', decide_false, Bool.false_eq_true, if_false, ih']

theorem firstLang_congr (ctxAt1 ctxAt2 : Nat → Regex)
    (hc : ∀ i rest, CtxLang (ctxAt1 i) rest ↔ CtxLang (ctxAt2 i) rest) (rest : List Nat) (accs : List Acc) :
    firstLang ctxAt1 rest accs = firstLang ctxAt2 rest accs := by
  induction accs with
  | nil => rfl
  | cons a more ih =>
    cases hctx : a.ctx with
    | none => simp only [firstLang, hctx]
    | some i =>
      by_cases h : CtxLang (ctxAt1 i) rest
      · have h' : CtxLang (ctxAt2 i) rest := (hc i rest).mp h
        simp only [firstLang, hctx, h, h', if_true]
      · have h' : ¬ CtxLang (ctxAt2 i) rest := fun h2 => h ((hc i rest).mpr h2)
        simp only [firstLang, hctx, h, h', if_false, ih]

theorem langCand_congr {rs1 rs2 : List CoreRule} (ctxAt1 ctxAt2 : Nat → Regex) (h : RulesEquiv rs1 rs2)
    (hc : ∀ i rest, CtxLang (ctxAt1 i) rest ↔ CtxLang (ctxAt2 i) rest) (iter : List Nat) (n a : Nat) (e : Bool) :
    LangCand rs1 ctxAt1 iter n a e ↔ LangCand rs2 ctxAt2 iter n a e := by
  unfold LangCand
  rw [matchingAccs_congr h, matchingAccs_congr h, firstLang_congr ctxAt1 ctxAt2 hc, firstLang_congr ctxAt1 ctxAt2 hc]

theorem selects_congr {rs1 rs2 : List CoreRule} (ctxAt1 ctxAt2 : Nat → Regex) (h : RulesEquiv rs1 rs2)
    (hc : ∀ i rest, CtxLang (ctxAt1 i) rest ↔ CtxLang (ctxAt2 i) rest) (iter : List Nat) (n a : Nat) (e : Bool) :
    Selects rs1 ctxAt1 iter n a e ↔ Selects rs2 ctxAt2 iter n a e := by
  unfold Selects
  constructor
  · rintro ⟨h1, h2⟩
    exact ⟨(langCand_congr ctxAt1 ctxAt2 h hc iter n a e).mp h1,
      fun n' a' e' h' => h2 n' a' e' ((langCand_congr ctxAt1 ctxAt2 h hc iter n' a' e').mpr h')⟩
  · rintro ⟨h1, h2⟩
    exact ⟨(langCand_congr ctxAt1 ctxAt2 h hc iter n a e).mpr h1,
      fun n' a' e' h' => h2 n' a' e' ((langCand_congr ctxAt1 ctxAt2 h hc iter n' a' e').mp h')⟩

/-- the reference lexer looks at the regexes of a rule set only through their denotations: the maximal-munch
selection … -/
theorem selectRef_congr (rs1 rs2 : List CoreRule) (ctxAt1 ctxAt2 : Nat → Regex) (h : RulesEquiv rs1 rs2)
    (hc : ∀ i rest, CtxLang (ctxAt1 i) rest ↔ CtxLang (ctxAt2 i) rest) (iter : List Nat) :
    selectRef rs1 ctxAt1 iter = selectRef rs2 ctxAt2 iter := by
  cases h1 : selectRef rs1 ctxAt1 iter with
  | none =>
    symm
    rw [selectRef_none] at h1 ⊢
    intro n a e hcand
    exact h1 n a e ((langCand_congr ctxAt1 ctxAt2 h hc iter n a e).mpr hcand)
  | some p =>
    obtain ⟨n, a, e⟩ := p
    symm
    rw [selectRef_some] at h1 ⊢
    exact (selects_congr ctxAt1 ctxAt2 h hc iter n a e).mp h1

/-- same right contexts: only the rules change -/
theorem selectRef_congr_rules (rs1 rs2 : List CoreRule) (ctxAt : Nat → Regex) (h : RulesEquiv rs1 rs2) (iter : List Nat) :
    selectRef rs1 ctxAt iter = selectRef rs2 ctxAt iter :=
  selectRef_congr rs1 rs2 ctxAt ctxAt h (fun _ _ => Iff.rfl) iter

/-- right contexts with the same denotations are interchangeable as well -/
theorem ctxLang_congr {c1 c2 : Regex} (h : ∀ w, den c1 w ↔ den c2 w) (rest : List Nat) :
    CtxLang c1 rest ↔ CtxLang c2 rest := by
  unfold CtxLang
  constructor
  · rintro ⟨j, hj⟩
    exact ⟨j, (h _).mp hj⟩
  · rintro ⟨j, hj⟩
    exact ⟨j, (h _).mpr hj⟩

/-! ## The error skip -/

/-- some regex of the list denotes a word that starts with the first `j` characters of the input -/
def ViableAt (res : List Regex) (iter : List Nat) (j : Nat) : Prop :=
  ∃ r ∈ res, ∃ v : List Sym, den r ((iter.take j).map Sym.ch ++ v)

/-- some regex of the list denotes a word that starts with the first `j` characters of the input and at least
one more symbol -/
def ExtendableAt (res : List Regex) (iter : List Nat) (j : Nat) : Prop :=
  ∃ r ∈ res, ∃ (x : Sym) (v : List Sym), den r ((iter.take j).map Sym.ch ++ x :: v)

/-- the three properties `viableRef_spec` lists for the first component of `viableRef` -/
def IsViableLen (res : List Regex) (iter : List Nat) (k : Nat) : Prop :=
  k ≤ iter.length ∧ (∀ j, 0 < j → j ≤ k → ViableAt res iter j) ∧ (k < iter.length → ¬ ViableAt res iter (k + 1))

/-- … and they determine it -/
theorem isViableLen_unique {res : List Regex} {iter : List Nat} {k1 k2 : Nat}
    (h1 : IsViableLen res iter k1) (h2 : IsViableLen res iter k2) : k1 = k2 := by
  obtain ⟨a1, b1, c1⟩ := h1
  obtain ⟨a2, b2, c2⟩ := h2
  rcases Nat.lt_trichotomy k1 k2 with hlt | heq | hgt
  · exact absurd (b2 (k1 + 1) (Nat.succ_pos _) hlt) (c1 (by omega))
  · exact heq
  · exact absurd (b1 (k2 + 1) (Nat.succ_pos _) hgt) (c2 (by omega))

theorem viableRef_isViableLen (res : List Regex) (hne : ∀ r ∈ res, NoEmptyPieces r) (iter : List Nat) :
    IsViableLen res iter (viableRef res iter).1 := by
  obtain ⟨a, b, c, _⟩ := viableRef_spec res hne iter
  exact ⟨a, b, c⟩

theorem viableRef_extendable (res : List Regex) (hne : ∀ r ∈ res, NoEmptyPieces r) (iter : List Nat) :
    ((viableRef res iter).2.any fun r => aliveR r && hasWordR r) = true ↔
      ExtendableAt res iter (viableRef res iter).1 :=
  (viableRef_spec res hne iter).2.2.2

/-- lists of regexes with pairwise equal denotations -/
def DenEquiv (l1 l2 : List Regex) : Prop :=
  l1.length = l2.length ∧ ∀ i (h1 : i < l1.length) (h2 : i < l2.length) (w : List Sym), den l1[i] w ↔ den l2[i] w

theorem DenEquiv.symm {l1 l2 : List Regex} (h : DenEquiv l1 l2) : DenEquiv l2 l1 :=
  ⟨h.1.symm, fun i h1 h2 w => (h.2 i h2 h1 w).symm⟩

theorem denEquiv_of_rulesEquiv {rs1 rs2 : List CoreRule} (h : RulesEquiv rs1 rs2) :
    DenEquiv (rs1.map (·.re)) (rs2.map (·.re)) := by
  refine ⟨by simp only [List.length_map]; exact rulesEquiv_length h, fun i h1 h2 w => ?_⟩
  simp only [List.length_map] at h1 h2
  simp only [List.getElem_map]
  exact h.2 i h1 h2 w

theorem denEquiv_exists {l1 l2 : List Regex} (h : DenEquiv l1 l2) (P : List Sym → Prop) :
    (∃ r ∈ l1, ∃ w, P w ∧ den r w) → ∃ r ∈ l2, ∃ w, P w ∧ den r w := by
  rintro ⟨r, hr, w, hP, hw⟩
  obtain ⟨i, hi, rfl⟩ := List.getElem_of_mem hr
  have hi2 : i < l2.length := h.1 ▸ hi
  exact ⟨l2[i], List.getElem_mem hi2, w, hP, (h.2 i hi hi2 w).mp hw⟩

theorem viableAt_congr {l1 l2 : List Regex} (h : DenEquiv l1 l2) (iter : List Nat) (j : Nat) :
    ViableAt l1 iter j ↔ ViableAt l2 iter j := by
  have key : ∀ {l1 l2 : List Regex}, DenEquiv l1 l2 → ViableAt l1 iter j → ViableAt l2 iter j := by
    intro l1 l2 h hv
    obtain ⟨r, hr, v, hv⟩ := hv
    obtain ⟨r', hr', w, ⟨v', rfl⟩, hw⟩ :=
      denEquiv_exists h (fun w => ∃ v, w = (iter.take j).map Sym.ch ++ v) ⟨r, hr, _, ⟨v, rfl⟩, hv⟩
    exact ⟨r', hr', v', hw⟩
  exact ⟨key h, key h.symm⟩

theorem extendableAt_congr {l1 l2 : List Regex} (h : DenEquiv l1 l2) (iter : List Nat) (j : Nat) :
    ExtendableAt l1 iter j ↔ ExtendableAt l2 iter j := by
  have key : ∀ {l1 l2 : List Regex}, DenEquiv l1 l2 → ExtendableAt l1 iter j → ExtendableAt l2 iter j := by
    intro l1 l2 h hv
    obtain ⟨r, hr, x, v, hv⟩ := hv
    obtain ⟨r', hr', w, ⟨x', v', rfl⟩, hw⟩ :=
      denEquiv_exists h (fun w => ∃ x v, w = (iter.take j).map Sym.ch ++ x :: v) ⟨r, hr, _, ⟨x, v, rfl⟩, hv⟩
    exact ⟨r', hr', x', v', hw⟩
  exact ⟨key h, key h.symm⟩

theorem isViableLen_congr {l1 l2 : List Regex} (h : DenEquiv l1 l2) (iter : List Nat) (k : Nat) :
    IsViableLen l1 iter k → IsViableLen l2 iter k := by
  rintro ⟨a, b, c⟩
  exact ⟨a, fun j h0 hj => (viableAt_congr h iter j).mp (b j h0 hj),
    fun hk hv => c hk ((viableAt_congr h iter (k + 1)).mpr hv)⟩

/-- the skip of an `InvalidToken` depends on the regexes only through their denotations -/
theorem errAdvance_congr_den (l1 l2 : List Regex) (h : DenEquiv l1 l2)
    (h1 : ∀ r ∈ l1, NoEmptyPieces r) (h2 : ∀ r ∈ l2, NoEmptyPieces r) (iter : List Nat) :
    errAdvance l1 iter = errAdvance l2 iter := by
  have hk : (viableRef l1 iter).1 = (viableRef l2 iter).1 :=
    isViableLen_unique (isViableLen_congr h iter _ (viableRef_isViableLen l1 h1 iter)) (viableRef_isViableLen l2 h2 iter)
  have hany : ((viableRef l1 iter).2.any fun r => aliveR r && hasWordR r) =
      ((viableRef l2 iter).2.any fun r => aliveR r && hasWordR r) := by
    rw [Bool.eq_iff_iff, viableRef_extendable l1 h1, viableRef_extendable l2 h2, hk]
    exact extendableAt_congr h iter _
  unfold errAdvance
  simp only [hk, hany]

/-- … and the amount of input an `InvalidToken` skips (for rule sets without empty pieces) -/
theorem errAdvance_congr (rs1 rs2 : List CoreRule) (h : RulesEquiv rs1 rs2)
    (h1 : ∀ r ∈ rs1, NoEmptyPieces r.re) (h2 : ∀ r ∈ rs2, NoEmptyPieces r.re) (iter : List Nat) :
    errAdvance (rs1.map (·.re)) iter = errAdvance (rs2.map (·.re)) iter := by
  apply errAdvance_congr_den _ _ (denEquiv_of_rulesEquiv h)
  · intro r hr
    obtain ⟨r0, hr0, rfl⟩ := List.mem_map.mp hr
    exact h1 r0 hr0
  · intro r hr
    obtain ⟨r0, hr0, rfl⟩ := List.mem_map.mp hr
    exact h2 r0 hr0

/-! ## Changing one rule -/

/-- replacing the regex of ONE rule of a rule list by a regex with the same denotation -/
theorem rulesEquiv_replace (pre post : List CoreRule) (r : CoreRule) (re' : Regex)
    (h : ∀ w, den r.re w ↔ den re' w) :
    RulesEquiv (pre ++ r :: post) (pre ++ { r with re := re' } :: post) :=
  rulesEquiv_append (RulesEquiv.refl pre)
    ((rulesEquiv_cons_iff _ _ _ _).mpr ⟨⟨rfl, rfl, h⟩, RulesEquiv.refl post⟩)

/-- the same, by position: the regex of rule number `i` is replaced -/
theorem rulesEquiv_set (rs : List CoreRule) (i : Nat) (hi : i < rs.length) (re' : Regex)
    (h : ∀ w, den rs[i].re w ↔ den re' w) :
    RulesEquiv rs (rs.set i { rs[i] with re := re' }) := by
  refine ⟨?_, fun j h1 h2 w => ?_⟩
  · apply List.ext_getElem
    · simp only [List.length_map, List.length_set]
    · intro j h1 h2
      simp only [List.getElem_map, List.getElem_set]
      by_cases hij : i = j
      · subst hij
        simp only [if_true]
      · simp only [hij, if_false]
  · simp only [List.getElem_set]
    by_cases hij : i = j
    · subst hij
      simpa only [if_true] using h w
    · simp only [hij, if_false]

/-- the selection after replacing the regex of one rule by a regex with the same denotation -/
theorem selectRef_replace (pre post : List CoreRule) (r : CoreRule) (re' : Regex)
    (h : ∀ w, den r.re w ↔ den re' w) (ctxAt : Nat → Regex) (iter : List Nat) :
    selectRef (pre ++ r :: post) ctxAt iter = selectRef (pre ++ { r with re := re' } :: post) ctxAt iter :=
  selectRef_congr_rules _ _ ctxAt (rulesEquiv_replace pre post r re' h) iter

/-- the error skip after replacing the regex of one rule by a regex with the same denotation (`NoEmptyPieces` is
syntactic, hence also needed of the new regex) -/
theorem errAdvance_replace (pre post : List CoreRule) (r : CoreRule) (re' : Regex)
    (h : ∀ w, den r.re w ↔ den re' w) (hne : ∀ x ∈ pre ++ r :: post, NoEmptyPieces x.re) (hne' : NoEmptyPieces re')
    (iter : List Nat) :
    errAdvance ((pre ++ r :: post).map (·.re)) iter =
      errAdvance ((pre ++ { r with re := re' } :: post).map (·.re)) iter := by
  apply errAdvance_congr _ _ (rulesEquiv_replace pre post r re' h) hne
  intro x hx
  rcases List.mem_append.mp hx with hx | hx
  · exact hne x (List.mem_append.mpr (Or.inl hx))
  · rcases List.mem_cons.mp hx with hx | hx
    · subst hx
      exact hne'
    · exact hne x (List.mem_append.mpr (Or.inr (List.mem_cons_of_mem _ hx)))

/-! ## Instances: regexes with the same denotation -/

/-- `r+` is `r r*` -/
theorem den_plus_unfold (r : Regex) (w : List Sym) : den (.plus r) w ↔ den (.cat r (.star r)) w := Iff.rfl

/-- `a | b` is `b | a` -/
theorem den_alt_comm (a b : Regex) (w : List Sym) : den (.alt a b) w ↔ den (.alt b a) w := by
  simp only [den]
  exact Or.comm

/-- `(a | b) | c` is `a | (b | c)` -/
theorem den_alt_assoc (a b c : Regex) (w : List Sym) : den (.alt (.alt a b) c) w ↔ den (.alt a (.alt b c)) w := by
  simp only [den]
  exact or_assoc

/-- `r?` is `r | ε`, with the empty word written `.star (.str [])` (`epsR`; `Regex` has no constructor for it) -/
theorem den_opt_unfold (r : Regex) (w : List Sym) : den (.opt r) w ↔ den (.alt r (.star (.str []))) w := by
  have he : den (.star (.str [])) w ↔ w = [] := by
    show Star (den (.str [])) w ↔ w = []
    apply star_empty
    intro v hv
    exact hv.1 rfl
  show (w = [] ∨ den r w) ↔ (den r w ∨ den (.star (.str [])) w)
  rw [he]
  exact Or.comm

/-- a string literal of at least two characters is its first character followed by the rest. (For `cs = []` the
statement is FALSE: `.str [c]` denotes `[c]` while `.str []` denotes the empty language, so the right-hand side is
empty; see `den_str_single` for that case.) -/
theorem den_str_cons (c : Nat) (cs : List Nat) (hcs : cs ≠ []) (w : List Sym) :
    den (.str (c :: cs)) w ↔ den (.cat (.chr c) (.str cs)) w := by
  simp only [den]
  constructor
  · rintro ⟨_, rfl⟩
    exact ⟨[.ch c], cs.map Sym.ch, rfl, rfl, hcs, rfl⟩
  · rintro ⟨u, v, rfl, rfl, _, rfl⟩
    exact ⟨List.cons_ne_nil _ _, rfl⟩

/-- a one-character string literal is the character -/
theorem den_str_single (c : Nat) (w : List Sym) : den (.str [c]) w ↔ den (.chr c) w := by
  simp only [den]
  constructor
  · rintro ⟨_, rfl⟩
    rfl
  · intro h
    exact ⟨List.cons_ne_nil _ _, h⟩

/-- the restriction `cs ≠ []` of `den_str_cons` is necessary -/
example : ¬ ∀ w, den (.str [97]) w ↔ den (.cat (.chr 97) (.str [])) w := by
  intro h
  have h1 : den (.str [97]) [.ch 97] := ⟨List.cons_ne_nil _ _, rfl⟩
  obtain ⟨_, _, _, _, hne, _⟩ := (h _).mp h1
  exact hne rfl

/-- example of use: `r+` may be written `r r*` in any rule without changing what the reference lexer selects -/
theorem selectRef_plus_unfold (pre post : List CoreRule) (r : Regex) (ctx : Option Nat) (value : Nat)
    (ctxAt : Nat → Regex) (iter : List Nat) :
    selectRef (pre ++ { re := .plus r, ctx := ctx, value := value } :: post) ctxAt iter =
      selectRef (pre ++ { re := .cat r (.star r), ctx := ctx, value := value } :: post) ctxAt iter :=
  selectRef_replace pre post { re := .plus r, ctx := ctx, value := value } (.cat r (.star r))
    (den_plus_unfold r) ctxAt iter

end Lexgen
