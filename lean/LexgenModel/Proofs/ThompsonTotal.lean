import LexgenModel.Spec.Total
import LexgenModel.Proofs.Thompson
/-!
# `add_regex` never trips one of the NFA's own assertions

`addRegex_no_internal`: on any regex, starting from any well-formed NFA, the only errors of `addRegex` are the
user's (unbound variable, unknown built-in, a non-class operand of `#`).

The invariant: every call `addRe r cur cont n` is made with `n.st cur = NState.empty` (the state `cur` is fresh and
untouched), `cur < n.length`, `cont < n.length`; a successful call changes no old state other than `cur`
(`addRe_frame`), so the ε-edges added after a recursive call start in states whose ε-list is known exactly.
-/

set_option linter.unusedSimpArgs false
set_option linter.unusedVariables false
namespace Lexgen
namespace ThompsonTotal
open Thompson (st_ge st_newState length_newState newState_snd st_modify_self st_modify_ne mem_setInsert bind_ok)

theorem bind_error {α β : Type} {x : Except CompileError α} {f : α → Except CompileError β} {e : CompileError}
    (h : (x >>= f) = .error e) : x = .error e ∨ ∃ a, x = .ok a ∧ f a = .error e := by
  cases x with
  | error e' =>
    left
    simp only [bind, Except.bind] at h
    cases h
    rfl
  | ok a => exact Or.inr ⟨a, rfl, h⟩

/-! ## The single transitions -/

theorem addEps_ok (n : NFA) (s t : Nat) (h : t ∉ (n.st s).eps) :
    n.addEmptyTransition s t = .ok (List.modify n s fun st => { st with eps := setInsert t st.eps }) := by
  unfold NFA.addEmptyTransition
  rw [if_neg]
  intro hc
  exact h (List.contains_iff_mem.mp hc)

theorem addEps_frame {n n' : NFA} {s t : Nat} (h : n.addEmptyTransition s t = .ok n') :
    n'.length = n.length ∧ (∀ a, a ≠ s → n'.st a = n.st a) ∧
      (s < n.length → (n'.st s).eps = setInsert t (n.st s).eps) := by
  unfold NFA.addEmptyTransition at h
  split at h
  · cases h
  · cases h
    refine ⟨List.length_modify _ _ _, fun a ha => st_modify_ne n s a _ ha, fun hs => ?_⟩
    rw [st_modify_self n s _ hs]

theorem addAny_ok (n : NFA) (s t : Nat) (h : t ∉ (n.st s).any) :
    n.addAnyTransition s t = .ok (List.modify n s fun st => { st with any := setInsert t st.any }) := by
  unfold NFA.addAnyTransition
  rw [if_neg]
  intro hc
  exact h (List.contains_iff_mem.mp hc)

theorem addEoi_ok (n : NFA) (s t : Nat) (h : t ∉ (n.st s).eoi) :
    n.addEoiTransition s t = .ok (List.modify n s fun st => { st with eoi := setInsert t st.eoi }) := by
  unfold NFA.addEoiTransition
  rw [if_neg]
  intro hc
  exact h (List.contains_iff_mem.mp hc)

theorem addAny_frame {n n' : NFA} {s t : Nat} (h : n.addAnyTransition s t = .ok n') :
    n'.length = n.length ∧ (∀ a, a ≠ s → n'.st a = n.st a) := by
  unfold NFA.addAnyTransition at h
  split at h
  · cases h
  · cases h
    exact ⟨List.length_modify _ _ _, fun a ha => st_modify_ne n s a _ ha⟩

theorem addEoi_frame {n n' : NFA} {s t : Nat} (h : n.addEoiTransition s t = .ok n') :
    n'.length = n.length ∧ (∀ a, a ≠ s → n'.st a = n.st a) := by
  unfold NFA.addEoiTransition at h
  split at h
  · cases h
  · cases h
    exact ⟨List.length_modify _ _ _, fun a ha => st_modify_ne n s a _ ha⟩

theorem addChar_ok (n : NFA) (s c t : Nat) (h : ∀ x ∈ (n.st s).chars, x.1 ≠ c) :
    n.addCharTransition s c t = .ok (List.modify n s fun st => { st with chars := st.chars ++ [(c, [t])] }) := by
  unfold NFA.addCharTransition
  simp only
  have hf : (n.st s).chars.find? (fun e => decide (e.1 = c)) = none := by
    rw [List.find?_eq_none]
    intro x hx
    simpa using h x hx
  rw [hf]

theorem addChar_frame {n n' : NFA} {s c t : Nat} (h : n.addCharTransition s c t = .ok n') :
    n'.length = n.length ∧ (∀ a, a ≠ s → n'.st a = n.st a) := by
  unfold NFA.addCharTransition at h
  simp only at h
  split at h
  · split at h
    · cases h
    · cases h
      exact ⟨List.length_modify _ _ _, fun a ha => st_modify_ne n s a _ ha⟩
  · cases h
    exact ⟨List.length_modify _ _ _, fun a ha => st_modify_ne n s a _ ha⟩

theorem addRange_frame (n : NFA) (s rs re t : Nat) :
    (n.addRangeTransition s rs re t).length = n.length ∧
      (∀ a, a ≠ s → (n.addRangeTransition s rs re t).st a = n.st a) ∧
      ((n.addRangeTransition s rs re t).st s).chars = (n.st s).chars := by
  unfold NFA.addRangeTransition
  refine ⟨List.length_modify _ _ _, fun a ha => st_modify_ne n s a _ ha, ?_⟩
  by_cases hs : s < n.length
  · rw [st_modify_self n s _ hs]
  · rw [st_ge n s (by omega), st_ge _ s (by rw [List.length_modify]; omega)]

theorem addRanges_frame (n : NFA) (s : Nat) (m : RangeMap Unit) (t : Nat) :
    (n.addRangeTransitions s m t).length = n.length ∧
      (∀ a, a ≠ s → (n.addRangeTransitions s m t).st a = n.st a) := by
  unfold NFA.addRangeTransitions
  exact ⟨List.length_modify _ _ _, fun a ha => st_modify_ne n s a _ ha⟩

/-! ## The frame of a successful call (no hypotheses) -/

/-- `n'` extends `n` and among the states of `n` only `cur` changed -/
def Fr (n n' : NFA) (cur : Nat) : Prop :=
  n.length ≤ n'.length ∧ ∀ a, a < n.length → a ≠ cur → n'.st a = n.st a

theorem Fr.refl (n : NFA) (cur : Nat) : Fr n n cur := ⟨Nat.le_refl _, fun _ _ _ => rfl⟩

theorem Fr.newState (n : NFA) (cur : Nat) : Fr n n.newState.1 cur :=
  ⟨by rw [length_newState]; omega, fun a _ _ => st_newState n a⟩

/-- append a step that changes only `c`, which is `cur` or fresh -/
theorem Fr.trans {n n1 n2 : NFA} {cur c : Nat} (f1 : Fr n n1 cur) (f2 : Fr n1 n2 c) (hc : c = cur ∨ n.length ≤ c) :
    Fr n n2 cur := by
  have hl1 := f1.1
  have hl2 := f2.1
  refine ⟨by omega, fun a ha hne => ?_⟩
  rw [f2.2 a (by omega) (by omega), f1.2 a ha hne]

theorem fr_of {n n' : NFA} {s : Nat} (h : n'.length = n.length ∧ (∀ a, a ≠ s → n'.st a = n.st a)) : Fr n n' s :=
  ⟨by omega, fun a _ ha => h.2 a ha⟩

theorem fr_addEps {n n' : NFA} {s t : Nat} (h : n.addEmptyTransition s t = .ok n') : Fr n n' s :=
  fr_of ⟨(addEps_frame h).1, (addEps_frame h).2.1⟩

theorem addStr_frame (cs : List Nat) : ∀ (cur cont : Nat) (n n' : NFA),
    NFA.addStr cs cur cont n = .ok n' → Fr n n' cur := by
  induction cs with
  | nil =>
    intro cur cont n n' h
    simp only [NFA.addStr] at h
    cases h
    exact Fr.refl _ _
  | cons c rest ih =>
    intro cur cont n n' h
    cases rest with
    | nil =>
      simp only [NFA.addStr] at h
      exact fr_of (addChar_frame h)
    | cons c' cs =>
      simp only [NFA.addStr, newState_snd] at h
      obtain ⟨n1, h1, h⟩ := bind_ok h
      have f1 := (Fr.newState n cur).trans (fr_of (addChar_frame h1)) (Or.inl rfl)
      exact f1.trans (ih n.length cont n1 n' h) (Or.inr (Nat.le_refl _))

theorem addSet_frame (items : List CharOrRange) : ∀ (seen : List Nat) (cur cont : Nat) (n n' : NFA),
    NFA.addSet items seen cur cont n = .ok n' → Fr n n' cur := by
  induction items with
  | nil =>
    intro seen cur cont n n' h
    simp only [NFA.addSet] at h
    cases h
    exact Fr.refl _ _
  | cons it items ih =>
    intro seen cur cont n n' h
    cases it with
    | chr c =>
      simp only [NFA.addSet] at h
      by_cases hs : seen.contains c = true
      · rw [if_pos hs] at h
        exact ih seen cur cont n n' h
      · rw [if_neg hs] at h
        obtain ⟨n1, h1, h⟩ := bind_ok h
        exact (fr_of (addChar_frame h1)).trans (ih _ cur cont n1 n' h) (Or.inl rfl)
    | rng s e =>
      simp only [NFA.addSet] at h
      have s1 := addRange_frame n cur s e cont
      exact (fr_of ⟨s1.1, s1.2.1⟩).trans (ih _ cur cont _ n' h) (Or.inl rfl)

theorem addRe_frame (re : Regex) : ∀ (cur cont : Nat) (n n' : NFA),
    NFA.addRe re cur cont n = .ok n' → Fr n n' cur := by
  induction re with
  | builtin name =>
    intro cur cont n n' h
    simp only [NFA.addRe] at h
    cases hb : builtinRanges name with
    | none => rw [hb] at h; cases h
    | some rs =>
      rw [hb] at h
      simp only [Except.ok.injEq] at h
      subst h
      exact fr_of (addRanges_frame n cur _ cont)
  | var name =>
    intro cur cont n n' h
    simp only [NFA.addRe] at h
    cases h
  | chr c =>
    intro cur cont n n' h
    simp only [NFA.addRe] at h
    exact fr_of (addChar_frame h)
  | str cs =>
    intro cur cont n n' h
    simp only [NFA.addRe] at h
    exact addStr_frame cs cur cont n n' h
  | set items =>
    intro cur cont n n' h
    simp only [NFA.addRe] at h
    exact addSet_frame items [] cur cont n n' h
  | star r ih =>
    intro cur cont n n' h
    simp only [NFA.addRe, newState_snd, length_newState] at h
    obtain ⟨n1, h1, h⟩ := bind_ok h
    obtain ⟨n2, h2, h⟩ := bind_ok h
    obtain ⟨n3, h3, h⟩ := bind_ok h
    obtain ⟨n4, h4, h⟩ := bind_ok h
    have hl := length_newState n
    have f0 : Fr n n.newState.1.newState.1 cur :=
      (Fr.newState n cur).trans (Fr.newState _ cur) (Or.inl rfl)
    have f1 := f0.trans (ih _ _ _ n1 h1) (Or.inr (Nat.le_refl _))
    have f2 := f1.trans (fr_addEps h2) (Or.inl rfl)
    have f3 := f2.trans (fr_addEps h3) (Or.inl rfl)
    have f4 := f3.trans (fr_addEps h4) (Or.inr (by omega))
    exact f4.trans (fr_addEps h) (Or.inr (by omega))
  | plus r ih =>
    intro cur cont n n' h
    simp only [NFA.addRe, newState_snd, length_newState] at h
    obtain ⟨n1, h1, h⟩ := bind_ok h
    obtain ⟨n2, h2, h⟩ := bind_ok h
    obtain ⟨n3, h3, h⟩ := bind_ok h
    have hl := length_newState n
    have f0 : Fr n n.newState.1.newState.1 cur :=
      (Fr.newState n cur).trans (Fr.newState _ cur) (Or.inl rfl)
    have f1 := f0.trans (ih _ _ _ n1 h1) (Or.inr (Nat.le_refl _))
    have f2 := f1.trans (fr_addEps h2) (Or.inl rfl)
    have f3 := f2.trans (fr_addEps h3) (Or.inr (by omega))
    exact f3.trans (fr_addEps h) (Or.inr (by omega))
  | opt r ih =>
    intro cur cont n n' h
    simp only [NFA.addRe, newState_snd, length_newState] at h
    obtain ⟨n1, h1, h⟩ := bind_ok h
    obtain ⟨n2, h2, h⟩ := bind_ok h
    have f1 := (Fr.newState n cur).trans (ih _ _ _ n1 h1) (Or.inr (Nat.le_refl _))
    have f2 := f1.trans (fr_addEps h2) (Or.inl rfl)
    exact f2.trans (fr_addEps h) (Or.inl rfl)
  | cat a b iha ihb =>
    intro cur cont n n' h
    simp only [NFA.addRe, newState_snd, length_newState] at h
    obtain ⟨n1, h1, h⟩ := bind_ok h
    have f1 := (Fr.newState n cur).trans (iha _ _ _ n1 h1) (Or.inl rfl)
    exact f1.trans (ihb _ _ n1 n' h) (Or.inr (Nat.le_refl _))
  | alt a b iha ihb =>
    intro cur cont n n' h
    simp only [NFA.addRe, newState_snd, length_newState] at h
    obtain ⟨n1, h1, h⟩ := bind_ok h
    obtain ⟨n2, h2, h⟩ := bind_ok h
    obtain ⟨n3, h3, h⟩ := bind_ok h
    have f0 : Fr n n.newState.1.newState.1 cur :=
      (Fr.newState n cur).trans (Fr.newState _ cur) (Or.inl rfl)
    have f1 := f0.trans (iha _ _ _ n1 h1) (Or.inr (Nat.le_refl _))
    have f2 := f1.trans (ihb _ _ n1 n2 h2) (Or.inr (by omega))
    have f3 := f2.trans (fr_addEps h3) (Or.inl rfl)
    exact f3.trans (fr_addEps h) (Or.inl rfl)
  | any =>
    intro cur cont n n' h
    simp only [NFA.addRe] at h
    exact fr_of (addAny_frame h)
  | eoi =>
    intro cur cont n n' h
    simp only [NFA.addRe] at h
    exact fr_of (addEoi_frame h)
  | diff a b _ _ =>
    intro cur cont n n' h
    simp only [NFA.addRe] at h
    obtain ⟨m, hm, h⟩ := bind_ok h
    simp only [pure, Except.pure, Except.ok.injEq] at h
    subst h
    exact fr_of (addRanges_frame n cur m cont)

/-! ## No internal error -/

theorem regexToRangeMap_no_internal (re : Regex) : ∀ e, regexToRangeMap re = .error e → e.isInternal = false := by
  induction re with
  | builtin name =>
    intro e h
    simp only [regexToRangeMap] at h
    cases hb : builtinRanges name with
    | none => rw [hb] at h; cases h; rfl
    | some rs => rw [hb] at h; cases h
  | alt a b iha ihb =>
    intro e h
    simp only [regexToRangeMap] at h
    rcases bind_error h with h | ⟨m1, _, h⟩
    · exact iha e h
    · rcases bind_error h with h | ⟨m2, _, h⟩
      · exact ihb e h
      · cases h
  | diff a b iha ihb =>
    intro e h
    simp only [regexToRangeMap] at h
    rcases bind_error h with h | ⟨m1, _, h⟩
    · exact iha e h
    · rcases bind_error h with h | ⟨m2, _, h⟩
      · exact ihb e h
      · cases h
  | _ =>
    intro e h
    simp only [regexToRangeMap] at h
    cases h <;> rfl

theorem addStr_no_internal (cs : List Nat) : ∀ (cur cont : Nat) (n : NFA), cur < n.length →
    n.st cur = NState.empty → ∀ e, NFA.addStr cs cur cont n = .error e → e.isInternal = false := by
  induction cs with
  | nil =>
    intro cur cont n _ _ e h
    simp only [NFA.addStr] at h
    cases h
  | cons c rest ih =>
    intro cur cont n hcur hv e h
    cases rest with
    | nil =>
      simp only [NFA.addStr] at h
      rw [addChar_ok n cur c cont (by rw [hv]; intro x hx; cases hx)] at h
      cases h
    | cons c' cs =>
      simp only [NFA.addStr, newState_snd] at h
      have hl := length_newState n
      have hok := addChar_ok n.newState.1 cur c n.length (by rw [st_newState, hv]; intro x hx; cases hx)
      rcases bind_error h with h | ⟨n1, h1, h⟩
      · rw [hok] at h; cases h
      · have f1 := addChar_frame h1
        refine ih n.length cont n1 (by omega) ?_ e h
        rw [f1.2 _ (by omega), st_newState, st_ge n _ (Nat.le_refl _)]

theorem addSet_no_internal (items : List CharOrRange) : ∀ (seen : List Nat) (cur cont : Nat) (n : NFA),
    cur < n.length → (∀ x ∈ (n.st cur).chars, x.1 ∈ seen) →
    ∀ e, NFA.addSet items seen cur cont n = .error e → e.isInternal = false := by
  induction items with
  | nil =>
    intro seen cur cont n _ _ e h
    simp only [NFA.addSet] at h
    cases h
  | cons it items ih =>
    intro seen cur cont n hcur hseen e h
    cases it with
    | chr c =>
      simp only [NFA.addSet] at h
      by_cases hs : seen.contains c = true
      · rw [if_pos hs] at h
        exact ih seen cur cont n hcur hseen e h
      · rw [if_neg hs] at h
        have hc : c ∉ seen := fun hm => hs (List.contains_iff_mem.mpr hm)
        have hok := addChar_ok n cur c cont (fun x hx hxc => hc (hxc ▸ hseen x hx))
        rw [hok] at h
        refine ih (c :: seen) cur cont _ (by rw [List.length_modify]; exact hcur) ?_ e h
        rw [st_modify_self n cur _ hcur]
        intro x hx
        rcases List.mem_append.mp hx with hx | hx
        · exact List.mem_cons_of_mem _ (hseen x hx)
        · simp only [List.mem_singleton] at hx
          subst hx
          exact List.mem_cons_self
    | rng s e' =>
      simp only [NFA.addSet] at h
      have s1 := addRange_frame n cur s e' cont
      refine ih seen cur cont _ (by rw [s1.1]; exact hcur) ?_ e h
      rw [s1.2.2]
      exact hseen

theorem not_mem_single {a b : Nat} (h : a ≠ b) : a ∉ setInsert b [] := by
  intro hm
  rcases (mem_setInsert _ _ _).mp hm with hm | hm
  · exact h hm
  · cases hm

/-- the core lemma: from a fresh untouched `cur`, `addRe` fails only with one of the user's errors -/
theorem addRe_no_internal (re : Regex) : ∀ (cur cont : Nat) (n : NFA), cur < n.length → cont < n.length →
    n.st cur = NState.empty → ∀ e, NFA.addRe re cur cont n = .error e → e.isInternal = false := by
  induction re with
  | builtin name =>
    intro cur cont n _ _ _ e h
    simp only [NFA.addRe] at h
    cases hb : builtinRanges name with
    | none => rw [hb] at h; cases h; rfl
    | some rs => rw [hb] at h; cases h
  | var name =>
    intro cur cont n _ _ _ e h
    simp only [NFA.addRe] at h
    cases h
    rfl
  | chr c =>
    intro cur cont n _ _ hv e h
    simp only [NFA.addRe] at h
    rw [addChar_ok n cur c cont (by rw [hv]; intro x hx; cases hx)] at h
    cases h
  | str cs =>
    intro cur cont n hcur _ hv e h
    simp only [NFA.addRe] at h
    exact addStr_no_internal cs cur cont n hcur hv e h
  | set items =>
    intro cur cont n hcur _ hv e h
    simp only [NFA.addRe] at h
    exact addSet_no_internal items [] cur cont n hcur (by rw [hv]; intro x hx; cases hx) e h
  | star r ih =>
    intro cur cont n hcur hcont hv e h
    simp only [NFA.addRe, newState_snd, length_newState] at h
    have hl := length_newState n
    have hl0 := length_newState n.newState.1
    have hvI : n.newState.1.newState.1.st n.length = NState.empty := by
      rw [st_newState, st_newState, st_ge n _ (Nat.le_refl _)]
    have hvC : n.newState.1.newState.1.st (n.length + 1) = NState.empty := by
      rw [st_newState, st_ge _ _ (by omega)]
    have hvcur : n.newState.1.newState.1.st cur = NState.empty := by
      rw [st_newState, st_newState, hv]
    rcases bind_error h with h | ⟨n1, h1, h⟩
    · exact ih _ _ _ (by omega) (by omega) hvI e h
    have f1 := addRe_frame r _ _ _ n1 h1
    have hl1 := f1.1
    have c1 : n1.st cur = NState.empty := by rw [f1.2 cur (by omega) (by omega), hvcur]
    have k1 : n1.st (n.length + 1) = NState.empty := by rw [f1.2 _ (by omega) (by omega), hvC]
    rcases bind_error h with h | ⟨n2, h2, h⟩
    · rw [addEps_ok n1 cur cont (by rw [c1]; intro hm; cases hm)] at h; cases h
    have f2 := addEps_frame h2
    have c2 : (n2.st cur).eps = setInsert cont [] := by rw [f2.2.2 (by omega), c1]; rfl
    rcases bind_error h with h | ⟨n3, h3, h⟩
    · rw [addEps_ok n2 cur n.length (by rw [c2]; exact not_mem_single (by omega))] at h; cases h
    have f3 := addEps_frame h3
    have k3 : n3.st (n.length + 1) = NState.empty := by
      rw [f3.2.1 _ (by omega), f2.2.1 _ (by omega), k1]
    rcases bind_error h with h | ⟨n4, h4, h⟩
    · rw [addEps_ok n3 (n.length + 1) cont (by rw [k3]; intro hm; cases hm)] at h; cases h
    have f4 := addEps_frame h4
    have k4 : (n4.st (n.length + 1)).eps = setInsert cont [] := by
      rw [f4.2.2 (by omega), k3]; rfl
    rw [addEps_ok n4 (n.length + 1) n.length (by rw [k4]; exact not_mem_single (by omega))] at h
    cases h
  | plus r ih =>
    intro cur cont n hcur hcont hv e h
    simp only [NFA.addRe, newState_snd, length_newState] at h
    have hl := length_newState n
    have hl0 := length_newState n.newState.1
    have hvI : n.newState.1.newState.1.st n.length = NState.empty := by
      rw [st_newState, st_newState, st_ge n _ (Nat.le_refl _)]
    have hvC : n.newState.1.newState.1.st (n.length + 1) = NState.empty := by
      rw [st_newState, st_ge _ _ (by omega)]
    have hvcur : n.newState.1.newState.1.st cur = NState.empty := by
      rw [st_newState, st_newState, hv]
    rcases bind_error h with h | ⟨n1, h1, h⟩
    · exact ih _ _ _ (by omega) (by omega) hvI e h
    have f1 := addRe_frame r _ _ _ n1 h1
    have hl1 := f1.1
    have c1 : n1.st cur = NState.empty := by rw [f1.2 cur (by omega) (by omega), hvcur]
    have k1 : n1.st (n.length + 1) = NState.empty := by rw [f1.2 _ (by omega) (by omega), hvC]
    rcases bind_error h with h | ⟨n2, h2, h⟩
    · rw [addEps_ok n1 cur n.length (by rw [c1]; intro hm; cases hm)] at h; cases h
    have f2 := addEps_frame h2
    have k2 : n2.st (n.length + 1) = NState.empty := by rw [f2.2.1 _ (by omega), k1]
    rcases bind_error h with h | ⟨n3, h3, h⟩
    · rw [addEps_ok n2 (n.length + 1) cont (by rw [k2]; intro hm; cases hm)] at h; cases h
    have f3 := addEps_frame h3
    have k3 : (n3.st (n.length + 1)).eps = setInsert cont [] := by
      rw [f3.2.2 (by omega), k2]; rfl
    rw [addEps_ok n3 (n.length + 1) n.length (by rw [k3]; exact not_mem_single (by omega))] at h
    cases h
  | opt r ih =>
    intro cur cont n hcur hcont hv e h
    simp only [NFA.addRe, newState_snd, length_newState] at h
    have hl := length_newState n
    have hvI : n.newState.1.st n.length = NState.empty := by
      rw [st_newState, st_ge n _ (Nat.le_refl _)]
    have hvcur : n.newState.1.st cur = NState.empty := by
      rw [st_newState, hv]
    rcases bind_error h with h | ⟨n1, h1, h⟩
    · exact ih _ _ _ (by omega) (by omega) hvI e h
    have f1 := addRe_frame r _ _ _ n1 h1
    have hl1 := f1.1
    have c1 : n1.st cur = NState.empty := by rw [f1.2 cur (by omega) (by omega), hvcur]
    rcases bind_error h with h | ⟨n2, h2, h⟩
    · rw [addEps_ok n1 cur cont (by rw [c1]; intro hm; cases hm)] at h; cases h
    have f2 := addEps_frame h2
    have c2 : (n2.st cur).eps = setInsert cont [] := by rw [f2.2.2 (by omega), c1]; rfl
    rw [addEps_ok n2 cur n.length (by rw [c2]; exact not_mem_single (by omega))] at h
    cases h
  | cat a b iha ihb =>
    intro cur cont n hcur hcont hv e h
    simp only [NFA.addRe, newState_snd, length_newState] at h
    have hl := length_newState n
    have hvK : n.newState.1.st n.length = NState.empty := by
      rw [st_newState, st_ge n _ (Nat.le_refl _)]
    have hvcur : n.newState.1.st cur = NState.empty := by
      rw [st_newState, hv]
    rcases bind_error h with h | ⟨n1, h1, h⟩
    · exact iha _ _ _ (by omega) (by omega) hvcur e h
    have f1 := addRe_frame a _ _ _ n1 h1
    have hl1 := f1.1
    exact ihb _ _ n1 (by omega) (by omega) (by rw [f1.2 _ (by omega) (by omega), hvK]) e h
  | alt a b iha ihb =>
    intro cur cont n hcur hcont hv e h
    simp only [NFA.addRe, newState_snd, length_newState] at h
    have hl := length_newState n
    have hl0 := length_newState n.newState.1
    have hvA : n.newState.1.newState.1.st n.length = NState.empty := by
      rw [st_newState, st_newState, st_ge n _ (Nat.le_refl _)]
    have hvB : n.newState.1.newState.1.st (n.length + 1) = NState.empty := by
      rw [st_newState, st_ge _ _ (by omega)]
    have hvcur : n.newState.1.newState.1.st cur = NState.empty := by
      rw [st_newState, st_newState, hv]
    rcases bind_error h with h | ⟨n1, h1, h⟩
    · exact iha _ _ _ (by omega) (by omega) hvA e h
    have f1 := addRe_frame a _ _ _ n1 h1
    have hl1 := f1.1
    have b1 : n1.st (n.length + 1) = NState.empty := by rw [f1.2 _ (by omega) (by omega), hvB]
    have c1 : n1.st cur = NState.empty := by rw [f1.2 cur (by omega) (by omega), hvcur]
    rcases bind_error h with h | ⟨n2, h2, h⟩
    · exact ihb _ _ n1 (by omega) (by omega) b1 e h
    have f2 := addRe_frame b _ _ _ n2 h2
    have hl2 := f2.1
    have c2 : n2.st cur = NState.empty := by rw [f2.2 cur (by omega) (by omega), c1]
    rcases bind_error h with h | ⟨n3, h3, h⟩
    · rw [addEps_ok n2 cur n.length (by rw [c2]; intro hm; cases hm)] at h; cases h
    have f3 := addEps_frame h3
    have c3 : (n3.st cur).eps = setInsert n.length [] := by rw [f3.2.2 (by omega), c2]; rfl
    rw [addEps_ok n3 cur (n.length + 1) (by rw [c3]; exact not_mem_single (by omega))] at h
    cases h
  | any =>
    intro cur cont n _ _ hv e h
    simp only [NFA.addRe] at h
    rw [addAny_ok n cur cont (by rw [hv]; intro hm; cases hm)] at h
    cases h
  | eoi =>
    intro cur cont n _ _ hv e h
    simp only [NFA.addRe] at h
    rw [addEoi_ok n cur cont (by rw [hv]; intro hm; cases hm)] at h
    cases h
  | diff a b _ _ =>
    intro cur cont n _ _ _ e h
    simp only [NFA.addRe] at h
    rcases bind_error h with h | ⟨m, _, h⟩
    · exact regexToRangeMap_no_internal _ e h
    · cases h

end ThompsonTotal

open ThompsonTotal Thompson in
/-- `add_regex` never trips one of the NFA's own assertions (`add_char_transition`, `add_empty_transition`, `add_any_transition`,
`add_end_of_input_transition`, `make_state_accepting`): on a variable-free or not regex, starting from any well-formed NFA, the only
errors are the user's (unbound variable, unknown built-in, a non-class operand of `#`). -/
theorem addRegex_no_internal (nfa : NFA) (hwf : NFAWF nfa) (re : Regex) (ctx : Option Nat) (value : Nat) :
    ∀ e, nfa.addRegex re ctx value = .error e → e.isInternal = false := by
  intro e h
  simp only [NFA.addRegex, newState_snd] at h
  have h0 := hwf.nonempty
  have hl1 := length_newState nfa
  have hacc : ((nfa.newState.1).st nfa.length).acc.isSome = false := by
    rw [st_newState, st_ge nfa _ (Nat.le_refl _)]; rfl
  rcases bind_error h with h | ⟨n2, h2, h⟩
  · unfold NFA.makeStateAccepting at h
    rw [hacc] at h
    cases h
  obtain ⟨hl2, ho2, hs2⟩ := makeAcc_spec h2 (by omega)
  have hl3 := length_newState n2
  rw [hl2, hl1] at h
  have heps : nfa.length + 1 ∉ ((n2.newState.1).st 0).eps := by
    rw [st_newState, ho2 0 (by omega), st_newState]
    intro hm
    have := hwf.targets 0 h0 _ (Or.inl hm)
    omega
  rcases bind_error h with h | ⟨n4, h4, h⟩
  · rw [addEps_ok _ 0 _ heps] at h; cases h
  have f4 := addEps_frame h4
  refine addRe_no_internal re _ _ n4 (by omega) (by omega) ?_ e h
  rw [f4.2.1 _ (by omega), st_newState, st_ge n2 _ (by omega)]

end Lexgen
