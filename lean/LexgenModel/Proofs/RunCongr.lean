import LexgenModel.Proofs.CapstoneRun
import LexgenModel.Proofs.Interchange
import LexgenModel.Proofs.RunCongrEntries
/-!
# Definitions with the same languages give the same lexer

Two definitions that agree on the names and order of their rule sets and, rule by rule, on the action, on the right-context number and on the
DENOTATION of the regex and of the right contexts (however the regexes are written: with or without `let` variables, `r+` or `r r*`, `a | b` or
`b | a`, a bracket class or an alternation of characters …) compile to lexers that return the same items on every input, with every action table.
The state NUMBERS of the two machines differ; everything a user can observe is equal.
-/
namespace Lexgen
variable {σ τ ε : Type}

/-- what a user (and the semantic actions) can observe of a lexer state: everything except the state numbers `__state` / `__initial_state`
and the saved match -/
def LState.obs (st : LState σ) : Bool × σ × List Nat × Loc × Loc := (st.done, st.user, st.iter, st.curStart, st.curEnd)

/-- two definitions that cannot be told apart by languages -/
structure DefEquiv (items1 items2 : LexerDef) : Prop where
  sets : hasRuleSets items1 = hasRuleSets items2
  names : (allRuleSets items1).map (·.1) = (allRuleSets items2).map (·.1)
  rules : ∀ i (h1 : i < (allRuleSets items1).length) (h2 : i < (allRuleSets items2).length),
    ∃ rs1 rs2,
      coreRules (allRuleSets items1)[i].2.1 (allRuleSets items1)[i].2.2.1 (allRuleSets items1)[i].2.2.2 = some rs1 ∧
      coreRules (allRuleSets items2)[i].2.1 (allRuleSets items2)[i].2.2.1 (allRuleSets items2)[i].2.2.2 = some rs2 ∧
      RulesEquiv rs1 rs2
  ctxs : ∀ i w, den (specCtxAt items1 i) w ↔ den (specCtxAt items2 i) w

/-! ## The numbers the generated `switch` stores, per machine -/

namespace RunCongr

/-- the names of the rule sets (`""` for the single unnamed one) -/
def setNames (items : LexerDef) : List String := (allRuleSets items).map (·.1)

/-- the name of the rule set that is active in a fresh lexer and after an `InvalidToken` -/
def initName (items : LexerDef) : String := if hasRuleSets items then "Init" else ""

/-- what the reference lexer needs to know about the numbers `switchTable` assigns to the rule-set names -/
structure NumOK (items : LexerDef) (cfg : Config σ τ ε) : Prop where
  /-- the number stored for a rule-set name makes exactly that rule set active -/
  act : ∀ name ∈ setNames items,
    activeSet items cfg (switchNum cfg name) = (allRuleSets items).find? (·.1 = name)
  /-- only the first rule set has number 0 -/
  zero : ∀ name ∈ setNames items, (switchNum cfg name = 0 ↔ name = initName items)
  initMem : initName items ∈ setNames items
  /-- a name that is no rule set gets 0 -/
  other : ∀ name, name ∉ setNames items → switchNum cfg name = 0

theorem numOK_unnamed (items : LexerDef) (c : Compiled) (h : compileLexer items = .ok c)
    (hrs : hasRuleSets items = false)
    (actions : Nat → Action σ τ ε) (width : Nat → Nat) (input : Option (List Nat)) :
    NumOK items (c.config actions width input) := by
  have hent : c.entries = [] := (compileLexer_unnamed_core items c h hrs).2.1
  have hsw : ∀ name, switchNum (c.config actions width input) name = 0 := by
    intro name
    unfold switchNum switchTable
    show (((c.entries.map _).find? _).elim 0 _) = 0
    rw [hent]
    rfl
  have hnames : setNames items = [""] := by
    unfold setNames
    rw [allRuleSets_unnamed hrs]
    rfl
  have hinit : initName items = "" := by
    unfold initName
    rw [hrs]
    rfl
  refine ⟨?_, ?_, ?_, fun name _ => hsw name⟩
  · intro name hn
    rw [hnames, List.mem_singleton] at hn
    subst hn
    rw [hsw]
    unfold activeSet
    rw [if_neg (by rw [hrs]; exact Bool.false_ne_true), if_pos rfl, allRuleSets_unnamed hrs]
    simp
  · intro name hn
    rw [hnames, List.mem_singleton] at hn
    rw [hsw, hinit]
    exact ⟨fun _ => hn, fun _ => rfl⟩
  · rw [hnames, hinit]
    exact List.mem_singleton.mpr rfl

theorem numOK_named (items : LexerDef) (c : Compiled) (h : compileLexer items = .ok c) (hok : DefOK items)
    (hrs : hasRuleSets items = true)
    (actions : Nat → Action σ τ ε) (width : Nat → Nat) (input : Option (List Nat)) :
    NumOK items (c.config actions width input) := by
  have hm := compileLexer_machineOK items c h hok actions width input
  obtain ⟨F1, hallE⟩ := RefRefine.entries_named items c h hrs
  have F2 : ∀ n e e', (n, e) ∈ c.entries → (n, e') ∈ c.entries → e = e' :=
    (NextEqSpec.compile_ext_named (fun rules hp hnep nfa hn d hd w => block_viable rules hp hnep nfa hn d hd w)
      items c h hrs).1
  have F3 := entries_states_inj items c h hrs
  have F4 : ∀ n e, (n, e) ∈ c.entries → n ∈ setNames items := by
    intro n e hne
    obtain ⟨rs, b, k, _, hmem, _⟩ := hallE n e hne
    exact List.mem_map.mpr ⟨(n, rs, b, k), hmem, rfl⟩
  have F5 : ∀ n, n ∈ setNames items → ∃ e, (n, e) ∈ c.entries := by
    intro n hn
    obtain ⟨x, hx, rfl⟩ := List.mem_map.mp hn
    rw [allRuleSets_named hrs] at hx
    obtain ⟨e, _, he, _⟩ := compileLexer_lang items c h x.1 x.2.1 x.2.2.1 x.2.2.2 hx
    exact ⟨e, he⟩
  -- the switch table
  let cfg := c.config actions width input
  have hT : switchTable cfg.inl cfg.entries = c.entries.map (fun e => (e.1, renumber cfg.inl e.2)) := rfl
  have F6 : ∀ e e', (∃ n, (n, e) ∈ c.entries) → (∃ n, (n, e') ∈ c.entries) →
      renumber cfg.inl e = renumber cfg.inl e' → e = e' := by
    intro e e' ⟨n, hn⟩ ⟨n', hn'⟩ heq
    have h1 := NextProtocol.dispatch_entry cfg hm e (Or.inr ⟨n, hn⟩)
    have h2 := NextProtocol.dispatch_entry cfg hm e' (Or.inr ⟨n', hn'⟩)
    rw [heq, h2] at h1
    exact (Option.some.inj h1).symm
  have hsw : ∀ n e, (n, e) ∈ c.entries → switchNum cfg n = renumber cfg.inl e := by
    intro n e hne
    unfold switchNum
    cases hf : (switchTable cfg.inl cfg.entries).find? (·.1 = n) with
    | none =>
      exfalso
      have := List.find?_eq_none.mp hf (n, renumber cfg.inl e) (by rw [hT]; exact List.mem_map.mpr ⟨(n, e), hne, rfl⟩)
      simp at this
    | some p =>
      have hp := List.find?_some hf
      have hmem := List.mem_of_find?_eq_some hf
      simp only [decide_eq_true_eq] at hp
      rw [hT] at hmem
      obtain ⟨x, hx, rfl⟩ := List.mem_map.mp hmem
      simp only at hp
      have hx' : (n, x.2) ∈ c.entries := by rw [← hp]; exact hx
      rw [F2 n e x.2 hne hx']
      rfl
  have hfn : ∀ n e, (n, e) ∈ c.entries →
      (switchTable cfg.inl cfg.entries).find? (·.2 = renumber cfg.inl e) = some (n, renumber cfg.inl e) := by
    intro n e hne
    cases hf : (switchTable cfg.inl cfg.entries).find? (·.2 = renumber cfg.inl e) with
    | none =>
      exfalso
      have := List.find?_eq_none.mp hf (n, renumber cfg.inl e) (by rw [hT]; exact List.mem_map.mpr ⟨(n, e), hne, rfl⟩)
      simp at this
    | some p =>
      have hp := List.find?_some hf
      have hmem := List.mem_of_find?_eq_some hf
      simp only [decide_eq_true_eq] at hp
      rw [hT] at hmem
      obtain ⟨x, hx, rfl⟩ := List.mem_map.mp hmem
      simp only at hp
      have hxe : x.2 = e := F6 x.2 e ⟨x.1, hx⟩ ⟨n, hne⟩ hp
      have hx' : (x.1, e) ∈ c.entries := by rw [← hxe]; exact hx
      have hxn : x.1 = n := F3 x.1 n e hx' hne
      rw [hxe, hxn]
  have hinit : initName items = "Init" := by
    unfold initName
    rw [hrs]
    rfl
  refine ⟨?_, ?_, ?_, ?_⟩
  · intro name hn
    obtain ⟨e, he⟩ := F5 name hn
    show activeSet items cfg (switchNum cfg name) = _
    rw [hsw name e he]
    unfold activeSet
    rw [if_pos hrs, hfn name e he]
  · intro name hn
    obtain ⟨e, he⟩ := F5 name hn
    show switchNum cfg name = 0 ↔ _
    rw [hsw name e he, hinit]
    constructor
    · intro h0
      have he0 : e = 0 := RefRefine.entry_of_state_zero cfg hm e (Or.inr ⟨name, he⟩) h0
      subst he0
      exact F3 name "Init" 0 he F1
    · intro hn'
      subst hn'
      rw [F2 "Init" e 0 he F1]
      exact NextProtocol.renumber_zero _
  · rw [hinit]
    exact F4 "Init" 0 F1
  · intro name hn
    show switchNum cfg name = 0
    unfold switchNum
    cases hf : (switchTable cfg.inl cfg.entries).find? (·.1 = name) with
    | none => rfl
    | some p =>
      exfalso
      have hp := List.find?_some hf
      have hmem := List.mem_of_find?_eq_some hf
      simp only [decide_eq_true_eq] at hp
      rw [hT] at hmem
      obtain ⟨x, hx, rfl⟩ := List.mem_map.mp hmem
      simp only at hp
      exact hn (hp ▸ F4 x.1 x.2 hx)

theorem numOK_compile (items : LexerDef) (c : Compiled) (h : compileLexer items = .ok c) (hok : DefOK items)
    (actions : Nat → Action σ τ ε) (width : Nat → Nat) (input : Option (List Nat)) :
    NumOK items (c.config actions width input) := by
  cases hrs : hasRuleSets items with
  | true => exact numOK_named items c h hok hrs actions width input
  | false => exact numOK_unnamed items c h hrs actions width input

end RunCongr

/-! ## Lexer states of the two machines that a user cannot tell apart -/

namespace RunCongr

theorem find_same_index {α β : Type} (name : String) :
    ∀ (l1 : List (String × α)) (l2 : List (String × β)), l1.map (·.1) = l2.map (·.1) → name ∈ l1.map (·.1) →
      ∃ i, ∃ (h1 : i < l1.length) (h2 : i < l2.length),
        l1.find? (·.1 = name) = some l1[i] ∧ l2.find? (·.1 = name) = some l2[i] := by
  intro l1
  induction l1 with
  | nil => intro l2 _ hm; cases hm
  | cons a l1 ih =>
    intro l2 hl hm
    cases l2 with
    | nil => cases hl
    | cons b l2 =>
      simp only [List.map_cons, List.cons.injEq] at hl
      obtain ⟨hab, hl⟩ := hl
      by_cases ha : a.1 = name
      · have hb : b.1 = name := hab ▸ ha
        refine ⟨0, Nat.zero_lt_succ _, Nat.zero_lt_succ _, ?_, ?_⟩
        · simp [ha]
        · simp [hb]
      · have hb : ¬ b.1 = name := hab ▸ ha
        have hm' : name ∈ l1.map (·.1) := by
          simp only [List.map_cons, List.mem_cons] at hm
          rcases hm with hm | hm
          · exact absurd hm.symm ha
          · exact hm
        obtain ⟨i, h1, h2, e1, e2⟩ := ih l2 hl hm'
        refine ⟨i + 1, Nat.succ_lt_succ h1, Nat.succ_lt_succ h2, ?_, ?_⟩
        · simp only [List.find?_cons, ha, decide_false, List.getElem_cons_succ]
          exact e1
        · simp only [List.find?_cons, hb, decide_false, List.getElem_cons_succ]
          exact e2

/-- everything the congruence needs to know about the two definitions and the two configurations -/
structure Setup (items1 items2 : LexerDef) (cfg1 cfg2 : Config σ τ ε) : Prop where
  heq : DefEquiv items1 items2
  ok1 : NumOK items1 cfg1
  ok2 : NumOK items2 cfg2
  ne1 : DefNE items1
  ne2 : DefNE items2
  actions : cfg1.actions = cfg2.actions
  width : cfg1.width = cfg2.width
  input : cfg1.input = cfg2.input

section Rel
variable {items1 items2 : LexerDef} {cfg1 cfg2 : Config σ τ ε}

/-- the two numbers name the same rule set -/
def NumRel (items1 : LexerDef) (cfg1 cfg2 : Config σ τ ε) (n1 n2 : Nat) : Prop :=
  ∃ name ∈ setNames items1, n1 = switchNum cfg1 name ∧ n2 = switchNum cfg2 name

theorem Setup.names (S : Setup items1 items2 cfg1 cfg2) : setNames items1 = setNames items2 := S.heq.names

theorem Setup.initName (S : Setup items1 items2 cfg1 cfg2) : initName items1 = initName items2 := by
  unfold RunCongr.initName
  rw [S.heq.sets]

theorem numRel_zero (S : Setup items1 items2 cfg1 cfg2) : NumRel items1 cfg1 cfg2 0 0 := by
  refine ⟨RunCongr.initName items1, S.ok1.initMem, ?_, ?_⟩
  · exact ((S.ok1.zero _ S.ok1.initMem).mpr rfl).symm
  · have hm : RunCongr.initName items1 ∈ setNames items2 := S.names ▸ S.ok1.initMem
    exact ((S.ok2.zero _ hm).mpr S.initName).symm

theorem numRel_switch (S : Setup items1 items2 cfg1 cfg2) (r : String) :
    NumRel items1 cfg1 cfg2 (switchNum cfg1 r) (switchNum cfg2 r) := by
  by_cases hr : r ∈ setNames items1
  · exact ⟨r, hr, rfl, rfl⟩
  · have hr2 : r ∉ setNames items2 := S.names ▸ hr
    rw [S.ok1.other r hr, S.ok2.other r hr2]
    exact numRel_zero S

theorem numRel_zero_iff (S : Setup items1 items2 cfg1 cfg2) {n1 n2 : Nat} (h : NumRel items1 cfg1 cfg2 n1 n2) :
    n1 = 0 ↔ n2 = 0 := by
  obtain ⟨name, hn, rfl, rfl⟩ := h
  have hn2 : name ∈ setNames items2 := S.names ▸ hn
  rw [S.ok1.zero name hn, S.ok2.zero name hn2, S.initName]

/-- the rule sets the two numbers make active have interchangeable rules -/
theorem numRel_active (S : Setup items1 items2 cfg1 cfg2) {n1 n2 : Nat} (h : NumRel items1 cfg1 cfg2 n1 n2) :
    ∃ x1 x2 rs1 rs2, activeSet items1 cfg1 n1 = some x1 ∧ activeSet items2 cfg2 n2 = some x2 ∧
      coreRules x1.2.1 x1.2.2.1 x1.2.2.2 = some rs1 ∧ coreRules x2.2.1 x2.2.2.1 x2.2.2.2 = some rs2 ∧
      RulesEquiv rs1 rs2 ∧ (∀ r ∈ rs1, NoEmptyPieces r.re) ∧ (∀ r ∈ rs2, NoEmptyPieces r.re) := by
  obtain ⟨name, hn, rfl, rfl⟩ := h
  have hn2 : name ∈ setNames items2 := S.names ▸ hn
  obtain ⟨i, h1, h2, e1, e2⟩ := find_same_index name (allRuleSets items1) (allRuleSets items2) S.heq.names hn
  obtain ⟨rs1, rs2, c1, c2, hre⟩ := S.heq.rules i h1 h2
  refine ⟨(allRuleSets items1)[i], (allRuleSets items2)[i], rs1, rs2, ?_, ?_, c1, c2, hre, ?_, ?_⟩
  · rw [S.ok1.act name hn, e1]
  · rw [S.ok2.act name hn2, e2]
  · exact S.ne1 _ _ _ _ (List.getElem_mem h1) rs1 c1
  · exact S.ne2 _ _ _ _ (List.getElem_mem h2) rs2 c2

/-- equal in everything but the state numbers (and the saved match, which the reference lexer never reads);
the numbers of the active rule sets name the same rule set -/
structure PreRel (items1 : LexerDef) (cfg1 cfg2 : Config σ τ ε) (st1 st2 : LState σ) : Prop where
  done : st1.done = st2.done
  user : st1.user = st2.user
  iter : st1.iter = st2.iter
  curStart : st1.curStart = st2.curStart
  curEnd : st1.curEnd = st2.curEnd
  num : NumRel items1 cfg1 cfg2 st1.initial st2.initial

/-- … at a lexeme start: `__state = __initial_state` -/
structure StRel (items1 : LexerDef) (cfg1 cfg2 : Config σ τ ε) (st1 st2 : LState σ) : Prop where
  pre : PreRel items1 cfg1 cfg2 st1 st2
  s1 : st1.state = st1.initial
  s2 : st2.state = st2.initial

theorem StRel.obs {st1 st2 : LState σ} (h : StRel items1 cfg1 cfg2 st1 st2) : st1.obs = st2.obs := by
  unfold LState.obs
  rw [h.pre.done, h.pre.user, h.pre.iter, h.pre.curStart, h.pre.curEnd]

theorem matchState_rel (S : Setup items1 items2 cfg1 cfg2) {st1 st2 : LState σ} (h : PreRel items1 cfg1 cfg2 st1 st2)
    (n : Nat) (v : Bool) :
    PreRel items1 cfg1 cfg2 (matchState cfg1.width st1 n v 0) (matchState cfg2.width st2 n v 0) := by
  refine ⟨rfl, h.user, ?_, h.curStart, ?_, h.num⟩
  · show st1.iter.drop n = st2.iter.drop n
    rw [h.iter]
  · show (st1.iter.take n).foldl (Loc.advance cfg1.width) st1.curEnd = (st2.iter.take n).foldl (Loc.advance cfg2.width) st2.curEnd
    rw [h.iter, h.curEnd, S.width]

theorem errState_rel (S : Setup items1 items2 cfg1 cfg2) {st1 st2 : LState σ} (h : PreRel items1 cfg1 cfg2 st1 st2)
    (res1 res2 : List Regex) (he : errAdvance res1 st1.iter = errAdvance res2 st2.iter) :
    StRel items1 cfg1 cfg2 (errState cfg1.width res1 st1) (errState cfg2.width res2 st2) := by
  refine ⟨⟨?_, h.user, ?_, ?_, ?_, numRel_zero S⟩, rfl, rfl⟩
  · show (errAdvance res1 st1.iter).2 = (errAdvance res2 st2.iter).2
    rw [he]
  · show st1.iter.drop (errAdvance res1 st1.iter).1 = st2.iter.drop (errAdvance res2 st2.iter).1
    rw [he, h.iter]
  · show (st1.iter.take (errAdvance res1 st1.iter).1).foldl (Loc.advance cfg1.width) st1.curEnd =
      (st2.iter.take (errAdvance res2 st2.iter).1).foldl (Loc.advance cfg2.width) st2.curEnd
    rw [he, h.iter, h.curEnd, S.width]
  · show (st1.iter.take (errAdvance res1 st1.iter).1).foldl (Loc.advance cfg1.width) st1.curEnd =
      (st2.iter.take (errAdvance res2 st2.iter).1).foldl (Loc.advance cfg2.width) st2.curEnd
    rw [he, h.iter, h.curEnd, S.width]

/-- results of `callAction` that a user cannot tell apart -/
def OutRel (items1 : LexerDef) (cfg1 cfg2 : Config σ τ ε) : StepOut σ τ ε → StepOut σ τ ε → Prop
  | .ret i1 s1, .ret i2 s2 => i1 = i2 ∧ StRel items1 cfg1 cfg2 s1 s2
  | .cont s1, .cont s2 => StRel items1 cfg1 cfg2 s1 s2
  | _, _ => False

theorem mkView_rel (S : Setup items1 items2 cfg1 cfg2) {st1 st2 : LState σ} (h : PreRel items1 cfg1 cfg2 st1 st2)
    (a : Nat) : mkView cfg1 a st1 = mkView cfg2 a st2 := by
  unfold mkView
  rw [h.curStart, h.curEnd, h.iter, h.user, S.input]

theorem callAction_rel (S : Setup items1 items2 cfg1 cfg2) {st1 st2 : LState σ} (h : PreRel items1 cfg1 cfg2 st1 st2)
    (a : Nat) : OutRel items1 cfg1 cfg2 (callAction cfg1 a st1) (callAction cfg2 a st2) := by
  unfold callAction
  rw [mkView_rel S h a, S.actions]
  generalize (cfg2.actions a).run (mkView cfg2 a st2) = eff
  obtain ⟨user, reset, sw, res⟩ := eff
  have hs := h.curStart
  have he := h.curEnd
  cases reset <;> cases sw <;> cases res
  all_goals simp only [Bool.false_eq_true, if_false, if_true]
  case false.none.none => exact ⟨⟨h.done, rfl, h.iter, hs, he, h.num⟩, rfl, rfl⟩
  case true.none.none => exact ⟨⟨h.done, rfl, h.iter, he, he, h.num⟩, rfl, rfl⟩
  case false.some.none r => exact ⟨⟨h.done, rfl, h.iter, hs, he, numRel_switch S r⟩, rfl, rfl⟩
  case true.some.none r => exact ⟨⟨h.done, rfl, h.iter, he, he, numRel_switch S r⟩, rfl, rfl⟩
  case false.none.some v =>
    cases v with
    | ok t => exact ⟨by rw [hs, he], ⟨h.done, rfl, h.iter, he, he, h.num⟩, rfl, rfl⟩
    | error e => exact ⟨by rw [hs], ⟨h.done, rfl, h.iter, he, he, h.num⟩, rfl, rfl⟩
  case true.none.some v =>
    cases v with
    | ok t => exact ⟨by rw [he], ⟨h.done, rfl, h.iter, he, he, h.num⟩, rfl, rfl⟩
    | error e => exact ⟨by rw [he], ⟨h.done, rfl, h.iter, he, he, h.num⟩, rfl, rfl⟩
  case false.some.some r v =>
    cases v with
    | ok t => exact ⟨by rw [hs, he], ⟨h.done, rfl, h.iter, he, he, numRel_switch S r⟩, rfl, rfl⟩
    | error e => exact ⟨by rw [hs], ⟨h.done, rfl, h.iter, he, he, numRel_switch S r⟩, rfl, rfl⟩
  case true.some.some r v =>
    cases v with
    | ok t => exact ⟨by rw [he], ⟨h.done, rfl, h.iter, he, he, numRel_switch S r⟩, rfl, rfl⟩
    | error e => exact ⟨by rw [he], ⟨h.done, rfl, h.iter, he, he, numRel_switch S r⟩, rfl, rfl⟩

/-- results of one call of `next()` that a user cannot tell apart -/
def ResRel (items1 : LexerDef) (cfg1 cfg2 : Config σ τ ε) :
    Option (Option (Item τ ε) × LState σ) → Option (Option (Item τ ε) × LState σ) → Prop
  | none, none => True
  | some r1, some r2 => r1.1 = r2.1 ∧ StRel items1 cfg1 cfg2 r1.2 r2.2
  | _, _ => False

theorem specLoop_rel (S : Setup items1 items2 cfg1 cfg2) (ctx1 ctx2 : Nat → Regex)
    (hc : ∀ i rest, CtxLang (ctx1 i) rest ↔ CtxLang (ctx2 i) rest) :
    ∀ (fuel : Nat) (st1 st2 : LState σ), StRel items1 cfg1 cfg2 st1 st2 →
      ResRel items1 cfg1 cfg2 (specLoop items1 cfg1 ctx1 fuel st1) (specLoop items2 cfg2 ctx2 fuel st2) := by
  intro fuel
  induction fuel with
  | zero =>
    intro st1 st2 h
    by_cases hd : st1.done = true
    · have hd2 : st2.done = true := h.pre.done ▸ hd
      rw [specLoop_done _ _ _ _ _ hd, specLoop_done _ _ _ _ _ hd2]
      exact ⟨rfl, h⟩
    · have hd2 : ¬ st2.done = true := h.pre.done ▸ hd
      unfold specLoop
      rw [if_neg hd, if_neg hd2]
      exact True.intro
  | succ fuel ih =>
    intro st1 st2 h
    by_cases hd : st1.done = true
    · have hd2 : st2.done = true := h.pre.done ▸ hd
      rw [specLoop_done _ _ _ _ _ hd, specLoop_done _ _ _ _ _ hd2]
      exact ⟨rfl, h⟩
    · have hd2 : ¬ st2.done = true := h.pre.done ▸ hd
      have hd1' : st1.done = false := by simpa using hd
      have hd2' : st2.done = false := by simpa using hd2
      obtain ⟨x1, x2, rs1, rs2, ha1, ha2, hr1, hr2, hre, hn1, hn2⟩ := numRel_active S h.pre.num
      have hsel : selectRef rs1 ctx1 st1.iter = selectRef rs2 ctx2 st2.iter := by
        rw [h.pre.iter]
        exact selectRef_congr rs1 rs2 ctx1 ctx2 hre hc st2.iter
      cases hs1 : selectRef rs1 ctx1 st1.iter with
      | some p =>
        obtain ⟨n, a, v⟩ := p
        have hs2 : selectRef rs2 ctx2 st2.iter = some (n, a, v) := hsel ▸ hs1
        rw [(specLoop_selected items1 cfg1 ctx1 fuel st1 x1 rs1 n a v hd1' ha1 hr1 hs1).2,
          (specLoop_selected items2 cfg2 ctx2 fuel st2 x2 rs2 n a v hd2' ha2 hr2 hs2).2]
        have hcall := callAction_rel S (matchState_rel S h.pre n v) a
        cases hc1 : callAction cfg1 a (matchState cfg1.width st1 n v 0) with
        | ret i1 s1 =>
          cases hc2 : callAction cfg2 a (matchState cfg2.width st2 n v 0) with
          | ret i2 s2 =>
            rw [hc1, hc2] at hcall
            exact hcall
          | cont s2 =>
            rw [hc1, hc2] at hcall
            exact hcall.elim
        | cont s1 =>
          cases hc2 : callAction cfg2 a (matchState cfg2.width st2 n v 0) with
          | ret i2 s2 =>
            rw [hc1, hc2] at hcall
            exact hcall.elim
          | cont s2 =>
            rw [hc1, hc2] at hcall
            exact ih s1 s2 hcall
      | none =>
        have hs2 : selectRef rs2 ctx2 st2.iter = none := hsel ▸ hs1
        rw [(specLoop_unselected items1 cfg1 ctx1 fuel st1 x1 rs1 hd1' ha1 hr1 hs1).2,
          (specLoop_unselected items2 cfg2 ctx2 fuel st2 x2 rs2 hd2' ha2 hr2 hs2).2]
        have hz : st1.state = 0 ↔ st2.state = 0 := by
          rw [h.s1, h.s2]
          exact numRel_zero_iff S h.pre.num
        by_cases hcond : st1.iter = [] ∧ st1.state = 0
        · have hcond2 : st2.iter = [] ∧ st2.state = 0 := ⟨h.pre.iter ▸ hcond.1, hz.mp hcond.2⟩
          rw [if_pos hcond, if_pos hcond2]
          exact ⟨rfl, ⟨rfl, h.pre.user, h.pre.iter, h.pre.curStart, h.pre.curEnd, h.pre.num⟩, h.s1, h.s2⟩
        · have hcond2 : ¬ (st2.iter = [] ∧ st2.state = 0) := fun hx => hcond ⟨h.pre.iter ▸ hx.1, hz.mpr hx.2⟩
          rw [if_neg hcond, if_neg hcond2]
          refine ⟨?_, errState_rel S h.pre _ _ ?_⟩
          · show some (Item.invalid st1.curStart) = some (Item.invalid st2.curStart)
            rw [h.pre.curStart]
          · rw [h.pre.iter]
            exact errAdvance_congr rs1 rs2 hre hn1 hn2 st2.iter

/-- results of `n` calls of `next()` -/
theorem specRunN_rel (S : Setup items1 items2 cfg1 cfg2)
    (hc : ∀ i rest, CtxLang (specCtxAt items1 i) rest ↔ CtxLang (specCtxAt items2 i) rest) :
    ∀ (n : Nat) (st1 st2 : LState σ), StRel items1 cfg1 cfg2 st1 st2 →
      (specRunN items1 cfg1 n st1).1 = (specRunN items2 cfg2 n st2).1 ∧
      StRel items1 cfg1 cfg2 (specRunN items1 cfg1 n st1).2 (specRunN items2 cfg2 n st2).2 := by
  intro n
  induction n with
  | zero => intro st1 st2 h; exact ⟨rfl, h⟩
  | succ n ih =>
    intro st1 st2 h
    have hstep : ResRel items1 cfg1 cfg2 (specNextFull items1 cfg1 st1) (specNextFull items2 cfg2 st2) := by
      unfold specNextFull specNext
      rw [h.pre.iter]
      exact specLoop_rel S _ _ hc _ st1 st2 h
    unfold specRunN
    cases h1 : specNextFull items1 cfg1 st1 with
    | none =>
      cases h2 : specNextFull items2 cfg2 st2 with
      | none => exact ⟨rfl, h⟩
      | some r2 => rw [h1, h2] at hstep; exact hstep.elim
    | some r1 =>
      cases h2 : specNextFull items2 cfg2 st2 with
      | none => rw [h1, h2] at hstep; exact hstep.elim
      | some r2 =>
        rw [h1, h2] at hstep
        obtain ⟨i1, s1⟩ := r1
        obtain ⟨i2, s2⟩ := r2
        obtain ⟨hi, hs⟩ := hstep
        obtain ⟨e1, e2⟩ := ih s1 s2 hs
        simp only at hi
        subst hi
        exact ⟨by simp only [e1], e2⟩

end Rel
end RunCongr

theorem run_congr (items1 items2 : LexerDef) (c1 c2 : Compiled)
    (h1 : compileLexer items1 = .ok c1) (h2 : compileLexer items2 = .ok c2)
    (hok1 : DefOK items1) (hok2 : DefOK items2) (hne1 : DefNE items1) (hne2 : DefNE items2)
    (heq : DefEquiv items1 items2)
    (actions : Nat → Action σ τ ε) (width : Nat → Nat) (input : Option (List Nat)) (user : σ) (chars : List Nat) (n : Nat) :
    (runN (c1.config actions width input) n (initState user chars)).1 = (runN (c2.config actions width input) n (initState user chars)).1 ∧
    (runN (c1.config actions width input) n (initState user chars)).2.obs = (runN (c2.config actions width input) n (initState user chars)).2.obs := by
  have S : RunCongr.Setup items1 items2 (c1.config actions width input) (c2.config actions width input) :=
    ⟨heq, RunCongr.numOK_compile items1 c1 h1 hok1 actions width input,
      RunCongr.numOK_compile items2 c2 h2 hok2 actions width input, hne1, hne2, rfl, rfl, rfl⟩
  rw [run_fresh_eq_spec items1 c1 h1 hok1 hne1, run_fresh_eq_spec items2 c2 h2 hok2 hne2]
  have hc : ∀ i rest, CtxLang (specCtxAt items1 i) rest ↔ CtxLang (specCtxAt items2 i) rest :=
    fun i rest => ctxLang_congr (heq.ctxs i) rest
  have h0 : RunCongr.StRel items1 (c1.config actions width input) (c2.config actions width input)
      (initState user chars) (initState user chars) :=
    ⟨⟨rfl, rfl, rfl, rfl, rfl, RunCongr.numRel_zero S⟩, rfl, rfl⟩
  obtain ⟨e1, e2⟩ := RunCongr.specRunN_rel S hc n _ _ h0
  exact ⟨e1, e2.obs⟩

/-- Special case: the two definitions have the same rule-set names, literally the same rules after variable substitution
(`coreRules`), rule set by rule set, and the same right contexts. -/
theorem run_congr_of_core_eq (items1 items2 : LexerDef) (c1 c2 : Compiled)
    (h1 : compileLexer items1 = .ok c1) (h2 : compileLexer items2 = .ok c2)
    (hok1 : DefOK items1) (hok2 : DefOK items2) (hne1 : DefNE items1) (hne2 : DefNE items2)
    (hsets : hasRuleSets items1 = hasRuleSets items2)
    (hnames : (allRuleSets items1).map (·.1) = (allRuleSets items2).map (·.1))
    (hrules : ∀ i (h1 : i < (allRuleSets items1).length) (h2 : i < (allRuleSets items2).length),
      coreRules (allRuleSets items1)[i].2.1 (allRuleSets items1)[i].2.2.1 (allRuleSets items1)[i].2.2.2 =
      coreRules (allRuleSets items2)[i].2.1 (allRuleSets items2)[i].2.2.1 (allRuleSets items2)[i].2.2.2)
    (hctxs : specCtxAt items1 = specCtxAt items2)
    (actions : Nat → Action σ τ ε) (width : Nat → Nat) (input : Option (List Nat)) (user : σ) (chars : List Nat) (n : Nat) :
    (runN (c1.config actions width input) n (initState user chars)).1 = (runN (c2.config actions width input) n (initState user chars)).1 ∧
    (runN (c1.config actions width input) n (initState user chars)).2.obs = (runN (c2.config actions width input) n (initState user chars)).2.obs := by
  apply run_congr items1 items2 c1 c2 h1 h2 hok1 hok2 hne1 hne2 ?_ actions width input user chars n
  refine ⟨hsets, hnames, fun i l1 l2 => ?_, fun i w => by rw [hctxs]⟩
  obtain ⟨_, rs, _, _, hrs, _⟩ := compile_realises items1 c1 h1 _ _ _ _ (List.getElem_mem l1)
  exact ⟨rs, rs, hrs, (hrules i l1 l2) ▸ hrs, RulesEquiv.refl rs⟩

/-! ## Non-vacuity: a `let` variable and `+`, against the same rule written out -/

namespace RunCongr

/-- `rule Init { let d = 'b'; 'a' $d+ = 0, }` -/
def exLet : LexerDef :=
  [ .ruleSet "Init" [ .binding "d" (.chr 98), .rule { re := .cat (.chr 97) (.plus (.var "d")), ctx := none, rhs := 0 } ] ]

/-- `rule Init { 'a' 'b' 'b'* = 0, }` -/
def exPlain : LexerDef :=
  [ .ruleSet "Init" [ .rule { re := .cat (.chr 97) (.cat (.chr 98) (.star (.chr 98))), ctx := none, rhs := 0 } ] ]

theorem exLet_sets : allRuleSets exLet =
    [("Init", [ .binding "d" (.chr 98), .rule { re := .cat (.chr 97) (.plus (.var "d")), ctx := none, rhs := 0 } ], [], 0)] := rfl

theorem exPlain_sets : allRuleSets exPlain =
    [("Init", [ .rule { re := .cat (.chr 97) (.cat (.chr 98) (.star (.chr 98))), ctx := none, rhs := 0 } ], [], 0)] := rfl

theorem exLet_core : coreRules [ .binding "d" (.chr 98), .rule { re := .cat (.chr 97) (.plus (.var "d")), ctx := none, rhs := 0 } ] [] 0 =
    some [{ re := .cat (.chr 97) (.plus (.chr 98)), ctx := none, value := 0 }] := by
  simp only [coreRules, inlineVars, Bindings.find?, bind, Except.bind, pure, Except.pure, List.nil_append, List.length_cons,
    List.length_nil, if_true, Option.map_some]

theorem exPlain_core : coreRules [ .rule { re := .cat (.chr 97) (.cat (.chr 98) (.star (.chr 98))), ctx := none, rhs := 0 } ] [] 0 =
    some [{ re := .cat (.chr 97) (.cat (.chr 98) (.star (.chr 98))), ctx := none, value := 0 }] := by
  simp only [coreRules, inlineVars, bind, Except.bind, pure, Except.pure, List.length_nil, Option.map_some]

/-- the definition with the `let` variable and `+` cannot be told apart from the one written out -/
theorem exLet_equiv : DefEquiv exLet exPlain := by
  refine ⟨rfl, rfl, fun i l1 l2 => ?_, fun i w => ?_⟩
  · have hi : i = 0 := by
      rw [exLet_sets] at l1
      simp only [List.length_cons, List.length_nil] at l1
      omega
    subst hi
    refine ⟨_, _, exLet_core, exPlain_core, rfl, fun j j1 j2 w => ?_⟩
    have hj : j = 0 := by
      simp only [List.length_cons, List.length_nil] at j1
      omega
    subst hj
    exact Iff.rfl
  · exact Iff.rfl

theorem exLet_compiles : ∃ c, compileLexer exLet = .ok c := by
  have : (compileLexer exLet).toOption.isSome = true := by
    rw [Static.compileLexer_eq]
    simp only [exLet, List.foldlM, Static.lexStep, compileRuleSet, compileSingleRule, inlineVars, Bindings.find?, bind,
      Except.bind, pure, Except.pure, Option.isSome_none, Bool.false_eq_true, if_false, if_true, List.nil_append,
      List.length_cons, List.length_nil]
    decide
  cases h : compileLexer exLet with
  | error e => rw [h] at this; cases this
  | ok c => exact ⟨c, rfl⟩

theorem exPlain_compiles : ∃ c, compileLexer exPlain = .ok c := by
  have : (compileLexer exPlain).toOption.isSome = true := by
    rw [Static.compileLexer_eq]
    simp only [exPlain, List.foldlM, Static.lexStep, compileRuleSet, compileSingleRule, inlineVars, bind,
      Except.bind, pure, Except.pure]
    decide
  cases h : compileLexer exPlain with
  | error e => rw [h] at this; cases this
  | ok c => exact ⟨c, rfl⟩

theorem ex_nonNull : ¬ den (.cat (.chr 97) (.plus (.chr 98))) [] := by
  simp only [den]
  rintro ⟨u, v, huv, hu, _⟩
  subst hu
  cases huv

theorem exLet_ok : DefOK exLet := by
  constructor
  · intro name rs b k hmem rules hc r hr
    rw [exLet_sets] at hmem
    simp only [List.mem_singleton, Prod.mk.injEq] at hmem
    obtain ⟨rfl, rfl, rfl, rfl⟩ := hmem
    rw [exLet_core] at hc
    cases hc
    simp only [List.mem_singleton] at hr
    subst hr
    exact ⟨by simp [regexPiecesOK], by simp [tailEoi, eoiFree], ex_nonNull⟩
  · intro name rs b k hmem cres hc c hcm
    rw [exLet_sets] at hmem
    simp only [List.mem_singleton, Prod.mk.injEq] at hmem
    obtain ⟨rfl, rfl, rfl, rfl⟩ := hmem
    simp only [coreCtxs, Option.some.injEq] at hc
    subst hc
    cases hcm

theorem exPlain_ok : DefOK exPlain := by
  constructor
  · intro name rs b k hmem rules hc r hr
    rw [exPlain_sets] at hmem
    simp only [List.mem_singleton, Prod.mk.injEq] at hmem
    obtain ⟨rfl, rfl, rfl, rfl⟩ := hmem
    rw [exPlain_core] at hc
    cases hc
    simp only [List.mem_singleton] at hr
    subst hr
    exact ⟨by simp [regexPiecesOK], by simp [tailEoi, eoiFree], ex_nonNull⟩
  · intro name rs b k hmem cres hc c hcm
    rw [exPlain_sets] at hmem
    simp only [List.mem_singleton, Prod.mk.injEq] at hmem
    obtain ⟨rfl, rfl, rfl, rfl⟩ := hmem
    simp only [coreCtxs, Option.some.injEq] at hc
    subst hc
    cases hcm

theorem exLet_ne : DefNE exLet := by
  intro name rs b k hmem rules hc r hr
  rw [exLet_sets] at hmem
  simp only [List.mem_singleton, Prod.mk.injEq] at hmem
  obtain ⟨rfl, rfl, rfl, rfl⟩ := hmem
  rw [exLet_core] at hc
  cases hc
  simp only [List.mem_singleton] at hr
  subst hr
  simp [NoEmptyPieces]

theorem exPlain_ne : DefNE exPlain := by
  intro name rs b k hmem rules hc r hr
  rw [exPlain_sets] at hmem
  simp only [List.mem_singleton, Prod.mk.injEq] at hmem
  obtain ⟨rfl, rfl, rfl, rfl⟩ := hmem
  rw [exPlain_core] at hc
  cases hc
  simp only [List.mem_singleton] at hr
  subst hr
  simp [NoEmptyPieces]

/-- all hypotheses of `run_congr` hold together for the two example definitions: their lexers return the same items on every input -/
example (c1 c2 : Compiled) (h1 : compileLexer exLet = .ok c1) (h2 : compileLexer exPlain = .ok c2)
    (actions : Nat → Action σ τ ε) (width : Nat → Nat) (input : Option (List Nat)) (user : σ) (chars : List Nat) (n : Nat) :
    (runN (c1.config actions width input) n (initState user chars)).1 = (runN (c2.config actions width input) n (initState user chars)).1 :=
  (run_congr exLet exPlain c1 c2 h1 h2 exLet_ok exPlain_ok exLet_ne exPlain_ne exLet_equiv actions width input user chars n).1

end RunCongr

end Lexgen

/- ```
#print axioms Lexgen.run_congr
-- 'Lexgen.run_congr' depends on axioms: [propext, Classical.choice, Quot.sound]
#print axioms Lexgen.run_congr_of_core_eq
-- 'Lexgen.run_congr_of_core_eq' depends on axioms: [propext, Classical.choice, Quot.sound]
#print axioms Lexgen.RunCongr.exLet_equiv
-- 'Lexgen.RunCongr.exLet_equiv' depends on axioms: [propext, Quot.sound]
#print axioms Lexgen.RunCongr.exLet_compiles
-- 'Lexgen.RunCongr.exLet_compiles' depends on axioms: [propext, Quot.sound]
#print axioms Lexgen.RunCongr.exPlain_compiles
-- 'Lexgen.RunCongr.exPlain_compiles' depends on axioms: [propext, Quot.sound]
``` -/
