import LexgenModel.Exec.RefMatch
import LexgenModel.Spec.RefLexer
import LexgenModel.Proofs.RefRefine
/-!
# The executable reference matcher and maximal-munch selector are correct

`Exec/RefMatch.lean` decides the language-level specification by Brzozowski derivatives; here each
computable function is proved equivalent to its (noncomputable) specification.
-/
namespace Lexgen

/-! ## Character classes -/

theorem itemHasB_iff (it : CharOrRange) (x : Nat) : itemHasB it x = true ↔ itemHas it x := by
  cases it with
  | chr c => simp [itemHasB, itemHas]
  | rng s e => simp [itemHasB, itemHas]

theorem itemHasB_iff' (it : CharOrRange) (x : Nat) :
    itemHasB it x = true ↔ (match it with | .chr c => x = c | .rng s e => s ≤ x ∧ x ≤ e) := by
  cases it with
  | chr c => simp [itemHasB]
  | rng s e => simp [itemHasB]

theorem classMem_iff (e : Regex) (c : Nat) : classMem e c = true ↔ classDen e c := by
  induction e with
  | builtin n =>
    unfold classMem classDen
    cases h : builtinRanges n with
    | none => simp
    | some rs => simp
  | var n => simp [classMem, classDen]
  | chr d => simp [classMem, classDen]
  | str cs => simp [classMem, classDen]
  | set items =>
    unfold classMem classDen
    rw [List.any_eq_true]
    constructor
    · rintro ⟨it, hit, h⟩
      exact ⟨it, hit, (itemHasB_iff' it c).mp h⟩
    · rintro ⟨it, hit, h⟩
      exact ⟨it, hit, (itemHasB_iff' it c).mpr h⟩
  | star r _ => simp [classMem, classDen]
  | plus r _ => simp [classMem, classDen]
  | opt r _ => simp [classMem, classDen]
  | cat a b _ _ => simp [classMem, classDen]
  | alt a b iha ihb => simp [classMem, classDen, iha, ihb]
  | any => simp [classMem, classDen]
  | eoi => simp [classMem, classDen]
  | diff a b iha ihb =>
    unfold classMem classDen
    rw [← iha, ← ihb]
    simp

/-! ## The empty language, the empty word, smart constructors -/

theorem den_emptyR (w : List Sym) : ¬ den emptyR w := by
  simp [emptyR, den]

theorem star_empty {L : List Sym → Prop} (hL : ∀ w, ¬ L w) (w : List Sym) : Star L w ↔ w = [] := by
  constructor
  · intro h
    cases h with
    | nil => rfl
    | cons h1 _ => exact absurd h1 (hL _)
  · rintro rfl
    exact Star.nil

theorem den_epsR (w : List Sym) : den epsR w ↔ w = [] := by
  show Star (den (.str [])) w ↔ w = []
  exact star_empty (fun w => den_emptyR w) w

theorem den_ofBoolR (b : Bool) (w : List Sym) : den (ofBoolR b) w ↔ b = true ∧ w = [] := by
  cases b with
  | true => simp [ofBoolR, den_epsR]
  | false => simpa [ofBoolR] using den_emptyR w

theorem den_cat (a b : Regex) (w : List Sym) :
    den (.cat a b) w ↔ ∃ u v, w = u ++ v ∧ den a u ∧ den b v := Iff.rfl

theorem den_alt (a b : Regex) (w : List Sym) : den (.alt a b) w ↔ den a w ∨ den b w := Iff.rfl

theorem den_mkCat (a b : Regex) (w : List Sym) :
    den (mkCat a b) w ↔ ∃ u v, w = u ++ v ∧ den a u ∧ den b v := by
  unfold mkCat
  split
  · next h =>
    subst h
    constructor
    · intro h; exact absurd h (den_emptyR w)
    · rintro ⟨u, v, _, h, _⟩; exact absurd h (den_emptyR u)
  · split
    · next h =>
      subst h
      constructor
      · intro h; exact absurd h (den_emptyR w)
      · rintro ⟨u, v, _, _, h⟩; exact absurd h (den_emptyR v)
    · split
      · next h =>
        subst h
        constructor
        · intro h; exact ⟨[], w, rfl, (den_epsR []).mpr rfl, h⟩
        · rintro ⟨u, v, rfl, hu, hv⟩
          rw [(den_epsR u).mp hu]; exact hv
      · split
        · next h =>
          subst h
          constructor
          · intro h; exact ⟨w, [], by simp, h, (den_epsR []).mpr rfl⟩
          · rintro ⟨u, v, rfl, hu, hv⟩
            rw [(den_epsR v).mp hv]; simpa using hu
        · exact Iff.rfl

theorem den_altOfList (l : List Regex) (w : List Sym) : den (altOfList l) w ↔ ∃ r ∈ l, den r w := by
  induction l with
  | nil => simpa [altOfList] using den_emptyR w
  | cons r rs ih =>
    cases rs with
    | nil => simp [altOfList]
    | cons r' rs' =>
      show den r w ∨ den (altOfList (r' :: rs')) w ↔ _
      rw [ih]
      simp

theorem den_altsR (r : Regex) (w : List Sym) : den r w ↔ ∃ r' ∈ altsR r, den r' w := by
  induction r with
  | alt a b iha ihb =>
    rw [den_alt, iha, ihb, show altsR (.alt a b) = altsR a ++ altsR b from rfl]
    simp only [List.mem_append]
    constructor
    · rintro (⟨r', h, hd⟩ | ⟨r', h, hd⟩)
      · exact ⟨r', Or.inl h, hd⟩
      · exact ⟨r', Or.inr h, hd⟩
    · rintro ⟨r', h | h, hd⟩
      · exact Or.inl ⟨r', h, hd⟩
      · exact Or.inr ⟨r', h, hd⟩
  | _ => simp [altsR]

theorem mem_dedupR (l : List Regex) (r : Regex) : r ∈ dedupR l ↔ r ∈ l := by
  induction l with
  | nil => simp [dedupR]
  | cons a as ih =>
    unfold dedupR
    split
    · next h =>
      rw [ih]
      have : a ∈ as := by simpa using h
      constructor
      · intro h'; exact List.mem_cons_of_mem _ h'
      · intro h'
        rcases List.mem_cons.mp h' with rfl | h'
        · exact this
        · exact h'
    · simp [ih]

theorem den_mkAlt (a b : Regex) (w : List Sym) : den (mkAlt a b) w ↔ den a w ∨ den b w := by
  unfold mkAlt
  rw [den_altOfList, den_altsR a, den_altsR b]
  constructor
  · rintro ⟨r, hr, hd⟩
    rw [mem_dedupR, List.mem_filter, List.mem_append] at hr
    rcases hr.1 with h | h
    · exact Or.inl ⟨r, h, hd⟩
    · exact Or.inr ⟨r, h, hd⟩
  · have key : ∀ r, (r ∈ altsR a ∨ r ∈ altsR b) → den r w →
        ∃ r ∈ dedupR (List.filter (fun r => !r == emptyR) (altsR a ++ altsR b)), den r w := by
      intro r hr hd
      refine ⟨r, ?_, hd⟩
      rw [mem_dedupR, List.mem_filter, List.mem_append]
      refine ⟨hr, ?_⟩
      have : r ≠ emptyR := fun h => den_emptyR w (h ▸ hd)
      simpa using this
    rintro (⟨r, hr, hd⟩ | ⟨r, hr, hd⟩)
    · exact key r (Or.inl hr) hd
    · exact key r (Or.inr hr) hd

/-! ## Nullability -/

theorem nullableR_iff (r : Regex) : nullableR r = true ↔ den r [] := by
  induction r with
  | builtin n => simp [nullableR, den]
  | var n => simp [nullableR, den]
  | chr c => simp [nullableR, den]
  | str cs =>
    simp only [nullableR, den, Bool.false_eq_true, false_iff]
    rintro ⟨h1, h2⟩
    cases cs with
    | nil => exact h1 rfl
    | cons c cs => simp at h2
  | set items => simp [nullableR, den]
  | star r _ => simp only [nullableR, den, true_iff]; exact Star.nil
  | plus r ih =>
    simp only [nullableR, den, ih]
    constructor
    · intro h; exact ⟨[], [], rfl, h, Star.nil⟩
    · rintro ⟨u, v, h, hu, _⟩
      have : u = [] := by
        cases u with
        | nil => rfl
        | cons x u => simp at h
      subst this; exact hu
  | opt r _ => simp [nullableR, den]
  | cat a b iha ihb =>
    simp only [nullableR, den, Bool.and_eq_true, iha, ihb]
    constructor
    · rintro ⟨ha, hb⟩; exact ⟨[], [], rfl, ha, hb⟩
    · rintro ⟨u, v, h, hu, hv⟩
      have h' := h.symm
      rw [List.append_eq_nil_iff] at h'
      obtain ⟨rfl, rfl⟩ := h'
      exact ⟨hu, hv⟩
  | alt a b iha ihb => simp only [nullableR, den, Bool.or_eq_true, iha, ihb]
  | any => simp [nullableR, den]
  | eoi => simp [nullableR, den]
  | diff a b _ _ => simp [nullableR, den]

/-! ## Derivative -/

/-- a non-empty word of `L*` starts with a non-empty word of `L` -/
theorem star_cons_iff {L : List Sym → Prop} (x : Sym) (w : List Sym) :
    Star L (x :: w) ↔ ∃ u v, w = u ++ v ∧ L (x :: u) ∧ Star L v := by
  constructor
  · intro h
    generalize hw : x :: w = w' at h
    induction h with
    | nil => cases hw
    | @cons u v hu hv ih =>
      cases u with
      | nil => exact ih hw
      | cons y u' =>
        simp only [List.cons_append, List.cons.injEq] at hw
        obtain ⟨rfl, rfl⟩ := hw
        exact ⟨u', v, rfl, hu, hv⟩
  · rintro ⟨u, v, rfl, hu, hv⟩
    exact Star.cons hu hv

theorem cat_cons_iff {A B : List Sym → Prop} (x : Sym) (w : List Sym) :
    (∃ u v, x :: w = u ++ v ∧ A u ∧ B v) ↔
      (∃ u v, w = u ++ v ∧ A (x :: u) ∧ B v) ∨ (A [] ∧ B (x :: w)) := by
  constructor
  · rintro ⟨u, v, h, hu, hv⟩
    cases u with
    | nil =>
      simp only [List.nil_append] at h
      subst h
      exact Or.inr ⟨hu, hv⟩
    | cons y u' =>
      simp only [List.cons_append, List.cons.injEq] at h
      obtain ⟨rfl, rfl⟩ := h
      exact Or.inl ⟨u', v, rfl, hu, hv⟩
  · rintro (⟨u, v, rfl, hu, hv⟩ | ⟨hu, hv⟩)
    · exact ⟨x :: u, v, rfl, hu, hv⟩
    · exact ⟨[], x :: w, rfl, hu, hv⟩

theorem den_derivR (r : Regex) (x : Sym) (w : List Sym) : den (derivR r x) w ↔ den r (x :: w) := by
  induction r generalizing w with
  | builtin n =>
    simp only [derivR, den_ofBoolR, den]
    cases x with
    | ch c =>
      simp only [oneSym, classMem_iff]
      constructor
      · rintro ⟨h, rfl⟩; exact ⟨c, rfl, h⟩
      · rintro ⟨c', h, hc⟩
        simp only [List.cons.injEq, Sym.ch.injEq] at h
        obtain ⟨rfl, rfl⟩ := h
        exact ⟨hc, rfl⟩
    | eoi => simp [oneSym]
  | var n => simpa [derivR, den] using den_emptyR w
  | chr c =>
    simp only [derivR, den_ofBoolR, den]
    cases x with
    | ch d => simp [oneSym]
    | eoi => simp [oneSym]
  | str cs =>
    cases cs with
    | nil => simpa [derivR, den] using den_emptyR w
    | cons c cs =>
      simp only [derivR]
      by_cases hx : x = .ch c
      · subst hx
        simp only [if_true]
        by_cases hcs : cs = []
        · subst hcs
          simp [den_epsR, den]
        · simp [hcs, den]
      · simp only [hx, if_false]
        have := den_emptyR w
        simp only [den, this, false_iff]
        rintro ⟨_, h⟩
        simp only [List.map_cons, List.cons.injEq] at h
        exact hx h.1
  | set items =>
    simp only [derivR, den_ofBoolR, den]
    cases x with
    | ch c =>
      simp only [oneSym, List.any_eq_true]
      constructor
      · rintro ⟨⟨it, hit, h⟩, rfl⟩; exact ⟨c, rfl, it, hit, (itemHasB_iff it c).mp h⟩
      · rintro ⟨c', h, it, hit, hc⟩
        simp only [List.cons.injEq, Sym.ch.injEq] at h
        obtain ⟨rfl, rfl⟩ := h
        exact ⟨⟨it, hit, (itemHasB_iff it c).mpr hc⟩, rfl⟩
    | eoi => simp [oneSym]
  | star r ih =>
    simp only [derivR, den_mkCat]
    show _ ↔ Star (den r) (x :: w)
    rw [star_cons_iff]
    constructor
    · rintro ⟨u, v, rfl, hu, hv⟩; exact ⟨u, v, rfl, (ih u).mp hu, hv⟩
    · rintro ⟨u, v, rfl, hu, hv⟩; exact ⟨u, v, rfl, (ih u).mpr hu, hv⟩
  | plus r ih =>
    simp only [derivR, den_mkCat]
    show _ ↔ ∃ u v, x :: w = u ++ v ∧ den r u ∧ Star (den r) v
    rw [cat_cons_iff, star_cons_iff]
    constructor
    · rintro ⟨u, v, rfl, hu, hv⟩; exact Or.inl ⟨u, v, rfl, (ih u).mp hu, hv⟩
    · rintro (⟨u, v, rfl, hu, hv⟩ | ⟨_, u, v, rfl, hu, hv⟩)
      · exact ⟨u, v, rfl, (ih u).mpr hu, hv⟩
      · exact ⟨u, v, rfl, (ih u).mpr hu, hv⟩
  | opt r ih =>
    simp only [derivR, den, ih]
    simp
  | cat a b iha ihb =>
    simp only [derivR]
    rw [den_cat, cat_cons_iff]
    by_cases hn : nullableR a = true
    · simp only [hn, if_true, den_mkAlt, den_mkCat, ihb]
      have hn' := (nullableR_iff a).mp hn
      constructor
      · rintro (⟨u, v, rfl, hu, hv⟩ | h)
        · exact Or.inl ⟨u, v, rfl, (iha u).mp hu, hv⟩
        · exact Or.inr ⟨hn', h⟩
      · rintro (⟨u, v, rfl, hu, hv⟩ | ⟨_, h⟩)
        · exact Or.inl ⟨u, v, rfl, (iha u).mpr hu, hv⟩
        · exact Or.inr h
    · simp only [hn, Bool.false_eq_true, if_false, den_mkCat]
      have hn' : ¬ den a [] := fun h => hn ((nullableR_iff a).mpr h)
      constructor
      · rintro ⟨u, v, rfl, hu, hv⟩
        exact Or.inl ⟨u, v, rfl, (iha u).mp hu, hv⟩
      · rintro (⟨u, v, rfl, hu, hv⟩ | ⟨h, _⟩)
        · exact ⟨u, v, rfl, (iha u).mpr hu, hv⟩
        · exact absurd h hn'
  | alt a b iha ihb => simp only [derivR, den_mkAlt, den_alt, iha, ihb]
  | any =>
    simp only [derivR, den_ofBoolR, den]
    cases x with
    | ch c => simp [oneSym]
    | eoi => simp [oneSym]
  | eoi =>
    simp only [derivR, den_ofBoolR, den]
    cases x with
    | ch c => simp [oneSym]
    | eoi => simp [oneSym]
  | diff a b _ _ =>
    simp only [derivR, den_ofBoolR, den]
    cases x with
    | ch c =>
      simp only [oneSym, classMem_iff]
      constructor
      · rintro ⟨h, rfl⟩; exact ⟨c, rfl, h⟩
      · rintro ⟨c', h, hc⟩
        simp only [List.cons.injEq, Sym.ch.injEq] at h
        obtain ⟨rfl, rfl⟩ := h
        exact ⟨hc, rfl⟩
    | eoi => simp [oneSym]

theorem den_derivsR (r : Regex) (u w : List Sym) : den (derivsR r u) w ↔ den r (u ++ w) := by
  induction u generalizing r with
  | nil => rfl
  | cons x u ih =>
    show den (derivsR (derivR r x) u) w ↔ _
    rw [ih, den_derivR]
    rfl

theorem matchesR_iff (r : Regex) (w : List Sym) : matchesR r w = true ↔ den r w := by
  unfold matchesR
  rw [nullableR_iff, den_derivsR, List.append_nil]

/-! ## Rule sets, right contexts, candidates -/

theorem matchesR_cons (r : Regex) (x : Sym) (w : List Sym) : matchesR r (x :: w) = matchesR (derivR r x) w := rfl

theorem matchesR_nil (r : Regex) : matchesR r [] = nullableR r := rfl

theorem matchesR_emptyR (w : List Sym) : matchesR emptyR w = false := by
  cases h : matchesR emptyR w with
  | false => rfl
  | true => exact absurd ((matchesR_iff _ _).mp h) (den_emptyR w)

open Classical in
theorem matchingAccsB_eq (rules : List CoreRule) (w : List Sym) : matchingAccsB rules w = matchingAccs rules w := by
  unfold matchingAccsB matchingAccs
  congr 1
  apply List.filter_congr
  intro r _
  rw [Bool.eq_iff_iff, matchesR_iff]
  simp

theorem anyPrefixB_iff (r : Regex) (w : List Sym) : anyPrefixB r w = true ↔ ∃ j, den r (w.take j) := by
  induction w generalizing r with
  | nil => simp [anyPrefixB, nullableR_iff]
  | cons x w ih =>
    simp only [anyPrefixB, Bool.or_eq_true, Bool.and_eq_true, nullableR_iff, ih]
    constructor
    · rintro (h | ⟨_, j, h⟩)
      · exact ⟨0, h⟩
      · exact ⟨j + 1, (den_derivR r x _).mp h⟩
    · rintro ⟨j, h⟩
      cases j with
      | zero => exact Or.inl h
      | succ j =>
        rw [List.take_succ_cons] at h
        refine Or.inr ⟨?_, j, (den_derivR r x _).mpr h⟩
        have : r ≠ emptyR := fun he => den_emptyR _ (he ▸ h)
        simpa using this

theorem ctxLangB_iff (c : Regex) (rest : List Nat) : ctxLangB c rest = true ↔ CtxLang c rest :=
  anyPrefixB_iff c (ext rest)

theorem firstLangB_eq (ctxAt : Nat → Regex) (rest : List Nat) (accs : List Acc) :
    firstLangB ctxAt rest accs = firstLang ctxAt rest accs := by
  induction accs with
  | nil => rfl
  | cons a more ih =>
    unfold firstLangB firstLang
    cases a.ctx with
    | none => rfl
    | some i =>
      by_cases h : CtxLang (ctxAt i) rest
      · simp only [(ctxLangB_iff _ _).mpr h, h, if_true]
      · have hb : ¬ ctxLangB (ctxAt i) rest = true := fun hb => h ((ctxLangB_iff _ _).mp hb)
        simp only [hb, h, if_false]
        exact ih

theorem langCand_false_iff (rules : List CoreRule) (ctxAt : Nat → Regex) (iter : List Nat) (n a : Nat) :
    LangCand rules ctxAt iter n a false ↔
      n ≤ iter.length ∧ firstLang ctxAt (iter.drop n) (matchingAccs rules ((iter.take n).map Sym.ch)) = some a := by
  simp [LangCand]

theorem langCand_true_iff (rules : List CoreRule) (ctxAt : Nat → Regex) (iter : List Nat) (n a : Nat) :
    LangCand rules ctxAt iter n a true ↔
      n = iter.length ∧ firstLang ctxAt [] (matchingAccs rules (iter.map Sym.ch ++ [Sym.eoi])) = some a := by
  simp only [LangCand, if_true]
  constructor
  · rintro ⟨_, h⟩; exact h
  · rintro ⟨h1, h2⟩; exact ⟨by omega, h1, h2⟩

theorem langCandB_iff (rules : List CoreRule) (ctxAt : Nat → Regex) (iter : List Nat) (n a : Nat) (viaEoi : Bool) :
    langCandB rules ctxAt iter n a viaEoi = true ↔ LangCand rules ctxAt iter n a viaEoi := by
  unfold langCandB LangCand
  simp only [firstLangB_eq, matchingAccsB_eq]
  cases viaEoi <;> simp

/-! ## Maximal munch -/

theorem nullAccs_eq (rules : List CoreRule) : nullAccs rules = matchingAccsB rules [] := rfl

theorem matchingAccsB_derivRules (rules : List CoreRule) (x : Sym) (w : List Sym) :
    matchingAccsB (derivRules rules x) w = matchingAccsB rules (x :: w) := by
  induction rules with
  | nil => rfl
  | cons r rs ih =>
    have ih' : List.map (fun r : CoreRule => ({ value := r.value, ctx := r.ctx } : Acc))
          (List.filter (fun r => matchesR r.re w) (derivRules rs x)) =
        List.map (fun r : CoreRule => ({ value := r.value, ctx := r.ctx } : Acc))
          (List.filter (fun r => matchesR r.re (x :: w)) rs) := ih
    unfold matchingAccsB derivRules
    simp only [List.map_cons, List.filter_cons, matchesR_cons]
    by_cases he : derivR r.re x = emptyR
    · simp only [he, beq_self_eq_true, Bool.not_true, Bool.false_eq_true, if_false, matchesR_emptyR]
      exact ih'
    · have hb : (!(derivR r.re x == emptyR)) = true := by simpa using he
      simp only [hb, if_true, List.filter_cons]
      by_cases hm : matchesR (derivR r.re x) w = true
      · simp only [hm, if_true, List.map_cons]
        exact congrArg _ ih'
      · simp only [hm, if_false, Bool.false_eq_true]
        exact ih'

theorem derivRules_nil (x : Sym) : derivRules [] x = [] := rfl

theorem scanRef_nilRules (ctxAt : Nat → Regex) (k : Nat) (rest : List Nat) (best : Option (Nat × Nat × Bool)) :
    scanRef ctxAt [] k rest best = best := by
  induction rest generalizing k best with
  | nil => simp [scanRef, derivRules_nil, nullAccs, firstLangB]
  | cons c rest ih => simp [scanRef, derivRules_nil, nullAccs, firstLangB]

theorem scanRef_cons (ctxAt : Nat → Regex) (rules : List CoreRule) (k c : Nat) (rest : List Nat)
    (best : Option (Nat × Nat × Bool)) :
    scanRef ctxAt rules k (c :: rest) best =
      scanRef ctxAt (derivRules rules (.ch c)) (k + 1) rest
        (match firstLangB ctxAt (c :: rest) (nullAccs rules) with
         | some a => some (k, a, false)
         | none => best) := by
  rw [scanRef]
  cases h : derivRules rules (.ch c) with
  | nil => simp only [scanRef_nilRules]; rfl
  | cons r rs => rfl

/-- the result of the scan is the selected match, if any -/
def GoodRes (rules : List CoreRule) (ctxAt : Nat → Regex) (iter : List Nat) : Option (Nat × Nat × Bool) → Prop
  | none => ∀ n a e, ¬ LangCand rules ctxAt iter n a e
  | some (n, a, e) => Selects rules ctxAt iter n a e

/-- `best` is the greatest match among those of length `< k` -/
def BestBelow (rules : List CoreRule) (ctxAt : Nat → Regex) (iter : List Nat) (k : Nat) :
    Option (Nat × Nat × Bool) → Prop
  | none => ∀ n a e, LangCand rules ctxAt iter n a e → k ≤ n
  | some (n, a, e) => LangCand rules ctxAt iter n a e ∧
      ∀ n' a' e', LangCand rules ctxAt iter n' a' e' → n' < k → candLe n' e' n e

theorem langCand_le {rules : List CoreRule} {ctxAt : Nat → Regex} {iter : List Nat} {n a : Nat} {e : Bool}
    (h : LangCand rules ctxAt iter n a e) : n ≤ iter.length := h.1

theorem scanRef_good (rules0 : List CoreRule) (ctxAt : Nat → Regex) (iter : List Nat) :
    ∀ (rest pre : List Nat) (rules : List CoreRule) (best : Option (Nat × Nat × Bool)),
      iter = pre ++ rest →
      (∀ w, matchingAccsB rules w = matchingAccs rules0 (pre.map Sym.ch ++ w)) →
      BestBelow rules0 ctxAt iter pre.length best →
      GoodRes rules0 ctxAt iter (scanRef ctxAt rules pre.length rest best) := by
  intro rest
  induction rest with
  | nil =>
    intro pre rules best hiter hrules hbest
    simp only [List.append_nil] at hiter
    subst hiter
    have hT : firstLangB ctxAt [] (nullAccs (derivRules rules .eoi)) =
        firstLang ctxAt [] (matchingAccs rules0 (iter.map Sym.ch ++ [Sym.eoi])) := by
      rw [firstLangB_eq, nullAccs_eq, matchingAccsB_derivRules, hrules]
    have hF : firstLangB ctxAt [] (nullAccs rules) =
        firstLang ctxAt (iter.drop iter.length) (matchingAccs rules0 ((iter.take iter.length).map Sym.ch)) := by
      rw [firstLangB_eq, nullAccs_eq, hrules, List.append_nil, List.drop_length, List.take_length]
    rw [scanRef, hT, hF]
    cases hcT : firstLang ctxAt [] (matchingAccs rules0 (iter.map Sym.ch ++ [Sym.eoi])) with
    | some a =>
      refine ⟨(langCand_true_iff ..).mpr ⟨rfl, hcT⟩, ?_⟩
      intro n' a' e' h'
      have := langCand_le h'
      rcases Nat.lt_or_ge n' iter.length with hlt | hge
      · exact Or.inl hlt
      · exact Or.inr ⟨by omega, fun _ => rfl⟩
    | none =>
      have noT : ∀ n a, ¬ LangCand rules0 ctxAt iter n a true := by
        intro n a h
        have := ((langCand_true_iff ..).mp h).2
        rw [hcT] at this
        cases this
      cases hcF : firstLang ctxAt (iter.drop iter.length)
          (matchingAccs rules0 ((iter.take iter.length).map Sym.ch)) with
      | some a =>
        refine ⟨(langCand_false_iff ..).mpr ⟨Nat.le_refl _, hcF⟩, ?_⟩
        intro n' a' e' h'
        have := langCand_le h'
        rcases Nat.lt_or_ge n' iter.length with hlt | hge
        · exact Or.inl hlt
        · refine Or.inr ⟨by omega, ?_⟩
          intro he
          subst he
          exact absurd h' (noT _ _)
      | none =>
        have noLen : ∀ a e, ¬ LangCand rules0 ctxAt iter iter.length a e := by
          intro a e h
          cases e with
          | true => exact noT _ _ h
          | false =>
            have := ((langCand_false_iff ..).mp h).2
            rw [hcF] at this
            cases this
        show GoodRes rules0 ctxAt iter best
        match best, hbest with
        | none, hbest =>
          intro n a e h
          have h1 := hbest n a e h
          have h2 := langCand_le h
          have : n = iter.length := by omega
          subst this
          exact noLen _ _ h
        | some (n, a, e), hbest =>
          refine ⟨hbest.1, ?_⟩
          intro n' a' e' h'
          have h2 := langCand_le h'
          rcases Nat.lt_or_ge n' iter.length with hlt | hge
          · exact hbest.2 n' a' e' h' hlt
          · have : n' = iter.length := by omega
            subst this
            exact absurd h' (noLen _ _)
  | cons c rest ih =>
    intro pre rules best hiter hrules hbest
    rw [scanRef_cons]
    have hlen : iter.length = pre.length + (rest.length + 1) := by
      rw [hiter]; simp
    have hdrop : iter.drop pre.length = c :: rest := by
      rw [hiter]; simp
    have htake : iter.take pre.length = pre := by
      rw [hiter]; simp
    have hF : firstLangB ctxAt (c :: rest) (nullAccs rules) =
        firstLang ctxAt (iter.drop pre.length) (matchingAccs rules0 ((iter.take pre.length).map Sym.ch)) := by
      rw [firstLangB_eq, nullAccs_eq, hrules, List.append_nil, hdrop, htake]
    have noT : ∀ a, ¬ LangCand rules0 ctxAt iter pre.length a true := by
      intro a h
      have := ((langCand_true_iff ..).mp h).1
      omega
    have hpre : (pre ++ [c]).length = pre.length + 1 := by simp
    rw [← hpre]
    apply ih (pre ++ [c]) (derivRules rules (.ch c))
    · rw [hiter]; simp
    · intro w
      rw [matchingAccsB_derivRules, hrules]
      simp
    · rw [hF, hpre]
      cases hcF : firstLang ctxAt (iter.drop pre.length)
          (matchingAccs rules0 ((iter.take pre.length).map Sym.ch)) with
      | some a =>
        refine ⟨(langCand_false_iff ..).mpr ⟨by omega, hcF⟩, ?_⟩
        intro n' a' e' h' hlt
        rcases Nat.lt_or_ge n' pre.length with hlt' | hge
        · exact Or.inl hlt'
        · have : n' = pre.length := by omega
          subst this
          refine Or.inr ⟨rfl, ?_⟩
          intro he
          subst he
          exact absurd h' (noT _)
      | none =>
        have noK : ∀ a e, ¬ LangCand rules0 ctxAt iter pre.length a e := by
          intro a e h
          cases e with
          | true => exact noT _ h
          | false =>
            have := ((langCand_false_iff ..).mp h).2
            rw [hcF] at this
            cases this
        show BestBelow rules0 ctxAt iter (pre.length + 1) best
        match best, hbest with
        | none, hbest =>
          intro n a e h
          have h1 := hbest n a e h
          rcases Nat.lt_or_ge pre.length n with hlt | hge
          · exact hlt
          · have : n = pre.length := by omega
            subst this
            exact absurd h (noK _ _)
        | some (n, a, e), hbest =>
          refine ⟨hbest.1, ?_⟩
          intro n' a' e' h' hlt
          rcases Nat.lt_or_ge n' pre.length with hlt' | hge
          · exact hbest.2 n' a' e' h' hlt'
          · have : n' = pre.length := by omega
            subst this
            exact absurd h' (noK _ _)

theorem selectRef_good (rules : List CoreRule) (ctxAt : Nat → Regex) (iter : List Nat) :
    GoodRes rules ctxAt iter (selectRef rules ctxAt iter) := by
  unfold selectRef
  have h := scanRef_good rules ctxAt iter iter [] rules none rfl
    (fun w => by rw [matchingAccsB_eq]; rfl) (fun n a e _ => Nat.zero_le n)
  exact h

theorem selectRef_some (rules : List CoreRule) (ctxAt : Nat → Regex) (iter : List Nat) (n a : Nat) (e : Bool) :
    selectRef rules ctxAt iter = some (n, a, e) ↔ Selects rules ctxAt iter n a e := by
  have hg := selectRef_good rules ctxAt iter
  constructor
  · intro h
    rw [h] at hg
    exact hg
  · intro hs
    cases hres : selectRef rules ctxAt iter with
    | none =>
      rw [hres] at hg
      exact absurd hs.1 (hg n a e)
    | some p =>
      obtain ⟨n', a', e'⟩ := p
      rw [hres] at hg
      obtain ⟨h1, h2, h3⟩ := selects_unique rules ctxAt iter n' a' n a e' e hg hs
      subst h1 h2 h3
      rfl

theorem selectRef_none (rules : List CoreRule) (ctxAt : Nat → Regex) (iter : List Nat) :
    selectRef rules ctxAt iter = none ↔ ∀ n a e, ¬ LangCand rules ctxAt iter n a e := by
  have hg := selectRef_good rules ctxAt iter
  constructor
  · intro h
    rw [h] at hg
    exact hg
  · intro hno
    cases hres : selectRef rules ctxAt iter with
    | none => rfl
    | some p =>
      obtain ⟨n, a, e⟩ := p
      rw [hres] at hg
      exact absurd hg.1 (hno n a e)

/-! ## Sanity checks on a tiny rule set (evaluated by the kernel) -/

namespace RefMatchTest
/-- `"if"`, `[a-z][a-z0-9]*`, `[0-9]+ > (' ' | $)`, `' '+`, `'x' $`, on code points -/
def rules : List CoreRule := [
  { re := .str [105, 102], ctx := none, value := 0 },
  { re := .cat (.set [.rng 97 122]) (.star (.set [.rng 97 122, .rng 48 57])), ctx := none, value := 1 },
  { re := .plus (.set [.rng 48 57]), ctx := some 0, value := 2 },
  { re := .plus (.chr 32), ctx := none, value := 3 },
  { re := .cat (.chr 120) .eoi, ctx := none, value := 4 }]
def ctxAt : Nat → Regex := fun _ => .alt (.chr 32) .eoi

example : selectRef rules ctxAt [105, 102, 32, 120] = some (2, 0, false) := by decide
example : selectRef rules ctxAt [105, 102, 120] = some (3, 1, false) := by decide
example : selectRef rules ctxAt [49, 50, 32] = some (2, 2, false) := by decide
example : selectRef rules ctxAt [49, 50] = some (2, 2, false) := by decide
example : selectRef rules ctxAt [49, 50, 97] = none := by decide
example : selectRef rules ctxAt [120] = some (1, 4, true) := by decide
example : selectRef rules ctxAt [120, 32] = some (1, 1, false) := by decide
example : selectRef rules ctxAt [] = none := by decide
example : matchesR (.star (.alt (.chr 97) (.str [97, 97]))) [.ch 97, .ch 97, .ch 97] = true := by decide
example : matchesR (.cat (.diff .any (.chr 97)) .eoi) [.ch 98, .eoi] = true := by decide
example : matchesR (.cat (.diff .any (.chr 97)) .eoi) [.ch 97, .eoi] = false := by decide
example : ctxLangB (.alt (.chr 32) .eoi) [] = true := by decide
example : ctxLangB (.alt (.chr 32) .eoi) [97] = false := by decide
example : langCandB rules ctxAt [105, 102, 120] 2 0 false = true := by decide
example : Selects rules ctxAt [105, 102, 120] 3 1 false := (selectRef_some ..).mp (by decide)
end RefMatchTest
end Lexgen
