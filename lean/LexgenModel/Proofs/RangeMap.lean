import LexgenModel.Model.RangeMap
/-!
# S1 — `RangeMap::insert` specification (well-formedness preserved, lookup = merge semantics)
-/

set_option linter.unusedSimpArgs false
namespace Lexgen.RangeMap
variable {α : Type}

def WFFrom (lo : Nat) : RangeMap α → Prop
  | [] => True
  | (s, e, _) :: rest => lo ≤ s ∧ s ≤ e ∧ WFFrom (e + 1) rest

theorem WFFrom.mono {lo lo' : Nat} {l : RangeMap α} (h : WFFrom lo l) (hle : lo' ≤ lo) : WFFrom lo' l := by
  cases l with
  | nil => trivial
  | cons r rest => obtain ⟨s, e, v⟩ := r; exact ⟨by have := h.1; omega, h.2.1, h.2.2⟩

theorem lookup_none_of_lt {lo : Nat} {l : RangeMap α} (h : WFFrom lo l) {c : Nat} (hc : c < lo) : lookup l c = none := by
  induction l generalizing lo with
  | nil => rfl
  | cons r rest ih =>
    obtain ⟨s, e, v⟩ := r
    simp only [lookup]
    have h1 := h.1; have h2 := h.2.1
    rw [if_neg (by omega)]
    exact ih h.2.2 (by omega)

def mergeOpt (merge : α → α → α) (old : Option α) (inNew : Bool) (v : α) : Option α :=
  match old, inNew with
  | some x, true => some (merge x v)
  | some x, false => some x
  | none, true => some v
  | none, false => none

theorem insertAux_nil (merge : α → α → α) (lastEnd : Option Nat) (ns ne : Nat) (v : α)
    (hlast : ∀ le, lastEnd = some le → le < ns) : insertAux merge [] lastEnd ns ne v = [(ns, ne, v)] := by
  cases lastEnd with
  | none => simp [insertAux]
  | some le => have := hlast le rfl; simp [insertAux, this]

theorem insertAux_spec (merge : α → α → α) (l : RangeMap α) (lastEnd : Option Nat) (ns ne : Nat) (v : α)
    (lo : Nat) (hwf : WFFrom lo l) (hlo : lo ≤ ns) (hne : ns ≤ ne) (hlast : ∀ le, lastEnd = some le → le < ns) :
    WFFrom lo (insertAux merge l lastEnd ns ne v) ∧
    ∀ c, lookup (insertAux merge l lastEnd ns ne v) c = mergeOpt merge (lookup l c) (decide (ns ≤ c ∧ c ≤ ne)) v := by
  induction l generalizing lastEnd ns lo with
  | nil =>
    rw [insertAux_nil merge lastEnd ns ne v hlast]
    refine ⟨⟨hlo, hne, trivial⟩, fun c => ?_⟩
    simp only [lookup, mergeOpt]
    by_cases h : ns ≤ c ∧ c ≤ ne <;> simp [h]
  | cons r rest ih =>
    obtain ⟨s, e, x⟩ := r
    obtain ⟨h1, h2, h3⟩ := hwf
    have hrest : ∀ c, c ≤ e → lookup rest c = none := fun c hc => lookup_none_of_lt h3 (by omega)
    simp only [insertAux]
    by_cases hA : e < ns
    · simp only [hA, if_true]
      have ⟨ihw, ihl⟩ := ih (some e) ns (e + 1) h3 (by omega) hne (by intro le hle; cases hle; exact hA)
      refine ⟨⟨h1, h2, ihw⟩, fun c => ?_⟩
      simp only [lookup]
      by_cases hc : s ≤ c ∧ c ≤ e
      · have : ¬ (ns ≤ c ∧ c ≤ ne) := by omega
        simp [hc, this, mergeOpt]
      · simp only [hc, if_false]; exact ihl c
    · simp only [hA, if_false]
      by_cases hB : s > ne
      · simp only [hB, if_true]
        refine ⟨⟨hlo, hne, by omega, h2, h3⟩, fun c => ?_⟩
        simp only [lookup, mergeOpt]
        by_cases c1 : ns ≤ c ∧ c ≤ ne
        · have : ¬ (s ≤ c ∧ c ≤ e) := by omega
          simp [c1, this, hrest c (by omega)]
        · by_cases c2 : s ≤ c ∧ c ≤ e <;> simp [c1, c2]
          cases lookup rest c <;> rfl
      · simp only [hB, if_false]
        have hns_s : ns ≤ e := Nat.le_of_not_lt hA
        have hs_ne : s ≤ ne := Nat.le_of_not_lt hB
        -- the overlap's end points, concretely
        obtain ⟨os, hos, hos1, hos2, hos3⟩ : ∃ os, max ns s = os ∧ ns ≤ os ∧ s ≤ os ∧ (os = ns ∨ os = s) := by
          rcases Nat.le_total ns s with h | h
          · exact ⟨s, Nat.max_eq_right h, h, Nat.le_refl _, Or.inr rfl⟩
          · exact ⟨ns, Nat.max_eq_left h, Nat.le_refl _, h, Or.inl rfl⟩
        obtain ⟨oe, hoe, hoe1, hoe2, hoe3⟩ : ∃ oe, min ne e = oe ∧ oe ≤ ne ∧ oe ≤ e ∧ (oe = ne ∨ oe = e) := by
          rcases Nat.le_total ne e with h | h
          · exact ⟨ne, Nat.min_eq_left h, Nat.le_refl _, h, Or.inl rfl⟩
          · exact ⟨e, Nat.min_eq_right h, h, Nat.le_refl _, Or.inr rfl⟩
        simp only [hos, hoe]
        have hosoe : os ≤ oe := by omega
        -- the part before the overlap
        have hpre : ∀ (tail : RangeMap α), WFFrom os tail →
            WFFrom lo ((if ns < os then [(ns, os - 1, v)] else if s < os then [(s, os - 1, x)] else []) ++ tail) ∧
            ∀ c, lookup ((if ns < os then [(ns, os - 1, v)] else if s < os then [(s, os - 1, x)] else []) ++ tail) c =
              if c < os then (if ns ≤ c then some v else if s ≤ c then some x else none) else lookup tail c := by
          intro tail htail
          by_cases p1 : ns < os
          · simp only [p1, if_true, List.cons_append, List.nil_append, WFFrom, lookup]
            refine ⟨⟨hlo, by omega, by rw [show os - 1 + 1 = os by omega]; exact htail⟩, fun c => ?_⟩
            by_cases q : ns ≤ c ∧ c ≤ os - 1
            · have : c < os := by omega
              simp [q, this]
            · simp only [q, if_false]
              by_cases q2 : c < os
              · have : ¬ ns ≤ c := by omega
                have hs : ¬ s ≤ c := by omega
                simp [q2, this, hs, lookup_none_of_lt htail q2]
              · simp [q2]
          · by_cases p2 : s < os
            · simp only [p1, p2, if_true, if_false, List.cons_append, List.nil_append, WFFrom, lookup]
              refine ⟨⟨h1, by omega, by rw [show os - 1 + 1 = os by omega]; exact htail⟩, fun c => ?_⟩
              by_cases q : s ≤ c ∧ c ≤ os - 1
              · have : c < os := by omega
                have hn : ¬ ns ≤ c := by omega
                simp [q, this, hn]
              · simp only [q, if_false]
                by_cases q2 : c < os
                · have : ¬ ns ≤ c := by omega
                  have hs : ¬ s ≤ c := by omega
                  simp [q2, this, hs, lookup_none_of_lt htail q2]
                · simp [q2]
            · simp only [p1, p2, if_false, List.nil_append]
              refine ⟨htail.mono (by omega), fun c => ?_⟩
              by_cases q2 : c < os
              · have : ¬ ns ≤ c := by omega
                have hs : ¬ s ≤ c := by omega
                simp [q2, this, hs, lookup_none_of_lt htail q2]
              · simp [q2]
        -- common shape of the three remaining cases
        have hfin : ∀ (X : RangeMap α), WFFrom (oe + 1) X →
            (∀ c, oe < c → lookup X c = mergeOpt merge (lookup ((s, e, x) :: rest) c) (decide (ns ≤ c ∧ c ≤ ne)) v) →
            WFFrom lo ((if ns < os then [(ns, os - 1, v)] else if s < os then [(s, os - 1, x)] else []) ++ [(os, oe, merge x v)] ++ X) ∧
            ∀ c, lookup ((if ns < os then [(ns, os - 1, v)] else if s < os then [(s, os - 1, x)] else []) ++ [(os, oe, merge x v)] ++ X) c =
              mergeOpt merge (lookup ((s, e, x) :: rest) c) (decide (ns ≤ c ∧ c ≤ ne)) v := by
          intro X hX hXl
          rw [List.append_assoc]
          have ⟨w, lk⟩ := hpre ([(os, oe, merge x v)] ++ X) ⟨Nat.le_refl _, hosoe, hX⟩
          refine ⟨w, fun c => ?_⟩
          rw [lk c]
          by_cases q : c < os
          · simp only [q, if_true, lookup, mergeOpt]
            by_cases q1 : ns ≤ c
            · have a1 : ¬ (s ≤ c ∧ c ≤ e) := by omega
              have a2 : ns ≤ c ∧ c ≤ ne := by omega
              simp [q1, a1, a2, hrest c (by omega)]
            · by_cases q2 : s ≤ c
              · have a1 : s ≤ c ∧ c ≤ e := by omega
                have a2 : ¬ (ns ≤ c ∧ c ≤ ne) := by omega
                simp [q1, q2, a1]
              · simp [q1, q2, hrest c (by omega)]
          · simp only [q, if_false, List.cons_append, List.nil_append, lookup]
            by_cases q1 : os ≤ c ∧ c ≤ oe
            · have a1 : s ≤ c ∧ c ≤ e := by omega
              have a2 : ns ≤ c ∧ c ≤ ne := by omega
              simp [q1, a1, a2, mergeOpt]
            · simp only [q1, if_false]
              have := hXl c (by omega)
              simpa [lookup] using this
        by_cases hC : e > oe
        · simp only [hC, if_true]
          refine hfin _ ⟨Nat.le_refl _, by omega, h3⟩ (fun c hc => ?_)
          have hoene : oe = ne := by omega
          simp only [lookup, mergeOpt]
          by_cases q : oe + 1 ≤ c ∧ c ≤ e
          · have a1 : s ≤ c ∧ c ≤ e := by omega
            have a2 : ¬ (ns ≤ c ∧ c ≤ ne) := by omega
            simp [q, a1, a2]
          · have a1 : ¬ (s ≤ c ∧ c ≤ e) := by omega
            have a2 : ¬ (ns ≤ c ∧ c ≤ ne) := by omega
            simp only [q, a1, if_false, a2, decide_false]
            cases lookup rest c <;> rfl
        · simp only [hC, if_false]
          have hoee : oe = e := by omega
          by_cases hD : ne > oe
          · simp only [hD, if_true]
            have ⟨ihw, ihl⟩ := ih (some oe) (oe + 1) (oe + 1) (by rw [hoee]; exact h3) (Nat.le_refl _) (by omega)
              (by intro le hle; cases hle; omega)
            refine hfin _ ihw (fun c hc => ?_)
            rw [ihl c]
            have a1 : ¬ (s ≤ c ∧ c ≤ e) := by omega
            simp only [lookup, a1, if_false]
            have : (decide (oe + 1 ≤ c ∧ c ≤ ne)) = (decide (ns ≤ c ∧ c ≤ ne)) := by
              apply decide_eq_decide.mpr; constructor <;> intro h <;> omega
            rw [this]
          · simp only [hD, if_false]
            refine hfin _ (by rw [hoee]; exact h3) (fun c hc => ?_)
            have a1 : ¬ (s ≤ c ∧ c ≤ e) := by omega
            have a2 : ¬ (ns ≤ c ∧ c ≤ ne) := by omega
            simp only [lookup, a1, if_false, a2, decide_false, mergeOpt]
            cases lookup rest c <;> rfl

/-- Well-formed range map: non-inverted, strictly increasing, disjoint ranges. -/
def WF (l : RangeMap α) : Prop := WFFrom 0 l

theorem insert_spec (merge : α → α → α) (l : RangeMap α) (ns ne : Nat) (v : α) (hwf : WF l) (hne : ns ≤ ne) :
    WF (insert merge l ns ne v) ∧
    ∀ c, lookup (insert merge l ns ne v) c = mergeOpt merge (lookup l c) (decide (ns ≤ c ∧ c ≤ ne)) v :=
  insertAux_spec merge l none ns ne v 0 hwf (Nat.zero_le _) hne (by intro le h; cases h)

end Lexgen.RangeMap
